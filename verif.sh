#!/bin/bash
# /verif entry point: setup | check <Cxx> <quick|thorough> | replay <file> | det <Cxx> [n]
# Exit codes: 0 held (possibly with KNOWN-FINDING lines), 1 VIOLATION, 2 machinery trouble.
set -u
export GOFLAGS=-mod=mod GOPROXY=off GOSUMDB=off GOTOOLCHAIN=local GONOSUMDB='*' GONOSUMCHECK=1 GOFLAGS=-mod=mod
GO=go1.26.8
V=$(dirname "$(readlink -f "$0")")   # /verif, or a snapshot of it (vp run)
export VERIF_DIR="$V"
SIM=$V/sim
BUILD=${VERIF_BUILD_DIR:-$V/.build}
mkdir -p "$BUILD" "$V/evidence" "$V/replays"

world_of() {
  awk -v p="$1" '$1==p {print $2}' "$SIM/props.txt"
}

gen_mod() {
  # go.mod is generated from /repo/go.mod so that nothing needs resolving offline
  {
    echo "module github.com/ChainSafe/gossamer/verifsim"
    echo
    sed -e '/^module /d' -e '/^toolchain /d' -e 's/^go 1\..*/go 1.26.8/' /repo/go.mod
    echo
    echo "require github.com/ChainSafe/gossamer v0.0.0"
    echo "require github.com/anishathalye/porcupine v1.3.0"
    echo "replace github.com/ChainSafe/gossamer => /repo"
  } > "$SIM/go.mod.new.$$"
  if ! cmp -s "$SIM/go.mod.new.$$" "$SIM/go.mod"; then mv "$SIM/go.mod.new.$$" "$SIM/go.mod"; else rm "$SIM/go.mod.new.$$"; fi
  if [ ! -f "$SIM/go.sum" ] || ! cmp -s /repo/go.sum "$BUILD/go.sum.src"; then
    cp /repo/go.sum "$BUILD/go.sum.src"
    cp /repo/go.sum "$SIM/go.sum"   # -mod=mod adds the harness-only sums (porcupine) from the module cache
  fi
}

gen_overlay() {
  # shims are ADDED to /repo packages through -overlay (tag verif); /repo is untouched
  python3 - "$SIM" "$BUILD" "$1" <<'EOF'
import json, os, sys
sim, build, world = sys.argv[1], sys.argv[2], sys.argv[3]
rep = {}
root = os.path.join(sim, "shims")
for d, _, fs in os.walk(root):
    for f in fs:
        if f.endswith(".go"):
            rel = os.path.relpath(d, root)
            rep[os.path.join("/repo", rel, "zz_verif_" + f)] = os.path.join(d, f)
extra = os.path.join(build, "overlay_extra." + world + ".json")
if os.path.exists(extra):
    rep.update(json.load(open(extra)))
# VERIF_EXTRA_OVERLAY: {"<file under /repo>": "<replacement>"} - used by sensitivity tests to swap in a
# mutated copy of a /repo file without touching /repo
xo = os.environ.get("VERIF_EXTRA_OVERLAY")
if xo:
    rep.update(json.load(open(xo)))
tmp = os.path.join(build, "overlay." + world + ".json.tmp%d" % os.getpid())
json.dump({"Replace": rep}, open(tmp, "w"), indent=1)
os.replace(tmp, os.path.join(build, "overlay." + world + ".json"))
os.replace(os.path.join(build, "overlay." + world + ".json"), os.path.join(build, "overlay." + world + ".json"))
EOF
}

build_world() {
  local w="$1"
  gen_mod || return 2
  rm -f "$BUILD/overlay_extra.$w.json"
  if [ -x "$SIM/worlds/$w/prebuild.sh" ]; then
    "$SIM/worlds/$w/prebuild.sh" "$BUILD" "$BUILD/overlay_extra.$w.json" > "$BUILD/$w.prebuild.log" 2>&1 || { echo "TROUBLE BUILD-TROUBLE prebuild $w"; tail -30 "$BUILD/$w.prebuild.log"; return 2; }
  fi
  gen_overlay "$w" || return 2
  (cd "$SIM" && $GO test -c -tags verif -overlay "$BUILD/overlay.$w.json" -o "$BUILD/$w.test" "./worlds/$w/") > "$BUILD/$w.build.log" 2>&1
  if [ $? -ne 0 ]; then
    echo "TROUBLE BUILD-TROUBLE world=$w (see $BUILD/$w.build.log)"
    tail -40 "$BUILD/$w.build.log"
    return 2
  fi
  return 0
}

cmd="${1:-}"
case "$cmd" in
  setup)
    gen_mod
    rc=0
    # only worlds that serve a property claimed in MANIFEST.json must build; others are work in progress
    for w in $(awk '{print $2}' "$SIM/props.txt" | sort -u); do
      claimed=0
      for p in $(awk -v w="$w" '$2==w {print $1}' "$SIM/props.txt"); do
        grep -q "\"property_id\": \"$p\"" "$V/MANIFEST.json" && claimed=1
      done
      echo "building world $w (claimed=$claimed)"
      if ! build_world "$w"; then
        [ $claimed = 1 ] && rc=2
      fi
    done
    exit $rc
    ;;
  check)
    prop="$2"; tier="${3:-quick}"
    w=$(world_of "$prop")
    [ -n "$w" ] || { echo "TROUBLE unknown property $prop"; exit 2; }
    build_world "$w" || exit 2
    cd "$V"
    VERIF_MODE=orch VERIF_PROP="$prop" VERIF_TIER="$tier" VERIF_SEED="${VERIF_SEED:-1}" \
      "$BUILD/$w.test" -test.run '^TestVerif$' -test.timeout 0
    rc=$?
    if [ $rc -ne 0 ] && [ $rc -ne 1 ]; then echo "TROUBLE check exited with $rc"; exit 2; fi
    exit $rc
    ;;
  replay)
    f="$2"
    prop=$(python3 -c "import json,sys;print(json.load(open(sys.argv[1]))['property'])" "$f") || exit 2
    w=$(python3 -c "import json,sys;print(json.load(open(sys.argv[1]))['world'])" "$f") || exit 2
    build_world "$w" || exit 2
    cd "$V"
    VERIF_MODE=replay VERIF_REPLAY="$f" "$BUILD/$w.test" -test.run '^TestVerif$' -test.timeout 0
    rc=$?
    if [ $rc -ne 0 ] && [ $rc -ne 1 ]; then exit 2; fi
    exit $rc
    ;;
  det)
    # determinism self-test: N processes of the same seed at GOMAXPROCS 1/4/16, outputs must be identical
    prop="$2"; n="${3:-30}"; cnt="${4:-40}"
    w=$(world_of "$prop")
    build_world "$w" || exit 2
    d=$(mktemp -d)
    i=0
    for gmp in 1 4 16; do
      for j in $(seq 1 $((n/3))); do
        i=$((i+1))
        ( GOMAXPROCS=$gmp VERIF_MODE=det VERIF_PROP="$prop" VERIF_TIER="${VERIF_TIER:-quick}" VERIF_SEED="${VERIF_SEED:-1}" VERIF_W_COUNT=$cnt \
          "$BUILD/$w.test" -test.run '^TestVerif$' -test.timeout 0 2>/dev/null | grep '^DET' > "$d/out.$i" ) &
        if [ $((i % 16)) -eq 0 ]; then wait; fi
      done
    done
    wait
    uniq=$(md5sum "$d"/out.* | awk '{print $1}' | sort -u | wc -l)
    lines=$(wc -l < "$d/out.1")
    if [ "$uniq" = "1" ] && [ "$lines" -ge 1 ]; then echo "DETERMINISTIC $prop: $i processes x $lines runs identical"; rm -rf "$d"; exit 0; fi
    echo "NONDETERMINISTIC $prop: $uniq distinct outputs in $d"; exit 2
    ;;
  *)
    echo "usage: $0 setup | check <Cxx> <quick|thorough> | replay <file> | det <Cxx> [procs] [runs]"; exit 2;;
esac
