#!/bin/bash
# usage: try_seed.sh <worktree-or-seeded-dir> <prop> [tier] [wall_s]
# Runs the check for <prop> against the tree with the seeded change swapped in through an overlay
# (the changed files of the worktree replace the /repo files at build time; /repo itself is untouched).
set -u
d="$1"; prop="$2"; tier="${3:-quick}"; wall="${4:-40}"
o=$(mktemp /tmp/seed-overlay.XXXXXX.json)
if [ -d "$d/.git" ] || [ -f "$d/.git" ]; then
  python3 - "$d" > "$o" <<'PY'
import json,subprocess,sys
d=sys.argv[1]
files=subprocess.check_output(['git','-C',d,'diff','--name-only','HEAD']).decode().split()
print(json.dumps({"/repo/"+f: d+"/"+f for f in files if f.endswith('.go') and not f.endswith('_test.go')}))
PY
else
  # a seeded/<id> directory with patch.diff: materialise patched copies
  t=$(mktemp -d /tmp/seed-files.XXXXXX)
  python3 - "$d" "$t" > "$o" <<'PY'
import json,subprocess,sys,os,shutil,re
d,t=sys.argv[1],sys.argv[2]
patch=open(os.path.join(d,'patch.diff')).read()
files=re.findall(r'^\+\+\+ b/(\S+)',patch,re.M)
m={}
for f in files:
    os.makedirs(os.path.dirname(os.path.join(t,f)),exist_ok=True)
    shutil.copy(os.path.join('/repo',f),os.path.join(t,f))
subprocess.check_call(['git','apply','--unsafe-paths','--directory='+t,os.path.join(d,'patch.diff')],cwd='/')
for f in files:
    if f.endswith('.go') and not f.endswith('_test.go'): m['/repo/'+f]=os.path.join(t,f)
print(json.dumps(m))
PY
fi
echo "overlay: $(cat $o)"
export VERIF_BUILD_DIR=${SEED_BUILD:-/tmp/seed-build} VERIF_OUT_DIR=${SEED_OUT:-/tmp/seed-out}; mkdir -p $VERIF_BUILD_DIR $VERIF_OUT_DIR
cd /verif && VERIF_EXTRA_OVERLAY="$o" VERIF_WALL_S="$wall" ./verif.sh check "$prop" "$tier" 2>&1 | grep -v "^$\|^KNOWN" | cut -c1-400 | tail -8
echo "exit=${PIPESTATUS[0]}"
