#!/usr/bin/env python3
# usage: set_seed_result.py <id> <check> <CAUGHT|MISSED> <detail>   - appends to seeded/<id>/meta.json checks_run
import json, sys
i, check, res, detail = sys.argv[1:5]
p = '/verif/seeded/%s/meta.json' % i
m = json.load(open(p))
cr = m.get('checks_run') or []
cr.append({"check": check, "result": res, "detail": detail})
m['checks_run'] = cr
json.dump(m, open(p, 'w'), indent=1)
