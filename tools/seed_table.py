#!/usr/bin/env python3
# Regenerates section 3 of SENSITIVITY.md (independent bug-seeding agents) from seeded/*/meta.json.
import json, glob, os, re
rows = []
for d in sorted(glob.glob('/verif/seeded/m*'), key=lambda x: int(re.sub(r'\D', '', os.path.basename(x)))):
    m = json.load(open(os.path.join(d, 'meta.json')))
    cr = m.get('checks_run') or []
    if isinstance(cr, dict):
        cr = [cr]
    first = cr[0]['result'] if cr else '-'
    last = cr[-1]['result'] if cr else '-'
    how = cr[-1].get('detail', '') if cr else ''
    chk = cr[-1].get('check', '') if cr else ''
    summ = (m.get('summary') or '').replace('|', '/').replace('\n', ' ')
    if len(summ) > 170:
        summ = summ[:167] + '...'
    status = last if first == last else '%s at first, %s after strengthening' % (first, last)
    rows.append('| %s | %s | %s | %s | %s |' % (os.path.basename(d), m.get('property'), summ, status, (chk + ': ' + how).replace('|', '/')[:230]))
out = ['## 3. Independent bug-seeding agents', '',
       'Each agent got the text of one property and a scratch worktree, nothing from /verif. Every kept change was re-confirmed',
       '(builds; the demonstration fails with it and passes without it; the existing tests of the touched packages pass) before the',
       'check of its property was run against it through a build overlay. `seeded/<id>/` holds the patch, the demonstration and meta.json.', '',
       '| id | property | change | result | last check run and what fired |', '|---|---|---|---|---|'] + rows
s = open('/verif/SENSITIVITY.md').read()
i = s.find('## 3. ')
s = (s[:i] if i >= 0 else s.rstrip('\n') + '\n\n') + '\n'.join(out) + '\n'
open('/verif/SENSITIVITY.md', 'w').write(s)
print(len(rows), 'rows')
