#!/bin/bash
# usage: confirm_seed.sh <worktree> <id>   - re-confirms a seeded change and stores it under /verif/seeded/<id>
set -u
wt="$1"; id="$2"
export GOFLAGS=-mod=mod GOPROXY=off GOSUMDB=off
cd "$wt" || exit 2
demo=$(git status --porcelain | grep 'zz_.*_test.go' | awk '{print $2}' | head -1)
[ -z "$demo" ] && demo=$(find . -name 'zz_*demo*_test.go' -not -path './_mutation/*' | head -1)
pkg=./$(dirname "$demo")
tags=""
grep -q '^//go:build integration' "$demo" && tags="-tags integration"   # some demonstrations use a package's integration-tagged helpers
files=$(git diff --name-only HEAD | grep '\.go$')
pkgs=$(for f in $files; do echo ./$(dirname $f)/; done | sort -u | tr '\n' ' ')
echo "demo=$demo pkg=$pkg changed=$files"
go build ./... || { echo "BUILD FAILED"; exit 1; }
with=$(timeout 900 go test $tags -vet=off -count=1 -run 'Mutation|ZZ|zz|Demo' $pkg 2>&1 | tail -1)
git apply -R _mutation/patch.diff || { echo "cannot reverse patch"; exit 1; }
without=$(timeout 900 go test $tags -vet=off -count=1 -run 'Mutation|ZZ|zz|Demo' $pkg 2>&1 | tail -1)
git apply _mutation/patch.diff
mv "$demo" /tmp/demo_$id.go.off
existing=$(timeout 1500 go test -vet=off -count=1 $pkgs 2>&1 | grep -E '^(ok|FAIL|---)' | tr '\n' ';')
mv /tmp/demo_$id.go.off "$demo"
echo "WITH: $with"; echo "WITHOUT: $without"; echo "EXISTING: $existing"
mkdir -p /verif/seeded/$id
cp _mutation/patch.diff /verif/seeded/$id/
cp "$demo" /verif/seeded/$id/$(basename $demo).txt
[ -f _mutation/DEMO.md ] && cp _mutation/DEMO.md /verif/seeded/$id/
[ -f _mutation/meta.json ] && cp _mutation/meta.json /verif/seeded/$id/agent_meta.json
python3 - "$id" "$with" "$without" "$existing" "$demo" <<'PY'
import json,sys,os
id,w,wo,ex,demo=sys.argv[1:6]
p='/verif/seeded/%s/agent_meta.json'%id
a=json.load(open(p)) if os.path.exists(p) else {}
m={"id":id,"property":a.get("property"),"summary":a.get("summary"),"needs":a.get("needs"),"files_changed":a.get("files_changed"),
   "demonstration":os.path.basename(demo)+".txt (place it at "+demo+")",
   "confirmed":{"builds":True,"demo_with_change":w,"demo_without_change":wo,"existing_tests_of_touched_packages":ex}}
json.dump(m,open('/verif/seeded/%s/meta.json'%id,'w'),indent=1)
PY
