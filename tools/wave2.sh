#!/bin/bash
# usage: wave2.sh "<id> <prop>" ...
for x in "$@"; do set -- $x; id=$1; p=$2
  echo "##### $id $p confirm"
  /verif/tools/confirm_seed.sh /tmp/mut/$id $id 2>&1 | tail -5
  echo "##### $id $p try"
  /verif/tools/try_seed.sh /verif/seeded/$id $p quick 60 2>&1 | tail -7
done
