#!/usr/bin/env python3
"""Generates /verif/MANIFEST.json from tools/claims.json (per-property texts) and
properties.jsonl. Every property not claimed is listed under not_applicable with a reason."""
import json, os, subprocess
V = "/verif"
claims = json.load(open(os.path.join(V, "tools", "claims.json")))
props = [json.loads(l) for l in open(os.path.join(V, "properties.jsonl"))]
checks = []
na = []
for p in props:
    pid = p["id"]
    c = claims["claimed"].get(pid)
    if c:
        checks.append({
            "property_id": pid,
            "quick_cmd": f"./verif.sh check {pid} quick",
            "thorough_cmd": f"./verif.sh check {pid} thorough",
            "evidence_file": f"/verif/evidence/{pid}.json",
            "replay_cmd_template": "./verif.sh replay {path}",
            "engine": c["world"],
            "level_claimed": {"category": c.get("level", "exploration"), "text": c["text"], "design_ref": c.get("design_ref", f"DESIGN.md section 5, {pid}")},
            "level_note": c["note"],
            "technique": c.get("technique", "deterministic simulation with fault injection: seeded search over schedules and fault sequences against a reference model"),
        })
    else:
        na.append({"property_id": pid, "reason": claims["not_claimed"][pid]})
hooks_commits = claims.get("hook_commits", [])
m = {
    "version": 1,
    "setup_cmd": "./verif.sh setup",
    "hooks": {
        "guard": "verif (Go build tag)",
        "enable": "go1.26.8 test -c -tags verif -overlay /verif/.build/overlay.<world>.json : shim files under /verif/sim/shims are ADDED to /repo packages through the overlay (tag verif); no file in /repo is modified. Three worlds also build, at check time and outside /repo, copies of /repo sources through the same overlay (worlds/*/prebuild.sh): conc (lib/transaction priority_queue.go and lib/utils/lru-cache as separate packages instrumented for the cooperative scheduler), chain (lib/blocktree as a separate package whose sync.RWMutex/Mutex are the scheduler's) and grandpa (lib/grandpa/finalisation.go replaced in the test binary by a copy with one added call, verifHandoff(), after each `f.actionCh <- X`; the hook is nil unless the real-driver mode sets it)",
        "baseline_off_cmd": "cd /repo && for m in . ./devnet; do (cd $m && GOFLAGS=-mod=mod go test -json -vet=off -count=1 -timeout 25m ./...); done",
        "source_commits": hooks_commits,
        "add_only": True,
    },
    "engines": claims["engines"],
    "checks": checks,
    "not_applicable": na,
    "notes": claims.get("notes", ""),
}
json.dump(m, open(os.path.join(V, "MANIFEST.json"), "w"), indent=1)
print("claimed", len(checks), "not claimed", len(na))
