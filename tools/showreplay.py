#!/usr/bin/env python3
import json,sys
n=int(sys.argv[2]) if len(sys.argv)>2 else 14
r=json.load(open(sys.argv[1]))
print('=====',sys.argv[1].split('/')[-1], r['tape_len_before'],'->',r['tape_len_after'], r['oracle'], r['class'])
print(r['message'][:600])
print('\n'.join(r['trace'][-n:]))
