#!/bin/bash
# determinism self-test of every claimed property: N processes of the same seed at GOMAXPROCS 1/4/16
for p in "$@"; do
  echo "=== $p"; ./verif.sh det $p ${PROCS:-30} ${RUNS:-60} 2>&1 | tail -2
done
