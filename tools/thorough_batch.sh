#!/bin/bash
# thorough tier on the unchanged tree, several properties, in a snapshot
export VERIF_BUILD_DIR=$PWD/.build VERIF_OUT_DIR=$PWD/out
mkdir -p $VERIF_OUT_DIR
for p in "$@"; do
  for seed in ${SEEDS:-1 2}; do
    echo "=== $p seed $seed"; VERIF_SEED=$seed VERIF_WALL_S=${WALL:-240} ./verif.sh check $p thorough 2>&1 | grep -v "^$" | cut -c1-300 | tail -6
  done
done
