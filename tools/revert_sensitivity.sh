#!/bin/bash
# For every "fixed" entry of known_findings.json: swap the pre-fix version of that commit's
# change back in (reverse-applied onto a copy of the current files, through an overlay - /repo
# is untouched) and run the property's quick check: it must report a VIOLATION.
# Results are appended to /verif/SENSITIVITY.md. Uses its own build/output dirs.
cd /verif
export VERIF_BUILD_DIR=/tmp/sens-build VERIF_OUT_DIR=/tmp/sens-out
mkdir -p $VERIF_BUILD_DIR $VERIF_OUT_DIR
only="${1:-}"
python3 - <<'PY' > /tmp/sens-list.txt
import json
seen=set()
for e in json.load(open('/verif/known_findings.json'))['findings']:
    if e['status']=='fixed' and (e['commit'],e['property']) not in seen:
        seen.add((e['commit'],e['property'])); print(e['commit'],e['property'])
PY
while read commit prop; do
  [ -n "$only" ] && [ "$only" != "$prop" ] && continue
  t=$(mktemp -d /tmp/sens-files.XXXXXX)
  files=$(git -C /repo show --name-only --format= $commit | grep '\.go$' | grep -v _test.go)
  ok=1
  for f in $files; do mkdir -p $t/$(dirname $f); cp /repo/$f $t/$f; done
  git -C /repo show $commit -- $files > $t/p.diff
  (cd $t && git apply -R --unsafe-paths p.diff 2>$t/err) || ok=0
  if [ $ok = 0 ]; then echo "| $commit | $prop | reverse patch does not apply on HEAD (later fix in the same lines) | - |" >> /verif/SENSITIVITY.md; rm -rf $t; continue; fi
  python3 -c "
import json,sys
print(json.dumps({'/repo/'+f: '$t/'+f for f in '''$files'''.split()}))" > $t/o.json
  start=$(date +%s)
  out=$(VERIF_EXTRA_OVERLAY=$t/o.json VERIF_WALL_S=${SENS_WALL:-40} ./verif.sh check $prop quick 2>&1)
  rc=$?
  el=$(( $(date +%s) - start ))
  cls=$(echo "$out" | grep -A1 '^VIOLATION' | grep 'oracle=' | sed 's/^ *//' | sort -u | head -3 | tr '\n' ';')
  subj=$(git -C /repo show -s --format=%s $commit | cut -c1-90)
  if [ $rc = 1 ]; then res="CAUGHT"; elif [ $rc = 0 ]; then res="MISSED"; else res="TROUBLE"; fi
  echo "| $commit $subj | $prop | $res in ${el}s | $cls |" >> /verif/SENSITIVITY.md
  echo "$commit $prop $res $cls"
  rm -rf $t
done < /tmp/sens-list.txt
