#!/bin/bash
# Runs the repository's pinned baseline (guard OFF) and compares with BASELINE.json stable_pass.
export GOFLAGS=-mod=mod GOPROXY=off GOSUMDB=off
out=${1:-/tmp/baseline.json}
: > $out
for m in . ./devnet; do (cd /repo/$m && go test -json -vet=off -count=1 -timeout 25m ./... >> $out 2>/dev/null); done
python3 - $out <<'PY'
import json,sys
passed=set()
for l in open(sys.argv[1]):
    try: e=json.loads(l)
    except: continue
    if e.get('Action')=='pass' and e.get('Test'):
        passed.add(e['Package']+'::'+e['Test'])
b=json.load(open('/root/.vp/BASELINE.json'))
missing=[t for t in b['stable_pass'] if t not in passed]
print('stable_pass',len(b['stable_pass']),'passed now',len(passed),'missing',len(missing))
for t in missing[:60]: print('  MISSING',t)
PY
