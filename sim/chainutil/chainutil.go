// Package chainutil holds helpers shared by the chain-shaped worlds: building
// real headers/blocks and the reference block tree (RefTree) oracle.
package chainutil

import (
	"bytes"
	"sort"
	"time"

	"github.com/ChainSafe/gossamer/dot/types"
	"github.com/ChainSafe/gossamer/lib/common"
	"github.com/ChainSafe/gossamer/lib/crypto/sr25519"
)

// BabeDigest builds a real BABE pre-runtime digest (primary or secondary plain).
func BabeDigest(primary bool, authIdx uint32, slot uint64) types.Digest {
	var pd *types.PreRuntimeDigest
	var err error
	if primary {
		pd, err = types.NewBabePrimaryPreDigest(authIdx, slot, [sr25519.VRFOutputLength]byte{}, [sr25519.VRFProofLength]byte{}).ToPreRuntimeDigest()
	} else if slot%2 == 1 {
		// BABE has two kinds of secondary claims; both are "not primary" for the fork choice
		pd, err = types.NewBabeSecondaryVRFPreDigest(authIdx, slot, [sr25519.VRFOutputLength]byte{}, [sr25519.VRFProofLength]byte{}).ToPreRuntimeDigest()
	} else {
		pd, err = types.NewBabeSecondaryPlainPreDigest(authIdx, slot).ToPreRuntimeDigest()
	}
	if err != nil {
		panic(err)
	}
	d := types.NewDigest()
	if err := d.Add(*pd); err != nil {
		panic(err)
	}
	return d
}

// RefBlock is one record of the reference tree.
type RefBlock struct {
	Hash    common.Hash
	Parent  common.Hash
	Number  uint
	Primary bool
	Arrival time.Time
	Header  *types.Header
}

// RefTree is the reference block tree built from parent links only.
type RefTree struct {
	Blocks map[common.Hash]*RefBlock
	Root   common.Hash // last finalised
}

func NewRefTree(root *RefBlock) *RefTree {
	return &RefTree{Blocks: map[common.Hash]*RefBlock{root.Hash: root}, Root: root.Hash}
}

func (t *RefTree) Has(h common.Hash) bool { _, ok := t.Blocks[h]; return ok }

func (t *RefTree) Add(b *RefBlock) { t.Blocks[b.Hash] = b }

// IsDescendantOf: child is anc itself or reaches anc through parent links (within the tree).
func (t *RefTree) IsDescendantOf(anc, child common.Hash) bool {
	for {
		if child == anc {
			return true
		}
		b, ok := t.Blocks[child]
		if !ok || child == t.Root {
			return false
		}
		child = b.Parent
	}
}

func (t *RefTree) Children(h common.Hash) []common.Hash {
	var out []common.Hash
	for _, b := range t.Blocks {
		if b.Parent == h && b.Hash != t.Root && b.Hash != h {
			out = append(out, b.Hash)
		}
	}
	SortHashes(out)
	return out
}

func (t *RefTree) Leaves() []common.Hash {
	hasChild := map[common.Hash]bool{}
	for _, b := range t.Blocks {
		if b.Hash != t.Root {
			hasChild[b.Parent] = true
		}
	}
	var out []common.Hash
	for h := range t.Blocks {
		if !hasChild[h] {
			out = append(out, h)
		}
	}
	SortHashes(out)
	return out
}

func (t *RefTree) All() []common.Hash {
	var out []common.Hash
	for h := range t.Blocks {
		out = append(out, h)
	}
	SortHashes(out)
	return out
}

func (t *RefTree) Descendants(h common.Hash) []common.Hash {
	var out []common.Hash
	for x := range t.Blocks {
		if t.IsDescendantOf(h, x) {
			out = append(out, x)
		}
	}
	SortHashes(out)
	return out
}

// PathFromRoot returns root..h inclusive.
func (t *RefTree) PathFrom(anc, h common.Hash) []common.Hash {
	var rev []common.Hash
	for {
		rev = append(rev, h)
		if h == anc {
			break
		}
		if h == t.Root {
			return nil
		}
		h = t.Blocks[h].Parent
	}
	for i, j := 0, len(rev)-1; i < j; i, j = i+1, j-1 {
		rev[i], rev[j] = rev[j], rev[i]
	}
	return rev
}

func (t *RefTree) LCA(a, b common.Hash) common.Hash {
	anc := map[common.Hash]bool{}
	for x := a; ; x = t.Blocks[x].Parent {
		anc[x] = true
		if x == t.Root {
			break
		}
	}
	for x := b; ; x = t.Blocks[x].Parent {
		if anc[x] {
			return x
		}
		if x == t.Root {
			break
		}
	}
	return t.Root
}

// Finalise moves the root to h and returns the set of blocks that are neither
// ancestors nor descendants of h (they are removed), sorted.
func (t *RefTree) Finalise(h common.Hash) (pruned []common.Hash) {
	keep := map[common.Hash]bool{}
	for x := range t.Blocks {
		if t.IsDescendantOf(h, x) {
			keep[x] = true
		}
	}
	ancestors := map[common.Hash]bool{}
	for _, x := range t.PathFrom(t.Root, h) {
		ancestors[x] = true
	}
	for x := range t.Blocks {
		if !keep[x] && !ancestors[x] {
			pruned = append(pruned, x)
		}
	}
	for x := range t.Blocks {
		if !keep[x] {
			delete(t.Blocks, x)
		}
	}
	t.Root = h
	SortHashes(pruned)
	return pruned
}

// PrimaryCount counts primary blocks on the chain after the root up to h.
func (t *RefTree) PrimaryCount(h common.Hash) int {
	n := 0
	for h != t.Root {
		b := t.Blocks[h]
		if b.Primary {
			n++
		}
		h = b.Parent
	}
	return n
}

// Best is the fork-choice of the statement: most primaries after the root,
// then greater height, then earlier arrival, then lower hash.
func (t *RefTree) Best() common.Hash {
	var best *RefBlock
	bestP := -1
	for _, h := range t.Leaves() {
		b := t.Blocks[h]
		p := t.PrimaryCount(h)
		better := false
		switch {
		case best == nil:
			better = true
		case p != bestP:
			better = p > bestP
		case b.Number != best.Number:
			better = b.Number > best.Number
		case !b.Arrival.Equal(best.Arrival):
			better = b.Arrival.Before(best.Arrival)
		default:
			better = bytes.Compare(b.Hash[:], best.Hash[:]) < 0
		}
		if better {
			best, bestP = b, p
		}
	}
	return best.Hash
}

func SortHashes(hs []common.Hash) {
	sort.Slice(hs, func(i, j int) bool { return bytes.Compare(hs[i][:], hs[j][:]) < 0 })
}

func SameSet(a, b []common.Hash) bool {
	if len(a) != len(b) {
		return false
	}
	x := append([]common.Hash{}, a...)
	y := append([]common.Hash{}, b...)
	SortHashes(x)
	SortHashes(y)
	for i := range x {
		if x[i] != y[i] {
			return false
		}
	}
	return true
}

func Short(h common.Hash) string {
	const hexd = "0123456789abcdef"
	return string([]byte{hexd[h[0]>>4], hexd[h[0]&15], hexd[h[1]>>4], hexd[h[1]&15], hexd[h[2]>>4], hexd[h[2]&15]})
}
