package kernel

import (
	"testing"
	"time"
)

// Minimise shrinks a failing tape by delta debugging while the same property
// and oracle id keep firing. Each candidate is re-executed from scratch.
func Minimise(t *testing.T, w World, prop, tier string, failing *Result, maxExec int, maxWall time.Duration) (*Result, int) {
	best := failing
	execs := 0
	deadline := time.Now().Add(maxWall)
	try := func(c []Choice) bool {
		if execs >= maxExec || time.Now().After(deadline) {
			return false
		}
		execs++
		r := RunOne(t, w, prop, tier, NewReplayTape(c), failing.Ix)
		if r.Trouble == "" && r.Viol != nil && r.Viol.Prop == failing.Viol.Prop && r.Viol.Oracle == failing.Viol.Oracle {
			// keep the tape actually consumed (canonical form), without trailing zeros
			n := len(r.Tape)
			for n > 0 && r.Tape[n-1].V == 0 {
				n--
			}
			r.Tape = r.Tape[:n]
			best = r
			return true
		}
		return false
	}
	cp := func(c []Choice) []Choice { d := make([]Choice, len(c)); copy(d, c); return d }

	// 1. shortest prefix (everything after it answers 0)
	base := cp(best.Tape)
	lo, hi := 0, len(base)
	for lo < hi && execs < maxExec {
		mid := (lo + hi) / 2
		if try(cp(base[:mid])) {
			hi = mid
		} else {
			lo = mid + 1
		}
	}
	// 2. delete chunks
	for size := len(best.Tape) / 2; size >= 1; size /= 2 {
		for i := 0; i+size <= len(best.Tape); {
			c := append(cp(best.Tape[:i]), best.Tape[i+size:]...)
			if !try(c) {
				i += size
			}
			if execs >= maxExec || time.Now().After(deadline) {
				break
			}
		}
	}
	// 3. zero chunks, then single entries
	for size := len(best.Tape) / 2; size >= 1; size /= 2 {
		for i := 0; i+size <= len(best.Tape); i += size {
			nz := false
			for j := i; j < i+size; j++ {
				if best.Tape[j].V != 0 {
					nz = true
				}
			}
			if !nz {
				continue
			}
			c := cp(best.Tape)
			for j := i; j < i+size; j++ {
				c[j].V = 0
			}
			try(c)
			if execs >= maxExec || time.Now().After(deadline) {
				break
			}
		}
	}
	// 4. lower values
	for i := 0; i < len(best.Tape); i++ {
		if best.Tape[i].V > 1 {
			c := cp(best.Tape)
			c[i].V = best.Tape[i].V / 2
			if !try(c) {
				c = cp(best.Tape)
				c[i].V = best.Tape[i].V - 1
				try(c)
			}
		}
		if execs >= maxExec || time.Now().After(deadline) {
			break
		}
	}
	return best, execs
}
