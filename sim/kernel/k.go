package kernel

import (
	"fmt"
	"hash/fnv"
	"sort"
	"strings"
	"testing"
	"testing/synctest"
	"time"
)

// Violation is one oracle failure. Class identifies the specific failing input
// class / call site (it is what known_findings.json matches on); Msg is the
// human readable detail and may contain run-specific values.
type Violation struct {
	Prop   string `json:"property"`
	Oracle string `json:"oracle"`
	Class  string `json:"class"`
	Msg    string `json:"message"`
}

func (v Violation) Key() string { return v.Prop + "/" + v.Oracle + "/" + v.Class }

type stopRun struct{}

// K is the per-run context handed to a world.
type K struct {
	Prop  string
	Tier  string
	Tape  *Tape
	RunIx uint64

	Log     []string
	logCap  int
	Faults  map[string]int
	Probes  map[string]int
	Steps   int
	SimTime time.Duration
	fp      uint64
	Viol    *Violation
	Other   []Violation // violations of properties other than Prop (ignored for the verdict, counted)
	Nontriv bool
	Info    map[string]any
	// KnownHits counts violations that matched a known finding marked
	// "continue": true in known_findings.json (the run goes on past them).
	KnownHits map[string]int
	// NoMinimise: the violation left runaway work behind (a hang); the worker
	// reports it without re-executing the run and stops.
	NoMinimise bool

	t *testing.T // for InBubble
}

func newK(prop, tier string, tape *Tape, ix uint64) *K {
	h := fnv.New64a()
	return &K{Prop: prop, Tier: tier, Tape: tape, RunIx: ix, logCap: 400,
		Faults: map[string]int{}, Probes: map[string]int{}, fp: h.Sum64(), Info: map[string]any{}, KnownHits: map[string]int{}}
}

func (k *K) Choose(n int, label string) int { return k.Tape.Choose(n, label) }

// Bool returns true with probability num/den. false (0) is the benign answer.
func (k *K) Bool(num, den int, label string) bool {
	if num <= 0 {
		return false
	}
	return k.Tape.Choose(den, label) >= den-num
}

// Range returns a value in [lo,hi].
func (k *K) Range(lo, hi int, label string) int {
	if hi <= lo {
		return lo
	}
	return lo + k.Tape.Choose(hi-lo+1, label)
}

func (k *K) Bytes(n int, label string) []byte {
	b := make([]byte, n)
	for i := range b {
		b[i] = byte(k.Tape.Choose(256, label))
	}
	return b
}

// Event records one simulated step in the event log and the run fingerprint.
// kind is the coarse event kind (enters the distinctness fingerprint), detail is
// free text for the trace. Logging never draws from the tape.
func (k *K) Event(kind string, detail string, a ...any) {
	k.Steps++
	h := fnv.New64a()
	var b [8]byte
	for i := 0; i < 8; i++ {
		b[i] = byte(k.fp >> (8 * i))
	}
	h.Write(b[:])
	h.Write([]byte(kind))
	k.fp = h.Sum64()
	if len(k.Log) < k.logCap {
		if len(a) > 0 {
			detail = fmt.Sprintf(detail, a...)
		}
		k.Log = append(k.Log, fmt.Sprintf("#%d %s %s", k.Steps, kind, detail))
	}
}

// Mix folds an observation (e.g. a state fingerprint) into the run fingerprint.
func (k *K) Mix(s string) {
	h := fnv.New64a()
	var b [8]byte
	for i := 0; i < 8; i++ {
		b[i] = byte(k.fp >> (8 * i))
	}
	h.Write(b[:])
	h.Write([]byte(s))
	k.fp = h.Sum64()
}

func (k *K) Fault(kind string)   { k.Faults[kind]++; k.Nontriv = true }
func (k *K) Probe(name string)   { k.Probes[name]++ }
func (k *K) Fingerprint() uint64 { return k.fp }

// Violate reports an oracle failure. If it belongs to the property being
// checked the run stops immediately (first violation wins); violations of other
// properties evaluated in the same shared run are only counted and Violate
// returns false. If the violation matches a known finding that is marked
// "continue" (the defect leaves model and system in agreement, so exploring
// further is sound) it is counted in KnownHits and Violate returns true.
func (k *K) Violate(prop, oracle, class, format string, a ...any) (cont bool) {
	v := Violation{Prop: prop, Oracle: oracle, Class: class, Msg: fmt.Sprintf(format, a...)}
	if kf := matchKnown(knownList(), ReplayFile{Property: prop, Oracle: oracle, Class: class}); kf != nil && kf.Continue {
		k.KnownHits[v.Key()]++
		return true
	}
	if prop != k.Prop {
		if len(k.Other) < 8 {
			k.Other = append(k.Other, v)
		}
		return false
	}
	if k.Viol == nil {
		k.Viol = &v
	}
	panic(stopRun{})
}

// Stop ends the run early without a verdict change (e.g. another property's
// fatal violation made continuing meaningless).
func (k *K) Stop() { panic(stopRun{}) }

func sortedKeys(m map[string]int) []string {
	ks := make([]string, 0, len(m))
	for s := range m {
		ks = append(ks, s)
	}
	sort.Strings(ks)
	return ks
}

// InBubble runs f inside its own synctest bubble (virtual clock, quiescence) for a world whose runs
// are otherwise not bubbled. A Violate/Stop inside f unwinds the run as usual; goroutines f leaves
// behind blocked when it returns are abandoned with the bubble.
func (k *K) InBubble(f func()) {
	var pv any
	start := time.Now()
	func() {
		defer func() {
			if r := recover(); r != nil {
				if strings.Contains(fmt.Sprint(r), deadlockText) {
					return
				}
				panic(r)
			}
		}()
		synctest.Test(k.t, func(t *testing.T) {
			defer func() {
				pv = recover()
				k.SimTime += time.Since(start)
			}()
			start = time.Now()
			f()
		})
	}()
	if pv != nil {
		panic(pv)
	}
}
