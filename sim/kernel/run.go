package kernel

import (
	"fmt"
	"runtime/debug"
	"strings"
	"testing"
	"testing/synctest"
	"time"
)

// World is one simulated system. A world may serve several properties.
type World interface {
	Name() string
	Props() []string
	// Bubble reports whether runs for prop execute inside a synctest bubble
	// (virtual clock). Worlds without timers run outside (cheaper).
	Bubble(prop string) bool
	// Run executes one simulated run; every decision comes from k.Choose.
	Run(k *K)
	// Level is the MANIFEST level category claimed for prop.
	Level(prop string) string
	// Rule describes how cases are generated and what makes one non-trivial.
	Rule(prop string) string
	// Components lists what ran real gossamer code and what was a stub.
	Components(prop string) (real []string, stub []string)
	// Budget returns the run and wall-clock budget for a tier.
	Budget(prop, tier string) (maxRuns int, wall time.Duration)
}

// Result is the outcome of one run.
type Result struct {
	Ix      uint64
	Viol    *Violation
	Others  []Violation
	FP      uint64
	Steps   int
	Sim     time.Duration
	Faults  map[string]int
	Probes  map[string]int
	Nontriv bool
	Log     []string
	Tape    []Choice
	Trouble string
	Info    map[string]any
	KnownHits map[string]int
	NoMin     bool
}

const deadlockText = "deadlock: main bubble goroutine has exited"

// classifyPanic decides whether a panic came out of gossamer code (a violation
// of the world's property, oracle id "panic") or out of the harness (trouble).
// ClassifyPanic is classifyPanic for worlds that recover panics of goroutines they started themselves.
func ClassifyPanic(stack string) (inGossamer bool, site string) { return classifyPanic(stack) }

func classifyPanic(stack string) (inGossamer bool, site string) {
	lines := strings.Split(stack, "\n")
	// skip everything up to and including the frame of runtime.gopanic / panic
	start := 0
	for i, l := range lines {
		if strings.HasPrefix(l, "panic(") || strings.HasPrefix(l, "runtime.gopanic") {
			start = i + 2
		}
	}
	for i := start; i+1 < len(lines); i += 2 {
		fn := lines[i]
		file := strings.TrimSpace(lines[i+1])
		if strings.HasPrefix(fn, "runtime.") || strings.HasPrefix(fn, "runtime/") {
			continue
		}
		if strings.Contains(fn, "github.com/ChainSafe/gossamer/") &&
			!strings.Contains(fn, "/verifsim") && !strings.Contains(file, "zz_verif_") &&
			!strings.Contains(file, "/verif/sim/") {
			if j := strings.LastIndex(file, " +0x"); j > 0 {
				file = file[:j]
			}
			file = strings.TrimPrefix(file, "/repo/")
			return true, file
		}
		if strings.Contains(fn, "verifsim") || strings.Contains(file, "/verif/sim/") || strings.Contains(file, "zz_verif_") {
			return false, file
		}
		// frames of std or third-party libraries: keep walking up to see who called
	}
	return false, "?"
}

// RunOne executes one run of world w for property prop on the given tape.
func RunOne(t *testing.T, w World, prop, tier string, tape *Tape, ix uint64) *Result {
	k := newK(prop, tier, tape, ix)
	k.t = t
	res := &Result{Ix: ix}
	body := func() {
		start := time.Now()
		defer func() {
			if w.Bubble(prop) {
				k.SimTime = time.Since(start)
			}
			if r := recover(); r != nil {
				if _, ok := r.(stopRun); ok {
					return
				}
				st := string(debug.Stack())
				inG, site := classifyPanic(st)
				if inG {
					if k.Viol == nil {
						k.Viol = &Violation{Prop: prop, Oracle: "panic", Class: "panic@" + site,
							Msg: fmt.Sprintf("panic in gossamer code: %v at %s", r, site)}
					}
					if len(k.Log) < k.logCap+1 {
						k.Log = append(k.Log, "PANIC "+fmt.Sprint(r))
					}
					return
				}
				res.Trouble = fmt.Sprintf("harness panic: %v\n%s", r, st)
			}
		}()
		w.Run(k)
	}
	if w.Bubble(prop) {
		func() {
			defer func() {
				if r := recover(); r != nil {
					if strings.Contains(fmt.Sprint(r), deadlockText) {
						return
					}
					res.Trouble = fmt.Sprintf("bubble panic: %v\n%s", r, debug.Stack())
				}
			}()
			synctest.Test(t, func(t *testing.T) { body() })
		}()
	} else {
		body()
	}
	res.Viol = k.Viol
	res.Others = k.Other
	res.FP = k.fp
	res.Steps = k.Steps
	res.Sim = k.SimTime
	res.Faults = k.Faults
	res.Probes = k.Probes
	res.Nontriv = k.Nontriv
	res.Log = k.Log
	res.Tape = tape.Rec
	res.Info = k.Info
	res.KnownHits = k.KnownHits
	res.NoMin = k.NoMinimise
	return res
}
