// Package kernel is the deterministic-simulation kernel shared by all worlds:
// the choice tape (one integer decides everything), the per-run context with
// event log / fault counters / probes, the run wrapper (synctest bubble, panic
// classification), the tape minimiser, the worker/orchestrator processes, the
// evidence writer and the replay entry point.
package kernel

import (
	"math/rand/v2"
)

// Choice is one recorded decision: label, number of alternatives, value taken.
type Choice struct {
	L string `json:"l"`
	N int    `json:"n"`
	V int    `json:"v"`
}

// Tape is the only source of nondeterminism a run may consult. In generate
// mode values come from a PCG seeded by (seed, run index); in replay mode they
// are read back (exhausted tape => 0, the benign answer; n mismatch => mod n).
type Tape struct {
	rng    *rand.Rand
	replay []Choice
	pos    int
	Rec    []Choice
	isRep  bool
}

func splitmix(x uint64) uint64 {
	x += 0x9e3779b97f4a7c15
	z := x
	z = (z ^ (z >> 30)) * 0xbf58476d1ce4e5b9
	z = (z ^ (z >> 27)) * 0x94d049bb133111eb
	return z ^ (z >> 31)
}

// RunSeed derives the per-run PRNG seed from the batch seed and run index.
func RunSeed(seed uint64, run uint64) uint64 { return splitmix(splitmix(seed) ^ splitmix(run*0x100000001b3+7)) }

func NewGenTape(seed uint64, run uint64) *Tape {
	s := RunSeed(seed, run)
	return &Tape{rng: rand.New(rand.NewPCG(s, splitmix(s)))}
}

func NewReplayTape(c []Choice) *Tape {
	cp := make([]Choice, len(c))
	copy(cp, c)
	return &Tape{replay: cp, isRep: true}
}

// Choose returns a value in [0,n). 0 is always the benign alternative.
func (t *Tape) Choose(n int, label string) int {
	if n <= 1 {
		return 0
	}
	var v int
	if t.isRep {
		if t.pos < len(t.replay) {
			v = t.replay[t.pos].V
			if v < 0 {
				v = 0
			}
			if v >= n {
				v %= n
			}
		}
		t.pos++
	} else {
		v = t.rng.IntN(n)
	}
	t.Rec = append(t.Rec, Choice{L: label, N: n, V: v})
	return v
}
