package kernel

import (
	"crypto/sha256"
	"encoding/hex"
	"encoding/json"
	"fmt"
	glog "github.com/ChainSafe/gossamer/internal/log"
	"io"
	"os"
	"os/exec"
	"path/filepath"
	"regexp"
	"sort"
	"strconv"
	"strings"
	"sync"
	"testing"
	"time"
)

// verifDir is /verif, or the snapshot verif.sh runs from (VERIF_DIR).
var verifDir = func() string {
	if d := os.Getenv("VERIF_DIR"); d != "" {
		return d
	}
	return "/verif"
}()

// outDir is where evidence/ and replays/ are written: /verif, unless VERIF_OUT_DIR
// redirects them (used by sensitivity runs against mutated trees so that they never
// overwrite the evidence of the real tree).
func outDir() string {
	if d := os.Getenv("VERIF_OUT_DIR"); d != "" {
		return d
	}
	return verifDir
}

func envInt(name string, def int64) int64 {
	if s := os.Getenv(name); s != "" {
		if v, err := strconv.ParseInt(s, 10, 64); err == nil {
			return v
		}
	}
	return def
}

// ---- worker ---------------------------------------------------------------

// WorkerReport is what a worker process hands back to the orchestrator.
type WorkerReport struct {
	Runs       int                `json:"runs"`
	Steps      int64              `json:"steps"`
	SimNanos   int64              `json:"sim_ns"`
	Faults     map[string]int     `json:"faults"`
	Probes     map[string]int     `json:"probes"`
	FPs        []string           `json:"fps"` // fingerprints of non-trivial runs
	AllFPs     int                `json:"all_fps"`
	Others     map[string]int     `json:"others"`
	KnownHits  map[string]int     `json:"known_hits"`
	Violations []ReplayFile       `json:"violations"`
	Samples    []Sample           `json:"samples"`
	Trouble    string             `json:"trouble,omitempty"`
	Info       map[string]float64 `json:"info,omitempty"`
}

type Sample struct {
	Run   uint64   `json:"run"`
	Steps int      `json:"steps"`
	Trace []string `json:"trace"`
}

// ReplayFile is the on-disk replay format (also used inside worker reports).
type ReplayFile struct {
	Property      string   `json:"property"`
	World         string   `json:"world"`
	Oracle        string   `json:"oracle"`
	Class         string   `json:"class"`
	Seed          uint64   `json:"seed"`
	Run           uint64   `json:"run"`
	Tier          string   `json:"tier"`
	Tape          []Choice `json:"tape"`
	TapeLenBefore int      `json:"tape_len_before"`
	TapeLenAfter  int      `json:"tape_len_after"`
	MinimiseExecs int      `json:"minimise_execs"`
	Message       string   `json:"message"`
	MessageDigest string   `json:"message_digest"`
	Trace         []string `json:"trace"`
	TreeRev       string   `json:"tree_rev"`
	// Crash: the run does not end in an oracle failure but takes the whole process down (a panic in a
	// goroutine that real code started itself cannot be recovered by the run wrapper). The tape of such
	// a run cannot be recorded; it is regenerated from (seed, run) and replayed in a child process.
	Crash bool `json:"crash,omitempty"`
}

func digest(s string) string { h := sha256.Sum256([]byte(s)); return hex.EncodeToString(h[:8]) }

func treeRev() string {
	out, err := exec.Command("git", "-C", "/repo", "rev-parse", "HEAD").Output()
	if err != nil {
		return "unknown"
	}
	rev := strings.TrimSpace(string(out))
	st, _ := exec.Command("git", "-C", "/repo", "status", "--porcelain", "--untracked-files=no").Output()
	if len(strings.TrimSpace(string(st))) > 0 {
		rev += "+dirty"
	}
	return rev
}

func runWorker(t *testing.T, w World) {
	prop := os.Getenv("VERIF_PROP")
	tier := os.Getenv("VERIF_TIER")
	seed := uint64(envInt("VERIF_SEED", 1))
	start := uint64(envInt("VERIF_W_START", 0))
	count := int(envInt("VERIF_W_COUNT", 1))
	deadline := time.Unix(envInt("VERIF_W_DEADLINE", time.Now().Add(time.Minute).Unix()), 0)
	out := os.Getenv("VERIF_W_OUT")
	wantSamples := envInt("VERIF_W_SAMPLES", 0)
	rep := WorkerReport{Faults: map[string]int{}, Probes: map[string]int{}, Others: map[string]int{}, Info: map[string]float64{}, KnownHits: map[string]int{}}
	seenNT := map[uint64]bool{}
	seenAll := map[uint64]bool{}
	defer func() {
		b, _ := json.Marshal(rep)
		os.WriteFile(out, b, 0o644)
	}()
	for i := 0; i < count; i++ {
		if time.Now().After(deadline) {
			break
		}
		ix := start + uint64(i)
		if cur := os.Getenv("VERIF_W_CUR"); cur != "" {
			os.WriteFile(cur, []byte(strconv.FormatUint(ix, 10)), 0o644) // crash attribution: which run was in flight
		}
		r := RunOne(t, w, prop, tier, NewGenTape(seed, ix), ix)
		if r.Trouble != "" {
			rep.Trouble = fmt.Sprintf("run %d: %s", ix, r.Trouble)
			return
		}
		rep.Runs++
		rep.Steps += int64(r.Steps)
		rep.SimNanos += int64(r.Sim)
		for k, v := range r.Faults {
			rep.Faults[k] += v
		}
		for k, v := range r.Probes {
			rep.Probes[k] += v
		}
		for _, o := range r.Others {
			rep.Others[o.Key()]++
		}
		for kk, v := range r.KnownHits {
			rep.KnownHits[kk] += v
		}
		for k, v := range r.Info {
			if f, ok := v.(float64); ok {
				rep.Info[k] += f
			}
		}
		seenAll[r.FP] = true
		if r.Nontriv && !seenNT[r.FP] {
			seenNT[r.FP] = true
		}
		if int64(len(rep.Samples)) < wantSamples && r.Nontriv && r.Viol == nil {
			tr := r.Log
			if len(tr) > 40 {
				tr = append(append([]string{}, tr[:30]...), fmt.Sprintf("... (%d more events)", len(r.Log)-30))
			}
			rep.Samples = append(rep.Samples, Sample{Run: ix, Steps: r.Steps, Trace: tr})
		}
		if r.Viol != nil && matchKnown(knownList(), ReplayFile{Property: r.Viol.Prop, Oracle: r.Viol.Oracle, Class: r.Viol.Class}) != nil {
			// a run that ended in a listed known finding: counted, not minimised, never a VIOLATION
			rep.KnownHits[r.Viol.Key()]++
			continue
		}
		if r.Viol != nil {
			before := len(r.Tape)
			m, execs := r, 0
			if !r.NoMin {
				m, execs = Minimise(t, w, prop, tier, r, 300, 60*time.Second)
			}
			tr := m.Log
			if len(tr) > 200 {
				tr = tr[len(tr)-200:]
			}
			rep.Violations = append(rep.Violations, ReplayFile{
				Property: m.Viol.Prop, World: w.Name(), Oracle: m.Viol.Oracle, Class: m.Viol.Class,
				Seed: seed, Run: ix, Tier: tier, Tape: m.Tape, TapeLenBefore: before, TapeLenAfter: len(m.Tape),
				MinimiseExecs: execs, Message: m.Viol.Msg, MessageDigest: digest(m.Viol.Oracle + "|" + m.Viol.Class),
				Trace: tr,
			})
			if len(rep.Violations) >= 3 || r.NoMin {
				break
			}
		}
	}
	rep.AllFPs = len(seenAll)
	for fp := range seenNT {
		rep.FPs = append(rep.FPs, strconv.FormatUint(fp, 16))
	}
	sort.Strings(rep.FPs)
}

// ---- crashes of a worker process -------------------------------------------

// classifyCrash reads the Go runtime's crash output of a worker: was it a panic, and is the first
// frame of the panicking goroutine that is neither runtime nor library code gossamer's?
func classifyCrash(out string) (inGossamer bool, site, msg string) {
	i := strings.LastIndex(out, "\npanic: ")
	if i < 0 {
		if strings.HasPrefix(out, "panic: ") {
			i = 0
		} else {
			return false, "", ""
		}
	}
	rest := out[i:]
	lines := strings.Split(strings.TrimPrefix(rest, "\n"), "\n")
	msg = strings.TrimPrefix(lines[0], "panic: ")
	if len(msg) > 300 {
		msg = msg[:300]
	}
	// the first goroutine printed after the panic line is the panicking one
	j := 0
	for j < len(lines) && !strings.HasPrefix(lines[j], "goroutine ") {
		j++
	}
	var frames []string
	for j++; j < len(lines) && lines[j] != ""; j++ {
		frames = append(frames, lines[j])
	}
	inG, site := classifyPanic("panic(...)\n\t/runtime/panic.go\n" + strings.Join(frames, "\n"))
	return inG, site, msg
}

// locateCrash re-executes a chunk in a child that records which run is in flight and returns the run
// whose execution crashes at the same site.
func locateCrash(st, cnt int, site string) (int, bool) {
	dir, err := os.MkdirTemp("", "verif-crash-")
	if err != nil {
		return 0, false
	}
	defer os.RemoveAll(dir)
	cur := filepath.Join(dir, "cur")
	cmd := exec.Command(os.Args[0], "-test.run", "^TestVerif$", "-test.timeout", "0")
	cmd.Env = append(os.Environ(), "VERIF_MODE=worker", "VERIF_W_START="+strconv.Itoa(st), "VERIF_W_COUNT="+strconv.Itoa(cnt),
		"VERIF_W_DEADLINE="+strconv.FormatInt(time.Now().Add(10*time.Minute).Unix(), 10), "VERIF_W_OUT="+filepath.Join(dir, "out.json"),
		"VERIF_W_SAMPLES=0", "VERIF_W_CUR="+cur, "GOMAXPROCS=2")
	var buf strings.Builder
	cmd.Stdout, cmd.Stderr = &buf, &buf
	done := make(chan error, 1)
	if err := cmd.Start(); err != nil {
		return 0, false
	}
	go func() { done <- cmd.Wait() }()
	select {
	case <-done:
	case <-time.After(12 * time.Minute):
		cmd.Process.Kill()
		<-done
		return 0, false
	}
	if inG, s2, _ := classifyCrash(buf.String()); !inG || s2 != site {
		return 0, false
	}
	b, err := os.ReadFile(cur)
	if err != nil {
		return 0, false
	}
	ix, err := strconv.Atoi(strings.TrimSpace(string(b)))
	return ix, err == nil
}

// ---- known findings -------------------------------------------------------

type KnownFinding struct {
	Property    string `json:"property"`
	Status      string `json:"status"` // "known" | "fixed"
	Oracle      string `json:"oracle"`
	ClassRegex  string `json:"class_regex"`
	Description string `json:"description"`
	Commit      string `json:"commit,omitempty"`
	// Continue: the run may go on past this finding (model and system still agree afterwards)
	Continue bool `json:"continue,omitempty"`
}

var knownOnce sync.Once
var knownCache []KnownFinding

func knownList() []KnownFinding {
	knownOnce.Do(func() { knownCache = loadKnown() })
	return knownCache
}

func loadKnown() []KnownFinding {
	b, err := os.ReadFile(filepath.Join(verifDir, "known_findings.json"))
	if err != nil {
		return nil
	}
	var k struct {
		Findings []KnownFinding `json:"findings"`
	}
	if json.Unmarshal(b, &k) != nil {
		return nil
	}
	return k.Findings
}

func matchKnown(ks []KnownFinding, v ReplayFile) *KnownFinding {
	for i := range ks {
		k := &ks[i]
		if k.Status != "known" || k.Property != v.Property || (k.Oracle != "" && k.Oracle != v.Oracle) {
			continue
		}
		re, err := regexp.Compile("^(?:" + k.ClassRegex + ")$")
		if err != nil {
			continue
		}
		if re.MatchString(v.Class) {
			return k
		}
	}
	return nil
}

// ---- orchestrator ---------------------------------------------------------

func runOrchestrator(t *testing.T, w World) int {
	prop := os.Getenv("VERIF_PROP")
	tier := os.Getenv("VERIF_TIER")
	if tier == "" {
		tier = "quick"
	}
	seed := uint64(envInt("VERIF_SEED", 1))
	nw := int(envInt("VERIF_WORKERS", 16))
	maxRuns, wall := w.Budget(prop, tier)
	if v := envInt("VERIF_MAXRUNS", 0); v > 0 {
		maxRuns = int(v)
	}
	if v := envInt("VERIF_WALL_S", 0); v > 0 {
		wall = time.Duration(v) * time.Second
	}
	chunk := int(envInt("VERIF_CHUNK", 0))
	if chunk == 0 {
		chunk = maxRuns / (nw * 4)
		if chunk < 1 {
			chunk = 1
		}
		if chunk > 2000 {
			chunk = 2000
		}
	}
	t0 := time.Now()
	deadline := t0.Add(wall)
	tmp, err := os.MkdirTemp("", "verif-"+prop+"-")
	if err != nil {
		fmt.Println("TROUBLE cannot create temp dir:", err)
		return 2
	}
	defer os.RemoveAll(tmp)

	var mu sync.Mutex
	next := 0
	total := WorkerReport{Faults: map[string]int{}, Probes: map[string]int{}, Others: map[string]int{}, Info: map[string]float64{}, KnownHits: map[string]int{}}
	fps := map[string]bool{}
	allFPs := 0
	trouble := ""
	stopAll := false
	var wg sync.WaitGroup
	for wi := 0; wi < nw; wi++ {
		wg.Add(1)
		go func(wi int) {
			defer wg.Done()
			for n := 0; ; n++ {
				mu.Lock()
				if stopAll || next >= maxRuns || time.Now().After(deadline) || trouble != "" {
					mu.Unlock()
					return
				}
				st := next
				cnt := chunk
				if st+cnt > maxRuns {
					cnt = maxRuns - st
				}
				next += cnt
				wantSamples := 0
				if len(total.Samples) < 3 {
					wantSamples = 1
				}
				mu.Unlock()
				out := filepath.Join(tmp, fmt.Sprintf("w%d-%d.json", wi, n))
				cmd := exec.Command(os.Args[0], "-test.run", "^TestVerif$", "-test.timeout", "0")
				cmd.Env = append(os.Environ(),
					"VERIF_MODE=worker",
					"VERIF_W_START="+strconv.Itoa(st),
					"VERIF_W_COUNT="+strconv.Itoa(cnt),
					"VERIF_W_DEADLINE="+strconv.FormatInt(deadline.Unix(), 10),
					"VERIF_W_OUT="+out,
					"VERIF_W_SAMPLES="+strconv.Itoa(wantSamples),
					"GOMAXPROCS=2",
				)
				var buf strings.Builder
				cmd.Stdout = &buf
				cmd.Stderr = &buf
				done := make(chan error, 1)
				if err := cmd.Start(); err != nil {
					mu.Lock()
					trouble = "cannot start worker: " + err.Error()
					mu.Unlock()
					return
				}
				go func() { done <- cmd.Wait() }()
				var werr error
				select {
				case werr = <-done:
				case <-time.After(time.Until(deadline) + 150*time.Second):
					cmd.Process.Kill()
					werr = fmt.Errorf("worker watchdog: no report %v after deadline (runs %d..%d)", 150*time.Second, st, st+cnt)
					<-done
				}
				b, rerr := os.ReadFile(out)
				var rep WorkerReport
				if rerr != nil || json.Unmarshal(b, &rep) != nil {
					// the worker died. If gossamer code panicked in a goroutine of its own, that is a finding of
					// the run that was in flight: find the run (the chunk is re-executed with a progress marker)
					// and report it; anything else is trouble.
					if inG, site, msg := classifyCrash(buf.String()); inG {
						if ix, ok := locateCrash(st, cnt, site); ok {
							mu.Lock()
							total.Runs += ix - st + 1 // the runs of the chunk up to and including the crashing one were executed (twice)
							total.Violations = append(total.Violations, ReplayFile{Property: prop, World: w.Name(), Oracle: "panic", Class: "panic@" + site + ":unrecovered",
								Seed: seed, Run: uint64(ix), Tier: tier, Crash: true, Message: "panic in a goroutine started by gossamer code took the process down: " + msg,
								MessageDigest: digest("panic|panic@" + site + ":unrecovered")})
							if len(total.Violations) >= 6 {
								stopAll = true
							}
							// the runs of the chunk after the crashing one are not executed again
							mu.Unlock()
							continue
						}
					}
					tail := buf.String()
					if len(tail) > 3000 {
						tail = tail[len(tail)-3000:]
					}
					mu.Lock()
					trouble = fmt.Sprintf("worker died without report (runs %d..%d): %v\n%s", st, st+cnt, werr, tail)
					mu.Unlock()
					return
				}
				os.Remove(out)
				mu.Lock()
				total.Runs += rep.Runs
				total.Steps += rep.Steps
				total.SimNanos += rep.SimNanos
				for k, v := range rep.Faults {
					total.Faults[k] += v
				}
				for k, v := range rep.Probes {
					total.Probes[k] += v
				}
				for k, v := range rep.Others {
					total.Others[k] += v
				}
				for k, v := range rep.KnownHits {
					total.KnownHits[k] += v
				}
				for k, v := range rep.Info {
					total.Info[k] += v
				}
				for _, f := range rep.FPs {
					fps[f] = true
				}
				allFPs += rep.AllFPs
				total.Violations = append(total.Violations, rep.Violations...)
				if len(total.Samples) < 3 {
					total.Samples = append(total.Samples, rep.Samples...)
				}
				if rep.Trouble != "" && trouble == "" {
					trouble = rep.Trouble
				}
				if len(total.Violations) >= 6 {
					stopAll = true
				}
				mu.Unlock()
			}
		}(wi)
	}
	wg.Wait()
	wallS := time.Since(t0).Seconds()
	if trouble != "" {
		fmt.Println("TROUBLE", prop, trouble)
		return 2
	}
	if total.Runs == 0 {
		fmt.Println("TROUBLE", prop, "no runs executed")
		return 2
	}

	// classify violations against the committed known-findings list
	known := loadKnown()
	rev := treeRev()
	os.MkdirAll(filepath.Join(outDir(), "replays"), 0o755)
	exit := 0
	seenKnown := map[string]bool{}
	seenNew := map[string]bool{}
	nviol := 0
	sort.Slice(total.Violations, func(i, j int) bool { return total.Violations[i].Run < total.Violations[j].Run })
	for i, v := range total.Violations {
		v.TreeRev = rev
		if kf := matchKnown(known, v); kf != nil {
			key := v.Oracle + "/" + v.Class
			if !seenKnown[key] {
				seenKnown[key] = true
				fmt.Printf("KNOWN-FINDING: property=%s oracle=%s class=%s %s\n", v.Property, v.Oracle, v.Class, kf.Description)
			}
			continue
		}
		nviol++
		key := v.Oracle + "/" + v.Class
		if seenNew[key] {
			continue
		}
		seenNew[key] = true
		path := filepath.Join(outDir(), "replays", fmt.Sprintf("%s-%d-%d-%d.json", prop, seed, v.Run, i))
		b, _ := json.MarshalIndent(v, "", " ")
		os.WriteFile(path, b, 0o644)
		fmt.Printf("VIOLATION property=%s replay=%s\n", v.Property, path)
		fmt.Printf("  oracle=%s class=%s\n  %s\n", v.Oracle, v.Class, v.Message)
		exit = 1
	}

	// known findings the runs went past ("continue" entries), only for the property checked
	for _, kk := range sortedKeys(total.KnownHits) {
		parts := strings.SplitN(kk, "/", 3)
		if len(parts) == 3 && parts[0] == prop {
			if kf := matchKnown(known, ReplayFile{Property: parts[0], Oracle: parts[1], Class: parts[2]}); kf != nil {
				key := parts[1] + "/" + parts[2]
				if !seenKnown[key] {
					seenKnown[key] = true
					fmt.Printf("KNOWN-FINDING: property=%s oracle=%s class=%s hits=%d %s\n", parts[0], parts[1], parts[2], total.KnownHits[kk], kf.Description)
				}
			}
		}
	}

	// evidence
	real, stub := w.Components(prop)
	samples := []any{}
	for _, s := range total.Samples {
		samples = append(samples, s)
	}
	if len(samples) == 0 {
		samples = append(samples, map[string]any{"note": "no non-trivial violation-free run was sampled"})
	}
	cov := map[string]any{
		"evaluations":                    total.Runs,
		"distinct_nontrivial":            len(fps),
		"rule":                           w.Rule(prop),
		"samples":                        samples,
		"runs_per_hour":                  int(float64(total.Runs) / wallS * 3600),
		"seeds_per_hour":                 int(float64(total.Runs) / wallS * 3600),
		"simulated_time_s":               float64(total.SimNanos) / 1e9,
		"events":                         total.Steps,
		"faults_fired":                   total.Faults,
		"probes":                         total.Probes,
		"distinct_fingerprints_all_runs": allFPs,
		"real_components":                real,
		"stub_components":                stub,
		"workers":                        nw,
		"run_index_range":                []int{0, next},
		"known_findings_seen":            len(seenKnown),
		"known_finding_hits":             total.KnownHits,
		"other_property_oracles_fired":   total.Others,
		"tree_rev":                       rev,
	}
	for k, v := range total.Info {
		cov["info_"+k] = v
	}
	if w.Level(prop) == "fault_enumeration" {
		cov["exhaustive"] = false
		cov["exhaustive_note"] = "fault index enumerated completely per scenario; scenarios are sampled"
	}
	ev := map[string]any{
		"property_id": prop,
		"tier":        tier,
		"seed":        seed,
		"level":       w.Level(prop),
		"coverage":    cov,
		"assumptions": []string{
			"gossamer compiled with go1.26.8 (project pins 1.23); source-level semantics assumed toolchain independent",
			"components listed under stub_components are simulated, not real",
			"sampling: a clean batch is evidence, not proof",
		},
		"wall_s":     wallS,
		"violations": nviol,
	}
	os.MkdirAll(filepath.Join(outDir(), "evidence"), 0o755)
	b, _ := json.MarshalIndent(ev, "", " ")
	if err := os.WriteFile(filepath.Join(outDir(), "evidence", prop+".json"), b, 0o644); err != nil {
		fmt.Println("TROUBLE cannot write evidence:", err)
		return 2
	}
	fmt.Printf("%s %s: runs=%d distinct_nontrivial=%d events=%d sim_time=%.0fs wall=%.1fs faults=%v violations=%d known=%d\n",
		prop, tier, total.Runs, len(fps), total.Steps, float64(total.SimNanos)/1e9, wallS, total.Faults, nviol, len(seenKnown))
	// a probe stuck at zero is reported (not fatal)
	return exit
}

// ---- replay ---------------------------------------------------------------

func runReplay(t *testing.T, w World) int {
	path := os.Getenv("VERIF_REPLAY")
	b, err := os.ReadFile(path)
	if err != nil {
		fmt.Println("TROUBLE cannot read replay file:", err)
		return 2
	}
	var rf ReplayFile
	if err := json.Unmarshal(b, &rf); err != nil {
		fmt.Println("TROUBLE bad replay file:", err)
		return 2
	}
	if rf.Crash {
		// the run takes the process down: replay it in a child, from (seed, run)
		os.Setenv("VERIF_PROP", rf.Property)
		os.Setenv("VERIF_TIER", rf.Tier)
		os.Setenv("VERIF_SEED", strconv.FormatUint(rf.Seed, 10))
		ix, ok := locateCrash(int(rf.Run), 1, strings.TrimSuffix(strings.TrimPrefix(rf.Class, "panic@"), ":unrecovered"))
		if !ok || uint64(ix) != rf.Run {
			fmt.Printf("REPLAY-DIVERGED property=%s: run %d of seed %d no longer crashes at %s (the tree may have changed: recorded rev %s, now %s)\n", rf.Property, rf.Run, rf.Seed, rf.Class, rf.TreeRev, treeRev())
			return 2
		}
		fmt.Printf("VIOLATION property=%s replay=%s\n  oracle=%s class=%s\n  %s\n", rf.Property, path, rf.Oracle, rf.Class, rf.Message)
		return 1
	}
	r := RunOne(t, w, rf.Property, rf.Tier, NewReplayTape(rf.Tape), rf.Run)
	for _, l := range r.Log {
		fmt.Println("  ", l)
	}
	if r.Trouble != "" {
		fmt.Println("TROUBLE", r.Trouble)
		return 2
	}
	if r.Viol == nil {
		fmt.Printf("REPLAY-DIVERGED property=%s: no violation reproduced (the tree may have changed: recorded rev %s, now %s)\n", rf.Property, rf.TreeRev, treeRev())
		return 2
	}
	d := digest(r.Viol.Oracle + "|" + r.Viol.Class)
	if d != rf.MessageDigest {
		fmt.Printf("REPLAY-DIVERGED property=%s: got oracle=%s class=%s, recorded oracle=%s class=%s\n", rf.Property, r.Viol.Oracle, r.Viol.Class, rf.Oracle, rf.Class)
		return 2
	}
	fmt.Printf("VIOLATION property=%s replay=%s\n  oracle=%s class=%s\n  %s\n", rf.Property, path, r.Viol.Oracle, r.Viol.Class, r.Viol.Msg)
	return 1
}

// ---- determinism self-test ------------------------------------------------

// runDeterminism prints fingerprint+tape-length per run for a range of runs so
// that outputs of many processes can be diffed.
func runDeterminism(t *testing.T, w World) int {
	prop := os.Getenv("VERIF_PROP")
	tier := os.Getenv("VERIF_TIER")
	seed := uint64(envInt("VERIF_SEED", 1))
	n := int(envInt("VERIF_W_COUNT", 50))
	from := int(envInt("VERIF_W_START", 0))
	logDir := os.Getenv("VERIF_DET_LOGDIR") // optional: full event logs per run, for diffing a divergence
	for i := from; i < from+n; i++ {
		r := RunOne(t, w, prop, tier, NewGenTape(seed, uint64(i)), uint64(i))
		if logDir != "" {
			os.WriteFile(filepath.Join(logDir, fmt.Sprintf("run%d.%d.log", i, os.Getpid())), []byte(strings.Join(r.Log, "\n")+"\n"), 0o644)
		}
		if r.Trouble != "" {
			fmt.Println("TROUBLE", r.Trouble)
			return 2
		}
		v := "-"
		if r.Viol != nil {
			v = r.Viol.Key()
		}
		h := sha256.New()
		for _, l := range r.Log {
			h.Write([]byte(l))
			h.Write([]byte{10})
		}
		fmt.Printf("DET run=%d fp=%x steps=%d tape=%d log=%x viol=%s\n", i, r.FP, r.Steps, len(r.Tape), h.Sum(nil)[:6], v)
	}
	return 0
}

// Main is called from each world's TestVerif.
func Main(t *testing.T, w World) {
	// gossamer's loggers write every finalisation, import and vote at Info level: silence them once per process
	glog.Patch(glog.SetLevel(glog.Critical), glog.SetWriter(io.Discard))
	mode := os.Getenv("VERIF_MODE")
	switch mode {
	case "worker":
		runWorker(t, w)
	case "orch":
		code := runOrchestrator(t, w)
		os.Stdout.Sync()
		os.Exit(code)
	case "replay":
		code := runReplay(t, w)
		os.Exit(code)
	case "det":
		os.Exit(runDeterminism(t, w))
	default:
		// plain `go test`: a small smoke batch for every property of the world
		for _, p := range w.Props() {
			for i := 0; i < 20; i++ {
				r := RunOne(t, w, p, "quick", NewGenTape(1, uint64(i)), uint64(i))
				if r.Trouble != "" {
					t.Fatalf("%s run %d: trouble: %s", p, i, r.Trouble)
				}
				if r.Viol != nil {
					t.Errorf("%s run %d: %s: %s", p, i, r.Viol.Key(), r.Viol.Msg)
					for _, l := range r.Log {
						t.Log(l)
					}
					break
				}
			}
		}
	}
}
