//go:build verif

package babe

import (
	"time"

	"github.com/ChainSafe/gossamer/dot/types"
	"github.com/ChainSafe/gossamer/lib/crypto/sr25519"
	"github.com/ChainSafe/gossamer/pkg/scale"
)

// Re-exports for the /verif simulator (world "babe"). No logic.

var (
	VerifErrOverPrimarySlotThreshold = errOverPrimarySlotThreshold
	VerifErrNotOurTurnToPropose      = errNotOurTurnToPropose
	VerifErrMissingDigestItems       = errMissingDigestItems
	VerifErrLastDigestItemNotSeal    = errLastDigestItemNotSeal
)

// VerifClaimSlot runs the node's own slot lottery (claimSlot) with the epoch
// data assembled exactly from the given fields.
func VerifClaimSlot(epoch, slot uint64, randomness Randomness, authorityIndex uint32,
	authorities []types.AuthorityRaw, threshold *scale.Uint128, allowed types.AllowedSlots,
	kp *sr25519.Keypair) (*types.PreRuntimeDigest, error) {
	return claimSlot(epoch, slot, &epochData{
		randomness:     randomness,
		authorityIndex: authorityIndex,
		authorities:    authorities,
		threshold:      threshold,
		allowedSlots:   allowed,
	}, kp)
}

func VerifClaimPrimarySlot(randomness Randomness, slot, epoch uint64, threshold *scale.Uint128,
	kp *sr25519.Keypair) (out [sr25519.VRFOutputLength]byte, proof [sr25519.VRFProofLength]byte, err error) {
	p, err := claimPrimarySlot(randomness, slot, epoch, threshold, kp)
	if err != nil {
		return out, proof, err
	}
	return p.output, p.proof, nil
}

func VerifClaimSecondarySlotVRF(randomness Randomness, slot, epoch uint64, authorities []types.AuthorityRaw,
	kp *sr25519.Keypair, authorityIndex uint32) (out [sr25519.VRFOutputLength]byte, proof [sr25519.VRFProofLength]byte, err error) {
	p, err := claimSecondarySlotVRF(randomness, slot, epoch, authorities, kp, authorityIndex)
	if err != nil {
		return out, proof, err
	}
	return p.output, p.proof, nil
}

func VerifClaimSecondarySlotPlain(randomness Randomness, slot uint64, authorities []types.AuthorityRaw,
	authorityIndex uint32) error {
	return claimSecondarySlotPlain(randomness, slot, authorities, authorityIndex)
}

// VerifSeal is the block builder's sealing step (buildBlockSeal).
func VerifSeal(kp *sr25519.Keypair, header *types.Header) (*types.SealDigest, error) {
	return (&BlockBuilder{keypair: kp}).buildBlockSeal(header)
}

func VerifGetCurrentSlot(slotDuration time.Duration) uint64 { return getCurrentSlot(slotDuration) }
