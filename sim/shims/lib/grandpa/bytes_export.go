//go:build verif

package grandpa

import "github.com/ChainSafe/gossamer/dot/network"

// Re-exports for the /verif simulator (world bytes). No logic.

func VerifBytesDecodeMessage(cm *network.ConsensusMessage) (GrandpaMessage, error) {
	return decodeMessage(cm)
}

func VerifBytesDecodeHandshake(in []byte) (network.Handshake, error) {
	return (*Service)(nil).decodeHandshake(in)
}

func VerifBytesDecodeNotification(in []byte) (NotificationsMessage, error) {
	return (*Service)(nil).decodeMessage(in)
}

func VerifBytesNewGrandpaMessage() any { return newGrandpaMessage() }
