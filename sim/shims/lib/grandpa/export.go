//go:build verif

package grandpa

import (
	"github.com/ChainSafe/gossamer/dot/network"
	"github.com/ChainSafe/gossamer/dot/types"
	"github.com/ChainSafe/gossamer/lib/common"
	"github.com/ChainSafe/gossamer/lib/crypto/ed25519"
	"github.com/libp2p/go-libp2p/core/peer"
)

// Thin re-exports for the /verif simulator. No logic.

var (
	VerifPrevote         = prevote
	VerifPrecommit       = precommit
	VerifPrimaryProposal = primaryProposal
)

func VerifDecodeMessage(cm *network.ConsensusMessage) (GrandpaMessage, error) {
	return decodeMessage(cm)
}

func (s *Service) VerifHandleMessage(from peer.ID, m GrandpaMessage) error {
	_, err := s.messageHandler.handleMessage(from, m)
	return err
}

func (s *Service) VerifInitiateRound() error               { return s.initiateRound() }
func (s *Service) VerifHandleIsPrimary() (bool, error)     { return s.handleIsPrimary() }
func (s *Service) VerifDeterminePreVote() (*Vote, error)   { return s.determinePreVote() }
func (s *Service) VerifDeterminePreCommit() (*Vote, error) { return s.determinePreCommit() }
func (s *Service) VerifCreateSignedVoteAndVoteMessage(v *Vote, stage Subround) (*SignedVote, *VoteMessage, error) {
	return s.createSignedVoteAndVoteMessage(v, stage)
}
func (s *Service) VerifStoreOwnVote(stage Subround, sv *SignedVote) {
	if stage == precommit {
		s.precommits.Store(s.publicKeyBytes(), sv)
	} else {
		s.prevotes.Store(s.publicKeyBytes(), sv)
	}
}
func (s *Service) VerifSendPrevoteMessage(vm *VoteMessage) error   { return s.sendPrevoteMessage(vm) }
func (s *Service) VerifSendPrecommitMessage(vm *VoteMessage) error { return s.sendPrecommitMessage(vm) }
func (s *Service) VerifCheckRoundCompletable() (bool, error)       { return s.checkRoundCompletable() }
func (s *Service) VerifAttemptToFinalize() (bool, error)           { return s.attemptToFinalize() }
func (s *Service) VerifGetPreVotedBlock() (Vote, error)            { return s.getPreVotedBlock() }
func (s *Service) VerifTotalVotesForBlock(h common.Hash, stage Subround) (uint64, error) {
	return s.getTotalVotesForBlock(h, stage)
}
func (s *Service) VerifThreshold() uint64 { return s.state.threshold() }
func (s *Service) VerifNewCommitMessage() (*CommitMessage, error) {
	return s.newCommitMessage(s.head, s.state.round, s.state.setID)
}
func (s *Service) VerifGossip(m GrandpaMessage) error {
	cm, err := m.ToConsensusMessage()
	if err != nil {
		return err
	}
	s.network.GossipMessage(cm)
	return nil
}
func (s *Service) VerifRound() uint64       { return s.state.round }
func (s *Service) VerifSetID() uint64       { return s.state.setID }
func (s *Service) VerifHead() *types.Header { return s.head }
func (s *Service) VerifVoters() []Voter     { return s.state.voters }

// VerifVotes returns the direct votes and the equivocators of a stage.
func (s *Service) VerifVotes(stage Subround) (votes map[ed25519.PublicKeyBytes]Vote, eqv map[ed25519.PublicKeyBytes]int) {
	votes = map[ed25519.PublicKeyBytes]Vote{}
	eqv = map[ed25519.PublicKeyBytes]int{}
	src := s.prevotes
	e := s.pvEquivocations
	if stage == precommit {
		src = s.precommits
		e = s.pcEquivocations
	}
	src.Range(func(k, v interface{}) bool {
		votes[k.(ed25519.PublicKeyBytes)] = v.(*SignedVote).Vote
		return true
	})
	for k, v := range e {
		eqv[k] = len(v)
	}
	return votes, eqv
}

// VerifHandleNetworkBytes is the real receive path: decode the notification, then handleNetworkMessage.
func (s *Service) VerifHandleNetworkBytes(from peer.ID, raw []byte) (bool, error) {
	msg, err := s.decodeMessage(raw)
	if err != nil {
		return false, err
	}
	return s.handleNetworkMessage(from, msg)
}

// real round driver mode: the pieces of Service.Start, startable one by one
func (s *Service) VerifTrackerStart()   { s.tracker.start() }
func (s *Service) VerifInitiate() error { return s.initiate() }

// VerifHandoff, when set, is called by the finalisation engine right after it handed an action to
// the voting round handler (calls inserted at check time by worlds/grandpa/prebuild.sh).
var VerifHandoff func()

func verifHandoff() {
	if VerifHandoff != nil {
		VerifHandoff()
	}
}

// VerifSignedVotes returns the stored signed votes of a stage (what the tally is made of).
func (s *Service) VerifSignedVotes(stage Subround) map[ed25519.PublicKeyBytes]SignedVote {
	out := map[ed25519.PublicKeyBytes]SignedVote{}
	src := s.prevotes
	if stage == precommit {
		src = s.precommits
	}
	src.Range(func(k, v interface{}) bool {
		out[k.(ed25519.PublicKeyBytes)] = *v.(*SignedVote)
		return true
	})
	return out
}

// VerifRoundLockFree reports whether nobody holds the round lock right now.
func (s *Service) VerifRoundLockFree() bool {
	if s.roundLock.TryLock() {
		s.roundLock.Unlock()
		return true
	}
	return false
}
