//go:build verif

package grandpa

// Thin re-exports for the /verif simulator (world "finality"). No logic.

// VerifImportPrevote re-exports Round.importPrevote.
func (r *Round[ID, H, N, S]) VerifImportPrevote(
	chain Chain[H, N], prevote Prevote[H, N], signer ID, signature S,
) (*importResult[ID, Prevote[H, N], S], error) {
	return r.importPrevote(chain, prevote, signer, signature)
}

// VerifImportPrecommit re-exports Round.importPrecommit.
func (r *Round[ID, H, N, S]) VerifImportPrecommit(
	chain Chain[H, N], precommit Precommit[H, N], signer ID, signature S,
) (*importResult[ID, Precommit[H, N], S], error) {
	return r.importPrecommit(chain, precommit, signer, signature)
}
