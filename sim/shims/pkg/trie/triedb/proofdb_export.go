//go:build verif

package triedb

// Re-exports for the /verif simulator (world proofdb). No logic.

// VerifCommit exposes the unexported commit.
func (t *TrieDB[H, Hasher]) VerifCommit() error { return t.commit() }
