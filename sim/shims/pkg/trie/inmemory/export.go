//go:build verif

package inmemory

import "github.com/ChainSafe/gossamer/pkg/trie/node"

// VerifRoot exposes the root node (no copy) to the /verif simulator. No logic.
func (t *InMemoryTrie) VerifRoot() *node.Node { return t.root }
