//go:build verif

package network

import (
	"github.com/ChainSafe/gossamer/dot/network/messages"
	"github.com/libp2p/go-libp2p/core/peer"
)

// Re-exports for the /verif simulator (world bytes). No logic.

func VerifBytesDecodeBlockAnnounceMessage(in []byte) (NotificationsMessage, error) {
	return decodeBlockAnnounceMessage(in)
}

func VerifBytesDecodeBlockAnnounceHandshake(in []byte) (Handshake, error) {
	return decodeBlockAnnounceHandshake(in)
}

func VerifBytesDecodeTransactionMessage(in []byte) (NotificationsMessage, error) {
	return decodeTransactionMessage(in)
}

func VerifBytesDecodeTransactionHandshake(in []byte) (Handshake, error) {
	return decodeTransactionHandshake(in)
}

func VerifBytesNewLightRequestFromBytes(in []byte) (*LightRequest, error) {
	return newLightRequestFromBytes(in)
}

func VerifBytesNewLightResponseFromBytes(in []byte) (*LightResponse, error) {
	return newLightResponseFromBytes(in)
}

func VerifBytesDecodeWarpSyncMessage(in []byte, p peer.ID, inbound bool) (messages.P2PMessage, error) {
	return decodeWarpSyncMessage(in, p, inbound)
}

func VerifBytesDecodeSyncMessage(in []byte, p peer.ID, inbound bool) (messages.P2PMessage, error) {
	return decodeSyncMessage(in, p, inbound)
}

// the wire structs of the light protocol (for reflection only)
func VerifBytesLightWireValues() (req any, resp any) { return *newRequest(), *newResponse() }
