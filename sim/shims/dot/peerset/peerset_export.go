//go:build verif

package peerset

import (
	"time"

	"github.com/libp2p/go-libp2p/core/peer"
)

// Re-exports for the /verif simulator (world peerset, property C30). No logic.

const (
	VerifNotMember    = int(notMember)
	VerifIngoing      = int(ingoing)
	VerifOutgoing     = int(outgoing)
	VerifNotConnected = int(notConnected)
	VerifMsgChanSize  = msgChanSize
)

func VerifNewPeerSet(cfg *ConfigSet) (*PeerSet, error) { return newPeerSet(cfg) }

// VerifInitMsgCh creates the result channel the way PeerSet.start does, without
// starting the handler goroutine (direct-call mode).
func (ps *PeerSet) VerifInitMsgCh(n int) { ps.resultMsgCh = make(chan Message, n) }

func (ps *PeerSet) VerifMessages() chan Message { return ps.resultMsgCh }

func (h *Handler) VerifPeerSet() *PeerSet { return h.peerSet }

// operations
func (ps *PeerSet) VerifAddPeer(set int, peers ...peer.ID) error { return ps.addPeer(set, peers) }
func (ps *PeerSet) VerifRemovePeer(set int, peers ...peer.ID) error {
	return ps.removePeer(set, peers...)
}
func (ps *PeerSet) VerifAddReservedPeers(set int, peers ...peer.ID) error {
	return ps.addReservedPeers(set, peers...)
}
func (ps *PeerSet) VerifRemoveReservedPeers(set int, peers ...peer.ID) error {
	return ps.removeReservedPeers(set, peers...)
}
func (ps *PeerSet) VerifSetReservedPeer(set int, peers ...peer.ID) error {
	return ps.setReservedPeer(set, peers...)
}
func (ps *PeerSet) VerifReportPeer(change ReputationChange, peers ...peer.ID) error {
	return ps.reportPeer(change, peers...)
}
func (ps *PeerSet) VerifIncoming(set int, peers ...peer.ID) error { return ps.incoming(set, peers...) }
func (ps *PeerSet) VerifDisconnect(set int, reason DropReason, peers ...peer.ID) error {
	return ps.disconnect(set, reason, peers...)
}
func (ps *PeerSet) VerifAllocSlots(set int) error { return ps.allocSlots(set) }
func (ps *PeerSet) VerifUpdateTime() error        { return ps.updateTime() }

// state accessors (set 0)
func (ps *PeerSet) VerifNode(set int, p peer.ID) (state int, rep Reputation, ok bool) {
	n, ok := ps.peerState.nodes[p]
	if !ok {
		return 0, 0, false
	}
	return int(n.state[set]), n.reputation, true
}
func (ps *PeerSet) VerifCounters(set int) (numIn, numOut, maxIn, maxOut uint32) {
	i := ps.peerState.sets[set]
	return i.numIn, i.numOut, i.maxIn, i.maxOut
}
func (ps *PeerSet) VerifIsReserved(p peer.ID) bool { _, ok := ps.reservedNode[p]; return ok }
func (ps *PeerSet) VerifIsNoSlot(set int, p peer.ID) bool {
	_, ok := ps.peerState.sets[set].noSlotNodes[p]
	return ok
}
func (ps *PeerSet) VerifNodeCount() int          { return len(ps.peerState.nodes) }
func (ps *PeerSet) VerifReservedCount() int      { return len(ps.reservedNode) }
func (ps *PeerSet) VerifLatestUpdate() time.Time { return ps.latestTimeUpdate }
func (ps *PeerSet) VerifReservedOnly() bool      { return ps.isReservedOnly }

// reputation arithmetic
func VerifRepAdd(a, b Reputation) Reputation { return a.add(b) }
func VerifRepSub(a, b Reputation) Reputation { return a.sub(b) }
func VerifRepTick(a Reputation) Reputation   { return reputationTick(a) }
