//go:build verif

package sync

import (
	"github.com/ChainSafe/gossamer/dot/network/messages"
	"github.com/ChainSafe/gossamer/dot/peerset"
	"github.com/ChainSafe/gossamer/dot/types"
	"github.com/libp2p/go-libp2p/core/peer"
)

// Thin re-exports for the /verif simulator. No logic beyond delegation.

type verifHookedImporter struct {
	inner importer
	hook  func(bd *types.BlockData)
}

func (h verifHookedImporter) importBlock(bd *types.BlockData, o BlockOrigin) (bool, error) {
	h.hook(bd)
	return h.inner.importBlock(bd, o)
}

// VerifSetImportHook makes the strategy call hook right before every hand-over to the real block importer.
func (f *FullSyncStrategy) VerifSetImportHook(hook func(bd *types.BlockData)) {
	f.blockImporter = verifHookedImporter{inner: f.blockImporter, hook: hook}
}

func VerifNewTaskResult(who peer.ID, req *messages.BlockRequestMessage, resp *messages.BlockResponseMessage, completed bool) *SyncTaskResult {
	return &SyncTaskResult{who: who, completed: completed, request: req, response: resp}
}

func (t *SyncTask) VerifRequest() *messages.BlockRequestMessage {
	return t.request.(*messages.BlockRequestMessage)
}

func (c Change) VerifWho() peer.ID                      { return c.who }
func (c Change) VerifRep() peerset.ReputationChange     { return c.rep }
func (f *FullSyncStrategy) VerifQueueLen() int          { return f.requestQueue.Len() }
func (f *FullSyncStrategy) VerifTarget() uint32         { return f.peers.getTarget() }
