//go:build verif

package state

import (
	"github.com/ChainSafe/gossamer/lib/blocktree"
	"github.com/ChainSafe/gossamer/lib/common"
)

// Re-exports for the /verif simulator. No logic.

func (bs *BlockState) VerifUnfinalisedHas(h common.Hash) bool {
	return bs.unfinalisedBlocks.getBlock(h) != nil
}

func (bs *BlockState) VerifBlockTree() *blocktree.BlockTree { return bs.bt }

func (bs *BlockState) VerifTries() *Tries { return bs.tries }

func (t *Tries) VerifLen() int { return t.len() }

func (t *Tries) VerifHas(root common.Hash) bool { return t.get(root) != nil }

func (t *Tries) VerifDelete(root common.Hash) { t.delete(root) }
