//go:build verif

package state

import (
	"github.com/ChainSafe/gossamer/dot/types"
	"github.com/ChainSafe/gossamer/internal/database"
	"github.com/ChainSafe/gossamer/lib/blocktree"
	"github.com/ChainSafe/gossamer/lib/common"
)

// Re-exports for the /verif simulator. No logic.

func (bs *BlockState) VerifUnfinalisedHas(h common.Hash) bool {
	return bs.unfinalisedBlocks.getBlock(h) != nil
}

func (bs *BlockState) VerifBlockTree() *blocktree.BlockTree { return bs.bt }

func (bs *BlockState) VerifTries() *Tries { return bs.tries }

func (t *Tries) VerifLen() int { return t.len() }

func (t *Tries) VerifHas(root common.Hash) bool { return t.get(root) != nil }

func (t *Tries) VerifDelete(root common.Hash) { t.delete(root) }

// VerifRoots lists the state roots currently cached.
func (t *Tries) VerifRoots() []common.Hash {
	t.mapMutex.RLock()
	defer t.mapMutex.RUnlock()
	out := make([]common.Hash, 0, len(t.rootToTrie))
	for r := range t.rootToTrie {
		out = append(out, r)
	}
	return out
}

// VerifNewServiceOverDB builds a Service whose Start() runs the real reload
// path over an injected database (the simulated disk).
func VerifNewServiceOverDB(db database.Database, tel Telemetry, cfg *types.BabeConfiguration) *Service {
	return &Service{db: db, isMemDB: true, Telemetry: tel, genesisBABEConfig: cfg,
		closeCh: make(chan interface{}), Base: NewBaseState(db)}
}
