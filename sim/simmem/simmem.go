// Package simmem is the simulated Wasm linear memory used by the ALLOC world
// (property C28). It implements lib/runtime.Memory.
//
//   - Sparse: the address space is kept in 4 KiB chunks that exist only once
//     written, so a 4 GiB memory whose blocks carry only an 8-byte header costs
//     a few KiB. Unwritten bytes read as zero (fresh Wasm memory is zeroed).
//   - Grow is the fault seam: it fails when the caller-supplied hook says so
//     (injected allocation failure, the hook draws from the run's tape) or
//     when the configured maximum number of pages would be exceeded. The
//     maximum may be set ABOVE 65536 pages so that a check "the allocator never
//     grows memory past 4 GiB" is not satisfied by the memory itself.
//   - Every write that goes through the runtime.Memory interface (that is:
//     every write of the code under test) is journaled with the old and new
//     bytes so that an oracle can tell exactly which operation changed which
//     bytes. Writes of the simulated Wasm program use UserWrite, which does
//     not journal.
//
// Nothing in here consults a clock or a random source.
package simmem

import "encoding/binary"

const (
	PageSize  = 65536 // Wasm page
	chunkBits = 12
	chunkSize = 1 << chunkBits
)

// WriteRec is one journaled write through the runtime.Memory interface.
type WriteRec struct {
	Off uint32
	N   int
	Old [8]byte
	New [8]byte
}

// GrowRec is one journaled Grow call.
type GrowRec struct {
	PrevPages uint32
	Delta     uint32
	OK        bool
	Injected  bool // refused because the hook said so
}

type Memory struct {
	pages    uint32
	MaxPages uint32
	chunks   map[uint32]*[chunkSize]byte

	// FailGrow, if set, is asked before every Grow; true => the call fails.
	FailGrow func(curPages, delta uint32) bool

	Writes []WriteRec
	Grows  []GrowRec

	// taint: addresses whose current content was stored by the simulated
	// program (UserWrite) and not overwritten through the interface since.
	taint map[uint32]struct{}
}

func New(initialPages, maxPages uint32) *Memory {
	return &Memory{pages: initialPages, MaxPages: maxPages, chunks: map[uint32]*[chunkSize]byte{}, taint: map[uint32]struct{}{}}
}

func (m *Memory) Pages() uint32 { return m.pages }

// ResetJournal forgets journaled writes and grows.
func (m *Memory) ResetJournal() { m.Writes = m.Writes[:0]; m.Grows = m.Grows[:0] }

// Chunks returns the number of materialised 4 KiB chunks (cost indicator).
func (m *Memory) Chunks() int { return len(m.chunks) }

func (m *Memory) Size() uint64 { return uint64(m.pages) * PageSize }

func (m *Memory) Grow(delta uint32) (uint32, bool) {
	prev := m.pages
	if m.FailGrow != nil && m.FailGrow(prev, delta) {
		m.Grows = append(m.Grows, GrowRec{PrevPages: prev, Delta: delta, Injected: true})
		return 0, false
	}
	if uint64(prev)+uint64(delta) > uint64(m.MaxPages) {
		m.Grows = append(m.Grows, GrowRec{PrevPages: prev, Delta: delta})
		return 0, false
	}
	m.pages = prev + delta
	m.Grows = append(m.Grows, GrowRec{PrevPages: prev, Delta: delta, OK: true})
	return prev, true
}

func (m *Memory) inRange(off uint32, n uint64) bool { return uint64(off)+n <= m.Size() }

func (m *Memory) get(a uint64) byte {
	c := m.chunks[uint32(a>>chunkBits)]
	if c == nil {
		return 0
	}
	return c[a&(chunkSize-1)]
}

func (m *Memory) put(a uint64, v byte) {
	ix := uint32(a >> chunkBits)
	c := m.chunks[ix]
	if c == nil {
		if v == 0 {
			return
		}
		c = new([chunkSize]byte)
		m.chunks[ix] = c
	}
	c[a&(chunkSize-1)] = v
}

// Peek reads n bytes without bounds semantics of the interface (false when out of range).
func (m *Memory) Peek(off uint32, n int) ([]byte, bool) {
	if !m.inRange(off, uint64(n)) {
		return nil, false
	}
	b := make([]byte, n)
	for i := range b {
		b[i] = m.get(uint64(off) + uint64(i))
	}
	return b, true
}

// UserWrite is a store of the simulated Wasm program; it is not journaled.
func (m *Memory) UserWrite(off uint32, v []byte) bool {
	if !m.inRange(off, uint64(len(v))) {
		return false
	}
	for i, x := range v {
		m.put(uint64(off)+uint64(i), x)
		m.taint[off+uint32(i)] = struct{}{}
	}
	return true
}

// ProgramStored reports whether any of the n bytes at off currently holds a value stored by UserWrite.
func (m *Memory) ProgramStored(off uint32, n int) bool {
	for i := 0; i < n; i++ {
		if _, ok := m.taint[off+uint32(i)]; ok {
			return true
		}
	}
	return false
}

func (m *Memory) journal(off uint32, v []byte) {
	for i := range v {
		delete(m.taint, off+uint32(i))
	}
	for len(v) > 0 {
		n := len(v)
		if n > 8 {
			n = 8
		}
		r := WriteRec{Off: off, N: n}
		for i := 0; i < n; i++ {
			r.Old[i] = m.get(uint64(off) + uint64(i))
			r.New[i] = v[i]
		}
		if len(m.Writes) < 4096 {
			m.Writes = append(m.Writes, r)
		}
		v = v[n:]
		off += uint32(n)
	}
}

// ---- lib/runtime.Memory -----------------------------------------------------

func (m *Memory) ReadByte(off uint32) (byte, bool) { //nolint:govet
	if !m.inRange(off, 1) {
		return 0, false
	}
	return m.get(uint64(off)), true
}

func (m *Memory) ReadUint64Le(off uint32) (uint64, bool) {
	if !m.inRange(off, 8) {
		return 0, false
	}
	var b [8]byte
	for i := range b {
		b[i] = m.get(uint64(off) + uint64(i))
	}
	return binary.LittleEndian.Uint64(b[:]), true
}

func (m *Memory) WriteUint64Le(off uint32, v uint64) bool {
	if !m.inRange(off, 8) {
		return false
	}
	var b [8]byte
	binary.LittleEndian.PutUint64(b[:], v)
	m.journal(off, b[:])
	for i, x := range b {
		m.put(uint64(off)+uint64(i), x)
	}
	return true
}

// Read returns a COPY (the memory is sparse, there is no backing array to alias).
// The allocator never calls it.
func (m *Memory) Read(off uint32, n uint64) ([]byte, bool) {
	if !m.inRange(off, n) || n > 1<<26 {
		return nil, false
	}
	b, ok := m.Peek(off, int(n))
	return b, ok
}

func (m *Memory) WriteByte(off uint32, v byte) bool { //nolint:govet
	if !m.inRange(off, 1) {
		return false
	}
	m.journal(off, []byte{v})
	m.put(uint64(off), v)
	return true
}

func (m *Memory) Write(off uint32, v []byte) bool {
	if !m.inRange(off, uint64(len(v))) {
		return false
	}
	m.journal(off, v)
	for i, x := range v {
		m.put(uint64(off)+uint64(i), x)
	}
	return true
}
