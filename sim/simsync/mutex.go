package simsync

// Mutex is a drop-in replacement for sync.Mutex under the cooperative
// scheduler. A Lock on a held mutex parks the task in the scheduler (never in a
// runtime mutex). Outside a scheduler run it is a plain flag (single-threaded
// use only, e.g. constructors and sequential set-up code).
type Mutex struct {
	held bool
	rel  vclock // clock published by the last Unlock
}

func (m *Mutex) Lock() {
	s := cur
	if s == nil {
		if m.held {
			panic(MisuseError("simsync: Lock of a held Mutex outside a scheduler run (self-deadlock)"))
		}
		m.held = true
		return
	}
	if s.aborted {
		return
	}
	s.schedPoint("lock")
	for m.held {
		s.block(m, "Lock")
	}
	m.held = true
	s.cur.vc.join(m.rel)
}

func (m *Mutex) TryLock() bool {
	s := cur
	if s == nil {
		if m.held {
			return false
		}
		m.held = true
		return true
	}
	if s.aborted {
		return true
	}
	s.schedPoint("trylock")
	if m.held {
		return false
	}
	m.held = true
	s.cur.vc.join(m.rel)
	return true
}

func (m *Mutex) Unlock() {
	s := cur
	if s != nil && s.aborted {
		return
	}
	if !m.held {
		panic(MisuseError("sync: unlock of unlocked mutex"))
	}
	m.held = false
	if s == nil {
		return
	}
	t := s.cur
	m.rel = t.vc.copy()
	t.vc.tick(t.id)
	s.wakeWaiters(m)
	s.schedPoint("unlock")
}

// RWMutex is a drop-in replacement for sync.RWMutex. Happens-before: a write
// unlock orders everything before it with every later acquire; a read unlock
// orders with later WRITE acquires only - two read-lock holders are not ordered
// with each other, so a write performed under RLock races with accesses under
// another RLock. (sync.RWMutex's writer preference is not modelled: every
// schedule it admits is also admitted here.)
type RWMutex struct {
	writer  bool
	readers int
	relW    vclock // clock published by the last write Unlock
	relR    vclock // join of the clocks published by RUnlocks since then
}

func (m *RWMutex) Lock() {
	s := cur
	if s == nil {
		if m.writer || m.readers > 0 {
			panic(MisuseError("simsync: Lock of a held RWMutex outside a scheduler run (self-deadlock)"))
		}
		m.writer = true
		return
	}
	if s.aborted {
		return
	}
	s.schedPoint("lock")
	for m.writer || m.readers > 0 {
		s.block(m, "Lock")
	}
	m.writer = true
	s.cur.vc.join(m.relW)
	s.cur.vc.join(m.relR)
}

func (m *RWMutex) TryLock() bool {
	s := cur
	if s == nil {
		if m.writer || m.readers > 0 {
			return false
		}
		m.writer = true
		return true
	}
	if s.aborted {
		return true
	}
	s.schedPoint("trylock")
	if m.writer || m.readers > 0 {
		return false
	}
	m.writer = true
	s.cur.vc.join(m.relW)
	s.cur.vc.join(m.relR)
	return true
}

func (m *RWMutex) Unlock() {
	s := cur
	if s != nil && s.aborted {
		return
	}
	if !m.writer {
		panic(MisuseError("sync: Unlock of unlocked RWMutex"))
	}
	m.writer = false
	if s == nil {
		return
	}
	t := s.cur
	m.relW = t.vc.copy() // includes relR (joined at acquire)
	m.relR = nil
	t.vc.tick(t.id)
	s.wakeWaiters(m)
	s.schedPoint("unlock")
}

func (m *RWMutex) RLock() {
	s := cur
	if s == nil {
		if m.writer {
			panic(MisuseError("simsync: RLock of a write-held RWMutex outside a scheduler run (self-deadlock)"))
		}
		m.readers++
		return
	}
	if s.aborted {
		return
	}
	s.schedPoint("rlock")
	for m.writer {
		s.block(m, "RLock")
	}
	m.readers++
	s.cur.vc.join(m.relW)
}

func (m *RWMutex) TryRLock() bool {
	s := cur
	if s == nil {
		if m.writer {
			return false
		}
		m.readers++
		return true
	}
	if s.aborted {
		return true
	}
	s.schedPoint("tryrlock")
	if m.writer {
		return false
	}
	m.readers++
	s.cur.vc.join(m.relW)
	return true
}

func (m *RWMutex) RUnlock() {
	s := cur
	if s != nil && s.aborted {
		return
	}
	if m.readers <= 0 {
		panic(MisuseError("sync: RUnlock of unlocked RWMutex"))
	}
	m.readers--
	if s == nil {
		return
	}
	t := s.cur
	m.relR.join(t.vc)
	t.vc.tick(t.id)
	if m.readers == 0 {
		s.wakeWaiters(m)
	}
	s.schedPoint("runlock")
}

// RLocker mirrors sync.RWMutex.RLocker.
func (m *RWMutex) RLocker() interface {
	Lock()
	Unlock()
} {
	return (*rlocker)(m)
}

type rlocker RWMutex

func (r *rlocker) Lock()   { (*RWMutex)(r).RLock() }
func (r *rlocker) Unlock() { (*RWMutex)(r).RUnlock() }
