package simsync

import (
	"math/rand/v2"
	"strings"
	"testing"
)

type shared struct {
	mu  Mutex
	rw  RWMutex
	n   int
	lst []int
}

func seeded(seed uint64) (Chooser, *[]int) {
	r := rand.New(rand.NewPCG(seed, 7))
	var rec []int
	return func(n int, _ string) int { v := r.IntN(n); rec = append(rec, v); return v }, &rec
}

func zero(n int, _ string) int { return 0 }

func runClients(ch Chooser, fns ...func()) Result {
	s := New(ch)
	return s.Run(func() {
		var hs []*Handle
		for i, f := range fns {
			hs = append(hs, Go("c"+string(rune('1'+i)), f))
		}
		for _, h := range hs {
			h.Join()
		}
	})
}

func TestProtectedCounterIsRaceFree(t *testing.T) {
	for seed := uint64(0); seed < 200; seed++ {
		sh := &shared{}
		inc := func() {
			for i := 0; i < 3; i++ {
				sh.mu.Lock()
				Access("T.inc|n|x:1", &sh.n, true)
				sh.n++
				Yield("x")
				sh.mu.Unlock()
			}
		}
		ch, _ := seeded(seed)
		r := runClients(ch, inc, inc, inc)
		if r.Race != nil || r.Deadlock != "" || r.HarnessErr != "" {
			t.Fatalf("seed %d: %+v", seed, r)
		}
		if sh.n != 9 {
			t.Fatalf("seed %d: n=%d", seed, sh.n)
		}
	}
}

func TestUnprotectedReadRaces(t *testing.T) {
	found := 0
	for seed := uint64(0); seed < 50; seed++ {
		sh := &shared{}
		w := func() {
			sh.mu.Lock()
			Access("T.w|n|x:1", &sh.n, true)
			sh.n++
			sh.mu.Unlock()
		}
		rd := func() {
			Yield("x")
			Access("T.r|n|x:2", &sh.n, false)
			_ = sh.n
		}
		ch, _ := seeded(seed)
		r := runClients(ch, w, rd)
		if r.Race != nil {
			found++
			if r.Race.Class != "race:T.r-read-n/T.w-write-n" {
				t.Fatalf("class %q", r.Race.Class)
			}
		}
	}
	// the two accesses are never ordered by happens-before: every schedule must report
	if found != 50 {
		t.Fatalf("race found in %d of 50 schedules", found)
	}
}

func TestWriteUnderRLockRaces(t *testing.T) {
	found := 0
	for seed := uint64(0); seed < 50; seed++ {
		sh := &shared{}
		get := func() {
			sh.rw.RLock()
			Access("T.get|lst|x:1", &sh.lst, true)
			sh.lst = append(sh.lst, 1)
			sh.rw.RUnlock()
		}
		put := func() {
			sh.rw.Lock()
			Access("T.put|lst|x:2", &sh.lst, true)
			sh.lst = append(sh.lst, 2)
			sh.rw.Unlock()
		}
		ch, _ := seeded(seed)
		r := runClients(ch, get, put)
		if r.Race != nil {
			t.Fatalf("seed %d: RLock/Lock must order: %+v", seed, r.Race)
		}
		sh = &shared{}
		ch, _ = seeded(seed)
		r = runClients(ch, get, get)
		if r.Race != nil {
			found++
		}
	}
	if found != 50 {
		t.Fatalf("write/write under two RLocks found in %d of 50 schedules", found)
	}
}

func TestDeadlockDetected(t *testing.T) {
	found := 0
	for seed := uint64(0); seed < 100; seed++ {
		var a, b Mutex
		f1 := func() { a.Lock(); b.Lock(); b.Unlock(); a.Unlock() }
		f2 := func() { b.Lock(); a.Lock(); a.Unlock(); b.Unlock() }
		ch, _ := seeded(seed)
		r := runClients(ch, f1, f2)
		if r.Deadlock != "" {
			found++
			if !strings.Contains(r.Deadlock, "c1 waits for Mutex.Lock") {
				t.Fatalf("desc %q", r.Deadlock)
			}
		}
	}
	if found == 0 || found == 100 {
		t.Fatalf("deadlock in %d of 100 schedules", found)
	}
	// the sequential schedule never deadlocks
	var a, b Mutex
	r := runClients(zero, func() { a.Lock(); b.Lock(); b.Unlock(); a.Unlock() }, func() { b.Lock(); a.Lock(); a.Unlock(); b.Unlock() })
	if r.Deadlock != "" || r.Preempts != 0 {
		t.Fatalf("zero tape: %+v", r)
	}
}

func TestScheduleIsAFunctionOfTheChoices(t *testing.T) {
	trace := func(seed uint64) string {
		sh := &shared{}
		var sb strings.Builder
		inc := func() {
			for i := 0; i < 4; i++ {
				sh.mu.Lock()
				sh.n++
				Yield("x")
				sh.mu.Unlock()
			}
		}
		ch, _ := seeded(seed)
		s := New(ch)
		s.Trace = func(from, to, why, site string) { sb.WriteString(from + ">" + to + ":" + why + ";") }
		s.Run(func() {
			h1, h2, h3 := Go("a", inc), Go("b", inc), Go("c", inc)
			h1.Join()
			h2.Join()
			h3.Join()
		})
		return sb.String()
	}
	for seed := uint64(0); seed < 30; seed++ {
		a := trace(seed)
		for i := 0; i < 5; i++ {
			if b := trace(seed); a != b {
				t.Fatalf("seed %d differs:\n%s\n%s", seed, a, b)
			}
		}
	}
}

func TestPanicInTaskIsReported(t *testing.T) {
	r := runClients(zero, func() { var m Mutex; m.Unlock() })
	if r.HarnessErr == "" || !strings.Contains(r.HarnessErr, "unlock of unlocked") {
		t.Fatalf("%+v", r)
	}
}
