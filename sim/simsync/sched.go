// Package simsync is a cooperative, tape-driven goroutine scheduler with
// drop-in replacements for sync.Mutex / sync.RWMutex and a deterministic
// vector-clock race detector.
//
// Tasks are real goroutines, but exactly one of them holds the run token at any
// time: every other task is parked on its own wake channel. At every scheduling
// point (Yield, Lock, Unlock, a blocked Lock, Join, task end) the token holder
// asks the chooser which runnable task continues. Alternative 0 is always "the
// current task if it is runnable, else the runnable task with the lowest id", so
// the all-zero tape is the sequential schedule. The schedule is a pure function
// of the chooser's answers; GOMAXPROCS is irrelevant because a task that hands
// the token over touches nothing between the send and parking itself.
//
// Code under test is instrumented (see /verif/sim/cmd/instrument) so that it
// uses simsync.Mutex/RWMutex, calls Yield before every statement and reports
// receiver-field reads/writes through Access.
package simsync

import (
	"fmt"
	"reflect"
	"runtime"
	"runtime/debug"
	"sort"
	"strings"
)

// Chooser picks one of n alternatives (n >= 2); 0 is the benign one.
type Chooser func(n int, label string) int

type taskState int

const (
	stRunnable taskState = iota
	stBlocked
	stDone
)

type task struct {
	id      int
	name    string
	wake    chan struct{}
	state   taskState
	waitOn  any // *Mutex, *RWMutex or *Handle while blocked
	vc      vclock
	handle  *Handle
	started bool
	// detected: this task found the race/deadlock/panic that aborted the run
	detected bool
	waitMode string
}

// Handle identifies a spawned task; Join waits for its end.
type Handle struct {
	t    *task
	done bool
	vc   vclock // clock of the task at its end
}

// MisuseError is the panic value for misuse of a lock by the code under test
// (unlock of an unlocked mutex ...): attributed to the calling instrumented code.
type MisuseError string

func (e MisuseError) Error() string { return string(e) }

// Race is one unordered conflicting pair of accesses.
type Race struct {
	Class string // stable: the two (function, field, r/w) sites in lexical order
	Msg   string
}

// Result is what Run returns.
type Result struct {
	Race       *Race
	Deadlock   string // non-empty: description of who waits for what
	PanicClass string // non-empty: a task panicked inside instrumented code
	PanicMsg   string
	HarnessErr string // non-empty: a task panicked outside instrumented code (harness bug)
	Switches   int    // number of scheduling points at which the running task changed
	Preempts   int    // switches away from a task that was not waiting for a Join and had not ended
	Points     int    // number of scheduling points with >= 2 alternatives
	Events     uint64 // final global event sequence number
}

// Scheduler runs one set of tasks. Create one per run.
type Scheduler struct {
	choose  Chooser
	tasks   []*task
	cur     *task
	seq     uint64
	aborted bool
	res     Result
	done    chan struct{}
	exited  chan struct{}
	shadow  map[uintptr]*shadowVar
	// GenMarker is the substring of a stack frame that identifies instrumented code.
	GenMarker string
	// Trace, if set, is called at every context switch (from, to task names; why = kind of
	// scheduling point, site = source position for yields).
	Trace func(from, to, why, site string)
}

// cur is the scheduler of the run in progress (one run at a time per process).
var cur *Scheduler

// New creates a scheduler. It becomes the process-wide current scheduler until
// Run returns.
func New(choose Chooser) *Scheduler {
	return &Scheduler{choose: choose, done: make(chan struct{}, 1), exited: make(chan struct{}),
		shadow: map[uintptr]*shadowVar{}, GenMarker: "/gen/"}
}

// Active reports whether a scheduler is running.
func Active() bool { return cur != nil && !cur.aborted }

// Run executes root as task 0 and returns when every task has ended, or on the
// first race / deadlock / panic (all parked tasks are then unwound with
// runtime.Goexit so that no goroutine leaks into the next run).
func (s *Scheduler) Run(root func()) Result {
	if cur != nil {
		panic("simsync: nested Run")
	}
	cur = s
	t := s.newTask("root", nil)
	s.cur = t
	t.started = true
	go s.taskMain(t, root)
	<-s.done
	if s.aborted {
		// the detecting task has signalled and is exiting (it acks on s.exited);
		// unwind every other started, unfinished task one at a time
		<-s.exited
		for _, o := range s.tasks {
			if o.state != stDone && o.started {
				o.state = stDone
				o.wake <- struct{}{}
				<-s.exited
			}
		}
	}
	s.res.Events = s.seq
	cur = nil
	return s.res
}

func (s *Scheduler) newTask(name string, parent *task) *task {
	t := &task{id: len(s.tasks), name: name, wake: make(chan struct{}, 1)}
	t.handle = &Handle{t: t}
	if parent != nil {
		t.vc = parent.vc.copy()
		parent.vc.tick(parent.id)
	}
	t.vc.tick(t.id)
	s.tasks = append(s.tasks, t)
	return t
}

func (s *Scheduler) taskMain(t *task, fn func()) {
	normal := false
	defer func() {
		if normal {
			return
		}
		// either runtime.Goexit after an abort (recover() == nil) or a panic out of task code
		r := recover()
		if r != nil && !s.aborted {
			st := string(debug.Stack())
			_, misuse := r.(MisuseError)
			fn, inGen := s.genFrame(st, misuse)
			if inGen {
				s.res.PanicClass = "panic@" + fn
				s.res.PanicMsg = fmt.Sprintf("panic in %s (task %s): %v", fn, t.name, r)
			} else {
				s.res.HarnessErr = fmt.Sprintf("task %s: %v\n%s", t.name, r, st)
			}
			s.aborted = true
			t.detected = true
		}
		t.state = stDone
		if t.detected {
			s.done <- struct{}{}
		}
		s.exited <- struct{}{}
	}()
	fn()
	// normal end of the task
	t.handle.vc = t.vc.copy()
	t.handle.done = true
	t.vc.tick(t.id)
	t.state = stDone
	s.wakeWaiters(t.handle)
	s.seq++
	next := s.pick("end")
	if next == nil {
		if blocked := s.blockedDesc(); blocked != "" {
			s.res.Deadlock = blocked
			s.abortWith()
		}
		normal = true
		s.done <- struct{}{}
		return
	}
	normal = true
	s.handoff(t, next, "end", "")
}

// genFrame finds the innermost frame of instrumented code in a panic stack.
func (s *Scheduler) genFrame(stack string, skipSimsync bool) (string, bool) {
	lines := strings.Split(stack, "\n")
	start := 0
	for i, l := range lines {
		if strings.HasPrefix(l, "panic(") || strings.HasPrefix(l, "runtime.gopanic") {
			start = i + 2
		}
	}
	for i := start; i+1 < len(lines); i += 2 {
		fn := lines[i]
		file := strings.TrimSpace(lines[i+1])
		if strings.HasPrefix(fn, "runtime.") || strings.HasPrefix(fn, "runtime/") {
			continue
		}
		if strings.Contains(file, "/simsync/") {
			if skipSimsync {
				continue
			}
			return "", false
		}
		if strings.Contains(fn, s.GenMarker) || strings.Contains(file, s.GenMarker) || strings.Contains(file, "conc_gen") {
			// e.g. github.com/.../gen/pq.(*PriorityQueue).Pop(0x...)
			if j := strings.LastIndex(fn, "("); j > 0 {
				fn = fn[:j]
			}
			if j := strings.LastIndex(fn, "/"); j >= 0 {
				fn = fn[j+1:]
			}
			if j := strings.Index(fn, "."); j >= 0 {
				fn = fn[j+1:]
			}
			fn = strings.NewReplacer("(*", "", ")", "", "[...]", "").Replace(fn)
			return fn, true
		}
		if strings.Contains(fn, "verifsim") || strings.Contains(file, "/verif/sim/") {
			return "", false
		}
		// std / third-party frames (container/heap, container/list ...): keep walking up
	}
	return "", false
}

func (s *Scheduler) blockedDesc() string {
	var parts []string
	for _, o := range s.tasks {
		if o.state == stBlocked {
			what := "?"
			switch w := o.waitOn.(type) {
			case *Mutex:
				what = "Mutex.Lock"
				_ = w
			case *RWMutex:
				what = "RWMutex." + o.waitMode
			case *Handle:
				what = "Join(" + w.t.name + ")"
			}
			parts = append(parts, o.name+" waits for "+what)
		}
	}
	sort.Strings(parts)
	return strings.Join(parts, "; ")
}

// pick chooses the next task among the runnable ones (current first). It
// returns nil if nothing is runnable.
func (s *Scheduler) pick(label string) *task {
	var cand []*task
	if s.cur != nil && s.cur.state == stRunnable {
		cand = append(cand, s.cur)
	}
	for _, o := range s.tasks {
		if o.state == stRunnable && o != s.cur {
			cand = append(cand, o)
		}
	}
	switch len(cand) {
	case 0:
		return nil
	case 1:
		return cand[0]
	}
	s.res.Points++
	i := s.choose(len(cand), "sched")
	if i < 0 || i >= len(cand) {
		i = 0
	}
	return cand[i]
}

// handoff passes the token from t to next. If t is not done it parks until it
// is given the token again.
func (s *Scheduler) handoff(t, next *task, why, site string) {
	if next == t {
		return
	}
	s.res.Switches++
	if why != "end" && why != "blocked:join" {
		s.res.Preempts++
	}
	if s.Trace != nil {
		s.Trace(t.name, next.name, why, site)
	}
	s.cur = next
	if !next.started {
		panic("simsync: handoff to a task that was never started")
	}
	done := t.state == stDone
	next.wake <- struct{}{}
	if done {
		return
	}
	<-t.wake
	if s.aborted {
		runtime.Goexit()
	}
}

// schedPoint is a scheduling point of the running task.
func (s *Scheduler) schedPoint(why string) { s.schedPointAt(why, "") }

func (s *Scheduler) schedPointAt(why, site string) {
	t := s.cur
	s.seq++
	next := s.pick(why)
	if next == nil {
		// only possible if t just blocked and nobody else can run
		s.res.Deadlock = s.blockedDesc()
		s.abortWith()
	}
	s.handoff(t, next, why, site)
}

// block parks the running task until waitOn is released.
func (s *Scheduler) block(on any, mode string) {
	t := s.cur
	t.state = stBlocked
	t.waitOn = on
	t.waitMode = mode
	s.schedPoint("blocked:" + mode)
}

func (s *Scheduler) wakeWaiters(on any) {
	for _, o := range s.tasks {
		if o.state == stBlocked && o.waitOn == on {
			o.state = stRunnable
			o.waitOn = nil
		}
	}
}

// abortWith ends the run from the running task (race, deadlock).
func (s *Scheduler) abortWith() {
	s.aborted = true
	s.cur.detected = true
	runtime.Goexit()
}

// ---- public task API --------------------------------------------------------

// Go spawns fn as a new task. Outside a scheduler it runs fn synchronously.
func Go(name string, fn func()) *Handle {
	s := cur
	if s == nil {
		fn()
		return &Handle{done: true}
	}
	if s.aborted {
		return &Handle{done: true}
	}
	t := s.newTask(name, s.cur)
	t.started = true
	go func() {
		<-t.wake
		if s.aborted {
			// never ran: nothing to unwind
			t.state = stDone
			s.exited <- struct{}{}
			return
		}
		s.taskMain(t, fn)
	}()
	return t.handle
}

// Join parks the caller until the task has ended (happens-before edge).
func (h *Handle) Join() {
	s := cur
	if s == nil || s.aborted || h.t == nil {
		return
	}
	for !h.done {
		s.block(h, "join")
	}
	s.cur.vc.join(h.vc)
}

// Yield is a scheduling point; site is informational.
func Yield(site string) {
	s := cur
	if s == nil || s.aborted {
		return
	}
	s.schedPointAt("yield", site)
}

// Stamp returns a fresh value of the global event sequence (strictly
// increasing in execution order); used for invoke/return timestamps.
func Stamp() int64 {
	s := cur
	if s == nil {
		return 0
	}
	s.seq++
	return int64(s.seq)
}

// CurrentTask returns the name of the running task ("" outside a scheduler).
func CurrentTask() string {
	if cur == nil || cur.cur == nil {
		return ""
	}
	return cur.cur.name
}

func addrOf(p any) uintptr {
	v := reflect.ValueOf(p)
	if v.Kind() != reflect.Pointer {
		panic("simsync.Access: addr must be a pointer")
	}
	return v.Pointer()
}
