package simsync

import (
	"fmt"
	"strings"
)

// vclock is a vector clock indexed by task id (missing entries are 0).
type vclock []uint64

func (v vclock) copy() vclock {
	c := make(vclock, len(v))
	copy(c, v)
	return c
}

func (v *vclock) tick(i int) {
	for len(*v) <= i {
		*v = append(*v, 0)
	}
	(*v)[i]++
}

func (v *vclock) join(o vclock) {
	for len(*v) < len(o) {
		*v = append(*v, 0)
	}
	for i, x := range o {
		if x > (*v)[i] {
			(*v)[i] = x
		}
	}
}

func (v vclock) at(i int) uint64 {
	if i < len(v) {
		return v[i]
	}
	return 0
}

// epoch is one access: the task, its own clock component at that moment, the site.
type epoch struct {
	task  int
	clock uint64
	site  string
	seq   uint64
}

type shadowVar struct {
	write *epoch
	reads map[int]*epoch // last read per task since the last write
}

// Access records a read or write of the shared location addr (a pointer to a
// receiver field; the location stands for the field and the object it owns) by
// the running task and checks it against the last conflicting accesses. site is
// "Type.Method|field|file:line". Two accesses conflict if at least one is a
// write, they come from different tasks and neither happens-before the other
// (vector clocks over lock/unlock, spawn, join). The first race aborts the run.
func Access(site string, addr any, write bool) {
	s := cur
	if s == nil || s.aborted {
		return
	}
	t := s.cur
	a := addrOf(addr)
	sv := s.shadow[a]
	if sv == nil {
		sv = &shadowVar{reads: map[int]*epoch{}}
		s.shadow[a] = sv
	}
	me := &epoch{task: t.id, clock: t.vc.at(t.id), site: site, seq: s.seq}
	ordered := func(e *epoch) bool { return e.task == t.id || e.clock <= t.vc.at(e.task) }
	if sv.write != nil && !ordered(sv.write) {
		s.reportRace(sv.write, true, me, write)
	}
	if write {
		// deterministic order: by task id
		for id := 0; id < len(s.tasks); id++ {
			if e := sv.reads[id]; e != nil && !ordered(e) {
				s.reportRace(e, false, me, true)
			}
		}
		sv.write = me
		sv.reads = map[int]*epoch{}
	} else {
		sv.reads[t.id] = me
	}
}

func siteParts(site string) (fn, field, pos string) {
	p := strings.SplitN(site, "|", 3)
	for len(p) < 3 {
		p = append(p, "?")
	}
	return p[0], p[1], p[2]
}

func rw(w bool) string {
	if w {
		return "write"
	}
	return "read"
}

func (s *Scheduler) reportRace(prev *epoch, prevW bool, now *epoch, nowW bool) {
	f1, fld1, p1 := siteParts(prev.site)
	f2, fld2, p2 := siteParts(now.site)
	a := f1 + "-" + rw(prevW) + "-" + fld1
	b := f2 + "-" + rw(nowW) + "-" + fld2
	if b < a {
		a, b = b, a
	}
	s.res.Race = &Race{
		Class: "race:" + a + "/" + b,
		Msg: fmt.Sprintf("data race on field %s: %s by task %s in %s (%s, event %d) is not ordered by happens-before with the earlier %s by task %s in %s (%s, event %d)",
			fld2, rw(nowW), s.tasks[now.task].name, f2, p2, now.seq, rw(prevW), s.tasks[prev.task].name, f1, p1, prev.seq),
	}
	s.abortWith()
}
