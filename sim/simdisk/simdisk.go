// Package simdisk is the simulated disk: an ordered map plus an append-only
// write log. A single Put/Del is one atomic log record, a batch Flush is one
// atomic record with all its operations (the durability contract C36 states).
// Faults (write errors, lost acks, read errors, full disk) are decided by
// caller-supplied hooks which draw from the run's tape.
package simdisk

import (
	"bytes"
	"errors"
	"sort"

	"github.com/ChainSafe/gossamer/internal/database"
)

type Op struct {
	Del bool
	K   []byte
	V   []byte
}

// Record is one atomic unit of durability.
type Record struct {
	Ops   []Op
	Batch bool
}

var ErrInjectedWrite = errors.New("simdisk: injected write error")
var ErrInjectedRead = errors.New("simdisk: injected read error")
var ErrDiskFull = errors.New("simdisk: no space left on device")

// Disk is the durable medium. It survives "crashes"; DB handles do not.
type Disk struct {
	Log []Record
	m   map[string][]byte

	// OnWrite, if set, is consulted before a record is applied. Returning
	// (err, applied=false) fails the write and nothing is stored; returning
	// (err, applied=true) stores the record but reports err (lost ack).
	OnWrite func(rec *Record) (err error, applied bool)
	// OnRead, if set, may fail a read.
	OnRead func(key []byte) error
	// Observer is called after every applied record (index = len(Log)-1).
	Observer func(index int)
	Reads    int
}

func NewDisk() *Disk { return &Disk{m: map[string][]byte{}} }

// Prefix returns a new disk holding only the first k records of d's log
// (the state a crash after k durable writes leaves behind).
func (d *Disk) Prefix(k int) *Disk {
	n := NewDisk()
	for i := 0; i < k && i < len(d.Log); i++ {
		n.apply(d.Log[i])
	}
	return n
}

// Clone returns an independent copy of the durable state (without hooks).
func (d *Disk) Clone() *Disk { return d.Prefix(len(d.Log)) }

func (d *Disk) apply(r Record) {
	for _, op := range r.Ops {
		if op.Del {
			delete(d.m, string(op.K))
		} else {
			d.m[string(op.K)] = op.V
		}
	}
	d.Log = append(d.Log, r)
}

func (d *Disk) write(r Record) error {
	if len(r.Ops) == 0 {
		return nil
	}
	if d.OnWrite != nil {
		err, applied := d.OnWrite(&r)
		if err != nil {
			if applied {
				d.apply(r)
				if d.Observer != nil {
					d.Observer(len(d.Log) - 1)
				}
			}
			return err
		}
	}
	d.apply(r)
	if d.Observer != nil {
		d.Observer(len(d.Log) - 1)
	}
	return nil
}

// Len returns the number of keys stored.
func (d *Disk) Len() int { return len(d.m) }

// Raw gives direct access for fault injection (bit rot) and oracles.
func (d *Disk) Raw() map[string][]byte { return d.m }

func (d *Disk) sortedKeys(prefix []byte) []string {
	ks := make([]string, 0, 16)
	for k := range d.m {
		if bytes.HasPrefix([]byte(k), prefix) {
			ks = append(ks, k)
		}
	}
	sort.Strings(ks)
	return ks
}

// DB is a handle implementing database.Database over a Disk.
type DB struct {
	d      *Disk
	closed bool
}

var _ database.Database = (*DB)(nil)

func (d *Disk) Open() *DB { return &DB{d: d} }

func (db *DB) Disk() *Disk { return db.d }

func cp(b []byte) []byte { c := make([]byte, len(b)); copy(c, b); return c }

func (db *DB) Get(key []byte) ([]byte, error) {
	db.d.Reads++
	if db.d.OnRead != nil {
		if err := db.d.OnRead(key); err != nil {
			return nil, err
		}
	}
	v, ok := db.d.m[string(key)]
	if !ok {
		return nil, database.ErrNotFound
	}
	return cp(v), nil
}

func (db *DB) Has(key []byte) (bool, error) {
	db.d.Reads++
	if db.d.OnRead != nil {
		if err := db.d.OnRead(key); err != nil {
			return false, err
		}
	}
	_, ok := db.d.m[string(key)]
	return ok, nil
}

func (db *DB) Put(key, value []byte) error {
	return db.d.write(Record{Ops: []Op{{K: cp(key), V: cp(value)}}})
}

func (db *DB) Del(key []byte) error {
	return db.d.write(Record{Ops: []Op{{Del: true, K: cp(key)}}})
}

func (db *DB) Flush() error { return nil }
func (db *DB) Close() error { db.closed = true; return nil }
func (db *DB) Path() string { return "simdisk" }

func (db *DB) NewBatch() database.Batch { return &batch{db: db} }

func (db *DB) NewIterator() (database.Iterator, error) { return db.NewPrefixIterator(nil) }

func (db *DB) NewPrefixIterator(prefix []byte) (database.Iterator, error) {
	if db.d.OnRead != nil {
		if err := db.d.OnRead(prefix); err != nil {
			return nil, err
		}
	}
	ks := db.d.sortedKeys(prefix)
	vs := make([][]byte, len(ks))
	for i, k := range ks {
		vs[i] = cp(db.d.m[k])
	}
	return &iter{ks: ks, vs: vs, pos: -1}, nil
}

type batch struct {
	db  *DB
	ops []Op
}

func (b *batch) Put(key, value []byte) error {
	b.ops = append(b.ops, Op{K: cp(key), V: cp(value)})
	return nil
}
func (b *batch) Del(key []byte) error {
	b.ops = append(b.ops, Op{Del: true, K: cp(key)})
	return nil
}
func (b *batch) Flush() error {
	ops := b.ops
	b.ops = nil
	return b.db.d.write(Record{Ops: ops, Batch: true})
}
func (b *batch) ValueSize() int { return len(b.ops) }
func (b *batch) Reset()         { b.ops = nil }
func (b *batch) Close() error   { return nil }

type iter struct {
	ks  []string
	vs  [][]byte
	pos int
}

func (it *iter) Valid() bool { return it.pos >= 0 && it.pos < len(it.ks) }
func (it *iter) Next() bool {
	if it.pos < len(it.ks) {
		it.pos++
	}
	return it.Valid()
}
func (it *iter) First() bool { it.pos = 0; return it.Valid() }
func (it *iter) Key() []byte {
	if !it.Valid() {
		return nil
	}
	return []byte(it.ks[it.pos])
}
func (it *iter) Value() []byte {
	if !it.Valid() {
		return nil
	}
	return it.vs[it.pos]
}
func (it *iter) Release()     {}
func (it *iter) Close() error { return nil }
func (it *iter) SeekGE(key []byte) bool {
	it.pos = sort.SearchStrings(it.ks, string(key))
	return it.Valid()
}
