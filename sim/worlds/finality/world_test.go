package finality

import (
	"testing"
	"time"

	"github.com/ChainSafe/gossamer/verifsim/kernel"
)

type world struct{}

func (world) Name() string          { return "finality" }
func (world) Props() []string       { return []string{"C19", "C20"} }
func (world) Bubble(p string) bool  { return p == "C19" } // C19 assembles dot/state + lib/grandpa.Service (notifier goroutines); C20 is single-threaded
func (world) Level(p string) string { return "exploration" }
func (world) Run(k *kernel.K) {
	switch k.Prop {
	case "C19":
		runJust(k)
	case "C20":
		runRound(k)
	}
}
func (world) Rule(p string) string {
	switch p {
	case "C19":
		return "one run = a receiving node (real lib/grandpa.Service over real dot/state BlockState+GrandpaState on a simulated disk; authority lists of 1-7 keys, optionally with keys listed several times, 0-2 authority-set changes applied at tape-chosen moments) and a Byzantine block server that attaches 1-4 GRANDPA justifications to blocks of a generated tree of real headers (<= 10 blocks, forks, with and without digest items). Each justification is built with the real primitives types and the real SCALE encoder, signed with real ed25519 keys over the real localized payload, from a tape-chosen menu: votes on the target, on descendants, below it, on other forks; exactly enough / one too few voters; voters listed twice, equivocations, non-members, garbage signatures, signatures for another round / set id / message kind / by another key; commit target or block asked for differing from the precommit GHOST; missing, extra, duplicated ancestry headers; mismatched block numbers. The encoded bytes are handed to Service.VerifyBlockJustification (32-bit numbers, the sync import path) and to DecodeGrandpaJustificationVerifyFinalizes instantiated with 32-bit and 64-bit block numbers (weighted voter sets with repeated ids there), each in the built order and in 1-2 tape-chosen permutations of precommits and headers. Oracle: an independent predicate over the true tree (distinct members with valid signatures for the justification's round and the set of the block number; voters' listed weights summed; weight by the GRANDPA definition with equivocators counted everywhere; precommit GHOST from the lowest precommit equals the target and the block asked for; supplied headers are exactly the blocks between the lowest precommit and every precommit). accepted <=> predicate for justifications made only of member precommits with valid signatures; with foreign or badly signed entries only 'must reject when the validly signed member weight on the target is no supermajority'; verdict equal across permutations, across both number widths and between service and generic path. Non-trivial = at least one deviation from the plain justification or one accepted justification with precommits at different heights; distinct = distinct sequence of (deviation set, verdict) event kinds. A quarter of the runs use bushy trees (many short sibling forks, signers spread over the leaves), a fifth a merge-shape tree (a base with children P and Q, P with two or three voted children, Q with one) so that a supermajority only exists after the weights of sibling subtrees are merged."
	case "C20":
		return "one run = a generated block tree (1-8 blocks, forks, tape-permuted hashes, base number 0/1/7/1000) behind a block-store stub, 1-7 voters (unit weights, or weights 1-5, then a third of the time with one voter named twice in the weight distribution, its parts summing to its weight), and a multiset of prevotes and precommits (per voter and phase: one vote, none, an equivocation with 2 or 3 different votes while the equivocating weight stays <= f; a vote from outside the voter set; duplicates) delivered to two real finality-grandpa Round instances in two tape-chosen orders. After every delivery (order A always, order B per tape) Round.State() and Round.PrecommitGHOST() are compared with GrandpaDefs computed from the votes delivered so far: prevote-GHOST, precommit-GHOST and finalized for all weights; estimate and completable for unit weights from the existential definition (enumeration of all completions: unseen voters vote anything or equivocate, seen voters may become equivocators, never more than f equivocators; also for a not yet known child of the prevote-GHOST). At the end both rounds must be in the same state. Non-trivial = both phases reached a supermajority of seen weight, or a reorder/duplicate/equivocation fired; distinct = distinct sequence of delivery kinds and final state."
	}
	return ""
}
func (world) Components(p string) ([]string, []string) {
	switch p {
	case "C19":
		return []string{"lib/grandpa Service.VerifyBlockJustification", "internal/client/consensus/grandpa DecodeGrandpaJustificationVerifyFinalizes / verifyWithVoterSet / ancestryChain (uint32 and uint64 instantiations)", "pkg/finality-grandpa ValidateCommit, NewVoterSet, Round, VoteGraph", "internal/primitives consensus/grandpa (localized payload, signature check), core/ed25519, runtime/generic Header, pkg/scale", "dot/state GrandpaState (authorities by set id, set id by block number) + BlockState over simdisk"},
			[]string{"block server / network (the justification bytes are handed over directly)", "dot/sync blockImporter (only its call VerifyBlockJustification(header hash, number, bytes) is reproduced)", "authority-set change digests (changes are written with GrandpaState.SetNextChange + IncrementSetID)", "runtime", "telemetry", "clock (synctest bubble)"}
	case "C20":
		return []string{"pkg/finality-grandpa Round (importPrevote, importPrecommit, update, State, PrecommitGHOST)", "VoteGraph (Insert, FindGHOST, FindAncestor, ghostFindMergePoint)", "roundContext / bitfield weights", "VoterSet / threshold"},
			[]string{"block store (Chain interface over the generated tree)", "network (tape-chosen delivery order and duplication)", "signatures (opaque strings: Round does not verify them)"}
	}
	return nil, nil
}
func (world) Budget(p, tier string) (int, time.Duration) {
	if p == "C20" {
		if tier == "thorough" {
			return 6000000, 8 * time.Minute
		}
		return 600000, 40 * time.Second
	}
	if tier == "thorough" {
		return 400000, 8 * time.Minute
	}
	return 40000, 40 * time.Second
}

func TestVerif(t *testing.T) { kernel.Main(t, world{}) }
