package finality

import (
	"bytes"
	"encoding/json"
	"fmt"
	"sort"
	"strings"
	"testing/synctest"
	"time"

	"github.com/ChainSafe/gossamer/dot/network"
	"github.com/ChainSafe/gossamer/dot/state"
	"github.com/ChainSafe/gossamer/dot/types"
	cg "github.com/ChainSafe/gossamer/internal/client/consensus/grandpa"
	prim "github.com/ChainSafe/gossamer/internal/primitives/consensus/grandpa"
	ced "github.com/ChainSafe/gossamer/internal/primitives/core/ed25519"
	"github.com/ChainSafe/gossamer/internal/primitives/core/hash"
	pruntime "github.com/ChainSafe/gossamer/internal/primitives/runtime"
	"github.com/ChainSafe/gossamer/internal/primitives/runtime/generic"
	"github.com/ChainSafe/gossamer/lib/common"
	led "github.com/ChainSafe/gossamer/lib/crypto/ed25519"
	gp "github.com/ChainSafe/gossamer/lib/grandpa"
	fg "github.com/ChainSafe/gossamer/pkg/finality-grandpa"
	"github.com/ChainSafe/gossamer/pkg/scale"
	cu "github.com/ChainSafe/gossamer/verifsim/chainutil"
	"github.com/ChainSafe/gossamer/verifsim/kernel"
	"github.com/ChainSafe/gossamer/verifsim/simdisk"
	"github.com/libp2p/go-libp2p/core/peer"
	"github.com/libp2p/go-libp2p/core/protocol"
)

// ---- C19: justification verification ------------------------------------------

const nKeys = 10 // keys 0..6 may be authorities, 7..9 are never in any set

var keyCache [nKeys]*ced.Pair

func jkey(i int) *ced.Pair {
	if keyCache[i] == nil {
		var seed [32]byte
		for j := range seed {
			seed[j] = byte(i*11 + j*5 + 3)
		}
		p := ced.NewPairFromSeed(seed)
		keyCache[i] = &p
	}
	return keyCache[i]
}

func jpub(i int) ced.Public { return jkey(i).Public().(ced.Public) }

type noTelemetry struct{}

func (noTelemetry) SendMessage(json.Marshaler) {}

type noNet struct{}

func (noNet) GossipMessage(network.NotificationsMessage)         {}
func (noNet) SendMessage(peer.ID, gp.NotificationsMessage) error { return nil }
func (noNet) RegisterNotificationsProtocol(protocol.ID, network.MessageType, network.HandshakeGetter, network.HandshakeDecoder,
	network.HandshakeValidator, network.MessageDecoder, network.NotificationsMessageHandler, network.NotificationsMessageBatchHandler, uint64) error {
	return nil
}

// jblock is one block of the server's tree (a real dot/types header).
type jblock struct {
	parent int
	number uint64
	hdr    *types.Header
	hash   common.Hash
	enc    []byte // real SCALE encoding of the header
	digest bool   // carries digest items
}

// authSet is one authority set of the receiving node's history.
type authSet struct {
	id      uint64
	listing []int    // key indexes as listed (a key may be listed several times)
	weights []uint64 // weight per listing, used by the generic path (the service path lists weight 1)
	after   uint64   // the set applies to block numbers > after (0 for the genesis set)
}

// jentry is one signed precommit of a justification.
type jentry struct {
	key      int
	block    int
	numDelta int // claimed number = true number + numDelta
	sig      int // 0 valid, 1 garbage, 2 signed for another round, 3 signed for another set id, 4 signed by another key, 5 signed as a prevote
}

type jspec struct {
	round    uint64
	entries  []jentry
	target   int   // commit target block
	tgtDelta int   // commit target number = true number + tgtDelta
	ask      int   // the block the importer asks about
	headers  []int // supplied ancestry headers: tree block index, or -1-i for forged header i
	tags     map[string]bool
}

type jsim struct {
	k      *kernel.K
	t      *dtree
	blocks []*jblock
	forged []*jblock
	sets   []authSet // applied sets, ascending
	gs     *state.GrandpaState
	bs     *state.BlockState
	svc    *gp.Service
	// weighted: the generic path gets non-unit listing weights (the service path always uses 1 per listing)
	weighted bool
	bushy    bool
	mergeB   int // merge-shape runs: index of the base block B and of its child P (0, 0 otherwise)
	mergeP   int
}

func h256(h common.Hash) hash.H256 { return hash.H256(string(h[:])) }

func (s *jsim) mkHeader(parent common.Hash, number uint64, salt int, withDigest bool) *jblock {
	d := types.NewDigest()
	if withDigest {
		d = cu.BabeDigest(salt%2 == 0, 0, uint64(100+salt))
	}
	h := types.NewHeader(parent, common.Hash{byte(salt), byte(salt >> 8), 0x5a}, common.Hash{0x77, byte(salt)}, uint(number), d)
	enc, err := scale.Marshal(*h)
	if err != nil {
		panic(err)
	}
	return &jblock{number: number, hdr: h, hash: h.Hash(), enc: enc, digest: withDigest}
}

func (s *jsim) setFor(number uint64) *authSet {
	cur := &s.sets[0]
	for i := range s.sets {
		if number > s.sets[i].after || i == 0 {
			cur = &s.sets[i]
		}
	}
	return cur
}

// memberWeights: summed weight per key for a set (service: 1 per listing).
func (a *authSet) memberWeights(weighted bool) map[int]uint64 {
	m := map[int]uint64{}
	for i, k := range a.listing {
		if weighted {
			m[k] += a.weights[i]
		} else {
			m[k]++
		}
	}
	return m
}

func (a *authSet) voterSet(weighted bool) *fg.VoterSet[string] {
	iw := make([]fg.IDWeight[string], len(a.listing))
	for i, k := range a.listing {
		w := uint64(1)
		if weighted {
			w = a.weights[i]
		}
		p := jpub(k)
		iw[i] = fg.IDWeight[string]{ID: string(p[:]), Weight: w}
	}
	return fg.NewVoterSet(iw)
}

func (a *authSet) grandpaVoters() []types.GrandpaVoter {
	var out []types.GrandpaVoter
	for i, k := range a.listing {
		p := jpub(k)
		pk, err := led.NewPublicKey(p[:])
		if err != nil {
			panic(err)
		}
		out = append(out, types.GrandpaVoter{Key: *pk, ID: uint64(i)})
	}
	return out
}

func (s *jsim) drawSet(id, after uint64) authSet {
	k := s.k
	n := k.Range(1, 7, "authorities")
	perm := tapePerm(k, 7, "authority-keys")
	a := authSet{id: id, after: after}
	for i := 0; i < n; i++ {
		a.listing = append(a.listing, perm[i])
	}
	for i := 0; i < n; i++ {
		if k.Bool(1, 10, "authority-listed-again") {
			a.listing = append(a.listing, a.listing[k.Choose(n, "listed-again-which")])
		}
	}
	for range a.listing {
		w := uint64(1)
		if s.weighted {
			w = uint64(1 + k.Choose(4, "listing-weight"))
		}
		a.weights = append(a.weights, w)
	}
	return a
}

// signPrecommit signs with the real payload builder for number width N.
func signVote[N uint32 | uint64](key int, asPrevote bool, h common.Hash, number uint64, round, setID uint64) prim.AuthoritySignature {
	var msg fg.Message[hash.H256, N]
	if asPrevote {
		msg = fg.NewMessage(fg.Prevote[hash.H256, N]{TargetHash: h256(h), TargetNumber: N(number)})
	} else {
		msg = fg.NewMessage(fg.Precommit[hash.H256, N]{TargetHash: h256(h), TargetNumber: N(number)})
	}
	payload := prim.NewLocalizedPayload(prim.RoundNumber(round), prim.SetID(setID), msg)
	return jkey(key).Sign(payload)
}

// encode builds the justification bytes for number width N with the real types and encoder.
// entryOrder / headerOrder are permutations of the spec's entries / headers.
func encodeJust[N uint32 | uint64](s *jsim, sp *jspec, setID uint64, entryOrder, headerOrder []int) []byte {
	var pcs []fg.SignedPrecommit[hash.H256, N, prim.AuthoritySignature, prim.AuthorityID]
	for _, ei := range entryOrder {
		e := sp.entries[ei]
		b := s.blocks[e.block]
		num := uint64(int64(b.number) + int64(e.numDelta))
		var sig prim.AuthoritySignature
		switch e.sig {
		case 0:
			sig = signVote[N](e.key, false, b.hash, num, sp.round, setID)
		case 1:
			for i := range sig {
				sig[i] = byte(0xa0 + i + e.key)
			}
		case 2:
			sig = signVote[N](e.key, false, b.hash, num, sp.round+1, setID)
		case 3:
			sig = signVote[N](e.key, false, b.hash, num, sp.round, setID+1)
		case 4:
			sig = signVote[N]((e.key+1)%nKeys, false, b.hash, num, sp.round, setID)
		case 5:
			sig = signVote[N](e.key, true, b.hash, num, sp.round, setID)
		}
		pcs = append(pcs, fg.SignedPrecommit[hash.H256, N, prim.AuthoritySignature, prim.AuthorityID]{
			Precommit: fg.Precommit[hash.H256, N]{TargetHash: h256(b.hash), TargetNumber: N(num)},
			Signature: sig,
			ID:        jpub(e.key),
		})
	}
	tb := s.blocks[sp.target]
	commit := prim.Commit[hash.H256, N]{
		TargetHash:   h256(tb.hash),
		TargetNumber: N(uint64(int64(tb.number) + int64(sp.tgtDelta))),
		Precommits:   pcs,
	}
	var out []byte
	out = append(out, scale.MustMarshal(sp.round)...)
	out = append(out, scale.MustMarshal(commit)...)
	// votes_ancestries: Vec<Header> = compact length followed by the real encodings of the real headers
	out = append(out, scale.MustMarshal(uint(len(headerOrder)))...)
	allPlain := true
	var gen []pruntime.Header[N, hash.H256]
	for _, hi := range headerOrder {
		b := s.headerOf(sp.headers[hi])
		out = append(out, b.enc...)
		if b.digest {
			allPlain = false
		} else {
			gen = append(gen, generic.NewHeader[N, hash.H256, pruntime.BlakeTwo256](N(b.number), h256(b.hdr.ExtrinsicsRoot), h256(b.hdr.StateRoot), h256(b.hdr.ParentHash), pruntime.Digest{}))
		}
	}
	if allPlain {
		// self-check of the harness: for digest-free headers the bytes above must equal what the generic
		// justification type encodes to
		ref := scale.MustMarshal(prim.GrandpaJustification[hash.H256, N]{Round: sp.round, Commit: commit, VoteAncestries: gen})
		if !bytes.Equal(ref, out) {
			panic(fmt.Sprintf("harness: spliced justification encoding differs from the generic type's encoding\n%x\n%x", out, ref))
		}
	}
	return out
}

func (s *jsim) headerOf(h int) *jblock {
	if h >= 0 {
		return s.blocks[h]
	}
	return s.forged[-1-h]
}

// ---- the oracle -------------------------------------------------------------

type verdict int

const (
	unspecified verdict = iota
	mustAccept
	mustReject
)

func (v verdict) String() string { return [...]string{"unspecified", "must-accept", "must-reject"}[v] }

// oracle evaluates the statement's predicate over the TRUE tree. mw: summed weight per member key.
func (s *jsim) oracle(sp *jspec, mw map[int]uint64) (verdict, string) {
	v, why, _ := s.oracle3(sp, mw)
	return v, why
}

// oracle3 also reports whether more than f of the weight equivocates among the validly signed member precommits.
func (s *jsim) oracle3(sp *jspec, mw map[int]uint64) (v verdict, why string, eqvOver bool) {
	if len(sp.entries) > 0 {
		keys := make([]int, 0, len(mw))
		for k := range mw {
			keys = append(keys, k)
		}
		sort.Ints(keys)
		w := make([]uint64, len(keys))
		pos := map[int]int{}
		for i, k := range keys {
			pos[k], w[i] = i, mw[k]
		}
		pc := newPhaseVotes(w)
		for _, e := range sp.entries {
			if _, member := mw[e.key]; member && e.sig == 0 {
				pc.add(pos[e.key], e.block)
			}
		}
		eqvOver = pc.eqvWeight() > faulty(pc.total())
	}
	v, why = s.oracleInner(sp, mw)
	return
}

func (s *jsim) oracleInner(sp *jspec, mw map[int]uint64) (verdict, string) {
	if len(sp.entries) == 0 {
		return mustReject, "no precommits"
	}
	if sp.target != sp.ask || sp.tgtDelta != 0 {
		return mustReject, "commit target is not the block asked about"
	}
	var total uint64
	keys := make([]int, 0, len(mw))
	for k, w := range mw {
		total += w
		keys = append(keys, k)
	}
	sort.Ints(keys)
	pos := map[int]int{}
	w := make([]uint64, len(keys))
	for i, k := range keys {
		pos[k] = i
		w[i] = mw[k]
	}
	junk, misnumbered := false, false
	pc := newPhaseVotes(w)
	for _, e := range sp.entries {
		if e.numDelta != 0 {
			misnumbered = true
		}
		if _, member := mw[e.key]; !member || e.sig != 0 {
			junk = true
			continue
		}
		pc.add(pos[e.key], e.block)
	}
	if misnumbered {
		return unspecified, "a precommit names a block hash with another block's number"
	}
	if junk {
		// entries from outside the set or with invalid signatures: the statement does not say whether they
		// spoil the justification; it does say that without a supermajority of validly signed member weight on
		// the target or its descendants nothing can be accepted
		if !super(pc.weight(s.t, sp.target), total) {
			return mustReject, "validly signed member weight on the target is no supermajority"
		}
		return unspecified, "foreign or badly signed entries next to a sufficient set"
	}
	// all entries are validly signed member precommits
	if pc.eqvWeight() > faulty(total) {
		// more equivocating weight than the f the protocol tolerates: the GHOST of the definition is not unique
		// (an equivocator counts for every block, voted or not), the statement fixes no verdict
		return unspecified, "equivocating weight above f"
	}
	low := sp.entries[0].block
	for _, e := range sp.entries {
		if s.t.number[e.block] < s.t.number[low] {
			low = e.block
		}
	}
	for _, e := range sp.entries {
		if !s.t.isDesc(low, e.block) {
			return mustReject, "a precommit is not on the chain of the lowest precommit"
		}
	}
	if !s.t.isDesc(low, sp.target) {
		return mustReject, "target is not at or above the lowest precommit"
	}
	if !super(pc.weight(s.t, sp.target), total) {
		return mustReject, "no supermajority on the target or its descendants"
	}
	// GHOST from the lowest precommit
	g, ok, amb := ghost(s.t, pc, low)
	if amb {
		return unspecified, "equivocating weight makes the precommit GHOST ambiguous"
	}
	if !ok || g != sp.target {
		return mustReject, fmt.Sprintf("precommit GHOST is not the target (it is b%d)", g)
	}
	// ancestry: exactly the blocks strictly above the lowest precommit up to every precommit
	need := map[common.Hash]bool{}
	for _, e := range sp.entries {
		for x := e.block; x != low; x = s.t.parent[x] {
			need[s.blocks[x].hash] = true
		}
	}
	got := map[common.Hash]bool{}
	for _, h := range sp.headers {
		got[s.headerOf(h).hash] = true
	}
	for h := range need {
		if !got[h] {
			return mustReject, "an ancestry header is missing"
		}
	}
	for h := range got {
		if !need[h] {
			return mustReject, "an ancestry header is unused"
		}
	}
	return mustAccept, "valid"
}

// ---- the run ------------------------------------------------------------------

func runJust(k *kernel.K) {
	s := &jsim{k: k}
	s.weighted = k.Bool(1, 3, "weighted-listings")
	// --- the server's tree of real headers
	nb := k.Range(2, 10, "blocks")
	s.t = &dtree{}
	gen := s.mkHeader(common.Hash{}, 0, 0, false)
	gen.parent = -1
	s.blocks = append(s.blocks, gen)
	s.t.parent = append(s.t.parent, -1)
	s.t.number = append(s.t.number, 0)
	digests := k.Choose(3, "header-digests") // 0 none, 1 some, 2 all
	// bushy runs: many short sibling forks, and signers that spread over the leaves below the target, so
	// that a supermajority only exists after the weights of several sibling subtrees are merged
	s.bushy = k.Bool(1, 4, "knob-bushy-tree")
	if s.bushy {
		nb = k.Range(6, 12, "bushy-blocks")
	}
	// merge-shape runs: the tree the precommit GHOST needs its merge step for - a base B with two
	// children P and Q, P with two or three voted children, Q with one - below a short stem
	var shape []int
	if k.Bool(1, 5, "knob-merge-shape") {
		stem := k.Choose(3, "merge-stem")
		kidsP := 2 + k.Choose(2, "merge-children-of-p")
		b := stem // index of B (0 = genesis when stem == 0)
		shape = make([]int, 0, 12)
		for i := 1; i <= stem; i++ {
			shape = append(shape, i-1)
		}
		pIx := stem + 1
		qIx := stem + 2
		shape = append(shape, b, b) // P, Q
		for i := 0; i < kidsP; i++ {
			shape = append(shape, pIx)
		}
		shape = append(shape, qIx) // Y
		if k.Bool(1, 2, "merge-deeper") {
			shape = append(shape, pIx+2) // a child below the first child of P
			if k.Bool(1, 2, "merge-deeper-second-child") {
				shape = append(shape, pIx+2) // and a sibling of it: two forks on top of each other below B
			}
		}
		nb = len(shape) + 1
		s.mergeB, s.mergeP = b, pIx
		s.bushy = false
	}
	for i := 1; i < nb; i++ {
		p := i - 1
		if shape != nil {
			p = shape[i-1]
		} else if s.bushy {
			if k.Bool(2, 3, "bushy-fork") {
				lo := i - 5
				if lo < 0 {
					lo = 0
				}
				p = lo + k.Choose(i-lo, "bushy-parent")
			}
		} else if k.Bool(1, 3, "fork") {
			p = k.Choose(i, "parent")
		}
		wd := digests == 2 || (digests == 1 && k.Bool(1, 2, "digest"))
		b := s.mkHeader(s.blocks[p].hash, s.blocks[p].number+1, i, wd)
		b.parent = p
		s.blocks = append(s.blocks, b)
		s.t.parent = append(s.t.parent, p)
		s.t.number = append(s.t.number, b.number)
	}
	for i := 0; i < 2; i++ {
		f := s.mkHeader(common.Hash{0xf0, byte(i)}, uint64(1+i), 200+i, false)
		s.forged = append(s.forged, f)
	}
	// --- the receiving node
	s.sets = []authSet{s.drawSet(0, 0)}
	disk := simdisk.NewDisk()
	db := disk.Open()
	var err error
	s.bs, err = state.NewBlockStateFromGenesis(db, state.NewTries(), gen.hdr, noTelemetry{})
	if err != nil {
		panic(err)
	}
	s.gs, err = state.NewGrandpaStateFromGenesis(db, s.bs, s.sets[0].grandpaVoters(), noTelemetry{})
	if err != nil {
		panic(err)
	}
	for _, b := range s.blocks[1:] {
		if b.digest { // block import needs the BABE pre-digest; the verifier never asks the block state anyway
			_ = s.bs.AddBlock(&types.Block{Header: *b.hdr, Body: *types.NewBody([]types.Extrinsic{})})
		}
	}
	synctest.Wait()
	lk := jkey(9)
	seed := lk.Seed()
	lkp, err := led.NewKeypairFromSeed(seed[:])
	if err != nil {
		panic(err)
	}
	s.svc, err = gp.NewService(&gp.Config{BlockState: s.bs, GrandpaState: s.gs, Network: noNet{}, Voters: s.sets[0].grandpaVoters(),
		Keypair: lkp, Authority: false, Interval: time.Second, Telemetry: noTelemetry{}})
	if err != nil {
		panic(err)
	}
	nJust := k.Range(1, 4, "justifications")
	for j := 0; j < nJust; j++ {
		if len(s.sets) < 3 && k.Bool(1, 4, "authority-set-change") {
			last := s.sets[len(s.sets)-1]
			at := last.after + uint64(1+k.Choose(3, "change-at"))
			if len(s.sets) == 1 {
				at = uint64(k.Choose(4, "change-at"))
			}
			ns := s.drawSet(last.id+1, at)
			if err := s.gs.SetNextChange(ns.grandpaVoters(), uint(at)); err != nil {
				panic(err)
			}
			if _, err := s.gs.IncrementSetID(); err != nil {
				panic(err)
			}
			s.sets = append(s.sets, ns)
			k.Event("set-change", "set %d applies after block #%d: keys %v", ns.id, at, ns.listing)
			k.Fault("authority-set-change")
		}
		s.oneJustification(j)
	}
}

func (sp *jspec) tag(t string) { sp.tags[t] = true }

func (sp *jspec) tagString() string {
	var ts []string
	for t := range sp.tags {
		ts = append(ts, t)
	}
	sort.Strings(ts)
	if len(ts) == 0 {
		return "plain"
	}
	return strings.Join(ts, "+")
}

// acceptClass names the class of a wrongly rejected valid justification by the most specific feature of the
// input (triage showed that each of these features alone makes the unchanged tree reject); full tags otherwise.
func (sp *jspec) acceptClass() string {
	for _, t := range []string{"header-with-digest", "key-listed-twice", "mixed-heights"} {
		if sp.tags[t] {
			return t
		}
	}
	return sp.tagString()
}

// rejectClass / invariantClass: same idea for the other oracles (a key listed twice is the only feature that
// made the unchanged tree accept an invalid justification; mixed heights the only one that made the verdict
// depend on order or width).
func (sp *jspec) rejectClass() string {
	if sp.tags["key-listed-twice"] {
		return "key-listed-twice"
	}
	return sp.tagString()
}

func (sp *jspec) invariantClass() string {
	if sp.tags["mixed-heights"] {
		return "mixed-heights"
	}
	return sp.tagString()
}

func (s *jsim) descendantsOf(b int, strict bool) []int {
	var out []int
	for i := range s.blocks {
		if s.t.isDesc(b, i) && !(strict && i == b) {
			out = append(out, i)
		}
	}
	return out
}

func (s *jsim) oneJustification(j int) {
	k := s.k
	nb := len(s.blocks)
	sp := &jspec{tags: map[string]bool{}}
	sp.round = uint64(1 + k.Choose(3, "round"))
	sp.ask = 1 + k.Choose(nb-1, "block")
	if s.mergeP > 0 && k.Bool(3, 4, "merge-ask") {
		sp.ask = []int{s.mergeP, s.mergeP, s.mergeB, s.mergeP + 2}[k.Choose(4, "merge-ask-which")]
		if sp.ask == 0 {
			sp.ask = s.mergeP
		}
	}
	sp.target = sp.ask
	if k.Bool(1, 14, "commit-target-differs") {
		if k.Bool(1, 3, "commit-target-number-off") {
			sp.tgtDelta = 1
		} else {
			sp.target = k.Choose(nb, "commit-target")
		}
		if sp.target != sp.ask || sp.tgtDelta != 0 {
			sp.tag("target-differs")
		}
	}
	set := s.setFor(s.blocks[sp.ask].number)
	if set.id != 0 {
		sp.tag("later-set")
	}
	mwService := set.memberWeights(false)
	mwGeneric := set.memberWeights(s.weighted)
	if len(mwService) != len(set.listing) {
		sp.tag("key-listed-twice")
	}
	if s.weighted {
		sp.tag("weighted")
	}
	// --- who signs: members in a tape-chosen order until a supermajority (of the generic weights) is reached
	members := make([]int, 0, len(mwGeneric))
	for key := range mwGeneric {
		members = append(members, key)
	}
	sort.Ints(members)
	mp := tapePerm(k, len(members), "signer-order")
	var totalW, acc uint64
	for _, w := range mwGeneric {
		totalW += w
	}
	amount := k.Choose(8, "how-many-signers") // 0..4 just enough, 5 everybody, 6..7 one too few
	if (s.bushy || s.mergeP > 0) && k.Bool(2, 3, "bushy-everybody-signs") {
		amount = 5
	}
	above := s.descendantsOf(sp.target, true)
	onChild := -1 // nearly everybody votes above the target: the precommit GHOST is then higher than the commit target
	if len(above) > 0 && k.Bool(1, 12, "most-vote-above-target") {
		onChild = above[k.Choose(len(above), "most-vote-above-which")]
		sp.tag("most-above-target")
		amount = 5
	}
	var signers []int
	for _, i := range mp {
		if amount <= 4 || amount >= 6 {
			if super(acc, totalW) {
				break
			}
		}
		signers = append(signers, members[i])
		acc += mwGeneric[members[i]]
	}
	if amount >= 6 && len(signers) > 0 {
		signers = signers[:len(signers)-1]
		sp.tag("one-signer-short")
	}
	// --- what they vote for
	var below []int
	for x := s.t.parent[sp.target]; x >= 0; x = s.t.parent[x] {
		below = append(below, x)
	}
	for _, key := range signers {
		b := sp.target
		switch c := k.Choose(12, "vote"); {
		case onChild >= 0:
			if !k.Bool(1, 5, "but-this-one-on-target") {
				b = onChild
			}
		case s.mergeP > 0 && c <= 9:
			// spread over the whole shape: the leaves below P and Q mostly, sometimes P, Q, B or the stem
			if c <= 6 {
				b = s.mergeP + 2 + k.Choose(nb-s.mergeP-2, "merge-vote-leaf")
			} else {
				b = k.Choose(nb, "merge-vote-any")
			}
		case s.bushy && c <= 5 && len(above) > 0:
			b = above[k.Choose(len(above), "vote-descendant")]
		case s.bushy && c >= 8 && c != 10:
			b = k.Choose(nb, "vote-anywhere")
		case c <= 6:
		case c <= 8 && len(above) > 0:
			b = above[k.Choose(len(above), "vote-descendant")]
		case c == 9 && len(below) > 0:
			b = below[k.Choose(len(below), "vote-ancestor")]
		case c >= 10:
			b = k.Choose(nb, "vote-anywhere")
		}
		sp.entries = append(sp.entries, jentry{key: key, block: b})
	}
	// --- Byzantine extras
	if len(sp.entries) > 0 && k.Bool(1, 8, "same-precommit-twice") {
		sp.entries = append(sp.entries, sp.entries[k.Choose(len(sp.entries), "which-twice")])
		sp.tag("precommit-twice")
	}
	if len(sp.entries) > 0 && k.Bool(1, 8, "equivocation") {
		e := sp.entries[k.Choose(len(sp.entries), "equivocator")]
		e.block = k.Choose(nb, "equivocation-block")
		sp.entries = append(sp.entries, e)
		sp.tag("second-vote-of-a-signer")
	}
	if k.Bool(1, 10, "non-member") {
		key := 7 + k.Choose(3, "non-member-key")
		if k.Bool(1, 2, "former-or-future-member") {
			key = k.Choose(7, "any-key")
		}
		if _, in := mwGeneric[key]; !in {
			b := sp.target
			if k.Bool(1, 2, "non-member-elsewhere") {
				b = k.Choose(nb, "non-member-block")
			}
			sp.entries = append(sp.entries, jentry{key: key, block: b})
			sp.tag("non-member")
		}
	}
	if len(sp.entries) > 0 && k.Bool(1, 7, "bad-signature") {
		kind := 1 + k.Choose(5, "bad-signature-kind")
		if k.Bool(1, 3, "all-signatures-bad") && kind != 1 {
			for i := range sp.entries {
				sp.entries[i].sig = kind
			}
		} else {
			sp.entries[k.Choose(len(sp.entries), "bad-signature-which")].sig = kind
		}
		sp.tag([]string{"", "garbage-signature", "signed-for-other-round", "signed-for-other-set", "signed-by-other-key", "signed-as-prevote"}[kind])
	}
	if len(sp.entries) > 0 && k.Bool(1, 24, "number-mismatch") {
		sp.entries[k.Choose(len(sp.entries), "number-mismatch-which")].numDelta = 1
		sp.tag("precommit-number-mismatch")
	}
	if len(sp.entries) == 0 {
		sp.tag("no-precommits")
	}
	// built order of the precommits
	ep := tapePerm(k, len(sp.entries), "precommit-order")
	ents := make([]jentry, len(sp.entries))
	for i, p := range ep {
		ents[i] = sp.entries[p]
	}
	sp.entries = ents
	// --- ancestry headers: what connects every precommit to the lowest one ...
	if len(sp.entries) > 0 {
		low := sp.entries[0].block
		for _, e := range sp.entries {
			if s.t.number[e.block] < s.t.number[low] {
				low = e.block
			}
		}
		seen := map[int]bool{}
		heights := map[uint64]bool{}
		for _, e := range sp.entries {
			heights[s.t.number[e.block]] = true
			for x := e.block; x >= 0 && x != low && s.t.number[x] > s.t.number[low]; x = s.t.parent[x] {
				if !seen[x] {
					seen[x] = true
					sp.headers = append(sp.headers, x)
				}
			}
			if !s.t.isDesc(low, e.block) {
				sp.tag("precommit-off-the-lowest-chain")
			} else if !s.t.isDesc(sp.target, e.block) {
				sp.tag("precommit-below-target")
			}
		}
		if len(heights) > 1 {
			sp.tag("mixed-heights")
		}
		// ... and the deviations
		if len(sp.headers) > 0 && k.Bool(1, 8, "header-missing") {
			i := k.Choose(len(sp.headers), "header-missing-which")
			sp.headers = append(sp.headers[:i], sp.headers[i+1:]...)
			sp.tag("header-missing")
		}
		if k.Bool(1, 8, "header-extra") {
			switch c := k.Choose(4, "header-extra-kind"); {
			case c == 0 && low != 0:
				sp.headers = append(sp.headers, low)
				sp.tag("extra-header-of-lowest")
			case c == 1:
				x := k.Choose(nb, "header-extra-block")
				dup := false
				for _, h := range sp.headers {
					dup = dup || h == x
				}
				if !dup && x != 0 {
					sp.headers = append(sp.headers, x)
					sp.tag("extra-header")
				}
			case c == 2:
				sp.headers = append(sp.headers, -1-k.Choose(len(s.forged), "forged-header"))
				sp.tag("extra-forged-header")
			case c == 3 && len(sp.headers) > 0:
				sp.headers = append(sp.headers, sp.headers[k.Choose(len(sp.headers), "header-twice")])
				sp.tag("header-twice")
			}
		}
	}
	for _, h := range sp.headers {
		if s.headerOf(h).digest {
			sp.tag("header-with-digest")
		}
	}
	if len(sp.headers) > 0 {
		sp.tag("with-ancestry")
	}
	// --- deliveries: built order plus 1-2 tape-chosen permutations
	orders := [][2][]int{{identity(len(sp.entries)), identity(len(sp.headers))}}
	for i, n := 0, 1+k.Choose(2, "permutations"); i < n; i++ {
		orders = append(orders, [2][]int{tapePerm(k, len(sp.entries), "permute-precommits"), tapePerm(k, len(sp.headers), "permute-headers")})
	}
	ab := s.blocks[sp.ask]
	vsGeneric := set.voterSet(s.weighted)
	type res struct{ svc, g32, g64 bool }
	var rs []res
	var errs []string
	for _, o := range orders {
		enc32 := encodeJust[uint32](s, sp, set.id, o[0], o[1])
		enc64 := encodeJust[uint64](s, sp, set.id, o[0], o[1])
		_, _, e1 := s.svc.VerifyBlockJustification(ab.hash, uint(ab.number), enc32)
		_, e2 := cg.DecodeGrandpaJustificationVerifyFinalizes[hash.H256, uint32, pruntime.BlakeTwo256](enc32,
			cg.HashNumber[hash.H256, uint32]{Hash: h256(ab.hash), Number: uint32(ab.number)}, set.id, *vsGeneric)
		_, e3 := cg.DecodeGrandpaJustificationVerifyFinalizes[hash.H256, uint64, pruntime.BlakeTwo256](enc64,
			cg.HashNumber[hash.H256, uint64]{Hash: h256(ab.hash), Number: ab.number}, set.id, *vsGeneric)
		rs = append(rs, res{e1 == nil, e2 == nil, e3 == nil})
		errs = append(errs, fmt.Sprintf("service: %v | generic u32: %v | generic u64: %v", e1, e2, e3))
	}
	vS, whyS, eqvOverS := s.oracle3(sp, mwService)
	vG, whyG, eqvOverG := s.oracle3(sp, mwGeneric)
	if eqvOverS || eqvOverG {
		k.Probe("equivocating-weight-above-f")
	}
	acc3 := func(b bool) string {
		if b {
			return "accepted"
		}
		return "rejected"
	}
	k.Event("justification:"+sp.tagString()+":"+vG.String()+":"+acc3(rs[0].g64), "#%d for block %d(#%d) set %d round %d: oracle service=%s generic=%s; built order: %s",
		j, sp.ask, ab.number, set.id, sp.round, vS, vG, errs[0])
	if len(sp.tags) > 0 {
		for t := range sp.tags {
			switch t {
			case "later-set", "weighted", "with-ancestry", "mixed-heights", "key-listed-twice", "header-with-digest":
			default:
				k.Fault(t)
			}
		}
	}
	for _, t := range []string{"mixed-heights", "key-listed-twice", "header-with-digest", "later-set", "with-ancestry"} {
		if sp.tags[t] && vG == mustAccept {
			k.Probe("valid-justification:" + t)
		}
	}
	if vG == mustAccept && sp.tags["mixed-heights"] {
		k.Nontriv = true
	}
	k.Probe("oracle:" + vG.String())
	if vG == mustReject {
		if i := strings.Index(whyG, " ("); i > 0 {
			k.Probe("must-reject:" + whyG[:i])
		} else {
			k.Probe("must-reject:" + whyG)
		}
	}
	detail := func() string { return s.describe(sp, set, orders, errs) }
	// 1. verdict against the predicate, per path, built order first
	for oi := range orders {
		ord := "built-order"
		if oi > 0 {
			ord = "permuted"
		}
		for _, p := range []struct {
			name string
			got  bool
			want verdict
			why  string
		}{{"service", rs[oi].svc, vS, whyS}, {"generic-u64", rs[oi].g64, vG, whyG}, {"generic-u32", rs[oi].g32, vG, whyG}} {
			if p.want == mustAccept && !p.got {
				k.Violate("C19", "valid-rejected/"+p.name, ord+":"+sp.acceptClass(), "%s path rejects a justification the statement accepts (%s; features: %s)\n%s", p.name, ord, sp.tagString(), detail())
			}
			if p.want == mustReject && p.got {
				k.Violate("C19", "invalid-accepted/"+p.name, sp.rejectClass(), "%s path accepts a justification the statement rejects: %s (%s; features: %s)\n%s", p.name, p.why, ord, sp.tagString(), detail())
			}
		}
	}
	if sp.tags["precommit-number-mismatch"] {
		return // nothing is specified for votes naming a hash with a foreign number (panics are still caught)
	}
	// 2. the verdict must not depend on the order of precommits (and headers); not asserted when more than f
	// of the weight equivocates (then the round's answer depends on which vote of an equivocator it sees first,
	// and the definition gives no unique GHOST either)
	for oi := 1; oi < len(orders) && !eqvOverS && !eqvOverG; oi++ {
		if rs[oi] != rs[0] {
			k.Violate("C19", "order-invariance", sp.invariantClass(), "verdict changes with the order of precommits/headers: built order svc=%v u32=%v u64=%v, permutation %d svc=%v u32=%v u64=%v\n%s",
				rs[0].svc, rs[0].g32, rs[0].g64, oi, rs[oi].svc, rs[oi].g32, rs[oi].g64, detail())
		}
	}
	// 3. ... nor on the width of block numbers
	if rs[0].g32 != rs[0].g64 {
		k.Violate("C19", "width-invariance", sp.invariantClass(), "32-bit instantiation %s, 64-bit instantiation %s the same justification\n%s", acc3(rs[0].g32), acc3(rs[0].g64), detail())
	}
	// 4. service path (unit weight per listing) against the generic 32-bit path when the listings are unit weight too
	if !s.weighted && rs[0].svc != rs[0].g32 {
		k.Violate("C19", "service-vs-generic", sp.invariantClass(), "Service.VerifyBlockJustification %s, DecodeGrandpaJustificationVerifyFinalizes[uint32] %s\n%s", acc3(rs[0].svc), acc3(rs[0].g32), detail())
	}
}

func identity(n int) []int {
	p := make([]int, n)
	for i := range p {
		p[i] = i
	}
	return p
}

func (s *jsim) describe(sp *jspec, set *authSet, orders [][2][]int, errs []string) string {
	var b strings.Builder
	b.WriteString("tree:")
	for i, x := range s.blocks {
		d := ""
		if x.digest {
			d = "*"
		}
		if i == 0 {
			fmt.Fprintf(&b, " b0#0(genesis)")
		} else {
			fmt.Fprintf(&b, " b%d<-b%d#%d%s", x.parent, i, x.number, d)
		}
	}
	fmt.Fprintf(&b, "   (* = header carries a digest item)\nset %d (block numbers > %d), listing key(weight):", set.id, set.after)
	for i, key := range set.listing {
		w := uint64(1)
		if s.weighted {
			w = set.weights[i]
		}
		fmt.Fprintf(&b, " k%d(%d)", key, w)
	}
	if s.weighted {
		b.WriteString("  [service path: weight 1 per listing]")
	}
	fmt.Fprintf(&b, "\nasked about b%d; justification: round %d, commit target b%d", sp.ask, sp.round, sp.target)
	if sp.tgtDelta != 0 {
		fmt.Fprintf(&b, " (number +%d)", sp.tgtDelta)
	}
	b.WriteString(", precommits:")
	for _, e := range sp.entries {
		fmt.Fprintf(&b, " k%d->b%d", e.key, e.block)
		if e.numDelta != 0 {
			fmt.Fprintf(&b, "(number +%d)", e.numDelta)
		}
		if e.sig != 0 {
			fmt.Fprintf(&b, "(%s)", []string{"", "garbage sig", "sig for round+1", "sig for set+1", "sig by next key", "sig as prevote"}[e.sig])
		}
	}
	b.WriteString("; ancestry headers:")
	for _, h := range sp.headers {
		if h >= 0 {
			fmt.Fprintf(&b, " b%d", h)
		} else {
			fmt.Fprintf(&b, " forged%d", -1-h)
		}
	}
	for i, o := range orders {
		fmt.Fprintf(&b, "\norder %d precommits %v headers %v => %s", i, o[0], o[1], errs[i])
	}
	return b.String()
}
