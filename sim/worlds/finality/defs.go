package finality

// GrandpaDefs: the GRANDPA definitions of vote weight, supermajority, GHOST,
// finalised block, estimate and completability, computed directly from a vote
// multiset over a small block tree. Written from the property statements (C19,
// C20) and the GRANDPA paper; it shares no code and no formula with
// pkg/finality-grandpa.
//
//   weight(B)      = sum of the weights of voters whose (single) vote is for B or a
//                    descendant of B, plus the weight of every equivocator (a voter
//                    with two or more different votes in the phase)
//   supermajority  = more than two thirds of the total weight: 3*w > 2*total
//   f              = the largest weight that is less than one third: 3*f < total
//   GHOST(base)    = none if the base has no supermajority; else descend from the
//                    base, always into the child that has a supermajority, and stop
//                    where no child has one
//   finalised      = highest block on the chain base..prevote-GHOST with a
//                    supermajority of precommit weight
//   possible(B)    = some completion of the precommits seen so far gives B a
//                    supermajority: voters not yet seen may vote anything or
//                    equivocate, voters already seen may turn into equivocators, and
//                    the number of equivocators never exceeds f (unit weights only)
//   estimate       = highest block on the chain base..prevote-GHOST that is possible
//   completable    = estimate exists and (estimate != prevote-GHOST or no child of
//                    the prevote-GHOST - known or not yet known - is possible)

// dtree is a block tree: block 0 is the base, parent[i] < i.
type dtree struct {
	parent []int
	number []uint64
}

func (t *dtree) n() int { return len(t.parent) }

// isDesc: b is anc or reaches anc through parent links.
func (t *dtree) isDesc(anc, b int) bool {
	for b >= 0 {
		if b == anc {
			return true
		}
		b = t.parent[b]
	}
	return false
}

func (t *dtree) children(b int) []int {
	var out []int
	for i := range t.parent {
		if t.parent[i] == b {
			out = append(out, i)
		}
	}
	return out
}

// chainTo returns from..to inclusive (from must be an ancestor of to).
func (t *dtree) chainTo(from, to int) []int {
	var rev []int
	for x := to; ; x = t.parent[x] {
		rev = append(rev, x)
		if x == from {
			break
		}
		if x < 0 {
			panic("chainTo: not an ancestor")
		}
	}
	for i, j := 0, len(rev)-1; i < j; i, j = i+1, j-1 {
		rev[i], rev[j] = rev[j], rev[i]
	}
	return rev
}

// phaseVotes is what has been seen of one phase: per voter the distinct blocks voted for.
type phaseVotes struct {
	w     []uint64 // voter weights
	votes [][]int  // per voter: distinct blocks voted for, in arrival order
}

func newPhaseVotes(w []uint64) *phaseVotes {
	return &phaseVotes{w: w, votes: make([][]int, len(w))}
}

// add records a vote; duplicates of an already seen (voter, block) pair change nothing.
func (p *phaseVotes) add(voter, block int) {
	for _, b := range p.votes[voter] {
		if b == block {
			return
		}
	}
	p.votes[voter] = append(p.votes[voter], block)
}

func (p *phaseVotes) total() uint64 {
	var s uint64
	for _, w := range p.w {
		s += w
	}
	return s
}

func (p *phaseVotes) equivocator(v int) bool { return len(p.votes[v]) >= 2 }

func (p *phaseVotes) eqvWeight() uint64 {
	var s uint64
	for v := range p.w {
		if p.equivocator(v) {
			s += p.w[v]
		}
	}
	return s
}

// seenWeight is the weight of the voters that have voted at all.
func (p *phaseVotes) seenWeight() uint64 {
	var s uint64
	for v := range p.w {
		if len(p.votes[v]) > 0 {
			s += p.w[v]
		}
	}
	return s
}

// weight of block b by the definition above.
func (p *phaseVotes) weight(t *dtree, b int) uint64 {
	var s uint64
	for v := range p.w {
		switch {
		case p.equivocator(v):
			s += p.w[v]
		case len(p.votes[v]) == 1 && t.isDesc(b, p.votes[v][0]):
			s += p.w[v]
		}
	}
	return s
}

func super(w, total uint64) bool { return 3*w > 2*total }

// faulty is f: the largest weight strictly below one third of the total.
func faulty(total uint64) uint64 {
	if total == 0 {
		return 0
	}
	return (total - 1) / 3
}

// ghost descends from base. ok=false: the base has no supermajority.
// ambiguous=true: two children had a supermajority at some step (only possible
// when the equivocating weight exceeds f; the definition does not pick one).
func ghost(t *dtree, p *phaseVotes, base int) (g int, ok, ambiguous bool) {
	total := p.total()
	if !super(p.weight(t, base), total) {
		return -1, false, false
	}
	cur := base
	for {
		next := -1
		for _, c := range t.children(cur) {
			if super(p.weight(t, c), total) {
				if next >= 0 {
					return cur, true, true
				}
				next = c
			}
		}
		if next < 0 {
			return cur, true, false
		}
		cur = next
	}
}

// finalizedDef: highest block on base..g with a supermajority of precommit weight.
func finalizedDef(t *dtree, pc *phaseVotes, base, g int) (int, bool) {
	best, ok := -1, false
	for _, b := range t.chainTo(base, g) {
		if super(pc.weight(t, b), pc.total()) {
			best, ok = b, true
		}
	}
	return best, ok
}

// possibleDef enumerates the completions of the precommits (unit weights).
// b == -1 stands for a block nobody has voted for or above (a child of the
// prevote-GHOST that is not known yet).
func possibleDef(t *dtree, pc *phaseVotes, b int) bool {
	n := len(pc.w)
	f := int(faulty(uint64(n)))
	// category per voter: 0 unseen, 1 single vote for b or a descendant, 2 single vote elsewhere, 3 equivocator
	cat := make([]int, n)
	for v := 0; v < n; v++ {
		switch {
		case len(pc.votes[v]) == 0:
			cat[v] = 0
		case pc.equivocator(v):
			cat[v] = 3
		case b >= 0 && t.isDesc(b, pc.votes[v][0]):
			cat[v] = 1
		default:
			cat[v] = 2
		}
	}
	var rec func(v, forB, eqv int) bool
	rec = func(v, forB, eqv int) bool {
		if eqv > f {
			return false
		}
		if v == n {
			return super(uint64(forB+eqv), uint64(n))
		}
		switch cat[v] {
		case 0: // unseen: votes for b, votes elsewhere, or equivocates
			return rec(v+1, forB+1, eqv) || rec(v+1, forB, eqv) || rec(v+1, forB, eqv+1)
		case 1: // stays, or equivocates
			return rec(v+1, forB+1, eqv) || rec(v+1, forB, eqv+1)
		case 2:
			return rec(v+1, forB, eqv) || rec(v+1, forB, eqv+1)
		default:
			return rec(v+1, forB, eqv+1)
		}
	}
	return rec(0, 0, 0)
}

// estimateDef: highest possible block on base..g.
func estimateDef(t *dtree, pc *phaseVotes, base, g int) (int, bool) {
	best, ok := -1, false
	for _, b := range t.chainTo(base, g) {
		if possibleDef(t, pc, b) {
			best, ok = b, true
		}
	}
	return best, ok
}

func completableDef(t *dtree, pc *phaseVotes, g, est int, estOK bool) bool {
	if !estOK {
		return false
	}
	if est != g {
		return true
	}
	for _, c := range t.children(g) {
		if possibleDef(t, pc, c) {
			return false
		}
	}
	return !possibleDef(t, pc, -1)
}
