package finality

import (
	"fmt"
	"strings"

	fg "github.com/ChainSafe/gossamer/pkg/finality-grandpa"
	"github.com/ChainSafe/gossamer/verifsim/kernel"
)

// ---- C20: finality-grandpa Round against GrandpaDefs -------------------------

// rchain is the block store stub: fg.Chain over the generated tree.
type rchain struct {
	t     *dtree
	name  []string
	index map[string]int
}

func (c *rchain) Ancestry(base, block string) ([]string, error) {
	bi, ok1 := c.index[base]
	xi, ok2 := c.index[block]
	if !ok1 || !ok2 || !c.t.isDesc(bi, xi) {
		return nil, fmt.Errorf("block not descendent of base")
	}
	var out []string
	if xi == bi {
		return out, nil
	}
	for x := c.t.parent[xi]; x != bi; x = c.t.parent[x] {
		out = append(out, c.name[x])
	}
	return out, nil
}

func (c *rchain) IsEqualOrDescendantOf(base, block string) bool {
	bi, ok1 := c.index[base]
	xi, ok2 := c.index[block]
	return ok1 && ok2 && c.t.isDesc(bi, xi)
}

// rvote is one vote message on the simulated network.
type rvote struct {
	phase int // 0 prevote, 1 precommit
	voter int // index into the voter set; -1: an identity outside the voter set
	block int
}

type rround = fg.Round[string, string, uint32, string]

type rsim struct {
	k        *kernel.K
	t        *dtree
	ch       *rchain
	ids      []string
	w        []uint64
	weighted bool
	twice    int    // voter listed twice in the weight distribution (-1: none); its parts sum to its weight
	part     uint64 // weight of the first listing
}

func (s *rsim) newRound() *rround {
	iw := make([]fg.IDWeight[string], 0, len(s.ids)+1)
	for i := range s.ids {
		if i == s.twice {
			iw = append(iw, fg.IDWeight[string]{ID: s.ids[i], Weight: s.part})
			continue
		}
		iw = append(iw, fg.IDWeight[string]{ID: s.ids[i], Weight: s.w[i]})
	}
	if s.twice >= 0 {
		iw = append(iw, fg.IDWeight[string]{ID: s.ids[s.twice], Weight: s.w[s.twice] - s.part})
	}
	// the voter set is handed over in an order unrelated to the id order
	vs := fg.NewVoterSet(iw)
	if vs == nil {
		panic("nil voter set")
	}
	return fg.NewRound[string, string, uint32, string](fg.RoundParams[string, string, uint32]{
		RoundNumber: 1,
		Voters:      *vs,
		Base:        fg.HashNumber[string, uint32]{Hash: s.ch.name[0], Number: uint32(s.t.number[0])},
	})
}

func (s *rsim) bname(b int) string {
	if b < 0 {
		return "none"
	}
	return fmt.Sprintf("%s#%d", s.ch.name[b], s.t.number[b])
}

func (s *rsim) hn(x *fg.HashNumber[string, uint32]) string {
	if x == nil {
		return "none"
	}
	return fmt.Sprintf("%s#%d", x.Hash, x.Number)
}

func (s *rsim) same(x *fg.HashNumber[string, uint32], b int, ok bool) bool {
	if x == nil {
		return !ok
	}
	return ok && x.Hash == s.ch.name[b] && uint64(x.Number) == s.t.number[b]
}

func (s *rsim) sig(v rvote) string {
	return fmt.Sprintf("sig/%d/%d/%d", v.phase, v.voter, v.block)
}

func (s *rsim) deliver(r *rround, v rvote) {
	id := "zz-outsider"
	if v.voter >= 0 {
		id = s.ids[v.voter]
	}
	var err error
	if v.phase == 0 {
		_, err = r.VerifImportPrevote(s.ch, fg.Prevote[string, uint32]{TargetHash: s.ch.name[v.block], TargetNumber: uint32(s.t.number[v.block])}, id, s.sig(v))
	} else {
		_, err = r.VerifImportPrecommit(s.ch, fg.Precommit[string, uint32]{TargetHash: s.ch.name[v.block], TargetNumber: uint32(s.t.number[v.block])}, id, s.sig(v))
	}
	if err != nil {
		s.k.Violate("C20", "import", "import-of-vote-on-known-descendant-of-base-failed", "import of %+v failed: %v", v, err)
	}
}

// check compares the round with GrandpaDefs over the votes seen so far.
func (s *rsim) check(r *rround, pv, pc *phaseVotes, where string, callPCGhost bool) {
	k, t := s.k, s.t
	st := r.State()
	g, gok, amb := ghost(t, pv, 0)
	if amb {
		panic("ambiguous prevote ghost although equivocating weight <= f")
	}
	if !s.same(st.PrevoteGHOST, g, gok) {
		k.Violate("C20", "prevote-ghost", "prevote-ghost-differs-from-definition"+s.tag(pv), "%s: round says prevote-GHOST=%s, definition gives %s\n%s",
			where, s.hn(st.PrevoteGHOST), s.bname(g), s.dump(pv, pc))
	}
	if gok && g != 0 {
		k.Probe("prevote-ghost-above-base")
	}
	if callPCGhost {
		pg, pgok, pamb := ghost(t, pc, 0)
		if pamb {
			panic("ambiguous precommit ghost although equivocating weight <= f")
		}
		got := r.PrecommitGHOST()
		if !s.same(got, pg, pgok) {
			k.Violate("C20", "precommit-ghost", "precommit-ghost-differs-from-definition"+s.tag(pc), "%s: round says precommit-GHOST=%s, definition gives %s\n%s",
				where, s.hn(got), s.bname(pg), s.dump(pv, pc))
		}
		if pgok && pg != 0 {
			k.Probe("precommit-ghost-above-base")
		}
	}
	fin, finOK := -1, false
	if gok {
		fin, finOK = finalizedDef(t, pc, 0, g)
	}
	if !s.same(st.Finalized, fin, finOK) {
		k.Violate("C20", "finalized", "finalized-differs-from-definition"+s.tag(pc), "%s: round says finalized=%s, definition gives %s (prevote-GHOST %s)\n%s",
			where, s.hn(st.Finalized), s.bname(fin), s.bname(g), s.dump(pv, pc))
	}
	if finOK {
		k.Probe("finalized-some-block")
		if fin != 0 {
			k.Probe("finalized-above-base")
		}
		if fin != g {
			k.Probe("finalized-below-prevote-ghost")
		}
	}
	if s.weighted {
		return
	}
	// estimate and completability: unit weights only, from the existential definition
	est, estOK, comp := -1, false, false
	if gok {
		est, estOK = estimateDef(t, pc, 0, g)
		comp = completableDef(t, pc, g, est, estOK)
	}
	if s.same(st.Estimate, est, estOK) && st.Completable == comp {
		if estOK && est != g {
			k.Probe("estimate-below-prevote-ghost")
		}
		if gok && !estOK {
			k.Probe("no-estimate-with-prevote-ghost")
		}
		if comp {
			k.Probe("completable")
			if est == g {
				k.Probe("completable-because-no-child-possible")
			}
		}
		return
	}
	// The definitions of the paper are stated for n = 3f+1 voters. The round does not
	// evaluate "possible" before a supermajority of precommit weight has been seen: it
	// reports estimate = prevote-GHOST, not completable. For n = 3f+1 that is what the
	// existential definition gives; for other n the generalisation of the definition
	// is not fixed by the statement, so only this exact shape is tolerated there.
	n := uint64(len(s.w))
	if n%3 != 1 && gok && !super(pc.seenWeight(), n) && s.same(st.Estimate, g, true) && !st.Completable {
		k.Probe("estimate-before-precommit-supermajority-differs-for-n-not-3f+1")
		return
	}
	if !s.same(st.Estimate, est, estOK) {
		k.Violate("C20", "estimate", "estimate-differs-from-definition"+s.tag(pc), "%s: round says estimate=%s, the existential definition gives %s (prevote-GHOST %s)\n%s",
			where, s.hn(st.Estimate), s.bname(est), s.bname(g), s.dump(pv, pc))
	}
	k.Violate("C20", "completable", "completable-differs-from-definition"+s.tag(pc), "%s: round says completable=%v, the existential definition gives %v (prevote-GHOST %s, estimate %s)\n%s",
		where, st.Completable, comp, s.bname(g), s.bname(est), s.dump(pv, pc))
}

// tag makes the violation class say whether equivocators were involved.
func (s *rsim) tag(p *phaseVotes) string {
	t := ""
	if p.eqvWeight() > 0 {
		t += "/with-equivocators"
	}
	if s.weighted {
		t += "/weighted"
	}
	return t
}

func (s *rsim) dump(pv, pc *phaseVotes) string {
	var b strings.Builder
	b.WriteString("tree:")
	for i := range s.t.parent {
		if i == 0 {
			fmt.Fprintf(&b, " %s(base)", s.bname(i))
		} else {
			fmt.Fprintf(&b, " %s<-%s", s.ch.name[s.t.parent[i]], s.bname(i))
		}
	}
	fmt.Fprintf(&b, "\nvoters(weight): ")
	for i := range s.ids {
		fmt.Fprintf(&b, "%s(%d) ", s.ids[i], s.w[i])
	}
	for ph, p := range []*phaseVotes{pv, pc} {
		fmt.Fprintf(&b, "\n%s seen:", []string{"prevotes", "precommits"}[ph])
		for v := range p.votes {
			if len(p.votes[v]) == 0 {
				continue
			}
			fmt.Fprintf(&b, " %s:", s.ids[v])
			for j, x := range p.votes[v] {
				if j > 0 {
					b.WriteString("+")
				}
				b.WriteString(s.ch.name[x])
			}
		}
	}
	return b.String()
}

func runRound(k *kernel.K) {
	s := &rsim{k: k}
	// --- voters
	n := k.Range(1, 7, "voters")
	s.weighted = k.Bool(1, 3, "weighted")
	perm := tapePerm(k, 7, "id-perm")
	for i := 0; i < n; i++ {
		s.ids = append(s.ids, fmt.Sprintf("v%c", 'a'+perm[i]))
		w := uint64(1)
		if s.weighted {
			w = uint64(1 + k.Choose(5, "weight"))
		}
		s.w = append(s.w, w)
	}
	s.twice = -1
	if s.weighted && k.Bool(1, 3, "listed-twice") {
		// the weight distribution names one voter twice; the definitions are over the summed weights
		if v := k.Choose(n, "listed-twice-voter"); s.w[v] >= 2 {
			s.twice, s.part = v, 1+uint64(k.Choose(int(s.w[v]-1), "first-part"))
			k.Probe("voter-listed-twice")
		}
	}
	// --- block tree
	nb := k.Range(1, 8, "blocks")
	s.t = &dtree{}
	bperm := tapePerm(k, 8, "hash-perm")
	s.ch = &rchain{t: s.t, index: map[string]int{}}
	baseNum := uint64([]int{0, 1, 7, 1000}[k.Choose(4, "base-number")])
	for i := 0; i < nb; i++ {
		p := -1
		if i > 0 {
			if k.Bool(1, 2, "fork") {
				p = k.Choose(i, "parent")
			} else {
				p = i - 1
			}
		}
		s.t.parent = append(s.t.parent, p)
		if p < 0 {
			s.t.number = append(s.t.number, baseNum)
		} else {
			s.t.number = append(s.t.number, s.t.number[p]+1)
		}
		name := fmt.Sprintf("%c", 'A'+bperm[i])
		s.ch.name = append(s.ch.name, name)
		s.ch.index[name] = i
	}
	// --- the vote multiset
	var total uint64
	for _, w := range s.w {
		total += w
	}
	f := faulty(total)
	popular := k.Choose(nb, "popular-block")
	pickBlock := func() int {
		if k.Bool(1, 2, "vote-off-popular-chain") {
			return k.Choose(nb, "vote-block")
		}
		c := s.t.chainTo(0, popular)
		return c[len(c)-1-k.Choose(len(c), "vote-depth")]
	}
	var msgs []rvote
	for ph := 0; ph < 2; ph++ {
		var eqv uint64
		for v := 0; v < n; v++ {
			kind := k.Choose(10, "vote-kind") // 0..6 single vote, 7 silent, 8 equivocates, 9 equivocates three ways
			switch {
			case kind <= 6:
				msgs = append(msgs, rvote{ph, v, pickBlock()})
			case kind == 7:
			default:
				if nb < 2 || eqv+s.w[v] > f {
					msgs = append(msgs, rvote{ph, v, pickBlock()})
					break
				}
				eqv += s.w[v]
				want := kind - 6 // 2 or 3 different votes
				seen := map[int]bool{}
				for tries := 0; len(seen) < want && tries < 12; tries++ {
					b := pickBlock()
					if !seen[b] {
						seen[b] = true
						msgs = append(msgs, rvote{ph, v, b})
					}
				}
				if len(seen) >= 2 {
					k.Fault("equivocation")
				}
			}
		}
	}
	if k.Bool(1, 8, "outsider-vote") {
		msgs = append(msgs, rvote{k.Choose(2, "outsider-phase"), -1, k.Choose(nb, "outsider-block")})
		k.Fault("vote-from-outside-the-voter-set")
	}
	// duplicates are part of the multiset
	base := len(msgs)
	for i := 0; i < base; i++ {
		if k.Bool(1, 6, "duplicate") {
			msgs = append(msgs, msgs[i])
			k.Fault("duplicate")
		}
	}
	if len(msgs) == 0 {
		return
	}
	// --- two deliveries of the same multiset in tape-chosen orders
	order := func(label string) []rvote {
		rest := append([]rvote{}, msgs...)
		var out []rvote
		reordered := false
		for len(rest) > 0 {
			i := k.Choose(len(rest), label)
			if i != 0 {
				reordered = true
			}
			out = append(out, rest[i])
			rest = append(rest[:i], rest[i+1:]...)
		}
		if reordered {
			k.Fault("reorder")
		}
		return out
	}
	seqA := order("order-a")
	seqB := order("order-b")
	prefixB := !k.Bool(1, 2, "order-b-only-final-check")

	run := func(tag string, seq []rvote, prefix bool) *rround {
		r := s.newRound()
		pv, pc := newPhaseVotes(s.w), newPhaseVotes(s.w)
		pcBeforePv := false
		for i, v := range seq {
			s.deliver(r, v)
			if v.voter >= 0 {
				if v.phase == 0 {
					pv.add(v.voter, v.block)
				} else {
					pc.add(v.voter, v.block)
					if !super(pv.seenWeight(), total) {
						pcBeforePv = true
					}
				}
			}
			who := "outsider"
			if v.voter >= 0 {
				who = s.ids[v.voter]
			}
			k.Event([]string{"prevote", "precommit"}[v.phase], "%s: %s votes %s", tag, who, s.bname(v.block))
			if prefix || i == len(seq)-1 {
				s.check(r, pv, pc, fmt.Sprintf("order %s after delivery %d/%d", tag, i+1, len(seq)), true)
			}
		}
		if pcBeforePv && super(pv.seenWeight(), total) {
			k.Probe("precommits-arrived-before-prevote-supermajority")
		}
		if super(pv.seenWeight(), total) && super(pc.seenWeight(), total) {
			k.Nontriv = true
		}
		return r
	}
	ra := run("A", seqA, true)
	rb := run("B", seqB, prefixB)
	// --- order independence: equal final state
	sa, sb := ra.State(), rb.State()
	eq := func(x, y *fg.HashNumber[string, uint32]) bool {
		if x == nil || y == nil {
			return x == y
		}
		return *x == *y
	}
	if !eq(sa.PrevoteGHOST, sb.PrevoteGHOST) || !eq(sa.Finalized, sb.Finalized) || !eq(sa.Estimate, sb.Estimate) || sa.Completable != sb.Completable ||
		!eq(ra.PrecommitGHOST(), rb.PrecommitGHOST()) {
		pv, pc := newPhaseVotes(s.w), newPhaseVotes(s.w)
		for _, v := range msgs {
			if v.voter >= 0 {
				if v.phase == 0 {
					pv.add(v.voter, v.block)
				} else {
					pc.add(v.voter, v.block)
				}
			}
		}
		k.Violate("C20", "order-independence", "final-state-depends-on-delivery-order"+s.tag(pc),
			"same multiset, order A: ghost=%s fin=%s est=%s completable=%v pc-ghost=%s; order B: ghost=%s fin=%s est=%s completable=%v pc-ghost=%s\norder A: %v\norder B: %v\n%s",
			s.hn(sa.PrevoteGHOST), s.hn(sa.Finalized), s.hn(sa.Estimate), sa.Completable, s.hn(ra.PrecommitGHOST()),
			s.hn(sb.PrevoteGHOST), s.hn(sb.Finalized), s.hn(sb.Estimate), sb.Completable, s.hn(rb.PrecommitGHOST()), seqA, seqB, s.dump(pv, pc))
	}
	k.Mix(fmt.Sprintf("%s|%s|%s|%v", s.hn(sa.PrevoteGHOST), s.hn(sa.Finalized), s.hn(sa.Estimate), sa.Completable))
}

// tapePerm draws a permutation of 0..n-1 (identity when the tape answers 0).
func tapePerm(k *kernel.K, n int, label string) []int {
	p := make([]int, n)
	for i := range p {
		p[i] = i
	}
	for i := 0; i < n-1; i++ {
		j := i + k.Choose(n-i, label)
		p[i], p[j] = p[j], p[i]
	}
	return p
}
