package conc

import (
	"encoding/json"
	"fmt"
	"strings"

	"github.com/ChainSafe/gossamer/dot/state"
	"github.com/ChainSafe/gossamer/dot/types"
	"github.com/ChainSafe/gossamer/lib/transaction"
	"github.com/ChainSafe/gossamer/verifsim/kernel"
)

// The transaction state of the node (dot/state.TransactionState): the ready queue of C34 together
// with the pool of future transactions behind one membership query. Sequential histories only (the
// concurrent histories run on the instrumented queue); real lib/transaction and dot/state code.
//
// Model state: "<queue>|<pool>", the queue as in pqModel, the pool as 3 bytes per entry (key, id).

type noTel struct{}

func (noTel) SendMessage(json.Marshaler) {}

type txModel struct{}

func (txModel) init() string { return "|" }

func txSplit(st string) (q, p string) {
	i := strings.LastIndex(st, "|")
	return st[:i], st[i+1:]
}

func (txModel) describe(st string) string {
	q, p := txSplit(st)
	var pp []string
	for i := 0; i+3 <= len(p); i += 3 {
		pp = append(pp, fmt.Sprintf("k%d/#%d", p[i], int(p[i+1])<<8|int(p[i+2])))
	}
	return "queue " + pqModel{}.describe(q) + " pool [" + strings.Join(pp, " ") + "]"
}

func poolFind(p string, key int) int {
	for i := 0; i+3 <= len(p); i += 3 {
		if int(p[i]) == key {
			return i
		}
	}
	return -1
}

func poolIDs(p string) []int {
	var ids []int
	for i := 0; i+3 <= len(p); i += 3 {
		ids = append(ids, int(p[i+1])<<8|int(p[i+2]))
	}
	return ids
}

func (txModel) apply(st string, o *op) (string, op, bool) {
	q, p := txSplit(st)
	var want op
	switch o.kind {
	case "push", "pop", "peek":
		nq, w, sp := pqModel{}.apply(q, o)
		return nq + "|" + p, w, sp
	case "remove": // RemoveExtrinsic: from the queue and from the pool
		nq, _, _ := pqModel{}.apply(q, o)
		if i := poolFind(p, o.key); i >= 0 {
			p = p[:i] + p[i+3:]
		}
		return nq + "|" + p, want, false
	case "rmpool":
		if i := poolFind(p, o.key); i >= 0 {
			p = p[:i] + p[i+3:]
		}
		return q + "|" + p, want, false
	case "addpool": // the pool is a map by extrinsic hash: a second insert replaces the first
		if i := poolFind(p, o.key); i >= 0 {
			p = p[:i] + p[i+3:]
		}
		p += string([]byte{byte(o.key), byte(o.id >> 8), byte(o.id)})
		return q + "|" + p, want, false
	case "exists": // in the pool or in the queue
		want.flag = pqFind(q, o.key) >= 0 || poolFind(p, o.key) >= 0
		return st, want, poolFind(p, o.key) >= 0 && pqFind(q, o.key) < 0
	case "pending":
		var ids []int
		for i := 0; i+4 <= len(q); i += 4 {
			ids = append(ids, int(q[i+2])<<8|int(q[i+3]))
		}
		want.set = idSet(append(ids, poolIDs(p)...))
	case "pendingpool":
		want.set = idSet(poolIDs(p))
	}
	return st, want, false
}

var txKinds = []string{"push", "addpool", "pop", "exists", "remove", "rmpool", "exists", "peek", "push", "addpool", "pending", "pendingpool", "exists"}

func runTxState(k *kernel.K) {
	nKeys := k.Range(1, 6, "keys")
	nOps := k.Range(6, 120, "ops")
	nPrio := k.Range(1, 3, "priorities")
	ts := state.NewTransactionState(noTel{})
	exts := make([]types.Extrinsic, nKeys)
	for i := range exts {
		exts[i] = types.Extrinsic{0xE1, byte(i)}
	}
	byPtr := map[*transaction.ValidTransaction]int{}
	idOf := func(o *op, vt *transaction.ValidTransaction) int {
		if vt == nil {
			return 0
		}
		id, ok := byPtr[vt]
		if !ok {
			o.bad = "a transaction that was never handed to the transaction state"
			return -1
		}
		return id
	}
	ops := make([]*op, nOps)
	for i := range ops {
		o := &op{kind: txKinds[k.Choose(len(txKinds), "op")], key: k.Choose(nKeys, "key")}
		if o.kind == "push" || o.kind == "addpool" {
			o.prio = k.Choose(nPrio, "prio")
			o.id = i + 1
		}
		ops[i] = o
	}
	exec := func(o *op) {
		switch o.kind {
		case "push", "addpool":
			vt := transaction.NewValidTransaction(exts[o.key], transaction.NewValidity(uint64(o.prio), nil, nil, uint64(o.id), false))
			byPtr[vt] = o.id
			if o.kind == "push" {
				_, err := ts.Push(vt)
				o.refused = err != nil
			} else {
				ts.AddToPool(vt)
			}
		case "pop":
			o.outID = idOf(o, ts.Pop())
		case "peek":
			o.outID = idOf(o, ts.Peek())
		case "remove":
			ts.RemoveExtrinsic(exts[o.key])
		case "rmpool":
			ts.RemoveExtrinsicFromPool(exts[o.key])
		case "exists":
			o.flag = ts.Exists(exts[o.key])
		case "pending", "pendingpool":
			src := ts.Pending()
			if o.kind == "pendingpool" {
				src = ts.PendingInPool()
			}
			var ids []int
			for _, vt := range src {
				ids = append(ids, idOf(o, vt))
			}
			o.set = idSet(ids)
		}
	}
	k.Probe("transaction-state-history")
	drive(k, 1, ops, exec, txModel{})
}
