package conc

import (
	"fmt"
	"sort"
	"strings"

	"github.com/ChainSafe/gossamer/dot/types"
	"github.com/ChainSafe/gossamer/lib/common"
	"github.com/ChainSafe/gossamer/verifsim/kernel"
	"github.com/ChainSafe/gossamer/verifsim/worlds/conc/gen/pq"
)

// ---- reference model of the ready-transaction queue (from the C34 statement) ----
//
// state: the accepted, not yet yielded/removed pushes in acceptance order, 4
// bytes each: key, priority, id (2 bytes).

type pqModel struct{}

func (pqModel) init() string { return "" }

func (pqModel) describe(st string) string {
	var p []string
	for i := 0; i+4 <= len(st); i += 4 {
		p = append(p, fmt.Sprintf("k%d/prio%d/#%d", st[i], st[i+1], int(st[i+2])<<8|int(st[i+3])))
	}
	return "[" + strings.Join(p, " ") + "] (insertion order)"
}

func pqBest(st string) int {
	best := -1
	for i := 0; i+4 <= len(st); i += 4 {
		if best < 0 || st[i+1] > st[best+1] { // strictly higher priority wins, otherwise the earlier one stays
			best = i
		}
	}
	return best
}

func pqFind(st string, key int) int {
	for i := 0; i+4 <= len(st); i += 4 {
		if int(st[i]) == key {
			return i
		}
	}
	return -1
}

func (pqModel) apply(st string, o *op) (string, op, bool) {
	var want op
	special := false
	switch o.kind {
	case "push":
		if pqFind(st, o.key) >= 0 {
			want.refused = true // duplicates are refused, the queue is unchanged
			return st, want, true
		}
		return st + string([]byte{byte(o.key), byte(o.prio), byte(o.id >> 8), byte(o.id)}), want, false
	case "pop", "peek":
		b := pqBest(st)
		if b < 0 {
			return st, want, false
		}
		want.outID = int(st[b+2])<<8 | int(st[b+3])
		for i := 0; i+4 <= len(st); i += 4 {
			if i != b && st[i+1] == st[b+1] {
				special = true // a tie of priorities was resolved by insertion order
			}
		}
		if o.kind == "peek" {
			return st, want, special
		}
		return st[:b] + st[b+4:], want, special
	case "remove":
		if i := pqFind(st, o.key); i >= 0 {
			return st[:i] + st[i+4:], want, false
		}
		return st, want, false
	case "exists":
		want.flag = pqFind(st, o.key) >= 0
	case "len":
		want.n = len(st) / 4
	case "pending":
		var ids []int
		for i := 0; i+4 <= len(st); i += 4 {
			ids = append(ids, int(st[i+2])<<8|int(st[i+3]))
		}
		want.set = idSet(ids)
	}
	return st, want, special
}

func idSet(ids []int) string {
	sort.Ints(ids)
	var p []string
	for _, i := range ids {
		p = append(p, fmt.Sprintf("#%d", i))
	}
	return strings.Join(p, ",")
}

// ---- real object ---------------------------------------------------------------

type pqReal struct {
	q     *pq.PriorityQueue
	exts  []types.Extrinsic
	hash  []common.Hash
	byPtr map[*pq.ValidTransaction]int
}

func newPQReal(nKeys int) *pqReal {
	r := &pqReal{q: pq.NewPriorityQueue(), byPtr: map[*pq.ValidTransaction]int{}}
	for i := 0; i < nKeys; i++ {
		e := types.Extrinsic{0xE0, byte(i)}
		r.exts = append(r.exts, e)
		r.hash = append(r.hash, e.Hash())
	}
	return r
}

func (r *pqReal) idOf(o *op, vt *pq.ValidTransaction) int {
	if vt == nil {
		return 0
	}
	id, ok := r.byPtr[vt]
	if !ok {
		o.bad = "a transaction that was never pushed"
		return -1
	}
	return id
}

func (r *pqReal) exec(o *op) {
	switch o.kind {
	case "push":
		vt := pq.NewValidTransaction(r.exts[o.key], pq.NewValidity(uint64(o.prio), nil, nil, uint64(o.id), false))
		r.byPtr[vt] = o.id
		_, err := r.q.Push(vt)
		o.refused = err != nil
	case "pop":
		o.outID = r.idOf(o, r.q.Pop())
	case "peek":
		o.outID = r.idOf(o, r.q.Peek())
	case "remove":
		r.q.RemoveExtrinsic(r.exts[o.key])
	case "exists":
		o.flag = r.q.Exists(r.hash[o.key])
	case "len":
		o.n = r.q.Len()
	case "pending":
		var ids []int
		for _, vt := range r.q.Pending() {
			ids = append(ids, r.idOf(o, vt))
		}
		o.set = idSet(ids)
	}
}

var pqKinds = []string{"push", "pop", "push", "exists", "remove", "peek", "push", "pop", "exists", "pending", "len"}

func runPQ(k *kernel.K) {
	if secondNet(k, "pq") {
		return
	}
	mode := k.Choose(6, "mode")
	if mode == 4 {
		runTxState(k)
		return
	}
	if mode == 5 {
		runPQTimer(k)
		return
	}
	if mode == 0 {
		// sequential histories: long, more keys and priorities
		nKeys := k.Range(1, 8, "keys")
		nOps := k.Range(10, 200, "ops")
		nPrio := k.Range(1, 4, "priorities")
		ops := make([]*op, nOps)
		for i := range ops {
			o := &op{kind: pqKinds[k.Choose(len(pqKinds), "op")], key: k.Choose(nKeys, "key")}
			if o.kind == "push" {
				o.prio = k.Choose(nPrio, "prio")
				o.id = i + 1
			}
			ops[i] = o
		}
		r := newPQReal(nKeys)
		drive(k, 1, ops, r.exec, pqModel{})
		return
	}
	nClients := k.Range(2, 4, "clients")
	nKeys := k.Range(1, 4, "keys")
	nOps := k.Range(2, 24, "ops")
	ops := make([]*op, nOps)
	for i := range ops {
		o := &op{client: k.Choose(nClients, "client"), kind: pqKinds[k.Choose(len(pqKinds), "op")], key: k.Choose(nKeys, "key")}
		if o.kind == "push" {
			o.prio = k.Choose(3, "prio")
			o.id = i + 1
		}
		ops[i] = o
	}
	r := newPQReal(nKeys)
	drive(k, nClients, ops, r.exec, nil)
	checkLinearizable(k, ops, pqModel{})
}
