#!/bin/bash
# prebuild.sh <builddir> <overlay_extra_json_path>
# Generates the instrumented copies of the code under test from the CURRENT
# /repo working tree (or from the replacement named in $VERIF_EXTRA_OVERLAY,
# used by sensitivity tests) and adds them to the world's build as the packages
# worlds/conc/gen/pq and worlds/conc/gen/lru through the go -overlay file.
# Nothing is written under /repo or into the harness source tree.
set -eu
BUILD="$1"
OUT="$2"
export GOFLAGS=-mod=mod GOPROXY=off GOSUMDB=off GOTOOLCHAIN=local
SIM=$(cd "$(dirname "$(readlink -f "$0")")/../.." && pwd)   # /verif/sim, or the sim directory of a snapshot of /verif
W=$SIM/worlds/conc
GEN="$BUILD/conc_gen"
TMP="$BUILD/conc_gen.tmp.$$"
rm -rf "$TMP"
mkdir -p "$TMP" "$GEN/pq" "$GEN/lru"
trap 'rm -rf "$TMP"' EXIT

(cd "$SIM" && go1.26.8 build -o "$TMP/instrument" ./cmd/instrument/)

OV=()
if [ -n "${VERIF_EXTRA_OVERLAY:-}" ]; then
  OV=(-overlay "$VERIF_EXTRA_OVERLAY")
fi

# PopWithTimer (goroutine + ticker + channels) is not modelled: copied, never called by the world
"$TMP/instrument" "${OV[@]}" -in /repo/lib/transaction/priority_queue.go -out "$TMP/pq/priority_queue.go" -pkg pq -skip PriorityQueue.PopWithTimer
"$TMP/instrument" "${OV[@]}" -copy -in /repo/lib/transaction/types.go -out "$TMP/pq/types.go" -pkg pq
"$TMP/instrument" "${OV[@]}" -in /repo/lib/utils/lru-cache/lru_cache.go -out "$TMP/lru/lru_cache.go" -pkg lru

# the copy lives next to the real lib/transaction package (the transaction-state histories use the real
# one): its metrics must not register under the same name
sed -i -E 's/Namespace:([[:space:]]*)"/Namespace:\1"verifsimcopy_/' "$TMP/pq/priority_queue.go"

# publish atomically per file (several checks may build at the same time)
mv -f "$TMP/pq/priority_queue.go" "$GEN/pq/priority_queue.go"
mv -f "$TMP/pq/types.go" "$GEN/pq/types.go"
mv -f "$TMP/lru/lru_cache.go" "$GEN/lru/lru_cache.go"

# Second net (used by the thorough tier only): the real packages under the Go race detector.
# Soft failure: without this binary the world counts the probe second-net-unavailable.
RN="$BUILD/conc_racenet.test"
RNLOG="$BUILD/conc_racenet.build.log"
RNOV=()
if [ -n "${VERIF_EXTRA_OVERLAY:-}" ]; then
  python3 -c 'import json,sys; json.dump({"Replace": json.load(open(sys.argv[1]))}, open(sys.argv[2],"w"))' "$VERIF_EXTRA_OVERLAY" "$TMP/racenet.overlay.json"
  RNOV=(-overlay "$TMP/racenet.overlay.json")
fi
if (cd "$SIM" && go1.26.8 test -c -race "${RNOV[@]}" -o "$TMP/conc_racenet.test" ./worlds/conc/racenet/) > "$RNLOG.tmp.$$" 2>&1; then
  mv -f "$TMP/conc_racenet.test" "$RN"
  echo "prebuild conc: second net built: $RN"
else
  rm -f "$RN"
  echo "prebuild conc: SECOND NET NOT AVAILABLE (go test -c -race failed, see $RNLOG)"
fi
mv -f "$RNLOG.tmp.$$" "$RNLOG"

cat > "$OUT.tmp.$$" <<JSON
{
 "$W/gen/pq/priority_queue.go": "$GEN/pq/priority_queue.go",
 "$W/gen/pq/types.go": "$GEN/pq/types.go",
 "$W/gen/lru/lru_cache.go": "$GEN/lru/lru_cache.go"
}
JSON
mv -f "$OUT.tmp.$$" "$OUT"
echo "prebuild conc: ok"
