package conc

import (
	"fmt"
	"os"
	"runtime"
	"runtime/debug"
	"sort"
	"sync"
	"sync/atomic"
	"testing/synctest"
	"time"

	"github.com/ChainSafe/gossamer/dot/types"
	"github.com/ChainSafe/gossamer/lib/transaction"
	"github.com/ChainSafe/gossamer/verifsim/kernel"
)

// PopWithTimer: the pop the block producer uses. It blocks until a transaction arrives or the slot
// timer fires, polling the queue from a goroutine of its own on a 10 ms ticker. Its schedule has
// three moving parts the caller does not control: when the timer fires relative to the poll ticks,
// when a push lands, and who holds the queue's lock when both happen.
//
// These runs use the REAL lib/transaction package (not the instrumented copy: the method starts a
// goroutine and selects on channels, which the cooperative scheduler does not model) inside a
// synctest bubble: the ticker, the slot timer and every sleep read the virtual clock. Every actor's
// moment is drawn from the tape on the grid of poll ticks (tick-1ns, tick, tick+1ns, or between
// ticks); a lock holder (any other queue operation that is slow, e.g. Pending() of a long queue) may
// hold the queue's own mutex across a tick so that the poller and a pusher queue up behind it while
// the slot timer fires. One OS thread, no GC: what runs next at one virtual instant is decided by the
// runtime's run queue, which is a pure function of the order of wake-ups.
//
// Oracle: the recorded history (push, pop-with-timer as a pop over its whole interval, the final
// draining pops and membership queries) must be linearizable against the sequential queue model:
// a transaction that was accepted is yielded exactly once or is still there at the end.

var oneP sync.Once

func runPQTimer(k *kernel.K) {
	// one OS thread for the rest of the process (the cooperative scheduler of the other modes hands a
	// single token around and does not care); switching back and forth between runs left the order
	// of same-instant wake-ups dependent on which P the run happened to be on
	oneP.Do(func() { runtime.GOMAXPROCS(1) })
	gc := debug.SetGCPercent(-1)
	defer debug.SetGCPercent(gc)
	fin := make(chan struct{})
	go func() { // real-time watchdog, outside the bubble
		select {
		case <-fin:
		case <-time.After(30 * time.Second):
			buf := make([]byte, 1<<20)
			n := runtime.Stack(buf, true)
			fmt.Fprintf(os.Stderr, "TIMER-MODE HANG run=%d\n%s\n", k.RunIx, buf[:n])
			os.Exit(3)
		}
	}()
	defer close(fin)
	k.InBubble(func() { pqTimerScenario(k) })
}

func pqTimerScenario(k *kernel.K) {
	const tick = 10 * time.Millisecond
	q := transaction.NewPriorityQueue()
	nKeys := k.Range(1, 3, "t-keys")
	exts := make([]types.Extrinsic, nKeys)
	for i := range exts {
		exts[i] = types.Extrinsic{0xE1, byte(i)}
	}
	byPtr := map[*transaction.ValidTransaction]int{}
	var seq atomic.Int64
	stamp := func() int64 { return seq.Add(1) }
	var ops []*op
	idOf := func(o *op, vt *transaction.ValidTransaction) int {
		if vt == nil {
			return 0
		}
		id, ok := byPtr[vt]
		if !ok {
			o.bad = "a transaction that was never pushed"
			return -1
		}
		return id
	}
	// Moments. No two wake-ups of one run share a virtual instant (the order in which the runtime
	// resumes goroutines whose timers fire at the same instant differs from process to process, so a
	// tie would not replay); each actor has offsets of its own around the poll ticks n*tick. The one
	// exception, the lock holder waking on a tick, is built so that the order does not matter.
	pushMoment := func(i int) time.Duration {
		n := time.Duration(1 + k.Choose(3, "t-push-tick"))
		switch k.Choose(3, "t-push-off") {
		case 0:
			return n*tick - tick/2 + time.Duration(i)*time.Microsecond // between two polls
		case 1:
			return n*tick - time.Duration(3+i)*time.Nanosecond // just before a poll
		}
		return n*tick + time.Duration(3+i)*time.Nanosecond // just after a poll
	}
	slotMoment := func() time.Duration {
		n := time.Duration(1 + k.Choose(3, "t-slot-tick"))
		switch k.Choose(3, "t-slot-off") {
		case 0:
			return n*tick - time.Nanosecond
		case 1:
			return n*tick + time.Nanosecond
		}
		return n*tick - tick/2 - 7*time.Nanosecond
	}
	start := time.Now()
	at := func(d time.Duration) {
		if w := d - time.Since(start); w > 0 {
			time.Sleep(w)
		}
	}
	done := make(chan struct{}, 16)
	actors := 0
	spawn := func(f func()) {
		actors++
		go func() {
			defer func() { done <- struct{}{} }()
			f()
		}()
	}
	// --- pushes before the call (the queue may be non-empty when the producer asks)
	nextID := 0
	push := func(client, key, prio int) {
		nextID++
		o := &op{client: client, kind: "push", key: key, prio: prio, id: nextID}
		ops = append(ops, o)
		vt := transaction.NewValidTransaction(exts[key], transaction.NewValidity(uint64(prio), nil, nil, uint64(o.id), false))
		byPtr[vt] = o.id
		o.call = stamp()
		k.Event("inv-push", "c%d %s at +%v", client+1, o.input(), time.Since(start))
		_, err := q.Push(vt)
		o.refused = err != nil
		o.ret = stamp()
		o.done = true
		k.Event("ret-push", "c%d %s -> %s [%d,%d]", client+1, o.input(), o.output(), o.call, o.ret)
	}
	if k.Bool(1, 4, "t-queue-not-empty") {
		push(0, k.Choose(nKeys, "t-key0"), k.Choose(2, "t-prio0"))
	}
	// --- the slot timer: a channel with room for one value, as time.Timer.C is. It is fed at the end
	// of the slot, or earlier by the lock holder below
	slot := slotMoment()
	timerCh := make(chan time.Time, 1)
	fire := func() {
		select {
		case timerCh <- time.Now():
		default:
		}
	}
	spawn(func() {
		at(slot)
		k.Event("timer", "slot timer fires at +%v", time.Since(start))
		fire()
	})
	// --- the producer
	pw := &op{client: 1, kind: "pop"}
	ops = append(ops, pw)
	spawn(func() {
		pw.call = stamp()
		k.Event("inv-pop", "producer PopWithTimer, slot ends at +%v", slot)
		vt := q.PopWithTimer(timerCh)
		pw.outID = idOf(pw, vt)
		pw.ret = stamp()
		pw.done = true
		k.Event("ret-pop", "producer PopWithTimer -> %s [%d,%d] at +%v", pw.output(), pw.call, pw.ret, time.Since(start))
	})
	// --- pushers
	np := k.Range(1, 2, "t-pushers")
	for i := 0; i < np; i++ {
		when, key, prio, client := pushMoment(i), k.Choose(nKeys, "t-key"), k.Choose(2, "t-prio"), 2+i
		spawn(func() {
			at(when)
			push(client, key, prio)
		})
	}
	// --- a holder of the queue's own lock across a poll tick T (any slow queue operation, e.g.
	// Pending() of a long queue). It takes the lock at T-2ns, when nobody else is at the lock, and
	// sleeps until T. Nobody needs the lock in between (the slot timer may fire at T-1ns; pushers keep
	// 3 ns away): virtual time cannot pass while a goroutine waits for a sync.Mutex, which is not a
	// durable block. At T the poller wakes as well, in either order: after the holder's first yield
	// the poller is parked at the lock in both. Then, still holding the lock, the holder may end the
	// slot (the producer's timer fires while the poller is between its wake-up and its Pop).
	if k.Bool(1, 2, "t-lock-holder") {
		T := time.Duration(1+k.Choose(3, "t-hold-tick")) * tick
		endSlot := k.Bool(1, 2, "t-hold-ends-slot")
		yields := 1 + k.Choose(4, "t-hold-yields")
		k.Fault("queue-lock-held-across-a-poll")
		spawn(func() {
			at(T - 2*time.Nanosecond)
			q.Lock()
			time.Sleep(2 * time.Nanosecond)
			runtime.Gosched()
			if endSlot {
				k.Event("timer", "slot timer fires at +%v while the queue's lock is held", time.Since(start))
				fire()
			}
			for i := 0; i < yields; i++ {
				runtime.Gosched()
			}
			q.Unlock()
		})
	}
	for i := 0; i < actors; i++ {
		<-done
	}
	time.Sleep(5*tick + 7*time.Nanosecond) // a poller still running would pop here
	synctest.Wait()
	// --- audit: what is left
	for i := 0; i < nextID+1; i++ {
		o := &op{client: 0, kind: "pop"}
		ops = append(ops, o)
		o.call = stamp()
		o.outID = idOf(o, q.Pop())
		o.ret = stamp()
		o.done = true
		k.Event("ret-pop", "audit pop -> %s", o.output())
		if o.outID == 0 {
			break
		}
	}
	for key := 0; key < nKeys; key++ {
		o := &op{client: 0, kind: "exists", key: key}
		ops = append(ops, o)
		o.call = stamp()
		o.flag = q.Exists(exts[key].Hash())
		o.ret = stamp()
		o.done = true
	}
	if pw.outID != 0 {
		k.Probe("pop-with-timer-yielded-a-transaction")
	} else {
		k.Probe("pop-with-timer-ended-by-the-slot-timer")
	}
	sort.SliceStable(ops, func(i, j int) bool { return ops[i].call < ops[j].call })
	k.Mix(fmt.Sprintf("timer/%s/%d", pw.output(), len(ops)))
	k.Nontriv = true
	checkLinearizable(k, ops, pqModel{})
}
