package conc

import (
	"fmt"
	"strings"

	"github.com/ChainSafe/gossamer/verifsim/kernel"
	"github.com/ChainSafe/gossamer/verifsim/worlds/conc/gen/lru"
)

// ---- reference model of the LRU cache (from the C35 statement) -------------------
//
// state: entries from most to least recently used, 3 bytes each: key, value (2 bytes).

type lruModel struct{ capacity int }

func (lruModel) init() string { return "" }

func (m lruModel) describe(st string) string {
	var p []string
	for i := 0; i+3 <= len(st); i += 3 {
		p = append(p, fmt.Sprintf("k%d=#%d", st[i], int(st[i+1])<<8|int(st[i+2])))
	}
	return fmt.Sprintf("capacity %d, most recent first [%s]", m.capacity, strings.Join(p, " "))
}

func lruFind(st string, key int) int {
	for i := 0; i+3 <= len(st); i += 3 {
		if int(st[i]) == key {
			return i
		}
	}
	return -1
}

func (m lruModel) apply(st string, o *op) (string, op, bool) {
	var want op
	switch o.kind {
	case "get":
		i := lruFind(st, o.key)
		if i < 0 {
			return st, want, false // absent: the zero value
		}
		want.outID = int(st[i+1])<<8 | int(st[i+2])
		return st[i:i+3] + st[:i] + st[i+3:], want, false // a get refreshes recency
	case "put":
		e := string([]byte{byte(o.key), byte(o.id >> 8), byte(o.id)})
		if i := lruFind(st, o.key); i >= 0 {
			return e + st[:i] + st[i+3:], want, false // replace, most recently used
		}
		if len(st)/3 >= m.capacity {
			return e + st[:len(st)-3], want, true // full: evict the least recently used
		}
		return e + st, want, false
	}
	return st, want, false
}

func runLRU(k *kernel.K) {
	if secondNet(k, "lru") {
		return
	}
	mode := k.Choose(4, "mode")
	if mode == 0 {
		capacity := k.Range(1, 8, "capacity")
		nKeys := k.Range(1, 12, "keys")
		nOps := k.Range(10, 200, "ops")
		ops := make([]*op, nOps)
		for i := range ops {
			o := &op{kind: "put", key: k.Choose(nKeys, "key")}
			if k.Choose(2, "op") == 1 {
				o.kind = "get"
			} else {
				o.id = i + 1
			}
			ops[i] = o
		}
		c := lru.NewLRUCache[int, int](uint(capacity))
		drive(k, 1, ops, lruExec(c), lruModel{capacity})
		return
	}
	nClients := k.Range(2, 4, "clients")
	// capacities 1..8; small ones first so that <= 4 keys overflow them
	capacity := []int{1, 2, 3, 1, 2, 3, 4, 5, 6, 7, 8}[k.Choose(11, "capacity")]
	nKeys := k.Range(2, 4, "keys")
	nOps := k.Range(2, 24, "ops")
	ops := make([]*op, nOps)
	for i := range ops {
		o := &op{client: k.Choose(nClients, "client"), kind: "put", key: k.Choose(nKeys, "key")}
		if k.Choose(5, "op") >= 2 {
			o.kind = "get"
		} else {
			o.id = i + 1
		}
		ops[i] = o
	}
	c := lru.NewLRUCache[int, int](uint(capacity))
	drive(k, nClients, ops, lruExec(c), nil)
	checkLinearizable(k, ops, lruModel{capacity})
}

func lruExec(c *lru.LRUCache[int, int]) execFn {
	return func(o *op) {
		switch o.kind {
		case "get":
			o.outID = c.Get(o.key)
		case "put":
			c.Put(o.key, o.id)
		}
	}
}
