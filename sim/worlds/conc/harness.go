// Package conc is the CONC world: goroutine-level deterministic simulation of
// the transaction priority queue (C34) and the generic LRU cache (C35). The
// packages gen/pq and gen/lru do not exist in the source tree: prebuild.sh
// generates them from the current /repo files with sim/cmd/instrument and adds
// them to the build through the go -overlay file.
package conc

import (
	"fmt"
	"sort"
	"strings"
	"time"

	"github.com/anishathalye/porcupine"

	"github.com/ChainSafe/gossamer/verifsim/kernel"
	"github.com/ChainSafe/gossamer/verifsim/simsync"
)

// op is one client operation with its observed result.
type op struct {
	client int
	kind   string
	key    int
	prio   int
	id     int // unique id of the value written (push / put), 0 otherwise

	// result
	outID   int    // pop/peek: id of the yielded transaction (0 = nil); get: value (0 = absent)
	refused bool   // push: an error was returned
	flag    bool   // exists
	n       int    // len
	set     string // pending: sorted ids
	bad     string // harness-detected impossibility (e.g. unknown pointer returned)

	call, ret int64
	done      bool
}

func (o *op) input() string {
	switch o.kind {
	case "push":
		return fmt.Sprintf("push(k%d prio=%d #%d)", o.key, o.prio, o.id)
	case "remove", "exists", "get", "rmpool":
		return fmt.Sprintf("%s(k%d)", o.kind, o.key)
	case "addpool":
		return fmt.Sprintf("addpool(k%d #%d)", o.key, o.id)
	case "put":
		return fmt.Sprintf("put(k%d,#%d)", o.key, o.id)
	}
	return o.kind + "()"
}

func (o *op) output() string {
	switch o.kind {
	case "push":
		if o.refused {
			return "refused"
		}
		return "accepted"
	case "pop", "peek", "get":
		if o.outID == 0 {
			return "none"
		}
		return fmt.Sprintf("#%d", o.outID)
	case "exists":
		return fmt.Sprint(o.flag)
	case "len":
		return fmt.Sprint(o.n)
	case "pending", "pendingpool":
		return "{" + o.set + "}"
	}
	return "-"
}

// model is a deterministic sequential specification: apply returns the next
// state and the expected observation of o (as an op with only result fields set).
type model interface {
	init() string
	apply(state string, o *op) (next string, want op, special bool)
}

func sameResult(o *op, want *op) bool {
	return o.outID == want.outID && o.refused == want.refused && o.flag == want.flag && o.n == want.n && o.set == want.set && o.bad == ""
}

// execFn executes o against the real (instrumented) object and fills the result fields.
type execFn func(o *op)

// drive runs the clients under the cooperative scheduler. ops[i].client selects
// the task. It reports race/deadlock/panic through k.Violate (on the calling
// goroutine) and returns the scheduler result otherwise.
func drive(k *kernel.K, nClients int, ops []*op, exec execFn, seqModel model) simsync.Result {
	density := 0
	if nClients > 1 {
		density = k.Choose(3, "preemption-density")
	}
	chooser := func(n int, label string) int {
		switch density {
		case 1:
			if k.Choose(4, "switch?") < 3 {
				return 0
			}
		case 2:
			if k.Choose(16, "switch?") < 15 {
				return 0
			}
		}
		return k.Choose(n, label)
	}
	s := simsync.New(chooser)
	s.Trace = func(from, to, why, site string) {
		if why == "yield" {
			why = "before " + site
		}
		k.Mix(from + ">" + to + "@" + why)
		k.Event("switch", "%s -> %s (%s)", from, to, why)
	}
	perClient := make([][]*op, nClients)
	for _, o := range ops {
		perClient[o.client] = append(perClient[o.client], o)
	}
	var seqFail string
	var seqClass string
	special := 0
	client := func(ci int) func() {
		return func() {
			name := fmt.Sprintf("c%d", ci+1)
			state := ""
			if seqModel != nil {
				state = seqModel.init()
			}
			for i, o := range perClient[ci] {
				o.call = simsync.Stamp()
				k.Event("inv-"+o.kind, "%s %s", name, o.input())
				exec(o)
				o.ret = simsync.Stamp()
				o.done = true
				k.Event("ret-"+o.kind, "%s %s -> %s [%d,%d]", name, o.input(), o.output(), o.call, o.ret)
				k.Mix(o.output())
				if seqModel != nil {
					next, want, sp := seqModel.apply(state, o)
					if sp {
						special++
					}
					if !sameResult(o, &want) {
						want.kind = o.kind
						seqClass = "seq:" + o.kind + ":got-" + classOf(o) + "-want-" + classOf(&want)
						seqFail = fmt.Sprintf("operation %d of a single-task history: %s returned %s, the sequential model requires %s%s (model state before: %s)",
							i+1, o.input(), o.output(), want.outputAs(o.kind), badNote(o), seqModel.(describer).describe(state))
						return
					}
					state = next
				}
			}
		}
	}
	res := s.Run(func() {
		var hs []*simsync.Handle
		for ci := 0; ci < nClients; ci++ {
			hs = append(hs, simsync.Go(fmt.Sprintf("c%d", ci+1), client(ci)))
		}
		for _, h := range hs {
			h.Join()
		}
	})
	k.Info["sched_points"] = float64(res.Points)
	k.Info["sched_preempts"] = float64(res.Preempts)
	if res.HarnessErr != "" {
		panic("harness error inside a simulated task: " + res.HarnessErr)
	}
	if res.Race != nil {
		k.Violate(k.Prop, "race", res.Race.Class, "%s", res.Race.Msg)
	}
	if res.Deadlock != "" {
		k.Violate(k.Prop, "deadlock", "deadlock:"+res.Deadlock, "no runnable task: %s", res.Deadlock)
	}
	if res.PanicClass != "" {
		k.Violate(k.Prop, "panic", res.PanicClass, "%s", res.PanicMsg)
	}
	if seqFail != "" {
		k.Violate(k.Prop, "sequential", seqClass, "%s", seqFail)
	}
	if seqModel != nil {
		k.Probe("sequential-run")
		if special > 0 {
			k.Nontriv = true
			k.Probe("sequential-run-with-special-case")
		}
	} else {
		k.Probe("concurrent-run-race-free")
		if res.Preempts > 0 {
			k.Nontriv = true
		}
	}
	return res
}

type describer interface{ describe(state string) string }

func badNote(o *op) string {
	if o.bad != "" {
		return " (" + o.bad + ")"
	}
	return ""
}

// classOf is a stable, value-free description of a result.
func classOf(o *op) string {
	if o.bad != "" {
		return "impossible"
	}
	switch o.kind {
	case "push":
		if o.refused {
			return "refused"
		}
		return "accepted"
	case "pop", "peek", "get":
		if o.outID == 0 {
			return "none"
		}
		return "some"
	case "exists":
		return fmt.Sprint(o.flag)
	case "len":
		return "count"
	case "pending", "pendingpool":
		return "set"
	}
	return "x"
}

func (w *op) outputAs(kind string) string {
	c := *w
	c.kind = kind
	return c.output()
}

// hop is an operation as porcupine sees it; a pending one (invoked, response not
// part of the prefix under test) may have had any result.
type hop struct {
	o       *op
	pending bool
}

func porcupineModel(m model) porcupine.Model {
	return porcupine.Model{
		Init: func() interface{} { return m.init() },
		Step: func(state, input, output interface{}) (bool, interface{}) {
			h := input.(*hop)
			next, want, _ := m.apply(state.(string), h.o)
			if !h.pending && !sameResult(h.o, &want) {
				return false, state
			}
			return true, next
		},
		Equal: func(a, b interface{}) bool { return a.(string) == b.(string) },
	}
}

// firstInexplicable finds the earliest response after which the history is no
// longer linearizable (linearizability is prefix closed; operations invoked but
// not yet answered at that moment are kept as pending with an arbitrary
// result). It is used only to give the violation a stable class.
func firstInexplicable(pm porcupine.Model, ops []*op) *op {
	byRet := append([]*op{}, ops...)
	sort.Slice(byRet, func(i, j int) bool { return byRet[i].ret < byRet[j].ret })
	var far int64
	for _, o := range ops {
		if o.ret > far {
			far = o.ret
		}
	}
	for _, last := range byRet {
		var hist []porcupine.Operation
		for _, o := range ops {
			if o.call >= last.ret {
				continue
			}
			if o.ret <= last.ret {
				h := &hop{o: o}
				hist = append(hist, porcupine.Operation{ClientId: o.client, Input: h, Output: h, Call: o.call, Return: o.ret})
			} else {
				h := &hop{o: o, pending: true}
				hist = append(hist, porcupine.Operation{ClientId: o.client, Input: h, Output: h, Call: o.call, Return: far + 1})
			}
		}
		if porcupine.CheckOperationsTimeout(pm, hist, 2*time.Second) == porcupine.Illegal {
			return last
		}
	}
	return nil
}

// checkLinearizable runs porcupine on the completed history (outside the
// scheduled region: real time, no simulated tasks alive).
func checkLinearizable(k *kernel.K, ops []*op, m model) {
	var hist []porcupine.Operation
	for _, o := range ops {
		if !o.done {
			panic("incomplete operation in a history that ended normally")
		}
		if o.bad != "" {
			k.Violate(k.Prop, "linearizability", "impossible-result:"+o.kind, "%s returned an impossible result: %s", o.input(), o.bad)
		}
		h := &hop{o: o}
		hist = append(hist, porcupine.Operation{ClientId: o.client, Input: h, Output: h, Call: o.call, Return: o.ret})
	}
	pm := porcupineModel(m)
	switch porcupine.CheckOperationsTimeout(pm, hist, 5*time.Second) {
	case porcupine.Ok:
		k.Probe("porcupine-ok")
		k.Info["porcupine_ok"] = float64(1)
	case porcupine.Unknown:
		k.Probe("porcupine-unknown-inconclusive")
		k.Info["porcupine_unknown"] = float64(1)
	case porcupine.Illegal:
		k.Info["porcupine_illegal"] = float64(1)
		class, first := "nonlinearizable:?", ""
		if c := firstInexplicable(pm, ops); c != nil {
			class = "nonlinearizable:" + c.kind + "->" + classOf(c)
			first = fmt.Sprintf(" First response that no linearization explains: c%d %s -> %s at event %d.", c.client+1, c.input(), c.output(), c.ret)
		}
		sorted := append([]*op{}, ops...)
		sort.Slice(sorted, func(i, j int) bool { return sorted[i].call < sorted[j].call })
		var sb strings.Builder
		for _, o := range sorted {
			fmt.Fprintf(&sb, " | c%d [%d,%d] %s -> %s", o.client+1, o.call, o.ret, o.input(), o.output())
		}
		k.Violate(k.Prop, "linearizability", class,
			"no linearization of this history satisfies the sequential model.%s History (invoke/return stamps = scheduler event numbers):%s", first, sb.String())
	}
}
