// Package racenet is the SECOND NET of the CONC world (thorough tier only): the
// same operation mix as the simulated clients, run truly in parallel against the
// REAL, uninstrumented gossamer packages under the Go race detector. It is built
// by ../prebuild.sh as a separate `go test -c -race` binary and executed by the
// world for a few tape-chosen runs. A Go race report is never a false positive,
// but it is NOT a function of the choice tape: a replay re-runs the stress with
// the same seed and duration and is best-effort only.
package racenet

import (
	"math/rand/v2"
	"os"
	"strconv"
	"sync"
	"testing"
	"time"

	"github.com/ChainSafe/gossamer/dot/types"
	"github.com/ChainSafe/gossamer/lib/common"
	"github.com/ChainSafe/gossamer/lib/transaction"
	lrucache "github.com/ChainSafe/gossamer/lib/utils/lru-cache"
)

func envInt(name string, def int) int {
	if v, err := strconv.Atoi(os.Getenv(name)); err == nil {
		return v
	}
	return def
}

func TestRaceNet(t *testing.T) {
	target := os.Getenv("RACENET_TARGET")
	if target == "" {
		t.Skip("RACENET_TARGET not set")
	}
	seed := uint64(envInt("RACENET_SEED", 1))
	dur := time.Duration(envInt("RACENET_MS", 1000)) * time.Millisecond
	workers := envInt("RACENET_WORKERS", 8)
	deadline := time.Now().Add(dur)
	var wg sync.WaitGroup
	var total [64]int
	switch target {
	case "pq":
		exts := make([]types.Extrinsic, 4)
		hashes := make([]common.Hash, 4)
		for i := range exts {
			exts[i] = types.Extrinsic{0xE0, byte(i)}
			hashes[i] = exts[i].Hash()
		}
		q := transaction.NewPriorityQueue()
		for w := 0; w < workers; w++ {
			wg.Add(1)
			go func(w int) {
				defer wg.Done()
				r := rand.New(rand.NewPCG(seed, uint64(w)))
				n := 0
				for time.Now().Before(deadline) {
					for i := 0; i < 64; i++ {
						key := r.IntN(4)
						switch r.IntN(12) {
						case 0, 1, 2:
							q.Push(transaction.NewValidTransaction(exts[key], transaction.NewValidity(uint64(r.IntN(3)), nil, nil, uint64(n), false)))
						case 3, 4:
							q.Pop()
						case 5:
							q.Peek()
						case 6:
							q.RemoveExtrinsic(exts[key])
						case 7, 8:
							q.Exists(hashes[key])
						case 9:
							q.Pending()
						case 10:
							q.Len()
						case 11:
							if r.IntN(64) == 0 { // rarely: the polling variant with a short timer
								q.PopWithTimer(time.After(time.Duration(1+r.IntN(12)) * time.Millisecond))
							}
						}
						n++
					}
				}
				total[w] = n
			}(w)
		}
	case "lru":
		capacity := 1 + int(seed%8)
		c := lrucache.NewLRUCache[int, int](uint(capacity))
		for w := 0; w < workers; w++ {
			wg.Add(1)
			go func(w int) {
				defer wg.Done()
				r := rand.New(rand.NewPCG(seed, uint64(w)))
				n := 0
				for time.Now().Before(deadline) {
					for i := 0; i < 64; i++ {
						key := r.IntN(4 + capacity)
						if r.IntN(5) < 2 {
							c.Put(key, w<<24|n)
						} else {
							c.Get(key)
						}
						n++
					}
				}
				total[w] = n
			}(w)
		}
	default:
		t.Fatalf("unknown RACENET_TARGET %q", target)
	}
	wg.Wait()
	sum := 0
	for _, n := range total {
		sum += n
	}
	t.Logf("RACENET target=%s seed=%d workers=%d ops=%d", target, seed, workers, sum)
}
