// Package pq is the instrumented copy of /repo/lib/transaction/priority_queue.go
// (plus types.go). Its source files are GENERATED AT CHECK TIME by
// ../../prebuild.sh with /verif/sim/cmd/instrument from the current /repo working
// tree and are added to this directory through the go -overlay file only; this
// placeholder exists so that the directory is present for the go tool.
package pq
