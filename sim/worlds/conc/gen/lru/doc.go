// Package lru is the instrumented copy of /repo/lib/utils/lru-cache/lru_cache.go.
// Its source file is GENERATED AT CHECK TIME by ../../prebuild.sh with
// /verif/sim/cmd/instrument from the current /repo working tree and is added to
// this directory through the go -overlay file only; this placeholder exists so
// that the directory is present for the go tool.
package lru
