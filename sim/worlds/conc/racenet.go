package conc

import (
	"bytes"
	"context"
	"fmt"
	"os"
	"os/exec"
	"regexp"
	"sort"
	"strings"
	"time"

	"github.com/ChainSafe/gossamer/verifsim/kernel"
)

// Second net (thorough tier only, NOT replayable from the tape): a few
// tape-chosen runs execute the separate `-race` binary built by prebuild.sh
// from worlds/conc/racenet, which hammers the REAL uninstrumented packages from
// 8 goroutines. It exists so that a race the instrumenter's access table is
// blind to (accesses through pointers obtained from a field, inside
// container/heap or container/list, in code it was told to skip) is not missed.

const (
	racenetBinary = "/verif/.build/conc_racenet.test"
	racenetOneIn  = 15000
	racenetMillis = 1500
)

// secondNet reports whether this run was spent on the second net.
func secondNet(k *kernel.K, target string) bool {
	if k.Tier != "thorough" || !k.Bool(1, racenetOneIn, "second-net") {
		return false
	}
	seed := 1 + k.Choose(1<<20, "second-net-seed")
	if _, err := os.Stat(racenetBinary); err != nil {
		k.Probe("second-net-unavailable")
		k.Event("second-net", "binary %s not built (see /verif/.build/conc_racenet.build.log): skipped", racenetBinary)
		return true
	}
	ctx, cancel := context.WithTimeout(context.Background(), 90*time.Second)
	defer cancel()
	cmd := exec.CommandContext(ctx, racenetBinary, "-test.run", "^TestRaceNet$", "-test.count=1", "-test.v")
	env := []string{}
	for _, e := range os.Environ() {
		if !strings.HasPrefix(e, "GOMAXPROCS=") && !strings.HasPrefix(e, "VERIF_") && !strings.HasPrefix(e, "GORACE=") {
			env = append(env, e)
		}
	}
	cmdline := fmt.Sprintf("RACENET_TARGET=%s RACENET_SEED=%d RACENET_MS=%d GOMAXPROCS=8 GORACE=halt_on_error=1 %s -test.run '^TestRaceNet$' -test.v", target, seed, racenetMillis, racenetBinary)
	cmd.Env = append(env, "RACENET_TARGET="+target, fmt.Sprintf("RACENET_SEED=%d", seed), fmt.Sprintf("RACENET_MS=%d", racenetMillis),
		"GOMAXPROCS=8", "GORACE=halt_on_error=1")
	var out bytes.Buffer
	cmd.Stdout, cmd.Stderr = &out, &out
	err := cmd.Run()
	k.Probe("second-net-executions")
	k.Event("second-net", "real parallel stress under the Go race detector: %s", cmdline)
	text := out.String()
	if class, excerpt := parseGoRace(text); class != "" {
		k.Violate(k.Prop, "go-race-detector", class,
			"SECOND NET, replay: best-effort (the Go race detector on real parallel execution is not a function of the tape; re-run: %s)\n%s", cmdline, excerpt)
	}
	if err != nil {
		tail := text
		if len(tail) > 1500 {
			tail = tail[len(tail)-1500:]
		}
		if strings.Contains(text, "fatal error: concurrent map") {
			k.Violate(k.Prop, "go-race-detector", "gofatal:concurrent-map-access",
				"SECOND NET, replay: best-effort; the runtime aborted the real parallel run (re-run: %s)\n%s", cmdline, tail)
		}
		k.Violate(k.Prop, "go-race-detector", "second-net-run-failed",
			"SECOND NET, replay: best-effort; the real parallel run failed: %v (re-run: %s)\n%s", err, cmdline, tail)
	}
	k.Probe("second-net-clean")
	return true
}

var raceFrame = regexp.MustCompile(`github\.com/ChainSafe/gossamer/(?:lib|dot|pkg|internal)/[^\s]*`)

// parseGoRace extracts a stable class (the innermost gossamer function of each
// of the two conflicting accesses) and a short excerpt from a race report.
func parseGoRace(text string) (string, string) {
	i := strings.Index(text, "WARNING: DATA RACE")
	if i < 0 {
		return "", ""
	}
	rep := text[i:]
	if j := strings.Index(rep, "\nGoroutine "); j > 0 {
		rep = rep[:j]
	}
	var fns []string
	for _, sec := range strings.Split(rep, "\n\n") {
		sec = strings.TrimSpace(sec)
		if !(strings.HasPrefix(sec, "WARNING") || strings.HasPrefix(sec, "Read at") || strings.HasPrefix(sec, "Write at") ||
			strings.HasPrefix(sec, "Previous") || strings.HasPrefix(sec, "Atomic")) {
			continue
		}
		sec = strings.TrimPrefix(sec, "WARNING: DATA RACE\n")
		kind := "access"
		l := strings.ToLower(sec)
		switch {
		case strings.HasPrefix(l, "read"), strings.HasPrefix(l, "previous read"):
			kind = "read"
		case strings.HasPrefix(l, "write"), strings.HasPrefix(l, "previous write"):
			kind = "write"
		}
		if m := raceFrame.FindString(sec); m != "" {
			fn := m
			if j := strings.LastIndex(fn, "/"); j >= 0 {
				fn = fn[j+1:]
			}
			if j := strings.Index(fn, "."); j >= 0 {
				fn = fn[j+1:]
			}
			fn = regexp.MustCompile(`\[[^\]]*\]`).ReplaceAllString(fn, "")
			fn = strings.NewReplacer("(*", "", ")", "", "(", "").Replace(fn)
			fns = append(fns, fn+"-"+kind)
		}
	}
	sort.Strings(fns)
	class := "gorace:" + strings.Join(fns, "/")
	if len(fns) == 0 {
		class = "gorace:unattributed"
	}
	if len(rep) > 2500 {
		rep = rep[:2500] + "\n..."
	}
	return class, rep
}
