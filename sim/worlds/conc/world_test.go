package conc

import (
	"os"
	"runtime"
	"testing"
	"time"

	"github.com/ChainSafe/gossamer/verifsim/kernel"
)

type world struct{}

func (world) Name() string          { return "conc" }
func (world) Props() []string       { return []string{"C34", "C35"} }
func (world) Bubble(p string) bool  { return false } // the PopWithTimer runs open a bubble of their own (kernel.K.InBubble)
func (world) Level(p string) string { return "exploration" }
func (world) Run(k *kernel.K) {
	switch k.Prop {
	case "C34":
		runPQ(k)
	case "C35":
		runLRU(k)
	}
}

const commonRule = " The code under test is the CURRENT /repo file, rewritten at check time by sim/cmd/instrument (sync.Mutex/RWMutex -> simsync, a scheduling point before every statement of every method of the lock-owning type, read/write records for receiver fields). One run = tape-chosen mode: (0) sequential - one task issues up to 200 operations and every result is compared with the reference model step by step; (1-3) concurrent - 2-4 client tasks issue <= 24 tape-chosen operations on <= 4 keys (every inserted value unique) under the cooperative scheduler; at every scheduling point (statement boundary, Lock, Unlock, blocked Lock) the tape picks the next runnable task (three preemption densities). Oracles: (a) vector-clock race detector over simsync lock/unlock/spawn/join on every recorded field access (two RLock holders are not ordered), (b) deadlock, (c) panic, (d) porcupine linearizability of the invoke/return history (stamps = scheduler event sequence) against the model (Illegal => violation, Unknown => probe only). Non-trivial = a concurrent run with at least one preemptive switch between clients, or a sequential run that hit at least one of the model's special cases; distinct = distinct fingerprint of operation kinds/results and of the complete sequence of context switches (i.e. distinct schedules)."

func (world) Rule(p string) string {
	switch p {
	case "C34":
		return "transaction.PriorityQueue: operations Push (4 extrinsics as keys, 3 priorities, every pushed *ValidTransaction distinct), Pop, Peek, RemoveExtrinsic, Exists, Pending, Len. Model: highest priority first, earliest accepted push among equals, a push of an extrinsic that is in the queue is refused with an error, every accepted push is yielded by Pop / removed at most once, Peek does not remove, Exists/Len/Pending (as a set) reflect the content. One run in six is a sequential history on the node's transaction state instead (dot/state.TransactionState over the real lib/transaction queue and pool: Push, AddToPool, Pop, Peek, RemoveExtrinsic, RemoveExtrinsicFromPool, Exists, Pending, PendingInPool; model: the queue model plus a map for the pool, membership = in the queue or in the pool). One run in six exercises PopWithTimer, the pop of the block producer, on the REAL lib/transaction package inside a synctest bubble (its poller goroutine, 10 ms ticker and channels are not modelled by the cooperative scheduler): a producer blocked in PopWithTimer, 1-2 pushers just before / just after / between polls, a slot timer that ends just before / just after / between polls, and in half of these runs a holder of the queue's own lock across a poll who may end the slot while the poller is parked between its wake-up and its Pop; no two wake-ups share a virtual instant (one thread, GC off), so the schedule is a function of the tape. The recorded history (PopWithTimer as a pop over its whole interval, then draining pops and membership queries) goes to the same linearizability check." + commonRule
	case "C35":
		return "lrucache.LRUCache[int,int]: operations Get and Put (the only methods), capacity 1..8. Model: map bounded by capacity; Get of a present key returns the last value put and makes the key most recently used, Get of an absent key returns the zero value; Put of a present key replaces the value and makes it most recently used; Put of an absent key into a full cache evicts exactly the least recently used key." + commonRule
	}
	return ""
}

func (world) Components(p string) ([]string, []string) {
	stub := []string{"sync.Mutex / sync.RWMutex -> simsync.Mutex / simsync.RWMutex (cooperative, vector clocks)",
		"goroutine scheduler -> simsync token-passing scheduler driven by the choice tape",
		"clients (tape-chosen operations)"}
	switch p {
	case "C34":
		return []string{"lib/transaction/priority_queue.go (PriorityQueue Push/Pop/Peek/RemoveExtrinsic/Exists/Pending/Len and the heap below it; instrumented at check time from the working tree; PopWithTimer copied but not exercised there)", "lib/transaction PopWithTimer (real package, 1 run in 6, inside a synctest bubble: poller goroutine, ticker, hand-over channel, slot timer",
			"lib/transaction/types.go (copied)", "container/heap", "dot/types.Extrinsic.Hash", "dot/state/transaction.go TransactionState + lib/transaction/pool.go (real packages, sequential histories only)"}, stub
	case "C35":
		return []string{"lib/utils/lru-cache/lru_cache.go (LRUCache Get/Put/NewLRUCache; instrumented at check time from the working tree)", "container/list"}, stub
	}
	return nil, nil
}

func (world) Budget(p, tier string) (int, time.Duration) {
	if tier == "thorough" {
		return 40000000, 8 * time.Minute
	}
	return 4000000, 40 * time.Second
}

func TestVerif(t *testing.T) {
	if os.Getenv("VERIF_MODE") == "worker" {
		// throughput only: the token-passing scheduler never has two tasks running, one P avoids
		// cross-thread wake-ups. The det self-test (VERIF_MODE=det) keeps the GOMAXPROCS it is given.
		runtime.GOMAXPROCS(1)
	}
	kernel.Main(t, world{})
}
