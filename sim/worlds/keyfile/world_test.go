package keyfile

import (
	"testing"
	"time"

	"github.com/ChainSafe/gossamer/verifsim/kernel"
)

type world struct{}

func (world) Name() string        { return "keyfile" }
func (world) Props() []string     { return []string{"C37"} }
func (world) Bubble(string) bool  { return false }
func (world) Level(string) string { return "fault_enumeration" }
func (world) Run(k *kernel.K)     { runKeyfile(k) }
func (world) Rule(string) string {
	return "one run = one scenario: key scheme (sr25519 / ed25519 / secp256k1, 32 bytes of key material from the tape), password (menu: empty, 1 char, ascii, passphrase, 4 KiB, unicode, embedded NUL, blank), " +
		"AES-GCM nonce from a tape-seeded stream installed as crypto/rand.Reader. The real EncryptAndWriteToFile writes the key file into a scratch directory; then, against the real ReadFromFileAndDecrypt / DecryptPrivateKey / Decrypt: " +
		"(1) intact file + same password; (2) every other menu password and 6 near-miss variants of the right one; (3) the file truncated to EVERY shorter length (complete enumeration); " +
		"(4) single-bit flips of the file: every bit of every byte in the thorough tier, 64 tape-sampled (byte,bit) positions in the quick tier; " +
		"(5) the raw ciphertext handed to DecryptPrivateKey and Decrypt truncated to EVERY shorter length, extended by 1..16 bytes, and with single-bit flips (all bits thorough / 64 sampled quick); " +
		"(6) the Type field rewritten to the other schemes (counted only); (7) a caller-owned password buffer: a key is encrypted through a buffer that the caller then wipes (an all-zero password of that length must not open it) and reuses for another password and another key (the earlier password must not open the second key; after an unrelated call each key still opens with the bytes the buffer held at the time of its encryption). Every call is made under recover(). " +
		"Every run is non-trivial (each applies several hundred faults); distinct = distinct (scheme, password, outcome histogram) fingerprint. After every section, and while a second key file of each scheme is written and read (7), every key handed out earlier is compared with the original again: a caller holds several keys at once."
}
func (world) Components(string) ([]string, []string) {
	return []string{"lib/keystore: EncryptAndWriteToFile, ReadFromFileAndDecrypt, EncryptPrivateKey, DecryptPrivateKey, Encrypt, Decrypt, DecodePrivateKey", "lib/crypto/{sr25519,ed25519,secp256k1} private key encode/decode", "encoding/json, os file I/O on a real scratch directory"},
		[]string{"disk faults (the harness truncates / flips the written file between write and read)", "crypto/rand.Reader (tape-seeded ChaCha8 stream, so that the nonce and with it the file content is a function of the tape)"}
}
func (world) Budget(p, tier string) (int, time.Duration) {
	if tier == "thorough" {
		return 2000000, 8 * time.Minute
	}
	return 200000, 40 * time.Second
}

func TestVerif(t *testing.T) { kernel.Main(t, world{}) }
