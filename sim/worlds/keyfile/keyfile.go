// Package keyfile is the KEYFILE world: property C37, keystore encryption is a
// faithful, tamper-evident round trip. Level: fault enumeration - per scenario
// the fault index (truncation length, flipped bit) is enumerated completely.
//
// Oracle (from the statement):
//
//	intact file / ciphertext + same password  => the same key (same private key bytes,
//	                                             same scheme, same public key)
//	different password                        => an error
//	modified or truncated ciphertext          => an error
//	anything                                  => never a different key, never a panic
//
// A fault applied to the key FILE does not always modify the ciphertext (the
// file also has whitespace, a Type and a PublicKey field, and base64 padding
// bits). So for file faults "same key" is accepted exactly when the Type string
// and the ciphertext bytes that an independent parse (encoding/json, base64)
// extracts from the damaged file are identical to those of the intact file;
// when they differ, or for faults applied to the raw ciphertext, only an error
// is accepted. A different key or a panic is never accepted.
package keyfile

import (
	"bytes"
	crand "crypto/rand"
	"crypto/sha256"
	"encoding/base64"
	"encoding/binary"
	"encoding/json"
	"fmt"
	"os"
	"path/filepath"
	"runtime/debug"
	"strings"

	"github.com/ChainSafe/gossamer/lib/crypto"
	"github.com/ChainSafe/gossamer/lib/crypto/ed25519"
	"github.com/ChainSafe/gossamer/lib/crypto/secp256k1"
	"github.com/ChainSafe/gossamer/lib/crypto/sr25519"
	"github.com/ChainSafe/gossamer/lib/keystore"
	"github.com/ChainSafe/gossamer/verifsim/kernel"
)

const prop = "C37"

// ---- deterministic crypto/rand ------------------------------------------------

// stream is a SHA-256 counter-mode byte stream seeded from the tape. It is
// installed as crypto/rand.Reader for the duration of a run so that the GCM
// nonce - and with it every byte of the key file - is a function of the tape.
type stream struct {
	seed [32]byte
	ctr  uint64
	buf  []byte
}

func (s *stream) Read(p []byte) (int, error) {
	for i := range p {
		if len(s.buf) == 0 {
			var c [8]byte
			binary.LittleEndian.PutUint64(c[:], s.ctr)
			h := sha256.Sum256(append(append([]byte{}, s.seed[:]...), c[:]...))
			s.buf = h[:]
			s.ctr++
		}
		p[i] = s.buf[0]
		s.buf = s.buf[1:]
	}
	return len(p), nil
}

// ---- panic guard ----------------------------------------------------------------

// guard runs f; a panic raised under gossamer code is caught and reported with
// its site (the run goes on, so that one crashing input does not hide the rest
// of the enumeration); any other panic is a harness bug and is passed on to the
// kernel, which reports TROUBLE.
func guard(f func()) (site string, val any, panicked bool) {
	defer func() {
		if r := recover(); r != nil {
			inG, where := panicSite(string(debug.Stack()))
			if !inG {
				panic(r)
			}
			site, val, panicked = where, r, true
		}
	}()
	f()
	return
}

func panicSite(stack string) (bool, string) {
	lines := strings.Split(stack, "\n")
	start := 0
	for i, l := range lines {
		if strings.HasPrefix(l, "panic(") || strings.HasPrefix(l, "runtime.gopanic") {
			start = i + 2
		}
	}
	for i := start; i+1 < len(lines); i += 2 {
		fn := lines[i]
		file := strings.TrimSpace(lines[i+1])
		if strings.HasPrefix(fn, "runtime.") || strings.HasPrefix(fn, "runtime/") {
			continue
		}
		if strings.Contains(fn, "github.com/ChainSafe/gossamer/") && !strings.Contains(fn, "/verifsim") && !strings.Contains(file, "/verif/sim/") {
			if j := strings.LastIndex(file, " +0x"); j > 0 {
				file = file[:j]
			}
			return true, strings.TrimPrefix(file, "/repo/")
		}
		if strings.Contains(fn, "verifsim") || strings.Contains(file, "/verif/sim/") {
			return false, file
		}
	}
	return false, "?"
}

// ---- scenario -------------------------------------------------------------------

var schemes = []string{crypto.Sr25519Type, crypto.Ed25519Type, crypto.Secp256k1Type}

var passwords = []string{
	"",
	"a",
	"password",
	"correct horse battery staple",
	strings.Repeat("long-password-0123456789abcdef", 137), // 4110 bytes
	"pässwörd-密码-\U0001F511",                              // unicode incl. a non-BMP rune
	"pa\x00ss",                                            // embedded NUL
	" ",
	"Password",
	"e\u0301",                                    // e + combining acute accent (decomposed)
	"\u00e9",                                     // the composed form: a different byte string
	"secret\n", "secret\r\n", "\n", "  padded\t", // blanks and line terminators are part of a password
}

const (
	oErr = iota
	oSame
	oDiff
	oPanic
)

type outcome struct {
	kind   int
	detail string
	site   string
}

type pend struct {
	oracle, class, msg string
	prio               int
}

type scn struct {
	k       *kernel.K
	typ     string
	priv    crypto.PrivateKey
	privEnc []byte
	pubEnc  []byte
	pw      []byte
	dir     string
	path    string
	fileTyp string // Type string of the intact file (independent parse)
	orig    []byte // the key file as written by the real code
	ct      []byte // ciphertext stored in it (independent parse)
	pending []pend
	errs    int
	same    int
	hist    map[string]int
	held    []crypto.PrivateKey // keys handed out earlier in this scenario; a caller keeps using them
}

func makeKey(scheme int, seed []byte) (crypto.PrivateKey, error) {
	switch scheme {
	case 0:
		kp, err := sr25519.NewKeypairFromSeed(seed)
		if err != nil {
			return nil, err
		}
		return kp.Private(), nil
	case 1:
		kp, err := ed25519.NewKeypairFromSeed(seed)
		if err != nil {
			return nil, err
		}
		return kp.Private(), nil
	default:
		b := append([]byte{}, seed...)
		b[0] &= 0x7f // below the group order
		b[31] |= 1   // not zero
		return secp256k1.NewPrivateKey(b)
	}
}

func (s *scn) violate(prio int, oracle, class, format string, a ...any) {
	s.pending = append(s.pending, pend{oracle: oracle, class: class, msg: fmt.Sprintf(format, a...), prio: prio})
}

// compare classifies a returned key against the original. Runs under guard by the caller.
func (s *scn) compare(pk crypto.PrivateKey) (bool, string) {
	if pk == nil {
		return false, "nil key with nil error"
	}
	if fmt.Sprintf("%T", pk) != fmt.Sprintf("%T", s.priv) {
		return false, fmt.Sprintf("scheme differs: got %T want %T", pk, s.priv)
	}
	enc := pk.Encode()
	if !bytes.Equal(enc, s.privEnc) {
		return false, fmt.Sprintf("private key bytes differ (%d bytes vs %d bytes)", len(enc), len(s.privEnc))
	}
	pub, err := pk.Public()
	if err != nil {
		return false, "public key of the returned private key cannot be derived: " + err.Error()
	}
	if !bytes.Equal(pub.Encode(), s.pubEnc) {
		return false, "public key differs"
	}
	return true, ""
}

func (s *scn) try(f func() (crypto.PrivateKey, error)) outcome {
	var pk crypto.PrivateKey
	var err error
	if site, val, p := guard(func() { pk, err = f() }); p {
		return outcome{kind: oPanic, site: site, detail: fmt.Sprint(val)}
	}
	if err != nil {
		return outcome{kind: oErr}
	}
	var ok bool
	var why string
	if _, val, p := guard(func() { ok, why = s.compare(pk) }); p {
		return outcome{kind: oDiff, detail: fmt.Sprintf("returned key is unusable: %v", val)}
	}
	if ok {
		if len(s.held) < 256 {
			s.held = append(s.held, pk)
		}
		return outcome{kind: oSame}
	}
	return outcome{kind: oDiff, detail: why}
}

// stillSame: a key that was handed out stays that key while later reads, failed decryptions and
// other keys' decryptions go on (a caller such as UnlockKeys holds several at once).
func (s *scn) stillSame(after string) {
	for i, pk := range s.held {
		var ok bool
		var why string
		if _, val, p := guard(func() { ok, why = s.compare(pk) }); p {
			ok, why = false, fmt.Sprintf("key became unusable: %v", val)
		}
		if !ok {
			s.violate(0, "different-key", "returned-key-changed-later", "key #%d returned earlier by a successful decryption no longer is that key after %s: %s", i, after, why)
			return
		}
	}
	s.k.Probes["held-keys-rechecked"] += len(s.held)
}

type refFile struct {
	Type       string
	PublicKey  string
	Ciphertext []byte
}

func refParse(b []byte) (string, []byte, bool) {
	var r refFile
	if json.Unmarshal(b, &r) != nil {
		return "", nil, false
	}
	return r.Type, r.Ciphertext, true
}

func (s *scn) readFile(content []byte, pw []byte) outcome {
	if err := os.WriteFile(s.path, content, 0o600); err != nil {
		panic("keyfile world: cannot write scratch file: " + err.Error())
	}
	return s.try(func() (crypto.PrivateKey, error) { return keystore.ReadFromFileAndDecrypt(s.path, pw) })
}

// judgeFile applies the oracle to the outcome of reading a damaged key file.
func (s *scn) judgeFile(fault, where string, damaged []byte, o outcome) string {
	switch o.kind {
	case oErr:
		s.errs++
		return "error"
	case oSame:
		typ, ct, ok := refParse(damaged)
		if ok && (typ != s.fileTyp || !bytes.Equal(ct, s.ct)) {
			s.violate(1, "tamper-evidence", "modified-ciphertext-accepted/"+fault, "%s %s: the file's Type/ciphertext changed (type %q, %d ciphertext bytes) but ReadFromFileAndDecrypt returned the key without error", fault, where, typ, len(ct))
			return "accepted"
		}
		if !ok {
			s.k.Probe("same-key-from-file-the-reference-parser-rejects")
		}
		s.same++
		return "same-key"
	case oDiff:
		s.violate(0, "different-key", "different-key/"+fault, "%s %s: ReadFromFileAndDecrypt returned a DIFFERENT key without error: %s", fault, where, o.detail)
		return "different-key"
	default:
		s.violate(3, "panic", "panic@"+o.site, "%s %s: panic in gossamer code: %s at %s", fault, where, o.detail, o.site)
		return "panic"
	}
}

// judgeRaw: faults applied to the ciphertext itself - only an error is acceptable.
func (s *scn) judgeRaw(fault, where string, o outcome) string {
	switch o.kind {
	case oErr:
		s.errs++
		return "error"
	case oSame:
		s.violate(1, "tamper-evidence", "modified-ciphertext-accepted/"+fault, "%s %s: a modified ciphertext was decrypted to the key without error", fault, where)
		return "accepted"
	case oDiff:
		s.violate(0, "different-key", "different-key/"+fault, "%s %s: a modified ciphertext was decrypted to a DIFFERENT key without error: %s", fault, where, o.detail)
		return "different-key"
	default:
		s.violate(3, "panic", "panic@"+o.site, "%s %s: panic in gossamer code: %s at %s", fault, where, o.detail, o.site)
		return "panic"
	}
}

// scratchRoot: a real directory for the key file. /dev/shm (tmpfs) when it is
// there - several thousand small file writes per run are 20x faster than on a
// journaling file system - otherwise the worker's temp dir.
func scratchRoot() string {
	if st, err := os.Stat("/dev/shm"); err == nil && st.IsDir() {
		if d, err := os.MkdirTemp("/dev/shm", "verif-probe-"); err == nil {
			os.Remove(d)
			return "/dev/shm"
		}
	}
	if out := os.Getenv("VERIF_W_OUT"); out != "" {
		return filepath.Dir(out) // the worker's temp dir (removed by the orchestrator as well)
	}
	return os.TempDir()
}

func runKeyfile(k *kernel.K) {
	scheme := k.Choose(len(schemes), "scheme")
	pwIx := k.Choose(len(passwords), "password")
	seed := k.Bytes(32, "key-material")
	var st stream
	copy(st.seed[:], k.Bytes(16, "nonce-seed"))
	oldReader := crand.Reader
	crand.Reader = &st
	defer func() { crand.Reader = oldReader }()

	dir, err := os.MkdirTemp(scratchRoot(), "verif-keyfile-")
	if err != nil {
		panic("keyfile world: cannot create scratch dir: " + err.Error())
	}
	defer os.RemoveAll(dir)

	s := &scn{k: k, typ: schemes[scheme], pw: []byte(passwords[pwIx]), dir: dir, path: filepath.Join(dir, "key.json"), hist: map[string]int{}}
	s.priv, err = makeKey(scheme, seed)
	if err != nil {
		panic("keyfile world: cannot build key: " + err.Error())
	}
	s.privEnc = append([]byte{}, s.priv.Encode()...)
	pub, err := s.priv.Public()
	if err != nil {
		panic("keyfile world: no public key: " + err.Error())
	}
	s.pubEnc = append([]byte{}, pub.Encode()...)
	k.Event("scenario", "scheme=%s password#%d (%d bytes) key=%d bytes", s.typ, pwIx, len(s.pw), len(s.privEnc))
	k.Probe("scheme:" + s.typ)
	k.Mix(fmt.Sprintf("%s/%d", s.typ, pwIx))

	// ---- write with the real code
	var werr error
	if site, val, p := guard(func() { werr = keystore.EncryptAndWriteToFile(s.path, s.priv, s.pw) }); p {
		k.Violate(prop, "panic", "panic@"+site, "EncryptAndWriteToFile panicked: %v at %s", val, site)
		k.Stop()
	}
	if werr != nil {
		k.Violate(prop, "round-trip", "encrypt-and-write-failed", "EncryptAndWriteToFile failed for a valid %s key: %v", s.typ, werr)
		k.Stop()
	}
	s.orig, err = os.ReadFile(s.path)
	if err != nil {
		panic("keyfile world: cannot read back scratch file: " + err.Error())
	}
	typ, ct, ok := refParse(s.orig)
	if !ok || len(ct) == 0 {
		// not a finding about gossamer: the harness's idea of the file format is out of date => TROUBLE
		panic(fmt.Sprintf("keyfile world: the reference parser cannot read the key file written by the real code (ok=%v, %d ciphertext bytes): file format changed?", ok, len(ct)))
	}
	s.fileTyp = typ // what the intact file says; whether it is the right scheme is decided by the intact round trip
	s.ct = ct

	s.intact()
	s.stillSame("intact")
	s.wrongPasswords()
	s.stillSame("wrongPasswords")
	s.truncations()
	s.stillSame("truncations")
	s.flips()
	s.stillSame("flips")
	s.rawCiphertext()
	s.stillSame("rawCiphertext")
	s.typeSwap()
	s.stillSame("typeSwap")
	s.otherKeys(k.Bytes(32, "other-key-material"))
	s.callerBuffer(k.Bytes(32, "buffer-key-material"))

	s.count("decrypt-errors", s.errs)
	s.count("same-key-results", s.same)
	keys := make([]string, 0, len(s.hist))
	for h := range s.hist {
		keys = append(keys, h)
	}
	sortStrings(keys)
	for _, h := range keys {
		k.Mix(fmt.Sprintf("%s=%d", h, s.hist[h]))
	}
	k.Nontriv = true
	if len(s.pending) > 0 {
		// report in priority order (different key, accepted tampering, round trip, panic). Violate stops the
		// run at the first class that is not a known finding marked "continue"; for those it returns and
		// the next class is reported, so a known crash cannot hide a different-key result of the same scenario.
		order := append([]pend{}, s.pending...)
		for i := 1; i < len(order); i++ {
			for j := i; j > 0 && order[j].prio < order[j-1].prio; j-- {
				order[j], order[j-1] = order[j-1], order[j]
			}
		}
		k.Event("violations", "%d oracle failures in this scenario; first by priority: %s/%s", len(order), order[0].oracle, order[0].class)
		seen := map[string]bool{}
		for _, p := range order {
			if seen[p.oracle+"/"+p.class] {
				continue
			}
			seen[p.oracle+"/"+p.class] = true
			k.Violate(prop, p.oracle, p.class, "%s [scheme=%s password#%d]", p.msg, s.typ, pwIx)
		}
	}
}

func sortStrings(a []string) {
	for i := 1; i < len(a); i++ {
		for j := i; j > 0 && a[j] < a[j-1]; j-- {
			a[j], a[j-1] = a[j-1], a[j]
		}
	}
}

func (s *scn) count(name string, n int) {
	if n > 0 {
		s.k.Probes[name] += n
	}
}

// (1) intact file, intact ciphertext, same password
func (s *scn) intact() {
	o := s.readFile(s.orig, s.pw)
	switch o.kind {
	case oSame:
		s.same++
	case oErr:
		s.violate(2, "round-trip", "intact-file-same-password-rejected", "ReadFromFileAndDecrypt of the untouched file with the same password returned an error")
	case oDiff:
		s.violate(0, "different-key", "different-key/intact", "ReadFromFileAndDecrypt of the untouched file with the same password returned a different key: %s", o.detail)
	default:
		s.violate(3, "panic", "panic@"+o.site, "intact file: panic in gossamer code: %s at %s", o.detail, o.site)
	}
	s.k.Event("intact", "file of %d bytes, ciphertext %d bytes: %s", len(s.orig), len(s.ct), []string{"error", "same key", "different key", "panic"}[o.kind])
}

func wrongPasswordsFor(pw []byte) [][]byte {
	var out [][]byte
	add := func(b []byte) {
		if bytes.Equal(b, pw) {
			return
		}
		for _, x := range out {
			if bytes.Equal(x, b) {
				return
			}
		}
		out = append(out, b)
	}
	for _, p := range passwords {
		add([]byte(p))
	}
	add(append(append([]byte{}, pw...), 0))
	add(append(append([]byte{}, pw...), ' '))
	add(append(append([]byte{}, pw...), pw...))
	// what a "normalising" reader of passwords (file, terminal, environment) would fold together:
	// line terminators, blanks and a byte-order mark around the password, and its case (m128)
	for _, suf := range []string{"\n", "\r\n", "\r", "\t", "\n\n", "\x00\n"} {
		add(append(append([]byte{}, pw...), suf...))
	}
	for _, pre := range []string{" ", "\n", "\t", "\xef\xbb\xbf"} {
		add(append([]byte(pre), pw...))
	}
	add(bytes.TrimSpace(pw))
	add(bytes.TrimRight(pw, "\r\n"))
	add(bytes.TrimRight(pw, "\x00"))
	add(bytes.ToLower(pw))
	add(bytes.ToUpper(pw))
	if len(pw) > 0 {
		add(append([]byte{}, pw[:len(pw)-1]...))
		f := append([]byte{}, pw...)
		f[0] ^= 1
		add(f)
		g := append([]byte{}, pw...)
		g[len(g)-1] ^= 0x20
		add(g)
	}
	return out
}

// (2) different passwords
func (s *scn) wrongPasswords() {
	ws := wrongPasswordsFor(s.pw)
	nerr := 0
	for i, w := range ws {
		s.k.Fault("wrong-password")
		o := s.readFile(s.orig, w)
		where := fmt.Sprintf("wrong password #%d (%d bytes)", i, len(w))
		switch o.kind {
		case oErr:
			nerr++
			s.errs++
		case oSame:
			s.violate(1, "tamper-evidence", "different-password-accepted", "%s: the key was returned without error", where)
		case oDiff:
			s.violate(0, "different-key", "different-key/wrong-password", "%s: a DIFFERENT key was returned without error: %s", where, o.detail)
		default:
			s.violate(3, "panic", "panic@"+o.site, "%s: panic in gossamer code: %s at %s", where, o.detail, o.site)
		}
	}
	s.count("wrong-passwords-tried", len(ws))
	s.hist["wrongpw-err"] = nerr
	s.k.Event("wrong-passwords", "%d different passwords: %d errors", len(ws), nerr)
}

// (3) truncation of the file to EVERY shorter length
func (s *scn) truncations() {
	res := map[string]int{}
	var sameAt []int
	for l := 0; l < len(s.orig); l++ {
		s.k.Fault("file-truncation")
		d := s.orig[:l]
		r := s.judgeFile("file-truncation", fmt.Sprintf("to %d of %d bytes", l, len(s.orig)), d, s.readFile(d, s.pw))
		res[r]++
		if r == "same-key" {
			sameAt = append(sameAt, l)
		}
	}
	s.count("truncations-tried", len(s.orig))
	for r, n := range res {
		s.hist["trunc-"+r] = n
	}
	s.k.Event("truncate", "every length 0..%d: %d errors, %d same key %v, %d accepted, %d different key, %d panics",
		len(s.orig)-1, res["error"], res["same-key"], sameAt, res["accepted"], res["different-key"], res["panic"])
}

func (s *scn) region(pos int) string {
	in := func(needle string) bool {
		i := bytes.Index(s.orig, []byte(needle))
		return i >= 0 && pos >= i && pos < i+len(needle)
	}
	switch {
	case in(base64.StdEncoding.EncodeToString(s.ct)):
		return "ciphertext-value"
	case in(`"Ciphertext"`):
		return "ciphertext-name"
	case in(`"` + s.fileTyp + `"`):
		return "type-value"
	case in(`"Type"`):
		return "type-name"
	case in(`"PublicKey"`):
		return "publickey-name"
	}
	if i := bytes.Index(s.orig, []byte(`"PublicKey": "`)); i >= 0 {
		j := i + len(`"PublicKey": "`)
		if e := bytes.IndexByte(s.orig[j:], '"'); e >= 0 && pos >= j && pos < j+e {
			return "publickey-value"
		}
	}
	return "structure"
}

// (4) single-bit flips of the file
func (s *scn) flips() {
	type pb struct{ pos, bit int }
	var todo []pb
	if s.k.Tier == "thorough" {
		for p := 0; p < len(s.orig); p++ {
			for b := 0; b < 8; b++ {
				todo = append(todo, pb{p, b})
			}
		}
	} else {
		for i := 0; i < 64; i++ {
			todo = append(todo, pb{s.k.Choose(len(s.orig), "flip-pos"), s.k.Choose(8, "flip-bit")})
		}
	}
	res := map[string]int{}
	reg := map[string]int{}
	gcm := 0
	d := make([]byte, len(s.orig))
	for _, t := range todo {
		s.k.Fault("file-bit-flip")
		copy(d, s.orig)
		d[t.pos] ^= 1 << t.bit
		r := s.judgeFile("file-bit-flip", fmt.Sprintf("byte %d bit %d of %d bytes (%#02x -> %#02x)", t.pos, t.bit, len(s.orig), s.orig[t.pos], d[t.pos]), d, s.readFile(d, s.pw))
		res[r]++
		reg[s.region(t.pos)+":"+r]++
		if r == "error" {
			if typ, ct, ok := refParse(d); ok && typ == s.fileTyp && len(ct) >= 12 && !bytes.Equal(ct, s.ct) {
				gcm++ // still a well-formed file with a different ciphertext: rejected by authentication
			}
		}
	}
	s.count("flips-tried", len(todo))
	s.count("flips-rejected-by-authentication", gcm)
	for r, n := range reg {
		s.count("flip:"+r, n)
	}
	for r, n := range res {
		s.hist["flip-"+r] = n
	}
	s.hist["flip-gcm"] = gcm
	s.k.Event("flip", "%d single-bit flips: %d errors (%d of them well-formed files rejected by authentication), %d same key, %d accepted, %d different key, %d panics",
		len(todo), res["error"], gcm, res["same-key"], res["accepted"], res["different-key"], res["panic"])
}

// (5) faults applied to the raw ciphertext: DecryptPrivateKey and Decrypt
func (s *scn) rawCiphertext() {
	k := s.k
	var ct []byte
	var err error
	if site, val, p := guard(func() { ct, err = keystore.EncryptPrivateKey(s.priv, s.pw) }); p {
		s.violate(3, "panic", "panic@"+site, "EncryptPrivateKey panicked: %v at %s", val, site)
		return
	}
	if err != nil {
		s.violate(2, "round-trip", "encrypt-private-key-failed", "EncryptPrivateKey failed: %v", err)
		return
	}
	dec := func(c []byte) outcome {
		return s.try(func() (crypto.PrivateKey, error) { return keystore.DecryptPrivateKey(c, s.pw, s.typ) })
	}
	if o := dec(ct); o.kind != oSame {
		s.violate(2, "round-trip", "intact-ciphertext-same-password-rejected", "DecryptPrivateKey(EncryptPrivateKey(key)) with the same password did not return the key (outcome %d %s)", o.kind, o.detail)
	} else {
		s.same++
	}
	res := map[string]int{}
	// truncation to every shorter length
	for l := 0; l < len(ct); l++ {
		k.Fault("ciphertext-truncation")
		res["trunc-"+s.judgeRaw("ciphertext-truncation", fmt.Sprintf("to %d of %d bytes", l, len(ct)), dec(ct[:l]))]++
	}
	s.count("ciphertext-truncations-tried", len(ct))
	// extension
	for n := 1; n <= 16; n *= 2 {
		k.Fault("ciphertext-extension")
		res["ext-"+s.judgeRaw("ciphertext-extension", fmt.Sprintf("by %d bytes", n), dec(append(append([]byte{}, ct...), make([]byte, n)...)))]++
	}
	// single-bit flips
	type pb struct{ pos, bit int }
	var todo []pb
	if k.Tier == "thorough" {
		for p := 0; p < len(ct); p++ {
			for b := 0; b < 8; b++ {
				todo = append(todo, pb{p, b})
			}
		}
	} else {
		for i := 0; i < 64; i++ {
			todo = append(todo, pb{k.Choose(len(ct), "ct-flip-pos"), k.Choose(8, "ct-flip-bit")})
		}
	}
	d := make([]byte, len(ct))
	for _, t := range todo {
		k.Fault("ciphertext-bit-flip")
		copy(d, ct)
		d[t.pos] ^= 1 << t.bit
		res["flip-"+s.judgeRaw("ciphertext-bit-flip", fmt.Sprintf("byte %d bit %d of %d bytes", t.pos, t.bit, len(ct)), dec(d))]++
	}
	s.count("ciphertext-flips-tried", len(todo))

	// message level: Encrypt / Decrypt of an arbitrary message (including the empty one)
	msg := k.Bytes(k.Choose(65, "msg-len"), "msg")
	var mct []byte
	if site, val, p := guard(func() { mct, err = keystore.Encrypt(msg, s.pw) }); p {
		s.violate(3, "panic", "panic@"+site, "Encrypt panicked: %v at %s", val, site)
		return
	}
	if err != nil {
		s.violate(2, "round-trip", "encrypt-failed", "Encrypt failed: %v", err)
		return
	}
	mdec := func(c []byte, pw []byte) (kind int, site string, detail string) {
		var out []byte
		var derr error
		if st, val, p := guard(func() { out, derr = keystore.Decrypt(c, pw) }); p {
			return oPanic, st, fmt.Sprint(val)
		}
		if derr != nil {
			return oErr, "", ""
		}
		if bytes.Equal(out, msg) {
			return oSame, "", ""
		}
		return oDiff, "", fmt.Sprintf("%d bytes of different plaintext", len(out))
	}
	if kind, _, _ := mdec(mct, s.pw); kind != oSame {
		s.violate(2, "round-trip", "intact-message-same-password-rejected", "Decrypt(Encrypt(msg)) with the same password did not return msg (%d bytes)", len(msg))
	}
	mj := func(fault, where string, kind int, site, detail string) {
		res["msg-"+s.judgeRaw(fault, where, outcome{kind: kind, site: site, detail: detail})]++
	}
	for l := 0; l < len(mct); l++ {
		k.Fault("ciphertext-truncation")
		kind, site, detail := mdec(mct[:l], s.pw)
		mj("ciphertext-truncation", fmt.Sprintf("Decrypt of message ciphertext cut to %d of %d bytes", l, len(mct)), kind, site, detail)
	}
	s.count("ciphertext-truncations-tried", len(mct))
	for _, w := range wrongPasswordsFor(s.pw)[:3] {
		k.Fault("wrong-password")
		kind, site, detail := mdec(mct, w)
		if kind == oSame {
			s.violate(1, "tamper-evidence", "different-password-accepted", "Decrypt of a message with a different password (%d bytes) returned the message", len(w))
		} else {
			mj("wrong-password", "Decrypt with a different password", kind, site, detail)
		}
	}
	names := make([]string, 0, len(res))
	for r := range res {
		names = append(names, r)
	}
	sortStrings(names)
	sum := ""
	for _, r := range names {
		s.hist["raw-"+r] = res[r]
		sum += fmt.Sprintf(" %s=%d", r, res[r])
	}
	k.Event("raw-ciphertext", "key ciphertext %d bytes, message %d bytes / ciphertext %d bytes:%s", len(ct), len(msg), len(mct), sum)
}

// (6) the Type field rewritten to another scheme. The Type is not part of the
// ciphertext, so the statement does not cover it: outcomes are only counted.
func (s *scn) typeSwap() {
	for _, other := range schemes {
		if other == s.fileTyp {
			continue
		}
		d := bytes.Replace(s.orig, []byte(`"`+s.fileTyp+`"`), []byte(`"`+other+`"`), 1)
		o := s.readFile(d, s.pw)
		name := fmt.Sprintf("type-swap:%s->%s:%s", s.fileTyp, other, []string{"error", "same-key", "key-of-the-other-scheme-returned", "panic"}[o.kind])
		s.k.Probe(name)
	}
	s.k.Event("type-swap", "Type field rewritten to the 2 other schemes (counted in probes only)")
}

// (7) other keys are written and read while the keys returned so far are still held (what
// UnlockKeys does with several key files): each of them round-trips and none of the held ones changes.
func (s *scn) otherKeys(seed []byte) {
	for sch := range schemes {
		k2, err := makeKey(sch, seed)
		if err != nil {
			continue
		}
		want := append([]byte{}, k2.Encode()...)
		path := filepath.Join(s.dir, fmt.Sprintf("other-%d.json", sch))
		pw := []byte("other-" + schemes[sch])
		var werr error
		var got crypto.PrivateKey
		var rerr error
		if site, val, p := guard(func() {
			if werr = keystore.EncryptAndWriteToFile(path, k2, pw); werr == nil {
				got, rerr = keystore.ReadFromFileAndDecrypt(path, pw)
			}
		}); p {
			s.violate(3, "panic", "panic@"+site, "second key file: panic in gossamer code: %v at %s", val, site)
			continue
		}
		if werr != nil || rerr != nil || got == nil {
			s.violate(2, "round-trip", "second-key-file-rejected", "a second %s key file written and read with its own password failed: write=%v read=%v", schemes[sch], werr, rerr)
			continue
		}
		if !bytes.Equal(got.Encode(), want) {
			s.violate(0, "different-key", "different-key/second-key-file", "a second %s key file read back as a different key", schemes[sch])
		}
		s.stillSame("reading a second " + schemes[sch] + " key file")
		s.k.Probes["second-key-files"]++
	}
}

// callerBuffer: the password argument belongs to the caller, who wipes or reuses the buffer after a
// call returns (a CLI zeroes the password it read; a loop unlocks several keys through one buffer).
// What "the same password" means is decided by the bytes at the time of each call, never by the
// identity of the slice. All three steps need a non-empty password.
func (s *scn) callerBuffer(seed []byte) {
	if len(s.pw) == 0 {
		return
	}
	pw1 := append([]byte{}, s.pw...)
	pw2 := append([]byte{}, s.pw...)
	for i := range pw2 {
		pw2[i] ^= 0x15
	}
	sch := int(seed[0]) % len(schemes)
	k2, err := makeKey(sch, seed)
	if err != nil {
		return
	}
	want2 := append([]byte{}, k2.Encode()...)
	buf := append([]byte{}, pw1...)
	var ct1, ct2 []byte
	var e1, e2 error
	dec := func(c, pw []byte, typ string) (crypto.PrivateKey, error, bool) {
		var pk crypto.PrivateKey
		var derr error
		if site, val, p := guard(func() { pk, derr = keystore.DecryptPrivateKey(c, pw, typ) }); p {
			s.violate(3, "panic", "panic@"+site, "caller-owned buffer: panic in gossamer code: %v at %s", val, site)
			return nil, nil, false
		}
		return pk, derr, true
	}
	if site, val, p := guard(func() { ct1, e1 = keystore.EncryptPrivateKey(s.priv, buf) }); p || e1 != nil {
		if p {
			s.violate(3, "panic", "panic@"+site, "caller-owned buffer: panic in gossamer code: %v at %s", val, site)
		}
		return
	}
	s.k.Fault("password-buffer-wiped")
	for i := range buf {
		buf[i] = 0
	}
	zero := make([]byte, len(pw1))
	if !bytes.Equal(zero, pw1) {
		if pk, derr, ok := dec(ct1, zero, s.typ); ok && derr == nil && pk != nil {
			s.violate(1, "tamper-evidence", "different-password-accepted", "after the caller wiped its password buffer, an all-zero password of the same length (%d bytes) decrypted the key", len(zero))
		}
	}
	// the same buffer now carries another password for another key
	s.k.Fault("password-buffer-reused")
	copy(buf, pw2)
	if site, val, p := guard(func() { ct2, e2 = keystore.EncryptPrivateKey(k2, buf) }); p || e2 != nil {
		if p {
			s.violate(3, "panic", "panic@"+site, "caller-owned buffer: panic in gossamer code: %v at %s", val, site)
		}
		return
	}
	copy(buf, pw1)
	if pk, derr, ok := dec(ct2, append([]byte{}, pw1...), schemes[sch]); ok && derr == nil && pk != nil {
		s.violate(1, "tamper-evidence", "different-password-accepted", "a key encrypted through a reused password buffer opened with the buffer's earlier password")
	}
	// an unrelated password in between, as after other unlocks or a restart
	dec(ct1, []byte("unrelated-password"), s.typ)
	pk, derr, ok := dec(ct2, append([]byte{}, pw2...), schemes[sch])
	if !ok {
		return
	}
	if derr != nil || pk == nil {
		s.violate(2, "round-trip", "reused-buffer-key-rejected", "a key encrypted through a reused password buffer no longer opens with the password the buffer held at the time: %v", derr)
	} else if !bytes.Equal(pk.Encode(), want2) {
		s.violate(0, "different-key", "different-key/reused-buffer", "a key encrypted through a reused password buffer read back as a different key")
	}
	if pk, derr, ok := dec(ct1, append([]byte{}, pw1...), s.typ); ok {
		if derr != nil || pk == nil {
			s.violate(2, "round-trip", "wiped-buffer-key-rejected", "a key encrypted before the caller wiped its buffer no longer opens with the same password: %v", derr)
		} else if same, why := s.compare(pk); !same {
			s.violate(0, "different-key", "different-key/wiped-buffer", "a key encrypted before the caller wiped its buffer read back as a different key: %s", why)
		}
	}
	s.stillSame("password buffer reuse")
	s.k.Probes["caller-buffer-scenarios"]++
}
