package sync

import (
	"encoding/json"
	"fmt"
	"strings"
	"testing/synctest"
	"time"

	"github.com/ChainSafe/gossamer/dot/network"
	"github.com/ChainSafe/gossamer/dot/network/messages"
	"github.com/ChainSafe/gossamer/dot/peerset"
	"github.com/ChainSafe/gossamer/dot/state"
	gsync "github.com/ChainSafe/gossamer/dot/sync"
	"github.com/ChainSafe/gossamer/dot/types"
	"github.com/ChainSafe/gossamer/lib/common"
	"github.com/ChainSafe/gossamer/lib/runtime"
	"github.com/ChainSafe/gossamer/lib/runtime/storage"
	"github.com/ChainSafe/gossamer/pkg/trie/inmemory"
	cu "github.com/ChainSafe/gossamer/verifsim/chainutil"
	"github.com/ChainSafe/gossamer/verifsim/kernel"
	"github.com/ChainSafe/gossamer/verifsim/simdisk"
	"github.com/libp2p/go-libp2p/core/peer"
)

type noTelemetry struct{}

func (noTelemetry) SendMessage(json.Marshaler) {}

// ---- stubs below the real block importer -----------------------------------

type stubRuntime struct{ runtime.Instance }

func (stubRuntime) Stop()                                     {}
func (stubRuntime) SetContextStorage(runtime.Storage)         {}
func (stubRuntime) ExecuteBlock(*types.Block) ([]byte, error) { return nil, nil }

type noTxState struct{}

func (noTxState) RemoveExtrinsic(types.Extrinsic) {}

type noBabe struct{}

func (noBabe) VerifyBlock(*types.Header) error { return nil }

// simFinality stands in for GRANDPA's justification verification (decided by C19, not here): a
// justification is "valid" iff it is the simulator's marker for a block of the main chain - the one
// chain an honest supermajority could have signed. Everything else is refused.
type simFinality struct{ s *ssim }

func justMarker(h common.Hash) []byte { return append([]byte("J:"), h[:8]...) }

func (f simFinality) VerifyBlockJustification(h common.Hash, n uint, j []byte) (uint64, uint64, error) {
	if f.s.main[h] && string(j) == string(justMarker(h)) {
		f.s.k.Probe("justification-accepted")
		return uint64(n), 0, nil
	}
	return 0, 0, fmt.Errorf("invalid justification")
}

// importHandler is the stub for dot/core: it puts the executed block into the real block state.
type importHandler struct{ c *client }

func (h importHandler) HandleBlockImport(b *types.Block, _ *storage.TrieState, _ bool) error {
	c := h.c
	hh := b.Header.Hash()
	c.imports[hh]++
	if c.imports[hh] > 1 {
		c.k.Violate("C32", "import-once", "block-imported-twice", "block #%d %s was imported %d times", b.Header.Number, cu.Short(hh), c.imports[hh])
	}
	if err := c.bs.AddBlock(b); err != nil {
		return err
	}
	c.k.Event("imported", "#%d %s", b.Header.Number, cu.Short(hh))
	return nil
}

type noNetwork struct{}

func (noNetwork) AllConnectedPeersIDs() []peer.ID                              { return nil }
func (noNetwork) ReportPeer(peerset.ReputationChange, peer.ID)                 {}
func (noNetwork) BlockAnnounceHandshake(*types.Header) error                   { return nil }
func (noNetwork) GossipMessageExcluding(network.NotificationsMessage, peer.ID) {}
func (noNetwork) GetRequestResponseProtocol(string, time.Duration, uint64) *network.RequestResponseProtocol {
	return nil
}

// ---- actors -----------------------------------------------------------------

type server struct {
	id   int
	disk *simdisk.Disk
	bs   *state.BlockState
	svc  *gsync.SyncService
	ref  *cu.RefTree
	has  map[common.Hash]bool
	byz  bool
	fin  common.Hash
	seen map[string]int // requests seen per (peer, request) for the repeat limit
}

type respInfo struct {
	id      int
	who     peer.ID
	invalid string // "" if the response is a hash-linked chain with honest hashes
	req     *messages.BlockRequestMessage
}

type client struct {
	k               *kernel.K
	bs              *state.BlockState
	ss              *state.InmemoryStorageState
	f               *gsync.FullSyncStrategy
	imports         map[common.Hash]int
	origin          map[*types.BlockData]*respInfo
	handed          map[common.Hash]int
	abandonedParent bool // this round handed a block whose imported parent was abandoned by finality meanwhile
}

type ssim struct {
	lastDisk *simdisk.Disk // the disk of the block state created last (newBlockState)
	k        *kernel.K
	genesis  *types.Header
	root     common.Hash // state root shared by all blocks (the stub runtime changes nothing)
	blocks   []*cu.RefBlock
	all      *cu.RefTree
	servers  []*server
	cl       *client
	salt     int
	main     map[common.Hash]bool // blocks of the main chain (the only ones with valid justifications)
	just     bool                 // per-run knob: responses may carry justifications that finalise during a round
	stray    bool                 // per-run knob: responses may be well-formed chain pieces nobody asked for
}

func peerOf(i int) peer.ID { return peer.ID(fmt.Sprintf("srv-%d", i)) }

func body() *types.Body { return types.NewBody([]types.Extrinsic{{1, 2, 3}}) }

func (s *ssim) produce(parent *cu.RefBlock) *cu.RefBlock {
	s.salt++
	h := types.NewHeader(parent.Hash, s.root, common.Hash{byte(s.salt), byte(s.salt >> 8)}, parent.Number+1,
		cu.BabeDigest(s.k.Bool(1, 2, "primary"), 0, uint64(100+s.salt)))
	rb := &cu.RefBlock{Hash: h.Hash(), Parent: parent.Hash, Number: parent.Number + 1, Header: h}
	s.all.Add(rb)
	s.blocks = append(s.blocks, rb)
	return rb
}

func (s *ssim) newBlockState() (*state.BlockState, *state.InmemoryStorageState) {
	s.lastDisk = simdisk.NewDisk()
	db := s.lastDisk.Open()
	tries := state.NewTries()
	bs, err := state.NewBlockStateFromGenesis(db, tries, s.genesis, noTelemetry{})
	if err != nil {
		panic(err)
	}
	ss, err := state.NewStorageState(db, bs, tries)
	if err != nil {
		panic(err)
	}
	tr := inmemory.NewEmptyTrie()
	tr.Put([]byte("k"), []byte("v"))
	if err := ss.StoreTrie(storage.NewTrieState(tr), nil); err != nil {
		panic(err)
	}
	bs.StoreRuntime(s.genesis.Hash(), stubRuntime{})
	return bs, ss
}

func (sv *server) importChain(s *ssim, b *cu.RefBlock) {
	var chain []*cu.RefBlock
	x := b
	for ; x != nil && !sv.has[x.Hash]; x = s.all.Blocks[x.Parent] {
		chain = append(chain, x)
	}
	if x == nil {
		return
	}
	for i := len(chain) - 1; i >= 0; i-- {
		c := chain[i]
		if err := sv.bs.AddBlock(&types.Block{Header: *c.Header, Body: *body()}); err != nil {
			return
		}
		sv.has[c.Hash] = true
		sv.ref.Add(&cu.RefBlock{Hash: c.Hash, Parent: c.Parent, Number: c.Number, Header: c.Header})
	}
}

func runSync(k *kernel.K) {
	s := &ssim{k: k}
	tr := inmemory.NewEmptyTrie()
	tr.Put([]byte("k"), []byte("v"))
	s.root = tr.MustHash()
	s.genesis = types.NewHeader(common.Hash{}, s.root, common.Hash{}, 0, types.NewDigest())
	g := &cu.RefBlock{Hash: s.genesis.Hash(), Number: 0, Header: s.genesis}
	s.all = cu.NewRefTree(g)
	s.blocks = []*cu.RefBlock{g}
	// the chain the servers hold: long (crosses the 128 limit) or fork-heavy
	long := k.Bool(1, 4, "long-chain")
	length := k.Range(3, 24, "chain-len")
	if long {
		length = k.Range(120, 300, "long-chain-len")
	}
	tip := g
	s.main = map[common.Hash]bool{g.Hash: true}
	for i := 0; i < length; i++ {
		tip = s.produce(tip)
		s.main[tip.Hash] = true
	}
	for i, f := 0, k.Choose(4, "forks"); i < f; i++ {
		p := s.blocks[k.Choose(len(s.blocks), "fork-parent")]
		for j, d := 0, 1+k.Choose(4, "fork-len"); j < d; j++ {
			p = s.produce(p)
		}
	}
	s.stray = k.Bool(1, 3, "knob-stray-fragments")
	s.just = k.Bool(1, 2, "knob-justifications")
	nsrv := k.Range(1, 3, "servers")
	for i := 0; i < nsrv; i++ {
		bs, _ := s.newBlockState()
		sv := &server{id: i, disk: s.lastDisk, bs: bs, has: map[common.Hash]bool{g.Hash: true}, ref: cu.NewRefTree(&cu.RefBlock{Hash: g.Hash, Header: s.genesis}), fin: g.Hash, seen: map[string]int{}}
		sv.svc = gsync.NewSyncService(gsync.WithBlockState(bs), gsync.WithNetwork(noNetwork{}))
		sv.byz = i > 0 && k.Bool(1, 2, "byzantine-server")
		for _, b := range s.blocks[1:] {
			if !k.Bool(1, 10, "server-lacks-block") {
				sv.importChain(s, b)
			}
		}
		s.servers = append(s.servers, sv)
	}
	// the syncing node
	cbs, css := s.newBlockState()
	c := &client{k: k, bs: cbs, ss: css, imports: map[common.Hash]int{}, origin: map[*types.BlockData]*respInfo{}, handed: map[common.Hash]int{}}
	c.f = gsync.NewFullSyncStrategy(&gsync.FullSyncConfig{StorageState: css, TransactionState: noTxState{}, BabeVerifier: noBabe{},
		FinalityGadget: simFinality{s}, BlockImportHandler: importHandler{c}, Telemetry: noTelemetry{}, BlockState: cbs,
		NumOfTasks: k.Range(1, 4, "num-tasks")})
	c.f.VerifSetImportHook(c.onHandOver)
	s.cl = c
	synctest.Wait()

	steps := k.Range(6, 40, "steps")
	respID := 0
	for st := 0; st < steps; st++ {
		switch a := k.Choose(10, "action"); {
		case a <= 1: // handshake / announce from a server
			sv := s.servers[k.Choose(len(s.servers), "announcer")]
			best, _ := sv.bs.BestBlockHeader()
			if k.Bool(1, 2, "announce-not-handshake") {
				blk := best
				if k.Bool(1, 3, "announce-other-block") {
					all := sv.ref.All()
					blk = s.all.Blocks[all[k.Choose(len(all), "announce-block")]].Header
				}
				msg := &network.BlockAnnounceMessage{ParentHash: blk.ParentHash, Number: blk.Number, StateRoot: blk.StateRoot,
					ExtrinsicsRoot: blk.ExtrinsicsRoot, Digest: blk.Digest, BestBlock: blk.Hash() == best.Hash()}
				_, err := c.f.OnBlockAnnounce(peerOf(sv.id), msg)
				k.Event("announce", "srv%d #%d %s err=%v", sv.id, blk.Number, cu.Short(blk.Hash()), err != nil)
			} else {
				c.f.OnBlockAnnounceHandshake(peerOf(sv.id), &network.BlockAnnounceHandshake{BestBlockNumber: uint32(best.Number), BestBlockHash: best.Hash(), GenesisHash: g.Hash})
				k.Event("handshake", "srv%d best=#%d", sv.id, best.Number)
			}
		case a <= 6: // one sync round: NextActions -> requests -> responses through the network -> Process
			tasks, err := c.f.NextActions()
			if err != nil {
				k.Event("next-actions-error", "%v", err)
				continue
			}
			var results []*gsync.SyncTaskResult
			var infos []*respInfo
			for _, t := range tasks {
				req := t.VerifRequest()
				sv := s.servers[k.Choose(len(s.servers), "task-server")]
				respID++
				res, info := s.exchange(sv, req, respID)
				results = append(results, res)
				infos = append(infos, info)
				if k.Bool(1, 10, "duplicate-result") {
					k.Fault("duplicate-response")
					respID++
					res2, info2 := s.exchange(sv, req, respID)
					results = append(results, res2)
					infos = append(infos, info2)
				}
			}
			if s.stray && len(tasks) > 0 {
				// further answers to the same requests (several peers answer, late answers of earlier rounds)
				for x := k.Choose(4, "extra-results"); x > 0; x-- {
					req := tasks[k.Choose(len(tasks), "extra-task")].VerifRequest()
					sv := s.servers[k.Choose(len(s.servers), "task-server")]
					respID++
					res, info := s.exchange(sv, req, respID)
					results = append(results, res)
					infos = append(infos, info)
				}
			}
			// results arrive in any order
			for i := len(results) - 1; i > 0; i-- {
				j := k.Choose(i+1, "result-order")
				if j != i {
					k.Fault("reorder-responses")
				}
				results[i], results[j] = results[j], results[i]
				infos[i], infos[j] = infos[j], infos[i]
			}
			k.Event("process", "%d results (queue %d, target %d)", len(results), c.f.VerifQueueLen(), c.f.VerifTarget())
			c.abandonedParent = false
			reps, err := c.process(results)
			synctest.Wait()
			if err != nil {
				k.Event("process-error", "%v", err)
				if strings.Contains(err.Error(), "failed to get parent header") && !c.abandonedParent {
					k.Violate("C32", "parents-first", "block-handed-before-parent-known", "Process failed because a block reached the importer before its parent: %v", err)
				}
			}
			// every response that is not a hash-linked chain (or carries a forged hash) costs its sender reputation.
			// Process hands its reputation changes back only when it succeeds; when it stops with an error
			// (importer refused a block, invalid justification) "rejected" is decided by the hand-over
			// oracle alone (nothing of an invalid response reaches the importer).
			for _, info := range infos {
				if err != nil {
					break
				}
				if info == nil || info.invalid == "" || !info.req.RequestField(messages.RequestedDataHeader) {
					continue
				}
				found := false
				for _, r := range reps {
					if r.VerifWho() == info.who {
						found = true
					}
				}
				if !found {
					k.Violate("C32", "reject-invalid-response", "invalid-response-without-reputation-change:"+info.invalid, "response %d from %s is invalid (%s) but no reputation change was reported for the peer", info.id, info.who, info.invalid)
				}
			}
		case a == 7: // a server's chain moves: new blocks and finalisation
			sv := s.servers[k.Choose(len(s.servers), "moving-server")]
			best, _ := sv.bs.BestBlockHeader()
			from := s.all.Blocks[best.Hash()]
			grow := 1
			if k.Bool(1, 3, "server-reorg") {
				// a competing fork of the server's tree grows and may overtake its best chain (re-organisation
				// between requests: heights served before now belong to another chain)
				all := sv.ref.All()
				from = s.all.Blocks[all[k.Choose(len(all), "reorg-from")]]
				grow = 1 + k.Choose(4, "reorg-grow")
				k.Fault("server-fork-grows")
			}
			var nb *cu.RefBlock
			for i := 0; i < grow; i++ {
				nb = s.produce(from)
				from = nb
			}
			sv.importChain(s, nb)
			if nbest, _ := sv.bs.BestBlockHeader(); nbest.ParentHash != best.Hash() && nbest.Hash() != best.Hash() && !s.isAncestor(best.Hash(), nbest.Hash()) {
				k.Probe("server-best-chain-reorganised")
			}
			if k.Bool(1, 2, "server-finalises") {
				path := sv.ref.PathFrom(sv.ref.Root, nb.Hash)
				if len(path) > 1 {
					t := path[k.Choose(len(path)-1, "server-fin-target")+1]
					if k.Bool(1, 2, "request-served-during-finalisation") {
						// a peer's request is served (by another goroutine of the node, which takes no lock of the
						// block state) between two database writes of the finalisation: the blocks that move from
						// memory to the database must be readable at every such moment
						after := k.Choose(12, "served-after-write")
						first := path[1]
						mx := uint32(len(path))
						before := k.Bool(1, 2, "served-just-before-the-write")
						serve := func() {}
						sv.disk.Observer = func(int) {
							if !before {
								serve()
							}
						}
						sv.disk.OnWrite = func(*simdisk.Record) (error, bool) {
							if before {
								serve() // the record (a single put or a whole batch) is not on the disk yet
							}
							return nil, false
						}
						serve = func() {
							if after > 0 {
								after--
								return
							}
							serve = func() {}
							var req *messages.BlockRequestMessage
							if n, ok := s.numberOf(first); ok && k.Bool(1, 2, "served-by-number") {
								req = messages.NewBlockRequest(*messages.NewFromBlock(n), mx, messages.BootstrapRequestData, messages.Ascending)
							} else {
								// from the block finalised before, which is in the database already
								req = messages.NewBlockRequest(*messages.NewFromBlock(path[0]), mx+1, messages.BootstrapRequestData, messages.Ascending)
							}
							resp, err := sv.svc.CreateBlockResponse(peer.ID("during-finalisation"), req)
							k.Event("request", "srv%d %s between the writes of a finalisation -> %v", sv.id, reqStr(req), err != nil)
							k.Fault("request-served-during-finalisation")
							if err == nil {
								s.checkServed(sv, req, resp, "during-finalisation")
							}
						}
					}
					err := sv.bs.SetFinalisedHash(t, uint64(s.salt), 0)
					sv.disk.Observer, sv.disk.OnWrite = nil, nil
					if err == nil {
						sv.ref.Finalise(t)
						sv.fin = t
						if s.just && s.main[t] {
							_ = sv.bs.SetJustification(t, justMarker(t))
						}
						// blocks on abandoned forks are gone from this server
						for h := range sv.has {
							if !sv.ref.Has(h) && !s.isAncestor(h, t) {
								delete(sv.has, h)
							}
						}
					}
				}
			}
			k.Event("server-moves", "srv%d best=#%d fin=%s", sv.id, nb.Number, cu.Short(sv.fin))
		case a == 8 && k.Bool(1, 2, "client-finalises"): // GRANDPA finalises a block of the syncing node's best chain
			best, _ := c.bs.BestBlockHeader()
			fin, _ := c.bs.GetHighestFinalisedHeader()
			if best.Number > fin.Number {
				n := fin.Number + 1 + uint(k.Choose(int(best.Number-fin.Number), "client-fin-number"))
				if h, err := c.bs.GetHashByNumber(n); err == nil && (!s.just || s.main[h]) {
					if err := c.bs.SetFinalisedHash(h, uint64(st+1), 0); err == nil {
						k.Event("client-finalises", "#%d %s", n, cu.Short(h))
						k.Probe("client-finalised")
					}
				}
			}
		default: // a (possibly Byzantine) requester asks a server directly: C31 serving oracle
			s.directRequest()
		}
	}
	// after faults: does the node reach the honest servers' best chain? (probe only)
	cb, _ := c.bs.BestBlockHeader()
	sb, _ := s.servers[0].bs.BestBlockHeader()
	if cb.Number >= sb.Number {
		k.Probe("client-reached-server-best")
	}
	if len(c.imports) > 0 {
		k.Nontriv = true
	}
}

func (s *ssim) isAncestor(a, of common.Hash) bool {
	for x := of; ; {
		if x == a {
			return true
		}
		b := s.all.Blocks[x]
		if b == nil || b.Number == 0 {
			return false
		}
		x = b.Parent
	}
}

// process calls the real Process. One panic is outside C32's statement and ends the run without a
// verdict: a block on a fork at or below the finalised height (announced before, completed after
// the finalisation) reaches the importer, whose runtime lookup panics for parents that left the
// block tree - gossamer's own issue #3066, quoted in the panic text.
func (c *client) process(results []*gsync.SyncTaskResult) (reps []gsync.Change, err error) {
	defer func() {
		if r := recover(); r != nil {
			if strings.Contains(fmt.Sprint(r), "issues/3066") {
				c.k.Probe("importer-panic-gossamer-issue-3066-out-of-scope")
				c.k.Event("out-of-scope-panic", "%v", r)
				c.k.Stop()
			}
			panic(r)
		}
	}()
	_, reps, _, err = c.f.Process(results)
	return reps, err
}

// onHandOver: C32 oracle at the moment the strategy hands a block to the importer.
func (c *client) onHandOver(bd *types.BlockData) {
	k := c.k
	if bd.Header == nil {
		k.Violate("C32", "hand-over", "headerless-block-handed-to-importer", "block data %s without header handed to the importer", cu.Short(bd.Hash))
		return
	}
	hh := bd.Header.Hash()
	k.Event("hand-over", "#%d %s", bd.Header.Number, cu.Short(hh))
	if bd.Hash != hh {
		k.Violate("C32", "stated-hash", "forged-hash-block-handed-to-importer", "block #%d handed to the importer with stated hash %s but its header hashes to %s", bd.Header.Number, cu.Short(bd.Hash), cu.Short(hh))
	}
	if info := c.origin[bd]; info != nil && info.invalid != "" {
		k.Violate("C32", "reject-invalid-response", "block-from-invalid-response-handed-to-importer:"+info.invalid, "block #%d %s comes from response %d which is invalid (%s)", bd.Header.Number, cu.Short(hh), info.id, info.invalid)
	}
	known, _ := c.bs.HasHeader(hh)
	if known {
		k.Probe("known-block-handed-again")
		return // the importer skips blocks it already has
	}
	if ok, _ := c.bs.HasHeader(bd.Header.ParentHash); !ok {
		if c.imports[bd.Header.ParentHash] > 0 {
			// the parent WAS handed over and imported before this block; a justification imported in
			// between finalised a competing chain and the block state discarded the parent's fork. The
			// order the statement demands (parent first) was kept; the importer refuses the block.
			k.Probe("parent-imported-then-abandoned-by-finality")
			c.abandonedParent = true
			return
		}
		k.Violate("C32", "parents-first", "block-handed-before-parent-known", "block #%d %s handed to the importer while its parent %s is unknown", bd.Header.Number, cu.Short(hh), cu.Short(bd.Header.ParentHash))
	}
	c.handed[hh]++
}

// exchange: request bytes -> server -> response bytes (with faults and Byzantine mutations) -> client decode.
func (s *ssim) exchange(sv *server, req *messages.BlockRequestMessage, id int) (*gsync.SyncTaskResult, *respInfo) {
	k := s.k
	who := peerOf(sv.id)
	sreq := s.viaWire(req)
	resp, err := sv.svc.CreateBlockResponse(peer.ID("client"), sreq)
	if err == nil {
		s.checkServed(sv, req, resp, "client") // judged against what was asked, not against the server's decoded copy
	}
	if err != nil || k.Bool(1, 12, "response-lost") {
		if err == nil {
			k.Fault("response-lost")
		}
		k.Event("exchange", "r%d srv%d %s -> no response (%v)", id, sv.id, reqStr(req), err)
		return gsync.VerifNewTaskResult(who, req, &messages.BlockResponseMessage{}, false), nil
	}
	what := "honest"
	if s.stray && req.RequestField(messages.RequestedDataHeader) && k.Bool(1, 3, "stray-fragment") {
		// the network / a lazy server answers with a well-formed chain piece that is not the one asked
		// for: any block of the tree with a few of its ancestors (forks, pieces below and across the
		// client's finalised height, disconnected pieces). Hash-linked and honestly hashed, so nothing
		// in the statement allows refusing it outright - but nothing may be imported before its parent.
		tipb := s.blocks[1+k.Choose(len(s.blocks)-1, "stray-tip")]
		n := 1 + k.Choose(6, "stray-len")
		var seg []*types.BlockData
		for x := tipb; x != nil && x.Number > 0 && len(seg) < n; x = s.all.Blocks[x.Parent] {
			bd := &types.BlockData{Hash: x.Hash, Header: x.Header, Body: body()}
			if s.just && s.main[x.Hash] && k.Bool(1, 3, "stray-justification") {
				j := justMarker(x.Hash)
				bd.Justification = &j
				k.Fault("justification-in-response")
			}
			seg = append([]*types.BlockData{bd}, seg...)
		}
		if req.Direction == messages.Descending {
			for i, j := 0, len(seg)-1; i < j; i, j = i+1, j-1 {
				seg[i], seg[j] = seg[j], seg[i]
			}
		}
		resp.BlockData = seg
		k.Fault("stray-fragment")
		what = "stray"
	} else if sv.byz {
		what = s.mutate(resp, req)
	} else if k.Bool(1, 8, "partial-response") && len(resp.BlockData) > 1 {
		// an honest server may answer with fewer blocks than asked
		resp.BlockData = resp.BlockData[:1+k.Choose(len(resp.BlockData)-1, "partial-len")]
		k.Fault("partial-response")
		what = "partial"
	}
	rraw, err := resp.Encode()
	if err != nil {
		panic(err)
	}
	got := new(messages.BlockResponseMessage)
	if err := got.Decode(rraw); err != nil {
		k.Event("exchange", "r%d undecodable response: %v", id, err)
		return gsync.VerifNewTaskResult(who, req, &messages.BlockResponseMessage{}, false), nil
	}
	info := &respInfo{id: id, who: who, req: req, invalid: invalidity(got, req)}
	for _, bd := range got.BlockData {
		s.cl.origin[bd] = info
	}
	k.Event("exchange", "r%d srv%d %s -> %d blocks (%s) invalid=%q", id, sv.id, reqStr(req), len(got.BlockData), what, info.invalid)
	return gsync.VerifNewTaskResult(who, req, got, true), info
}

func reqStr(r *messages.BlockRequestMessage) string {
	m := uint32(0)
	if r.Max != nil {
		m = *r.Max
	}
	start := r.StartingBlock.String()
	if len(start) > 14 {
		start = start[:14]
	}
	return fmt.Sprintf("[from=%s dir=%d max=%d fields=%d]", start, r.Direction, m, r.RequestedData)
}

// invalidity: why a decoded response is not acceptable by the statement (independent of gossamer's checks).
func invalidity(resp *messages.BlockResponseMessage, req *messages.BlockRequestMessage) string {
	if !req.RequestField(messages.RequestedDataHeader) {
		return ""
	}
	bds := append([]*types.BlockData{}, resp.BlockData...)
	if req.Direction == messages.Descending {
		for i, j := 0, len(bds)-1; i < j; i, j = i+1, j-1 {
			bds[i], bds[j] = bds[j], bds[i]
		}
	}
	for _, bd := range bds {
		if bd.Header == nil {
			return "missing-header"
		}
	}
	for _, bd := range bds {
		if bd.Hash != bd.Header.Hash() {
			return "stated-hash-differs-from-header-hash"
		}
	}
	for i := 1; i < len(bds); i++ {
		if bds[i].Header.ParentHash != bds[i-1].Header.Hash() || bds[i].Header.Number != bds[i-1].Header.Number+1 {
			return "not-a-hash-linked-chain"
		}
	}
	return ""
}

// mutate: what a Byzantine server does to an otherwise honest response.
func (s *ssim) mutate(resp *messages.BlockResponseMessage, req *messages.BlockRequestMessage) string {
	k := s.k
	bd := resp.BlockData
	if len(bd) == 0 {
		return "byz-empty"
	}
	k.Fault("byzantine-response")
	switch k.Choose(8, "byz-kind") {
	case 0: // forge the stated hash of one block
		i := k.Choose(len(bd), "byz-index")
		cp := *bd[i]
		cp.Hash = common.Hash{0xf0, 0x0d, byte(i)}
		bd[i] = &cp
		return "byz-forged-hash"
	case 1: // state the hash of another block of the response (IsParent compares stated hashes)
		if len(bd) < 2 {
			return "byz-noop"
		}
		i := k.Choose(len(bd), "byz-index")
		j := (i + 1) % len(bd)
		cp := *bd[i]
		cp.Hash = bd[j].Hash
		bd[i] = &cp
		return "byz-swapped-hash"
	case 2: // shuffle the order
		if len(bd) < 2 {
			return "byz-noop"
		}
		i := k.Choose(len(bd)-1, "byz-index")
		bd[i], bd[i+1] = bd[i+1], bd[i]
		return "byz-shuffled"
	case 3: // drop a block from the middle (gap)
		if len(bd) < 3 {
			return "byz-noop"
		}
		i := 1 + k.Choose(len(bd)-2, "byz-index")
		resp.BlockData = append(bd[:i:i], bd[i+1:]...)
		return "byz-gap"
	case 4: // splice in a block of another fork with the "right" number
		i := k.Choose(len(bd), "byz-index")
		if bd[i].Header == nil {
			return "byz-noop"
		}
		for _, b := range s.blocks {
			if b.Number == bd[i].Header.Number && b.Hash != bd[i].Header.Hash() {
				bd[i] = &types.BlockData{Hash: b.Hash, Header: b.Header, Body: body()}
				return "byz-fork-block"
			}
		}
		return "byz-noop"
	case 5: // a forged header whose stated hash makes the chain look linked
		i := k.Choose(len(bd), "byz-index")
		if bd[i].Header == nil {
			return "byz-noop"
		}
		h := *bd[i].Header
		fake := types.NewHeader(h.ParentHash, h.StateRoot, common.Hash{0xee}, h.Number, h.Digest)
		bd[i] = &types.BlockData{Hash: bd[i].Hash, Header: fake, Body: body()}
		return "byz-forged-header-honest-hash"
	case 7: // a justification that is not valid for the block it is attached to
		i := k.Choose(len(bd), "byz-index")
		if bd[i].Header == nil {
			return "byz-noop"
		}
		cp := *bd[i]
		j := justMarker(common.Hash{0xba, 0xd0, byte(i)})
		cp.Justification = &j
		bd[i] = &cp
		return "byz-forged-justification"
	default: // duplicate a block inside the response
		i := k.Choose(len(bd), "byz-index")
		resp.BlockData = append(bd[:i+1:i+1], bd[i:]...)
		return "byz-duplicated-block"
	}
}

// viaWire: a request reaches the server as bytes and is decoded there by the real decoder. Requests of
// several peers overlap in a node: between the decoding of this request and its being served, the
// server may decode another one (a different maximum, or none).
func (s *ssim) viaWire(req *messages.BlockRequestMessage) *messages.BlockRequestMessage {
	raw, err := req.Encode()
	if err != nil {
		panic(err)
	}
	sreq := new(messages.BlockRequestMessage)
	if err := sreq.Decode(raw); err != nil {
		panic(err)
	}
	if s.k.Bool(1, 3, "another-request-decoded-meanwhile") {
		other := *req
		switch s.k.Choose(3, "other-request-max") {
		case 0:
			other.Max = nil
		case 1:
			m := uint32(100)
			other.Max = &m
		default:
			m := uint32(1)
			other.Max = &m
		}
		oraw, err := other.Encode()
		if err != nil {
			panic(err)
		}
		if err := new(messages.BlockRequestMessage).Decode(oraw); err != nil {
			panic(err)
		}
		s.k.Fault("overlapping-request-decoded")
	}
	return sreq
}
