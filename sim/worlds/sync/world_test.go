package sync

import (
	"testing"
	"time"

	"github.com/ChainSafe/gossamer/verifsim/kernel"
)

type world struct{}

func (world) Name() string          { return "sync" }
func (world) Props() []string       { return []string{"C31", "C32"} }
func (world) Bubble(p string) bool  { return true }
func (world) Level(p string) string { return "exploration" }
func (world) Run(k *kernel.K)       { runSync(k) }
func (world) Rule(p string) string {
	base := "one run = 1-3 block servers (each a real dot/state BlockState behind the real SyncService.CreateBlockResponse, some Byzantine) holding a generated tree (fork-heavy <=40 blocks, or a 120-300 block chain that crosses the 128-block response limit) whose best block and finalised head move during the run, and one syncing node running the real FullSyncStrategy (announces, handshakes, NextActions, Process) over a real BlockState with the real blockImporter; requests and responses travel as bytes through the real protobuf encoders/decoders; the tape decides which server answers, lost and partial responses, duplicated and reordered results, and Byzantine mutations (forged stated hash, stated hash of another block, shuffled order, gaps, blocks of another fork, forged header under an honest hash, duplicated blocks). "
	base += "Swarm knobs: a third of the runs let responses be well-formed chain pieces nobody asked for (any block with up to five ancestors) and add further answers to the same requests in one round; half of the runs attach justifications (accepted by the finality stub iff they are the simulator's marker for a main-chain block, so finality can move DURING Process; Byzantine servers forge them); a server's competing fork may grow and overtake its best chain between requests. "
	if p == "C31" {
		return base + "C31 oracle: every response served to the syncing node, to an honest planner and to Byzantine requesters (by number or hash, both directions, any max incl. none, any field mask, unknown hashes, repeats beyond the per-peer limit) is checked against the source's tree: gap-free hash-linked chain from the requested block in the requested direction, length <= min(max,128), exactly the requested fields, or an error; planned requests for a..b (around multiples of 128) cover the range exactly once in ascending order. Non-trivial = a served response with >= 2 blocks."
	}
	return base + "C32 oracle at the hand-over to the block importer and in the import log: parent already known to the block state, stated hash == header hash, no block imported twice, nothing handed over from a response that is not a hash-linked chain (judged independently on header hashes) and such responses cost the sender reputation. Non-trivial = at least one block imported."
}
func (world) Components(p string) ([]string, []string) {
	return []string{"dot/sync FullSyncStrategy (NextActions, Process, OnBlockAnnounce, validateResults, fragment sorting/merging), unreadyBlocks, blockImporter", "dot/sync SyncService.CreateBlockResponse", "dot/network/messages block request/response planning + protobuf encode/decode", "dot/state BlockState (client and servers) + InmemoryStorageState"},
		[]string{"network and request/response plumbing, worker pool (tape-driven exchange)", "runtime block execution (no-op), BABE verifier, finality gadget, dot/core import handler (adds the block to the real block state)", "clock (synctest bubble)", "telemetry"}
}
func (world) Budget(p, tier string) (int, time.Duration) {
	if tier == "thorough" {
		return 400000, 8 * time.Minute
	}
	return 40000, 40 * time.Second
}

func TestVerif(t *testing.T) { kernel.Main(t, world{}) }
