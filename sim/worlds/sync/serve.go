package sync

import (
	"github.com/ChainSafe/gossamer/dot/network/messages"
	"github.com/ChainSafe/gossamer/dot/types"
	"github.com/ChainSafe/gossamer/lib/common"
	cu "github.com/ChainSafe/gossamer/verifsim/chainutil"
	"github.com/libp2p/go-libp2p/core/peer"
)

func (s *ssim) numberOf(h common.Hash) (uint, bool) {
	b := s.all.Blocks[h]
	if b == nil {
		return 0, false
	}
	return b.Number, true
}

// checkServed: C31 — a served response is a gap-free chain starting at the
// requested block, in the requested direction, no longer than the requested and
// protocol maxima, with exactly the requested fields.
func (s *ssim) checkServed(sv *server, req *messages.BlockRequestMessage, resp *messages.BlockResponseMessage, who string) {
	k := s.k
	bds := resp.BlockData
	max := uint32(messages.MaxBlocksInResponse)
	if req.Max != nil && *req.Max < max {
		max = *req.Max
	}
	desc := reqStr(req)
	if uint32(len(bds)) > max {
		k.Violate("C31", "serve", "response-longer-than-maximum", "server %d answered %s with %d blocks (maximum %d)", sv.id, desc, len(bds), max)
	}
	if len(bds) == 0 {
		class := "empty-response-without-error"
		if n, ok := req.StartingBlock.RawValue().(uint); ok && req.Direction == messages.Descending {
			// the server starts a descending request by number at min(number, its best number): the recorded
			// finding is the request whose effective start is block 0 (asked for directly, or asked of a
			// server that holds nothing but the genesis block)
			best, _ := sv.bs.BestBlockNumber()
			if n == 0 || best == 0 {
				class = "descending-from-number-zero-empty-response"
			}
		}
		k.Violate("C31", "serve", class, "server %d answered %s with an empty response and no error", sv.id, desc)
	}
	wantHeader := req.RequestField(messages.RequestedDataHeader)
	wantBody := req.RequestField(messages.RequestedDataBody)
	wantJust := req.RequestField(messages.RequestedDataJustification)
	for i, bd := range bds {
		if (bd.Header != nil) != wantHeader {
			k.Violate("C31", "serve", "header-field-mismatch", "server %d answered %s: block %d header present=%v, requested=%v", sv.id, desc, i, bd.Header != nil, wantHeader)
		}
		if (bd.Body != nil) != wantBody {
			k.Violate("C31", "serve", "body-field-mismatch", "server %d answered %s: block %d body present=%v, requested=%v", sv.id, desc, i, bd.Body != nil, wantBody)
		}
		if bd.Justification != nil && !wantJust {
			k.Violate("C31", "serve", "justification-not-requested", "server %d answered %s: block %d carries a justification that was not requested", sv.id, desc, i)
		}
		if bd.Receipt != nil && !req.RequestField(messages.RequestedDataReceipt) || bd.MessageQueue != nil && !req.RequestField(messages.RequestedDataMessageQueue) {
			k.Violate("C31", "serve", "field-not-requested", "server %d answered %s: block %d carries a field that was not requested", sv.id, desc, i)
		}
		if wantHeader && bd.Header != nil && bd.Hash != bd.Header.Hash() {
			k.Violate("C31", "serve", "served-hash-differs-from-header", "server %d answered %s: block %d stated hash %s, header hash %s", sv.id, desc, i, cu.Short(bd.Hash), cu.Short(bd.Header.Hash()))
		}
	}
	// the chain: consecutive blocks are parent and child in the requested direction (by the source's tree)
	for i := 1; i < len(bds); i++ {
		a, b := bds[i-1].Hash, bds[i].Hash
		if req.Direction == messages.Descending {
			a, b = b, a
		}
		pb := s.all.Blocks[b]
		if pb == nil || pb.Parent != a {
			class := "response-not-a-gap-free-chain-ascending"
			if req.Direction == messages.Descending {
				class = "response-not-a-gap-free-chain-descending"
			}
			k.Violate("C31", "serve", class, "server %d answered %s: block %d (%s) and block %d (%s) are not parent and child in the requested direction", sv.id, desc, i-1, cu.Short(bds[i-1].Hash), i, cu.Short(bds[i].Hash))
		}
	}
	// the first block is the requested one
	if len(bds) > 0 {
		switch start := req.StartingBlock.RawValue().(type) {
		case common.Hash:
			if bds[0].Hash != start {
				k.Violate("C31", "serve", "response-does-not-start-at-requested-hash", "server %d answered %s: first block is %s", sv.id, desc, cu.Short(bds[0].Hash))
			}
		case uint:
			n, ok := s.numberOf(bds[0].Hash)
			best, _ := sv.bs.BestBlockNumber()
			if ok && start <= best && n != start {
				class := "response-does-not-start-at-requested-number"
				if start == 0 {
					class = "request-from-number-zero-starts-at-one"
				}
				k.Violate("C31", "serve", class, "server %d answered %s: first block has number %d", sv.id, desc, n)
			}
		}
	}
	k.Probe("served-response-checked")
	if len(bds) >= 2 {
		k.Nontriv = true
	}
}

// directRequest: an honest planner or a Byzantine requester talks to a server.
func (s *ssim) directRequest() {
	k := s.k
	sv := s.servers[k.Choose(len(s.servers), "req-server")]
	best, _ := sv.bs.BestBlockNumber()
	if k.Bool(1, 3, "planner") {
		// C31 planner: the requests planned for a..b cover [a,b] exactly once, ascending, each <= 128
		a := uint(1 + k.Choose(int(best)+2, "plan-a"))
		span := []uint{0, 1, 126, 127, 128, 129, 255, 256, 257, 300}[k.Choose(10, "plan-span")]
		if k.Bool(1, 2, "plan-small-span") {
			span = uint(k.Choose(6, "plan-span-small"))
		}
		b := a + span
		reqs := messages.NewAscendingBlockRequests(a, b, messages.BootstrapRequestData)
		next := a
		for i, r := range reqs {
			st, ok := r.StartingBlock.RawValue().(uint)
			if !ok || r.Direction != messages.Ascending || r.Max == nil {
				k.Violate("C31", "planner", "planned-request-malformed", "request %d of the plan for %d..%d is %s", i, a, b, reqStr(r))
			}
			if st != next {
				k.Violate("C31", "planner", "plan-does-not-cover-range-once", "plan for %d..%d: request %d starts at %d, expected %d", a, b, i, st, next)
			}
			if *r.Max == 0 || *r.Max > messages.MaxBlocksInResponse {
				k.Violate("C31", "planner", "planned-request-too-large", "plan for %d..%d: request %d asks for %d blocks", a, b, i, *r.Max)
			}
			next = st + uint(*r.Max)
		}
		if next != b+1 {
			k.Violate("C31", "planner", "plan-does-not-cover-range-once", "plan for %d..%d ends at %d", a, b, next-1)
		}
		k.Event("plan", "%d..%d -> %d requests", a, b, len(reqs))
		k.Probe("plan-checked")
		// and the honest planner's requests are served
		for _, r := range reqs {
			if resp, err := sv.svc.CreateBlockResponse(peer.ID("planner"), r); err == nil {
				s.checkServed(sv, r, resp, "planner")
			}
		}
		return
	}
	// Byzantine requester: any start, direction, max, field mask
	var from messages.FromBlock
	if k.Bool(1, 2, "req-by-hash") {
		h := s.blocks[k.Choose(len(s.blocks), "req-hash")].Hash
		if k.Bool(1, 8, "req-unknown-hash") {
			h = common.Hash{0xab, 0xcd}
		}
		from = *messages.NewFromBlock(h)
	} else {
		from = *messages.NewFromBlock(uint(k.Choose(int(best)+3, "req-number")))
	}
	dir := messages.SyncDirection(k.Choose(2, "req-direction"))
	max := []uint32{1, 2, 5, 127, 128, 129, 1 << 20}[k.Choose(7, "req-max")]
	fields := []byte{messages.BootstrapRequestData, messages.RequestedDataHeader, messages.RequestedDataBody, messages.RequestedDataHeader | messages.RequestedDataJustification, 0, 0xff}[k.Choose(6, "req-fields")]
	req := messages.NewBlockRequest(from, max, fields, dir)
	if k.Bool(1, 6, "req-no-max") {
		req.Max = nil
	}
	who := peer.ID("byz-requester")
	reps := 1
	if k.Bool(1, 6, "req-repeat") {
		reps = 6
		k.Fault("repeated-request")
	}
	for i := 0; i < reps; i++ {
		resp, err := sv.svc.CreateBlockResponse(who, s.viaWire(req))
		k.Event("request", "srv%d %s -> %v", sv.id, reqStr(req), err != nil)
		if err == nil {
			s.checkServed(sv, req, resp, "byz")
		}
	}
	k.Fault("byzantine-request")
}

var _ = types.NewEmptyHeader
