package peerset

import "math"

// Reference model for C30, written from the property statement and the
// documented Substrate peerset semantics (not from gossamer's code):
//   - reputation is an i32 with saturating arithmetic;
//   - once per elapsed second every reputation moves towards zero by
//     1/50 of its value, at least by 1 (Substrate `reput_tick`);
//   - BANNED_THRESHOLD = 82 * (i32::MIN / 100);
//   - being disconnected costs DISCONNECT_REPUTATION_CHANGE = -256.
// All arithmetic is done in int64 and clamped, so the model itself cannot wrap.

const (
	refBanThreshold  int64 = 82 * (math.MinInt32 / 100)
	refDisconnectRep int64 = -256
)

func clamp32(v int64) int64 {
	if v > math.MaxInt32 {
		return math.MaxInt32
	}
	if v < math.MinInt32 {
		return math.MinInt32
	}
	return v
}

func refAdd(a, b int64) int64 { return clamp32(a + b) }
func refSub(a, b int64) int64 { return clamp32(a - b) }

func refTick(r int64) int64 {
	d := r / 50
	if d == 0 && r < 0 {
		d = -1
	} else if d == 0 && r > 0 {
		d = 1
	}
	return clamp32(r - d)
}

// refDecay applies n one-second ticks.
func refDecay(r int64, n int64) int64 {
	for i := int64(0); i < n && r != 0; i++ {
		r = refTick(r)
	}
	return r
}
