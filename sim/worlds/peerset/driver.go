package peerset

import (
	"bytes"
	"context"
	"encoding/json"
	"fmt"
	"io"
	"math"
	"os"
	"runtime"
	"strings"
	"testing/synctest"
	"time"

	gps "github.com/ChainSafe/gossamer/dot/peerset"
	"github.com/ChainSafe/gossamer/internal/log"
	"github.com/ChainSafe/gossamer/verifsim/kernel"
	"github.com/libp2p/go-libp2p/core/crypto"
	"github.com/libp2p/go-libp2p/core/peer"
)

const prop = "C30"

// Known finding of this world: class "over-max-after-unreserve" (removing the
// reservation of a connected peer makes it occupy a slot beyond the maximum; see
// checkMax). It is a genuine defect after which model and system still agree, so
// exploring on is sound. Every occurrence goes through k.Violate: while
// known_findings.json lists the class with "continue": true the kernel counts it
// (KnownHits) and returns, the oracle carries the excess and the run goes on; if the
// entry is missing it is an ordinary violation that stops the run.
// VERIF_C30_STRICT=1 and the replay of exactly such a finding always stop at it.

// replayClass is the class recorded in the replay file being replayed ("" otherwise),
// so that replaying a known "continue" finding still reproduces it.
var replayClass = func() string {
	if os.Getenv("VERIF_MODE") != "replay" {
		return ""
	}
	var rf struct {
		Class string `json:"class"`
	}
	if b, err := os.ReadFile(os.Getenv("VERIF_REPLAY")); err == nil && json.Unmarshal(b, &rf) == nil {
		return rf.Class
	}
	return ""
}()

// reportUnknownDeadlocks is decided once per process, at package initialisation
// and therefore OUTSIDE any synctest bubble: does PeerSet.reportPeer for a peer
// the PeersState has never seen block forever? (PeersState.addReputation holds
// ps.Lock() and calls insertPeer, which takes the same RWMutex again.) The probe
// runs the real call on a scratch PeerSet in its own goroutine and returns as soon
// as either the call has returned (defect absent) or the goroutine is seen parked
// on the lock inside insertPeer called from addReputation (defect present; nobody
// else can ever release that lock, the goroutine is leaked on purpose). Inside a
// bubble such a goroutine would hang the run for good (sync.Mutex is not a durable
// block), so the driver never makes that call there while the defect is present.
var reportUnknownDeadlocks = func() bool {
	log.Patch(log.SetLevel(log.Critical), log.SetWriter(io.Discard))
	ps, err := gps.VerifNewPeerSet(gps.NewConfigSet(1, 1, false, time.Second))
	if err != nil {
		panic(err)
	}
	ps.VerifInitMsgCh(8)
	done := make(chan struct{})
	go func() {
		defer close(done)
		_ = ps.VerifReportPeer(gps.ReputationChange{Value: 1, Reason: "verif-probe"}, peer.ID("verif-never-seen-peer"))
	}()
	buf := make([]byte, 1<<18)
	for deadline := time.Now().Add(30 * time.Second); time.Now().Before(deadline); {
		select {
		case <-done:
			return false
		case <-time.After(200 * time.Microsecond):
		}
		n := runtime.Stack(buf, true)
		for _, g := range strings.Split(string(buf[:n]), "\n\n") {
			hdr, _, _ := strings.Cut(g, "\n")
			if strings.Contains(g, "peerset.(*PeersState).insertPeer") && strings.Contains(g, "peerset.(*PeersState).addReputation") &&
				(strings.Contains(hdr, "Mutex.Lock") || strings.Contains(hdr, "semacquire")) {
				return true
			}
		}
	}
	panic("verif: cannot decide whether reportPeer on an unknown peer deadlocks")
}()

// fixed population: ed25519 keys from constant seeds
var peerIDs = func() []peer.ID {
	ids := make([]peer.ID, 6)
	for i := range ids {
		seed := bytes.Repeat([]byte{byte(0x41 + i)}, 64)
		priv, _, err := crypto.GenerateEd25519Key(bytes.NewReader(seed))
		if err != nil {
			panic(err)
		}
		id, err := peer.IDFromPrivateKey(priv)
		if err != nil {
			panic(err)
		}
		ids[i] = id
	}
	return ids
}()

const (
	dirNone = 0
	dirIn   = 1
	dirOut  = 2
)

type pst struct {
	known bool
	st    int
	rep   int64
}

type snap struct {
	numIn, numOut uint32
	p             []pst
	latest        time.Time
	nodes         int
}

func (s *snap) dir(i int) int {
	if !s.p[i].known {
		return dirNone
	}
	switch s.p[i].st {
	case gps.VerifIngoing:
		return dirIn
	case gps.VerifOutgoing:
		return dirOut
	}
	return dirNone
}

type effect struct {
	kind           string
	report         bool
	delta          int64
	list           []int
	disc           int // index of the peer a disconnect was requested for, -1 = none
	unreserve      bool
	resyncReserved bool
	setReserved    map[int]bool
	noEvent        bool // the caller has logged the event already
}

type env struct {
	k            *kernel.K
	ps           *gps.PeerSet
	h            *gps.Handler
	n            int
	maxIn        uint32
	maxOut       uint32
	reservedOnly bool
	reserved     []bool // model: reserved flag per peer
	prev         snap
	strict       bool
	verbose      bool
	lastErr      error
}

func (e *env) snapshot() snap {
	s := snap{p: make([]pst, e.n)}
	s.numIn, s.numOut, _, _ = e.ps.VerifCounters(0)
	for i := 0; i < e.n; i++ {
		st, rep, ok := e.ps.VerifNode(0, peerIDs[i])
		s.p[i] = pst{known: ok, st: st, rep: int64(rep)}
	}
	s.latest = e.ps.VerifLatestUpdate()
	s.nodes = e.ps.VerifNodeCount()
	return s
}

func (e *env) index(id peer.ID) int {
	for i := 0; i < e.n; i++ {
		if peerIDs[i] == id {
			return i
		}
	}
	return -1
}

// drain empties the result channel without ever blocking.
func (e *env) drain() []gps.Message {
	ch := e.ps.VerifMessages()
	var out []gps.Message
	for {
		select {
		case m, ok := <-ch:
			if !ok {
				return out
			}
			out = append(out, m)
		default:
			return out
		}
	}
}

func statusName(s gps.Status) string {
	switch s {
	case gps.Connect:
		return "Connect"
	case gps.Drop:
		return "Drop"
	case gps.Accept:
		return "Accept"
	case gps.Reject:
		return "Reject"
	}
	return "?"
}

func stName(p pst) string {
	if !p.known {
		return "absent"
	}
	switch p.st {
	case gps.VerifNotMember:
		return "notMember"
	case gps.VerifIngoing:
		return "IN"
	case gps.VerifOutgoing:
		return "OUT"
	case gps.VerifNotConnected:
		return "notConn"
	}
	return "?"
}

func (e *env) stateLine(s snap) string {
	var b strings.Builder
	fmt.Fprintf(&b, "in=%d/%d out=%d/%d", s.numIn, e.maxIn, s.numOut, e.maxOut)
	for i := 0; i < e.n; i++ {
		r := ""
		if e.reserved[i] {
			r = "R,"
		}
		fmt.Fprintf(&b, " p%d:%s%s/%d", i, r, stName(s.p[i]), s.p[i].rep)
	}
	return b.String()
}

func (e *env) msgLine(msgs []gps.Message) string {
	parts := make([]string, 0, len(msgs))
	for _, m := range msgs {
		parts = append(parts, fmt.Sprintf("%s(p%d)", statusName(m.Status), e.index(m.PeerID)))
	}
	return "[" + strings.Join(parts, " ") + "]"
}

// report hands a finding to the kernel. k.Violate stops the run unless the finding
// is a known one marked "continue"; strict mode and the replay of exactly this
// finding stop even then.
func (e *env) report(oracle, class, format string, a ...any) {
	msg := fmt.Sprintf(format, a...)
	if e.k.Violate(prop, oracle, class, "%s", msg) {
		if e.strict || class == replayClass {
			e.k.Viol = &kernel.Violation{Prop: prop, Oracle: oracle, Class: class, Msg: msg}
			e.k.Stop()
		}
		e.k.Probe("continued:" + class)
	}
}

// do executes one operation against the real peer set, drains the result
// channel and checks every invariant on the real state.
func (e *env) do(eff effect, detail string, f func()) {
	if !eff.noEvent {
		e.k.Event(eff.kind, "%s", detail)
	}
	e.lastErr = nil
	f()
	if e.h != nil {
		synctest.Wait()
	}
	msgs := e.drain()
	after := e.snapshot()
	for i, v := range eff.setReserved {
		e.reserved[i] = v
	}
	if eff.resyncReserved {
		// multi-peer reservation calls: the statement says nothing about which of
		// the listed peers end up reserved, so the model follows the real flag.
		for i := 0; i < e.n; i++ {
			r := e.ps.VerifIsReserved(peerIDs[i])
			if want, ok := eff.setReserved[i]; ok && want != r {
				e.k.Probe("multi-reserved-partially-applied")
			}
			e.reserved[i] = r
		}
	}
	if e.verbose {
		es := ""
		if e.lastErr != nil {
			es = " err=" + e.lastErr.Error()
		}
		e.k.Log = append(e.k.Log, "      -> "+e.stateLine(after)+" msgs="+e.msgLine(msgs)+es)
	}
	e.check(eff, msgs, after)
	e.prev = after
}

func (e *env) ctx(eff effect, msgs []gps.Message, a snap) string {
	return fmt.Sprintf("op=%s list=%v delta=%d | before: %s | after: %s | msgs=%s", eff.kind, eff.list, eff.delta,
		e.stateLine(e.prev), e.stateLine(a), e.msgLine(msgs))
}

func (e *env) check(eff effect, msgs []gps.Message, a snap) {
	k := e.k
	b := e.prev
	kind := eff.kind

	known := 0
	for i := range a.p {
		if a.p[i].known {
			known++
		}
	}
	if a.nodes != known {
		k.Violate(prop, "state", "stray-node@"+kind, "peer set knows %d nodes, %d of them from the driven population; %s", a.nodes, known, e.ctx(eff, msgs, a))
	}

	// (1) counters == connected non-reserved peers per direction
	cin, cout := 0, 0
	for i := 0; i < e.n; i++ {
		if e.reserved[i] {
			continue
		}
		switch a.dir(i) {
		case dirIn:
			cin++
		case dirOut:
			cout++
		}
	}
	if uint32(cin) != a.numIn || uint32(cout) != a.numOut {
		k.Violate(prop, "counters", "counters@"+kind, "numIn=%d numOut=%d but %d inbound / %d outbound connected non-reserved peers; %s",
			a.numIn, a.numOut, cin, cout, e.ctx(eff, msgs, a))
	}

	// (2) slot maxima
	e.checkMax("in", a.numIn, b.numIn, e.maxIn, eff, msgs, a)
	e.checkMax("out", a.numOut, b.numOut, e.maxOut, eff, msgs, a)

	// (3) no connected non-reserved peer below the ban threshold
	for i := 0; i < e.n; i++ {
		if a.p[i].known && a.p[i].rep < refBanThreshold {
			k.Probe("banned-peer-observed")
		}
		if !e.reserved[i] && a.dir(i) != dirNone && a.p[i].rep < refBanThreshold {
			k.Violate(prop, "ban", "banned-connected@"+kind, "p%d is connected (%s) with reputation %d < ban threshold %d and is not reserved; %s",
				i, stName(a.p[i]), a.p[i].rep, refBanThreshold, e.ctx(eff, msgs, a))
		}
		if b.p[i].rep < refBanThreshold && a.p[i].rep >= refBanThreshold {
			k.Probe("ban-expired")
		}
	}

	// (4) reputations: saturating arithmetic, per-second decay, every listed peer
	n := int64(a.latest.Sub(b.latest) / time.Second)
	if n < 0 {
		k.Violate(prop, "reputation", "time-went-back@"+kind, "latestTimeUpdate moved backwards; %s", e.ctx(eff, msgs, a))
	}
	base := make([]int64, e.n)
	exp := make([]int64, e.n)
	for i := 0; i < e.n; i++ {
		base[i] = refDecay(b.p[i].rep, n)
		exp[i] = base[i]
	}
	if eff.disc >= 0 && b.dir(eff.disc) != dirNone {
		exp[eff.disc] = refAdd(exp[eff.disc], refDisconnectRep)
	}
	if eff.report {
		for _, i := range eff.list {
			exp[i] = refAdd(exp[i], eff.delta)
		}
	}
	bad := -1
	for i := 0; i < e.n; i++ {
		if a.p[i].rep != exp[i] {
			bad = i
			break
		}
		if a.p[i].rep == math.MaxInt32 && (eff.report || b.p[i].rep != math.MaxInt32) {
			k.Probe("saturated-max")
		}
		if a.p[i].rep == math.MinInt32 {
			k.Probe("saturated-min")
		}
	}
	if bad >= 0 {
		if eff.report && len(eff.list) > 1 {
			// does the real state equal "only the first j entries of the list were applied"?
			for j := 0; j < len(eff.list); j++ {
				alt := append([]int64(nil), base...)
				for _, i := range eff.list[:j] {
					alt[i] = refAdd(alt[i], eff.delta)
				}
				same := true
				for i := 0; i < e.n; i++ {
					if a.p[i].rep != alt[i] {
						same = false
						break
					}
				}
				if same {
					e.report("multi-report", "multi-report-not-applied",
						"report of %d for peers %v was applied only to the first %d list entries: p%d has reputation %d, expected %d; %s",
						eff.delta, eff.list, j, bad, a.p[bad].rep, exp[bad], e.ctx(eff, msgs, a))
					bad = -1
					break
				}
			}
		}
		if bad >= 0 {
			cls := "rep-decay@" + kind
			if eff.report {
				cls = "rep-arith@report"
			} else if eff.disc >= 0 {
				cls = "rep-arith@disconnect"
			}
			k.Violate(prop, "reputation", cls, "p%d has reputation %d, reference model says %d (previous %d, %d decay ticks); %s",
				bad, a.p[bad].rep, exp[bad], b.p[bad].rep, n, e.ctx(eff, msgs, a))
		}
	}

	// (5) the last Connect/Accept/Drop message per peer agrees with the state transition
	last := make([]int, e.n)
	for i := range last {
		last[i] = -1
	}
	for _, m := range msgs {
		i := e.index(m.PeerID)
		if i < 0 {
			k.Violate(prop, "msg-state", "message-for-unknown-peer@"+kind, "message %s for a peer outside the population; %s", statusName(m.Status), e.ctx(eff, msgs, a))
			continue
		}
		k.Probe("msg-" + statusName(m.Status))
		switch m.Status {
		case gps.Connect:
			last[i] = dirOut
		case gps.Accept:
			last[i] = dirIn
		case gps.Drop:
			last[i] = dirNone
		}
	}
	for i := 0; i < e.n; i++ {
		if last[i] >= 0 {
			if a.dir(i) != last[i] {
				k.Violate(prop, "msg-state", "last-message-disagrees-with-state@"+kind,
					"p%d: last connection message implies direction %d but state is %s; %s", i, last[i], stName(a.p[i]), e.ctx(eff, msgs, a))
			}
		} else if a.dir(i) != b.dir(i) {
			k.Violate(prop, "msg-state", "transition-without-message@"+kind,
				"p%d changed %s -> %s without Connect/Accept/Drop; %s", i, stName(b.p[i]), stName(a.p[i]), e.ctx(eff, msgs, a))
		}
		if a.dir(i) != dirNone && b.dir(i) == dirNone {
			k.Probe("peer-connected")
		}
		if b.p[i].known && !a.p[i].known {
			k.Probe("node-forgotten")
		}
	}
}

func (e *env) checkMax(d string, now, before, max uint32, eff effect, msgs []gps.Message, a snap) {
	if now == max && max > 0 {
		e.k.Probe("slots-full-" + d)
	}
	if now <= max {
		return
	}
	if now <= before {
		// excess carried over from the known finding; nothing new was granted
		e.k.Probe("over-max-carried")
		return
	}
	if eff.unreserve {
		e.report("slots", "over-max-after-unreserve",
			"num%s=%d > max %d after removing the reservation of a connected peer (it now occupies a slot beyond the maximum); %s",
			d, now, max, e.ctx(eff, msgs, a))
		return
	}
	e.k.Violate(prop, "slots", d+"-over-max@"+eff.kind, "num%s=%d > max %d; %s", d, now, max, e.ctx(eff, msgs, a))
}

var reportDeltas = []int64{16, 128, -4, -1024, -256, -4096, -65536, -(1 << 20), math.MinInt32, math.MaxInt32,
	-(1 << 30), 1 << 30, -1, 1, 0, math.MinInt32 + 1, -(82 * (math.MaxInt32 / 100))}

var arithVals = []int64{0, 1, -1, 49, -49, 50, -50, 51, math.MaxInt32, math.MinInt32, math.MaxInt32 - 1, math.MinInt32 + 1,
	1 << 30, -(1 << 30), refBanThreshold, refBanThreshold - 1, 100, -100}

func i32FromTape(k *kernel.K, label string) int64 {
	b := k.Bytes(4, label)
	return int64(int32(uint32(b[0]) | uint32(b[1])<<8 | uint32(b[2])<<16 | uint32(b[3])<<24))
}

func ids(list []int) []peer.ID {
	out := make([]peer.ID, len(list))
	for i, x := range list {
		out[i] = peerIDs[x]
	}
	return out
}

func runPeerset(k *kernel.K) {
	n := k.Range(4, 6, "peers")
	e := &env{k: k, n: n, reserved: make([]bool, n)}
	e.maxIn = uint32(k.Choose(4, "maxIn"))
	e.maxOut = uint32(k.Choose(4, "maxOut"))
	e.reservedOnly = k.Bool(1, 4, "reserved-only")
	e.strict = os.Getenv("VERIF_C30_STRICT") == "1"
	e.verbose = os.Getenv("VERIF_MODE") == "replay" || os.Getenv("VERIF_C30_VERBOSE") == "1"
	handlerMode := false
	period := 2 * time.Second
	// the real handler goroutine with its ticker and action channel: a third of the thorough runs, a fifth of the quick ones
	if k.Tier == "thorough" {
		handlerMode = k.Bool(1, 3, "handler-mode")
	} else {
		handlerMode = k.Bool(1, 5, "handler-mode")
	}
	if handlerMode {
		period = []time.Duration{2 * time.Second, time.Second, 7 * time.Second, time.Minute}[k.Choose(4, "period")]
	}
	cfg := gps.NewConfigSet(e.maxIn, e.maxOut, e.reservedOnly, period)
	if handlerMode {
		h, err := gps.NewPeerSetHandler(cfg)
		if err != nil {
			panic(err)
		}
		h.Start(context.Background())
		e.h = h
		e.ps = h.VerifPeerSet()
		k.Probe("handler-mode")
		defer func() {
			// let the handler goroutine exit before the bubble ends
			h.Stop()
			synctest.Wait()
		}()
	} else {
		ps, err := gps.VerifNewPeerSet(cfg)
		if err != nil {
			panic(err)
		}
		ps.VerifInitMsgCh(4 * gps.VerifMsgChanSize)
		e.ps = ps
	}
	k.Event("config", "peers=%d maxIn=%d maxOut=%d reservedOnly=%v handler=%v period=%v", n, e.maxIn, e.maxOut, e.reservedOnly, handlerMode, period)
	e.prev = e.snapshot()

	pickList := func(min, max int, label string) []int {
		l := min + k.Choose(max-min+1, label+"-len")
		out := make([]int, l)
		for i := range out {
			out[i] = k.Choose(n, label)
		}
		return out
	}
	subset := func(num, den int, label string) []int {
		var out []int
		for i := 0; i < n; i++ {
			if k.Bool(num, den, label) {
				out = append(out, i)
			}
		}
		return out
	}

	// operations -----------------------------------------------------------
	addReserved := func(list []int) {
		sr := map[int]bool{}
		for _, i := range list {
			sr[i] = true
		}
		e.do(effect{kind: "addReserved", disc: -1, list: list, setReserved: sr, resyncReserved: len(list) > 1}, fmt.Sprint(list), func() {
			if e.h != nil {
				e.h.AddReservedPeer(0, ids(list)...)
			} else {
				e.lastErr = e.ps.VerifAddReservedPeers(0, ids(list)...)
			}
		})
	}
	removeReserved := func(list []int) {
		sr := map[int]bool{}
		for _, i := range list {
			sr[i] = false
		}
		e.do(effect{kind: "removeReserved", disc: -1, list: list, setReserved: sr, resyncReserved: len(list) > 1, unreserve: true}, fmt.Sprint(list), func() {
			if e.h != nil {
				e.h.RemoveReservedPeer(0, ids(list)...)
			} else {
				e.lastErr = e.ps.VerifRemoveReservedPeers(0, ids(list)...)
			}
		})
	}
	setReserved := func(list []int) {
		sr := map[int]bool{}
		for i := 0; i < n; i++ {
			sr[i] = false
		}
		for _, i := range list {
			sr[i] = true
		}
		e.do(effect{kind: "setReserved", disc: -1, list: list, setReserved: sr, resyncReserved: true, unreserve: true}, fmt.Sprint(list), func() {
			if e.h != nil {
				e.h.SetReservedPeer(0, ids(list)...)
			} else {
				e.lastErr = e.ps.VerifSetReservedPeer(0, ids(list)...)
			}
		})
	}
	addPeer := func(list []int) {
		e.do(effect{kind: "addPeer", disc: -1, list: list}, fmt.Sprint(list), func() {
			if e.h != nil {
				e.h.AddPeer(0, ids(list)...)
			} else {
				e.lastErr = e.ps.VerifAddPeer(0, ids(list)...)
			}
		})
	}
	removePeer := func(list []int) {
		e.do(effect{kind: "removePeer", disc: -1, list: list}, fmt.Sprint(list), func() {
			if e.h != nil {
				e.h.RemovePeer(0, ids(list)...)
			} else {
				e.lastErr = e.ps.VerifRemovePeer(0, ids(list)...)
			}
		})
	}
	report := func(delta int64, list []int) {
		if delta >= 1<<30 || delta <= -(1<<30) {
			k.Fault("saturating-report")
		}
		// Guard against the return of a fixed defect (/repo abc9a1eb9): PeersState.
		// addReputation used to self-deadlock on an unknown peer (it held ps.Lock and
		// called insertPeer, which locks again). A goroutine parked on a sync.Mutex
		// hangs the bubble for good, so if the init-time probe says the deadlock is
		// back, the call is not made for unknown peers and the violation is raised
		// from its precondition (after the real updateTime, which reportPeer runs as
		// its first step anyway, has forgotten whom it forgets). With the defect
		// absent nothing is filtered and unknown peers are reported for real.
		detail := fmt.Sprintf("%d %v", delta, list)
		k.Event("report", "%s", detail)
		if reportUnknownDeadlocks {
			if err := e.ps.VerifUpdateTime(); err != nil {
				k.Violate(prop, "reputation", "updateTime-error@report", "updateTime failed: %v", err)
			}
		}
		var keep []int
		for _, i := range list {
			if !reportUnknownDeadlocks {
				keep = append(keep, i)
				continue
			}
			if _, _, ok := e.ps.VerifNode(0, peerIDs[i]); ok {
				keep = append(keep, i)
				continue
			}
			e.report("report-unknown", "report-unknown-peer-deadlock",
				"reportPeer(%d) for peers %v: p%d is not in PeersState.nodes; PeersState.addReputation (peerstate.go) then calls insertPeer while holding ps.Lock() and blocks forever on its own RWMutex (demonstrated on a scratch PeerSet at process start; the call is not made inside the bubble because a goroutine parked on a sync.Mutex would hang the run); state: %s",
				delta, list, i, e.stateLine(e.snapshot()))
		}
		// The event is logged with the tape-chosen list; which peers are still known can
		// depend on gossamer's map iteration order, so the filtered list is not logged
		// (it appears in replay mode only).
		if len(keep) < len(list) && e.verbose {
			k.Log = append(k.Log, fmt.Sprintf("      (unknown peers left out of the next report: %v -> %v, class report-unknown-peer-deadlock)", list, keep))
		}
		if len(keep) == 0 {
			e.do(effect{kind: "report", disc: -1, noEvent: true}, detail, func() {})
			return
		}
		if len(keep) > 1 {
			k.Probe("multi-peer-report")
		}
		ch := gps.ReputationChange{Value: gps.Reputation(delta), Reason: "verif"}
		e.do(effect{kind: "report", disc: -1, report: true, delta: delta, list: keep, noEvent: true}, detail, func() {
			if e.h != nil {
				e.h.ReportPeer(ch, ids(keep)...)
			} else {
				e.lastErr = e.ps.VerifReportPeer(ch, ids(keep)...)
			}
		})
	}
	incoming := func(list []int) {
		e.do(effect{kind: "incoming", disc: -1, list: list}, fmt.Sprint(list), func() {
			if e.h != nil {
				e.h.Incoming(0, ids(list)...)
			} else {
				e.lastErr = e.ps.VerifIncoming(0, ids(list)...)
			}
		})
	}
	disconnect := func(i int, refused bool) {
		kind := "disconnect"
		reason := gps.UnknownDrop
		if refused {
			kind = "disconnectRefused"
			reason = gps.RefusedDrop
		}
		e.do(effect{kind: kind, disc: i, list: []int{i}}, fmt.Sprint(i), func() {
			if e.h != nil {
				e.h.DisconnectPeer(0, peerIDs[i])
			} else {
				e.lastErr = e.ps.VerifDisconnect(0, reason, peerIDs[i])
			}
		})
	}
	sleep := func(d time.Duration) {
		if d >= time.Hour {
			k.Fault("clock-jump")
		}
		e.do(effect{kind: "sleep", disc: -1}, d.String(), func() { time.Sleep(d) })
	}
	arith := func() {
		pick := func(label string) int64 {
			c := k.Choose(len(arithVals)+2, label)
			if c < len(arithVals) {
				return arithVals[c]
			}
			return i32FromTape(k, label+"-raw")
		}
		x, y := pick("arith-a"), pick("arith-b")
		k.Event("arith", "%d %d", x, y)
		if got := int64(gps.VerifRepAdd(gps.Reputation(x), gps.Reputation(y))); got != refAdd(x, y) {
			k.Violate(prop, "sat-arith", "add", "Reputation(%d).add(%d) = %d, saturating result is %d", x, y, got, refAdd(x, y))
		}
		if got := int64(gps.VerifRepSub(gps.Reputation(x), gps.Reputation(y))); got != refSub(x, y) {
			k.Violate(prop, "sat-arith", "sub", "Reputation(%d).sub(%d) = %d, saturating result is %d", x, y, got, refSub(x, y))
		}
		if got := int64(gps.VerifRepTick(gps.Reputation(x))); got != refTick(x) {
			k.Violate(prop, "sat-arith", "tick", "reputationTick(%d) = %d, reference says %d", x, got, refTick(x))
		}
	}

	// initial configuration, the way dot/network/host.go feeds it
	if r := subset(1, 5, "init-reserved"); len(r) > 0 {
		addReserved(r)
	}
	if b := subset(1, 2, "init-bootnode"); len(b) > 0 {
		addPeer(b)
	}

	steps := k.Range(10, 60, "steps")
	ops, hasReport, hasConnOp := 0, false, false
	for s := 0; s < steps; s++ {
		// clock advance
		var d time.Duration
		switch k.Choose(24, "sleep-class") {
		case 0, 1, 2, 3, 4, 5, 6, 7, 8, 9:
		case 10, 11, 12:
			d = time.Second
		case 13, 14, 15:
			d = time.Duration(k.Range(2, 8, "sleep-s")) * time.Second
		case 16, 17, 18, 19:
			d = time.Duration(k.Range(9, 13, "sleep-ban")) * time.Second
		case 20, 21, 22:
			d = []time.Duration{30 * time.Second, time.Minute, 3 * time.Minute, 10 * time.Minute}[k.Choose(4, "sleep-min")]
		case 23:
			// clock jumps (each costs 3600+ real decay ticks, so they are kept rare)
			d = []time.Duration{59 * time.Minute, time.Hour, time.Hour + time.Second, time.Hour + 59*time.Second, 2 * time.Hour}[k.Choose(5, "sleep-hour")]
			if handlerMode && d > time.Hour+time.Minute {
				d = time.Hour
			}
		}
		if d > 0 {
			sleep(d)
		}
		ops++
		switch k.Choose(18, "op") {
		case 0, 1:
			d := reportDeltas[k.Choose(len(reportDeltas), "delta")]
			report(d, pickList(1, 3, "report-peer"))
			hasReport = true
		case 2:
			report(i32FromTape(k, "delta-raw"), pickList(1, 3, "report-peer"))
			hasReport = true
		case 3:
			d := reportDeltas[k.Choose(len(reportDeltas), "delta")]
			report(d, pickList(2, 4, "report-peer"))
			hasReport = true
		case 4, 5, 6:
			incoming(pickList(1, 2, "incoming-peer"))
			hasConnOp = true
		case 7, 8:
			addPeer(pickList(1, 2, "add-peer"))
			hasConnOp = true
		case 9, 10:
			disconnect(k.Choose(n, "disc-peer"), e.h == nil && k.Bool(1, 5, "refused"))
			hasConnOp = true
		case 11:
			if e.h != nil {
				e.do(effect{kind: "sortedPeers", disc: -1}, "", func() {
					got := <-e.h.SortedPeers(0)
					for _, id := range got {
						if e.index(id) < 0 {
							panic("sortedPeers returned a peer outside the population")
						}
					}
				})
			} else {
				e.do(effect{kind: "allocSlots", disc: -1}, "", func() { e.lastErr = e.ps.VerifAllocSlots(0) })
			}
			hasConnOp = true
		case 12:
			addReserved(pickList(1, 1, "reserve-peer"))
			hasConnOp = true
		case 13:
			removeReserved(pickList(1, 1, "unreserve-peer"))
		case 14:
			removePeer(pickList(1, 2, "remove-peer"))
		case 15:
			switch k.Choose(3, "reserved-multi") {
			case 0:
				setReserved(subset(1, 3, "set-reserved"))
			case 1:
				addReserved(pickList(2, 3, "reserve-peer"))
			case 2:
				removeReserved(pickList(2, 3, "unreserve-peer"))
			}
		case 16:
			if e.h == nil {
				e.do(effect{kind: "updateTime", disc: -1}, "", func() { e.lastErr = e.ps.VerifUpdateTime() })
			} else {
				incoming(pickList(1, 1, "incoming-peer"))
			}
		case 17:
			arith()
		}
	}
	k.Nontriv = k.Nontriv || (ops >= 6 && hasReport && hasConnOp)
}
