package peerset

import (
	"testing"
	"time"

	"github.com/ChainSafe/gossamer/verifsim/kernel"
)

type world struct{}

func (world) Name() string         { return "peerset" }
func (world) Props() []string      { return []string{"C30"} }
func (world) Bubble(string) bool   { return true }
func (world) Level(string) string  { return "exploration" }
func (world) Run(k *kernel.K)      { runPeerset(k) }
func (world) Rule(p string) string { return ruleText }

const ruleText = "one run = one real dot/peerset.PeerSet (single set) inside a synctest bubble, configured from the tape: 4-6 fixed ed25519 peer ids, maxIn/maxOut 0..3, reserved-only on/off, initial reserved peers and bootnodes. 10-60 tape-chosen operations (add/remove peer, add/remove/set reserved (single and multi-peer), report of 1-3 peers with values from +-1 to +-MaxInt32 and raw int32, incoming of 1-2 peers, disconnect (unknown/refused), allocSlots tick, bare updateTime, direct Reputation.add/sub/tick probes) are separated by virtual clock advances of 0 s, seconds (ban expiry lies at ~10 s), minutes and 1-2 h jumps. Quick tier calls the real PeerSet methods directly; thorough tier runs one third of the runs through the real Handler goroutine + ticker (public API, synctest.Wait as barrier). After EVERY operation the result messages are drained and the real state (per-peer membership state and reputation, numIn/numOut, latestTimeUpdate) is read through accessors and compared with the reference model: numIn<=maxIn, numOut<=maxOut; counters == connected non-reserved peers per direction (reserved flag from the model); no connected non-reserved peer below the ban threshold; every reputation equals saturating(decay^n(previous) + reported delta for EACH listed occurrence, -256 on disconnect) computed in int64; the last Connect/Accept/Drop message per peer agrees with its state transition. Peers are chosen by index into the fixed list, never from real state. Non-trivial = at least 6 operations including a report and a connection-changing operation, or a clock jump >= 1 h / saturating report; distinct = distinct event-kind sequence. A fifth of the quick runs (a third of the thorough ones) go through the real handler goroutine with its ticker and action channel instead of calling the PeerSet methods directly."

func (world) Components(string) ([]string, []string) {
	return []string{
			"dot/peerset PeerSet (addPeer, removePeer, addReservedPeers, removeReservedPeers, setReservedPeer, reportPeer, incoming, disconnect, allocSlots, updateTime)",
			"dot/peerset PeersState (tryOutgoing, tryAcceptIncoming, disconnect, addNoSlotNode, removeNoSlotNode, forgetPeer, highestNotConnectedPeer)",
			"dot/peerset Reputation.add/sub, reputationTick",
			"dot/peerset Handler + listenActionAllocSlots goroutine and ticker (thorough tier, 1/3 of runs)",
			"libp2p peer.ID / ed25519 key derivation",
		},
		[]string{"clock (synctest bubble)", "network.Service consumer of the result channel (driver drains it)", "libp2p host / discovery (operations drawn from the tape)"}
}

func (world) Budget(p, tier string) (int, time.Duration) {
	if tier == "thorough" {
		return 6000000, 8 * time.Minute
	}
	return 600000, 40 * time.Second
}

func TestVerif(t *testing.T) { kernel.Main(t, world{}) }
