package alloc

import (
	"testing"
	"time"

	"github.com/ChainSafe/gossamer/verifsim/kernel"
)

type world struct{}

func (world) Name() string        { return "alloc" }
func (world) Props() []string     { return []string{"C28"} }
func (world) Bubble(string) bool  { return false }
func (world) Level(string) string { return "exploration" }
func (world) Run(k *kernel.K)     { runAlloc(k) }
func (world) Rule(p string) string {
	return "one run = one real allocator.FreeingBumpHeapAllocator over one simmem linear memory (sparse, Grow is the fault seam). " +
		"The tape draws: heap base (0, 8, unaligned, page boundaries, 1 MiB, 2 GiB, within 16 bytes of 4 GiB), initial pages, maximum pages (small, 65536, above 65536), " +
		"Grow failure rate (never .. always), contents of the static data below the heap base, user data style (plain / arbitrary / hostile = images of allocator headers), " +
		"size profile (small sizes; every power-of-two order with -1/+1/just-above-half variants, 0, 1, 7, 8, 9; fill-the-address-space-to-4-GiB), and 10-400 operations: " +
		"allocate, free a live pointer, write a unique pattern into a live allocation, verify all patterns, request above 32 MiB, free an invalid pointer " +
		"(double free, misaligned, interior of a live block, header address, below heap base, above the high-water mark, beyond memory, arbitrary). " +
		"After every operation the reference model (sorted interval map of live blocks + shadow of user bytes + poisoned flag, written from the property statement) is compared. " +
		"Non-trivial = at least one successful allocation and one successful free, and (a fault fired: Grow refused/injected, invalid or double free, oversize request; or a freed block was handed out again). " +
		"distinct = distinct sequence of event kinds (operation kind + outcome class)." + inbandNote()
}

func inbandNote() string {
	if inbandEnabled {
		return ""
	}
	return " [THIS BATCH RAN WITH VERIF_C28_INBAND=0: invalid frees whose would-be header lies in program-owned bytes (kinds inband/...) were skipped]"
}
func (world) Components(string) ([]string, []string) {
	return []string{"lib/runtime/allocator.FreeingBumpHeapAllocator (NewFreeingBumpHeapAllocator, Allocate, Deallocate, bump, header encoding, free lists)"},
		[]string{"Wasm linear memory (simmem: sparse pages, tape-driven Grow failures, configurable maximum)", "the Wasm program (tape-driven allocate/free/store operations)"}
}
func (world) Budget(p, tier string) (int, time.Duration) {
	if tier == "thorough" {
		return 4000000, 8 * time.Minute
	}
	return 400000, 40 * time.Second
}

func TestVerif(t *testing.T) { kernel.Main(t, world{}) }
