// Package alloc is the ALLOC world: property C28, the Wasm heap allocator.
//
// The real lib/runtime/allocator.FreeingBumpHeapAllocator is driven over a
// simulated linear memory (simmem). Everything the simulated Wasm program does
// comes from the tape. The oracle is a reference model written from the
// property statement:
//
//	(a) every returned pointer is 8-byte aligned,
//	(b) is >= the heap base,
//	(c) its whole rounded-up block [ptr, ptr+roundup(size)) lies inside the current linear memory,
//	(d) does not overlap the rounded-up block of another live allocation,
//	(e) bytes the program wrote into a live allocation are not changed by any allocate/free,
//	(f) freeing an invalid or already freed pointer returns an error and poisons the
//	    allocator: every later operation returns an error,
//	(g) a request above 32 MiB returns an error,
//	(h) the linear memory never becomes larger than 4 GiB.
//
// The statement never says that an operation MUST succeed, so a failing
// allocation or a failing free of a live pointer is never a violation (they are
// counted in probes; a block whose free failed stays live in the model). That
// is also all the relaxation a refused Grow needs: afterwards the allocator may
// be poisoned or may go on, but whatever it hands out is still checked by
// (a)-(e).
//
// roundup(size) is the documented contract of Allocate ("rounded to the next
// power of two, below 8 bytes rounded up to 8"); the 8-byte header in front of
// the pointer is NOT part of the block the oracle reasons about.
package alloc

import (
	"fmt"
	"os"
	"sort"
	"strings"

	"github.com/ChainSafe/gossamer/lib/runtime/allocator"
	"github.com/ChainSafe/gossamer/verifsim/kernel"
	"github.com/ChainSafe/gossamer/verifsim/simmem"
)

const (
	prop       = "C28"
	maxRequest = 32 << 20        // statement: requests above 32 MiB fail
	fourGiB    = uint64(1) << 32 // statement: memory never grows past 4 GiB
)

// inbandEnabled: runs may free invalid pointers whose would-be header (the 8
// bytes in front of the pointer) consists of program-owned bytes (kinds
// "inband/..." of classify), and may store images of allocator headers into
// their allocations to aim at that. VERIF_C28_INBAND=0 switches these scenarios
// off: such a free is skipped (the allocator keeps its bookkeeping in-band, so
// it cannot tell such a pointer from a real one; see the triage notes in the
// report). Default on. The switch is a batch-level configuration, not a source
// of nondeterminism: with the same value a run is a pure function of its tape.
var inbandEnabled = os.Getenv("VERIF_C28_INBAND") != "0"

func roundUp(size uint32) uint64 {
	r := uint64(8)
	for r < uint64(size) {
		r <<= 1
	}
	return r
}

func align8(x uint32) uint64 { return (uint64(x) + 7) / 8 * 8 }

// ---- reference model ----------------------------------------------------------

type blk struct {
	id     int
	ptr    uint32
	size   uint32
	rsize  uint64
	gen    int
	shadow map[uint32]byte // offset -> byte the program stored there
	forged []uint32        // offsets (relative to ptr) of header images stored by the program
}

type model struct {
	heapBase  uint32
	live      []*blk // sorted by ptr
	freed     []uint32
	everFreed map[uint32]bool
	poisoned  bool // by the statement every later operation must fail
	suspect   bool // the allocator has returned an error before (it may have poisoned itself)
	hw        uint64
	nextID    int
	allocOK   int
	freeOK    int
	reuse     int
}

func (m *model) idx(ptr uint32) int {
	return sort.Search(len(m.live), func(i int) bool { return m.live[i].ptr >= ptr })
}

func (m *model) find(ptr uint32) *blk {
	i := m.idx(ptr)
	if i < len(m.live) && m.live[i].ptr == ptr {
		return m.live[i]
	}
	return nil
}

// overlapping returns a live block whose rounded-up block intersects [p, p+rs).
func (m *model) overlapping(p uint32, rs uint64) *blk {
	i := m.idx(p)
	if i < len(m.live) && uint64(m.live[i].ptr) < uint64(p)+rs {
		return m.live[i]
	}
	if i > 0 && uint64(m.live[i-1].ptr)+m.live[i-1].rsize > uint64(p) {
		return m.live[i-1]
	}
	return nil
}

// containing returns the live block whose rounded-up block contains address a.
func (m *model) containing(a uint64) *blk {
	i := sort.Search(len(m.live), func(i int) bool { return uint64(m.live[i].ptr) > a })
	if i > 0 && uint64(m.live[i-1].ptr)+m.live[i-1].rsize > a {
		return m.live[i-1]
	}
	return nil
}

func (m *model) insert(b *blk) {
	i := m.idx(b.ptr)
	m.live = append(m.live, nil)
	copy(m.live[i+1:], m.live[i:])
	m.live[i] = b
}

func (m *model) remove(b *blk) {
	i := m.idx(b.ptr)
	m.live = append(m.live[:i], m.live[i+1:]...)
}

// classify names the kind of a pointer that is NOT the start of a live block.
//
// The first five kinds can be recognised from the pointer value and the
// allocator's own bounds alone. For the others the 8 bytes in front of the
// pointer decide what the allocator sees; "inband/" marks the kinds where those
// bytes are (partly) program-owned: inside a live allocation, or stale bytes the
// program stored earlier. The allocator keeps its headers in-band, so for those
// it sees whatever the program left there.
func (m *model) classify(ptr uint32, mem *simmem.Memory) string {
	switch {
	case ptr%8 != 0:
		return "misaligned"
	case ptr < 8:
		return "null-or-tiny"
	case uint64(ptr) > mem.Size():
		return "beyond-memory"
	case uint64(ptr) < align8(m.heapBase)+8:
		return "below-heap-base"
	case uint64(ptr)-8 >= m.hw:
		return "above-high-water-mark"
	}
	if m.containing(uint64(ptr)) != nil {
		return "inband/interior-of-live-block"
	}
	if m.containing(uint64(ptr)-1) != nil {
		return "inband/end-of-live-block"
	}
	kind := "not-a-block-start"
	if m.everFreed[ptr] {
		kind = "double-free"
	}
	if mem.ProgramStored(ptr-8, 8) || m.containing(uint64(ptr)-8) != nil {
		return "inband/" + kind
	}
	return kind
}

// ---- configuration ------------------------------------------------------------

type config struct {
	heapBase    uint32
	initPages   uint32
	maxPages    uint32
	growNum     int
	growDen     int
	dataStyle   int // 0 plain (non-zero even bytes), 1 arbitrary, 2 hostile (header images)
	staticStyle int // 0 zero, 1 arbitrary, 2 header images
	profile     int // 0 small, 1 every order, 2 fill to 4 GiB
	invalidPer  int // an invalid free with probability 1/invalidPer per op (0 = never)
	oversizePer int
	afterPoison int
	nOps        int
}

func pagesFor(x uint64) uint32 { return uint32((x + simmem.PageSize - 1) / simmem.PageSize) }

func drawConfig(k *kernel.K) config {
	var c config
	hbMenu := []uint32{65536, 0, 8, 16, 1, 7, 9, 12, 65535, 65537, 1 << 20, 1048573, 0 /*random*/, 0x80000000, 0xFFFF0000, 0xFFFFFFF0, 0xFFFFFFF8, 0xFFFFFFFC}
	hi := k.Choose(len(hbMenu), "heapbase")
	c.heapBase = hbMenu[hi]
	if hi == 12 {
		c.heapBase = uint32(k.Choose(1<<21, "heapbase-value"))
	}
	c.profile = k.Choose(3, "profile")
	need := pagesFor(align8(c.heapBase))
	if need > 65536 {
		need = 65536
	}
	initMenu := []uint32{need + 1, 0, 1, 2, 17, 256, 4096, 65535, 65536, need}
	c.initPages = initMenu[k.Choose(len(initMenu), "initpages")]
	if c.initPages > 65536 {
		c.initPages = 65536
	}
	if c.profile == 2 {
		c.maxPages = []uint32{65536, 70000, 1 << 20}[k.Choose(3, "maxpages-fill")]
	} else {
		mm := []uint32{65536, 70000, 1 << 20, c.initPages, c.initPages + 1, c.initPages + 1 + uint32(k.Choose(64, "maxpages-extra")), 32, 1024, 16384}
		c.maxPages = mm[k.Choose(len(mm), "maxpages")]
	}
	if c.maxPages < c.initPages {
		c.maxPages = c.initPages
	}
	switch k.Choose(8, "growfail-rate") {
	case 0, 1, 2, 3:
		c.growDen = 0
	case 4:
		c.growNum, c.growDen = 1, 32
	case 5:
		c.growNum, c.growDen = 1, 8
	case 6:
		c.growNum, c.growDen = 1, 2
	case 7:
		c.growNum, c.growDen = 1, 1
	}
	c.dataStyle = k.Choose(3, "datastyle")
	c.staticStyle = k.Choose(3, "staticstyle")
	if !inbandEnabled && c.dataStyle == 2 {
		c.dataStyle = 1
	}
	c.invalidPer = []int{0, 0, 0, 256, 64, 16}[k.Choose(6, "invalid-rate")]
	c.oversizePer = []int{0, 0, 0, 0, 256, 64}[k.Choose(6, "oversize-rate")]
	c.afterPoison = k.Range(1, 12, "after-poison-ops")
	c.nOps = k.Range(10, 400, "ops")
	if c.profile == 2 && c.nOps < 200 {
		c.nOps += 200
	}
	return c
}

// ---- the run ------------------------------------------------------------------

type sim struct {
	k   *kernel.K
	c   config
	mem *simmem.Memory
	a   *allocator.FreeingBumpHeapAllocator
	m   *model
	op  int

	lastOp       string
	growRefusals int
	failStreak   int // consecutive failed Allocate/Deallocate calls
}

func mix64(x uint64) uint64 {
	x += 0x9e3779b97f4a7c15
	x = (x ^ (x >> 30)) * 0xbf58476d1ce4e5b9
	x = (x ^ (x >> 27)) * 0x94d049bb133111eb
	return x ^ (x >> 31)
}

func (s *sim) patByte(id, gen int, off uint32) byte {
	h := mix64(uint64(id)<<40 ^ uint64(gen)<<32 ^ uint64(off))
	if s.c.dataStyle == 0 {
		return 0x80 | byte(h&0x7e) // never zero, never odd: cannot be mistaken for a header under any alignment
	}
	return byte(h)
}

func headerImage(order uint32) []byte { return []byte{byte(order), 0, 0, 0, 1, 0, 0, 0} }

func runAlloc(k *kernel.K) {
	c := drawConfig(k)
	s := &sim{k: k, c: c, mem: simmem.New(c.initPages, c.maxPages)}
	s.m = &model{heapBase: c.heapBase, everFreed: map[uint32]bool{}, hw: align8(c.heapBase)}
	if c.growDen > 0 {
		s.mem.FailGrow = func(cur, delta uint32) bool { return k.Bool(c.growNum, c.growDen, "grow-fails") }
	}
	k.Event("config", "heapbase=%#x init=%dp max=%dp growfail=%d/%d data=%d static=%d profile=%d invalid=1/%d oversize=1/%d ops=%d",
		c.heapBase, c.initPages, c.maxPages, c.growNum, c.growDen, c.dataStyle, c.staticStyle, c.profile, c.invalidPer, c.oversizePer, c.nOps)
	s.fillStatic()
	s.a = allocator.NewFreeingBumpHeapAllocator(c.heapBase)

	after := 0
	for s.op = 0; s.op < c.nOps; s.op++ {
		if s.m.poisoned {
			after++
			if after > c.afterPoison {
				break
			}
		}
		// the allocator has returned an error and nothing has succeeded since: it has evidently
		// poisoned itself (allowed); a few more operations, then the run ends
		if s.failStreak > c.afterPoison {
			k.Probe("run-ended-allocator-refuses-everything")
			break
		}
		s.step()
		s.afterOp()
	}
	s.verifyAll("final")
	if s.m.poisoned && after > 0 {
		k.Probe("ops-after-poison-all-failed")
	}
	if s.m.allocOK > 0 && s.m.freeOK > 0 && (len(k.Faults) > 0 || s.m.reuse > 0) {
		k.Nontriv = true
	} else {
		k.Nontriv = false
	}
	if !s.m.suspect && !s.m.poisoned {
		k.Probe("run-without-any-allocator-error")
	}
	k.Info["allocs_ok"] = float64(s.m.allocOK)
	k.Info["frees_ok"] = float64(s.m.freeOK)
	k.Info["live_at_end"] = float64(len(s.m.live))
	k.Info["mem_chunks"] = float64(s.mem.Chunks())
}

// fillStatic stores the Wasm program's static data below the heap base.
func (s *sim) fillStatic() {
	if s.c.staticStyle == 0 {
		return
	}
	top := align8(s.c.heapBase)
	if top > s.mem.Size() {
		top = s.mem.Size() / 8 * 8
	}
	n := uint64(256)
	if top < n {
		n = top
	}
	if n == 0 {
		return
	}
	buf := make([]byte, n)
	for i := range buf {
		buf[i] = byte(mix64(uint64(i) ^ 0x5747))
	}
	if s.c.staticStyle == 2 {
		for o := uint64(0); o+8 <= n; o += 16 {
			copy(buf[o:], headerImage(uint32(o/16)%23))
		}
	}
	s.mem.UserWrite(uint32(top-n), buf)
	s.k.Event("static", "%d bytes of static data below %#x style=%d", n, top, s.c.staticStyle)
}

func (s *sim) step() {
	k := s.k
	if s.c.invalidPer > 0 && k.Bool(1, s.c.invalidPer, "do-invalid-free") {
		s.invalidFree()
		return
	}
	if s.c.oversizePer > 0 && k.Bool(1, s.c.oversizePer, "do-oversize") {
		sz := []uint32{maxRequest + 1, maxRequest + 8, 1 << 26, 1 << 31, 0xFFFFFFF8, 0xFFFFFFFF}[k.Choose(6, "oversize")]
		s.alloc(sz)
		return
	}
	r := k.Choose(16, "op")
	if s.c.profile == 2 {
		// fill profile: mostly allocations that walk the bumper towards 4 GiB
		switch {
		case r < 11:
			r = 0
		case r < 13:
			r = 7
		case r < 15:
			r = 11
		}
	}
	switch {
	case r < 7:
		if s.c.profile == 2 && !k.Bool(1, 8, "not-a-fill-step") {
			s.fillStep()
		} else {
			s.alloc(s.drawSize())
		}
	case r < 11:
		if len(s.m.live) == 0 {
			s.alloc(s.drawSize())
			return
		}
		// anywhere, or (a quarter of the time) the most recently allocated block: LIFO reuse
		if k.Bool(1, 4, "free-newest") {
			newest := s.m.live[0]
			for _, b := range s.m.live {
				if b.id > newest.id {
					newest = b
				}
			}
			s.free(newest.ptr)
			return
		}
		s.free(s.pickLive("free-which").ptr)
	case r < 14:
		s.write()
	default:
		s.verifyAll("verify")
	}
}

// violate reports an oracle failure and ends the run. (kernel.K.Violate returns
// instead of stopping when the class is listed as a known finding marked
// "continue"; after any C28 finding the model and the allocator no longer
// agree, so this world never continues past one.)
func (s *sim) violate(oracle, class, format string, a ...any) {
	s.k.Violate(prop, oracle, class, format, a...)
	s.k.Stop()
}

func (s *sim) pickLive(label string) *blk {
	return s.m.live[s.k.Choose(len(s.m.live), label)]
}

var smallSizes = []uint32{8, 0, 1, 7, 9, 16, 15, 17, 24, 32, 33, 63, 64, 65, 100, 128, 255, 256, 257, 1000, 4096, 4097, 65528, 65536, 65537}

func (s *sim) drawSize() uint32 {
	k := s.k
	if s.c.profile == 0 || (s.c.profile == 2 && k.Bool(1, 2, "small-in-fill")) {
		return smallSizes[k.Choose(len(smallSizes), "size-small")]
	}
	ord := k.Choose(23, "order")
	base := uint32(8) << ord
	switch k.Choose(5, "size-variant") {
	case 0:
		return base
	case 1:
		return base - 1
	case 2:
		if base/2+1 > 8 {
			return base/2 + 1
		}
		return base
	case 3:
		if base < maxRequest {
			return base + 1
		}
		return base
	default:
		lo := base/2 + 1
		return lo + uint32(k.Choose(int(base-lo+1), "size-in-class"))
	}
}

// fillStep asks for the largest block that keeps the rest of the address space fillable exactly to 4 GiB.
func (s *sim) fillStep() {
	rem := fourGiB - s.m.hw
	if s.m.hw > fourGiB || rem < 16 {
		s.alloc(8)
		return
	}
	for ord := 22; ord >= 0; ord-- {
		bs := (uint64(8) << ord) + 8
		if bs <= rem && (rem-bs == 0 || rem-bs >= 16) {
			s.alloc(uint32(8) << ord)
			return
		}
	}
	s.alloc(8)
}

func (s *sim) alloc(size uint32) {
	k, m := s.k, s.m
	s.lastOp = "Allocate"
	ptr, err := s.a.Allocate(s.mem, size)
	if err != nil {
		s.failStreak++
		k.Event("alloc-err", "#%d Allocate(%d) -> error", s.op, size)
		if size > maxRequest {
			k.Probe("oversize-request-rejected")
			k.Fault("oversize-request")
		} else if !m.suspect && !m.poisoned && !s.growRefused() {
			k.Probe("alloc-failed-without-refused-grow")
		}
		m.suspect = true
		return
	}
	s.failStreak = 0
	rs := roundUp(size)
	k.Event("alloc-ok", "#%d Allocate(%d) -> %#x (block %d bytes, memory %d pages)", s.op, size, ptr, rs, s.mem.Pages())
	if m.poisoned {
		s.violate("poisoned", "allocate-succeeded-after-poisoning", "Allocate(%d) returned %#x although an invalid free had been rejected before (allocator must be poisoned)", size, ptr)
	}
	if size > maxRequest {
		s.violate("max-size", "oversize-request-succeeded", "Allocate(%d) (> 32 MiB) returned %#x instead of an error", size, ptr)
	}
	if ptr%8 != 0 {
		s.violate("alignment", "pointer-not-8-aligned", "Allocate(%d) returned %#x, not 8-byte aligned", size, ptr)
	}
	if ptr < m.heapBase {
		s.violate("bounds", "pointer-below-heap-base", "Allocate(%d) returned %#x, below heap base %#x", size, ptr, m.heapBase)
	}
	if uint64(ptr)+rs > s.mem.Size() {
		s.violate("bounds", "block-outside-linear-memory", "Allocate(%d) returned %#x: block of %d bytes ends at %#x beyond memory size %#x", size, ptr, rs, uint64(ptr)+rs, s.mem.Size())
	}
	if o := m.overlapping(ptr, rs); o != nil {
		s.violate("overlap", "allocation-overlaps-live-allocation", "Allocate(%d) returned %#x (block %d bytes) overlapping live allocation #%d at %#x (requested %d, block %d bytes)",
			size, ptr, rs, o.id, o.ptr, o.size, o.rsize)
	}
	b := &blk{id: m.nextID, ptr: ptr, size: size, rsize: rs, shadow: map[uint32]byte{}}
	m.nextID++
	m.insert(b)
	m.allocOK++
	if uint64(ptr)+rs > m.hw {
		m.hw = uint64(ptr) + rs
	}
	if m.everFreed[ptr] {
		m.reuse++
		k.Probe("free-list-reuse")
	}
	if s.growRefusals > 0 || s.growRefused() {
		k.Probe("allocation-succeeded-after-refused-grow")
	}
	if m.hw == fourGiB {
		k.Probe("bumped-exactly-to-4GiB")
		if m.heapBase <= 1<<21 {
			k.Probe("bumped-exactly-to-4GiB-from-a-heap-base-below-2MiB")
		}
	}
}

func (s *sim) growRefused() bool {
	for _, g := range s.mem.Grows {
		if !g.OK {
			return true
		}
	}
	return false
}

func (s *sim) free(ptr uint32) {
	k, m := s.k, s.m
	b := m.find(ptr)
	kind := "live"
	if b == nil {
		kind = m.classify(ptr, s.mem)
		if !inbandEnabled && strings.HasPrefix(kind, "inband/") {
			k.Event("free-skip", "#%d Deallocate(%#x) [%s] skipped: in-band scenarios are switched off", s.op, ptr, kind)
			return
		}
	}
	s.lastOp = "Deallocate"
	if b == nil {
		// a rejected free may still have written before it failed; name the kind of pointer in the class
		s.lastOp = "Deallocate-of-invalid-pointer/" + kind
	}
	err := s.a.Deallocate(s.mem, ptr)
	if err == nil {
		s.failStreak = 0
		k.Event("free-ok:"+kind, "#%d Deallocate(%#x) [%s] -> ok", s.op, ptr, kind)
	} else {
		s.failStreak++
		k.Event("free-err:"+kind, "#%d Deallocate(%#x) [%s] -> error", s.op, ptr, kind)
	}
	if m.poisoned && err == nil {
		s.violate("poisoned", "deallocate-succeeded-after-poisoning", "Deallocate(%#x) [%s] succeeded although an invalid free had been rejected before (allocator must be poisoned)", ptr, kind)
	}
	if b != nil {
		if err == nil {
			m.remove(b)
			m.everFreed[ptr] = true
			m.freed = append(m.freed, ptr)
			m.freeOK++
		} else {
			if !m.suspect && !m.poisoned {
				k.Probe("valid-free-failed-unexplained")
			}
			m.suspect = true
		}
		return
	}
	if err == nil {
		detail := ""
		if ptr >= 8 {
			if h, ok := s.mem.Peek(ptr-8, 8); ok {
				detail = fmt.Sprintf(" (8 bytes in front of it after the call: % x)", h)
			}
		}
		s.violate("invalid-free", "invalid-free-accepted/"+kind, "Deallocate(%#x) succeeded but the pointer is not a live allocation [%s]%s", ptr, kind, detail)
	}
	if kind == "double-free" {
		k.Fault("double-free")
		k.Probe("double-free-rejected")
	} else {
		k.Fault("invalid-free")
		k.Probe("invalid-free-rejected:" + kind)
	}
	if !m.poisoned {
		k.Probe("poisoned-state-reached")
	}
	m.poisoned = true
	m.suspect = true
}

func (s *sim) invalidFree() {
	k, m := s.k, s.m
	var ptr uint32
	switch k.Choose(9, "invalid-kind") {
	case 0: // double free
		if len(m.freed) == 0 {
			ptr = uint32(m.hw) + 8
			break
		}
		ptr = m.freed[len(m.freed)-1-k.Choose(len(m.freed), "which-freed")]
	case 1: // misaligned around a live pointer
		if len(m.live) == 0 {
			ptr = uint32(align8(m.heapBase)) + 8 + uint32(k.Range(1, 7, "misalign"))
			break
		}
		b := s.pickLive("misaligned-base")
		d := uint32(k.Range(1, 7, "misalign"))
		if k.Bool(1, 2, "misalign-down") {
			ptr = b.ptr - d
		} else {
			ptr = b.ptr + d
		}
	case 2: // 8-aligned interior of a live block, preferably right behind a header image the program stored
		if len(m.live) == 0 {
			ptr = uint32(align8(m.heapBase)) + 16
			break
		}
		b := s.pickLive("interior-base")
		if len(b.forged) > 0 && k.Bool(3, 4, "behind-image") {
			ptr = b.ptr + b.forged[k.Choose(len(b.forged), "which-image")] + 8
		} else {
			ptr = b.ptr + 8*uint32(1+k.Choose(int(b.rsize/8), "interior-word"))
		}
	case 3: // address of the header of a live block
		if len(m.live) == 0 {
			ptr = uint32(align8(m.heapBase))
			break
		}
		ptr = s.pickLive("header-of").ptr - 8
	case 4: // below the heap base (static data / null)
		top := uint32(align8(m.heapBase))
		if k.Bool(1, 4, "tiny") || top < 16 {
			ptr = uint32(k.Choose(8, "tiny-ptr"))
		} else {
			ptr = top - 8*uint32(k.Choose(int(min(uint64(top)/8, 33)), "below-words"))
		}
	case 5: // above the high-water mark, inside memory
		ptr = uint32(m.hw) + 8*uint32(1+k.Choose(64, "above-words"))
	case 6: // beyond memory
		ptr = uint32(s.mem.Size()) + 8*uint32(k.Choose(4, "beyond-words"))
	case 7: // arbitrary
		ptr = uint32(k.Choose(1<<31, "ptr-hi"))<<1 | uint32(k.Choose(2, "ptr-lo"))
	default: // a freed pointer's interior / neighbourhood
		if len(m.freed) == 0 {
			ptr = uint32(m.hw)
			break
		}
		ptr = m.freed[k.Choose(len(m.freed), "near-freed")] + 8*uint32(1+k.Choose(4, "near-words"))
	}
	s.free(ptr)
}

func (s *sim) write() {
	k, m := s.k, s.m
	if len(m.live) == 0 {
		return
	}
	b := s.pickLive("write-which")
	if b.size == 0 {
		k.Event("write-skip", "#%d allocation #%d has size 0", s.op, b.id)
		return
	}
	b.gen++
	put := func(off uint32, data []byte) {
		if !s.mem.UserWrite(b.ptr+off, data) {
			// cannot happen for a block that passed check (c); reported as a violation of (c) rather than harness trouble
			s.violate("bounds", "store-into-live-allocation-out-of-memory", "store of %d bytes at %#x+%d of live allocation #%d fails: outside linear memory", len(data), b.ptr, off, b.id)
		}
		for i, x := range data {
			b.shadow[off+uint32(i)] = x
		}
	}
	n := uint32(1 + k.Choose(64, "write-len"))
	if n > b.size {
		n = b.size
	}
	head := make([]byte, n)
	for i := range head {
		head[i] = s.patByte(b.id, b.gen, uint32(i))
	}
	put(0, head)
	tail := make([]byte, n)
	for i := range tail {
		tail[i] = s.patByte(b.id, b.gen, b.size-n+uint32(i))
	}
	put(b.size-n, tail)
	images := 0
	if s.c.dataStyle == 2 && b.size >= 8 {
		cnt := 1 + k.Choose(3, "images")
		for j := 0; j < cnt; j++ {
			words := int(b.size / 8)
			w := k.Choose(min(words, 16), "image-word")
			if k.Bool(1, 3, "image-at-end") {
				w = words - 1
			}
			off := uint32(w) * 8
			put(off, headerImage(uint32(k.Choose(23, "image-order"))))
			b.forged = append(b.forged, off)
			images++
		}
	}
	k.Event("write", "#%d store pattern gen %d into allocation #%d at %#x (head/tail %d bytes, %d header images)", s.op, b.gen, b.id, b.ptr, n, images)
}

// checkJournal: did the operation just executed change a byte the program stored in a (still) live allocation?
func (s *sim) checkJournal() {
	opName := s.lastOp
	for _, w := range s.mem.Writes {
		for i := 0; i < w.N; i++ {
			if w.Old[i] == w.New[i] {
				continue
			}
			a := uint64(w.Off) + uint64(i)
			b := s.m.containing(a)
			if b == nil {
				continue
			}
			off := uint32(a - uint64(b.ptr))
			if want, ok := b.shadow[off]; ok && want != w.New[i] {
				s.violate("data", "stored-byte-changed-by-"+opName, "%s wrote %#02x over byte %d (value %#02x) stored by the program in live allocation #%d at %#x (size %d)",
					opName, w.New[i], off, want, b.id, b.ptr, b.size)
			}
		}
	}
}

func (s *sim) verifyAll(why string) {
	n := 0
	for _, b := range s.m.live {
		offs := make([]uint32, 0, len(b.shadow))
		for o := range b.shadow {
			offs = append(offs, o)
		}
		sort.Slice(offs, func(i, j int) bool { return offs[i] < offs[j] })
		for _, o := range offs {
			got, ok := s.mem.Peek(b.ptr+o, 1)
			if !ok || got[0] != b.shadow[o] {
				g := -1
				if ok {
					g = int(got[0])
				}
				s.violate("data", "stored-byte-changed", "byte %d of live allocation #%d at %#x (size %d) reads %#x, the program stored %#02x", o, b.id, b.ptr, b.size, g, b.shadow[o])
			}
			n++
		}
	}
	s.k.Event("verify", "#%d %s: %d live allocations, %d stored bytes intact", s.op, why, len(s.m.live), n)
}

// afterOp: size bound (h), journal bookkeeping for faults and probes.
func (s *sim) afterOp() {
	k := s.k
	if s.mem.Size() > fourGiB {
		s.violate("memory-size", "memory-grown-past-4GiB", "linear memory is %d pages = %d bytes, above 4 GiB", s.mem.Pages(), s.mem.Size())
	}
	s.checkJournal()
	for _, g := range s.mem.Grows {
		if !g.OK {
			s.growRefusals++
		}
		switch {
		case g.OK:
			k.Probe("grow")
			if s.mem.Size() == fourGiB {
				k.Probe("memory-at-4GiB")
			}
		case g.Injected:
			k.Fault("grow-failure-injected")
			k.Probe("grow-failure-injected")
		default:
			k.Fault("grow-refused-at-max-pages")
		}
	}
	s.mem.ResetJournal()
}
