package chain

import (
	"fmt"
	"time"

	"github.com/ChainSafe/gossamer/dot/digest"
	"github.com/ChainSafe/gossamer/dot/state"
	"github.com/ChainSafe/gossamer/dot/types"
	"github.com/ChainSafe/gossamer/lib/common"
	"github.com/ChainSafe/gossamer/pkg/scale"
	cu "github.com/ChainSafe/gossamer/verifsim/chainutil"
	"github.com/ChainSafe/gossamer/verifsim/kernel"
	"github.com/ChainSafe/gossamer/verifsim/simdisk"
)

// C26: BABE epoch data and configuration are taken from the block's own fork.

const firstSlot = 1000

type eBlock struct {
	rb      *cu.RefBlock
	parent  *eBlock
	slot    uint64
	epoch   uint64
	annData *types.NextEpochData    // announced by this block for epoch+1
	annCfg  *types.NextConfigDataV1 // announced by this block for epoch+1
}

type eNode struct {
	k    *kernel.K
	disk *simdisk.Disk
	bs   *state.BlockState
	es   *state.EpochState
	gs   *state.GrandpaState
	dh   *digest.BlockImportHandler
	has  map[common.Hash]bool
	fin  *eBlock
	// refused: a write of a finalise step was refused earlier in this run (used only to name the class
	// of a later wrong configuration, never to switch a check off)
	refused bool
}

func babeConsensus(v any) types.ConsensusDigest {
	d := types.NewBabeConsensusDigest()
	if err := d.SetValue(v); err != nil {
		panic(err)
	}
	enc, err := scale.Marshal(d)
	if err != nil {
		panic(err)
	}
	return types.ConsensusDigest{ConsensusEngineID: types.BabeEngineID, Data: enc}
}

func (n *eNode) open(genesis *types.Header, fresh bool) {
	db := n.disk.Open()
	tries := state.NewTries()
	var err error
	if fresh {
		n.bs, err = state.NewBlockStateFromGenesis(db, tries, genesis, noTelemetry{})
		if err != nil {
			panic(err)
		}
		n.es, err = state.NewEpochStateFromGenesis(db, n.bs, babeCfg)
		if err != nil {
			panic(err)
		}
		auths, _ := types.NewGrandpaVotersFromAuthoritiesRaw(authSet(1, 2, 3))
		n.gs, err = state.NewGrandpaStateFromGenesis(db, n.bs, auths, noTelemetry{})
		if err != nil {
			panic(err)
		}
	} else {
		n.bs, err = state.NewBlockState(db, tries, noTelemetry{})
		if err != nil {
			n.k.Violate("C36", "restart", "block-state-reload-failed", "%v", err)
			n.k.Stop()
		}
		n.es, err = state.NewEpochState(db, n.bs, babeCfg)
		if err != nil {
			n.k.Violate("C26", "restart", "epoch-state-reload-failed", "reloading the epoch state failed: %v", err)
		}
		n.gs = state.NewGrandpaState(db, n.bs, noTelemetry{})
	}
	n.dh = digest.NewBlockImportHandler(n.es, n.gs)
}

func runEpoch(k *kernel.K) {
	gh := types.NewHeader(common.Hash{}, common.Hash{7}, common.Hash{}, 0, types.NewDigest())
	g := &eBlock{rb: &cu.RefBlock{Hash: gh.Hash(), Number: 0, Header: gh}}
	n := &eNode{k: k, disk: simdisk.NewDisk(), has: map[common.Hash]bool{g.rb.Hash: true}, fin: g}
	n.open(gh, true)
	pool := []*eBlock{g}
	uniq := byte(0)
	mk := func(p *eBlock) *eBlock {
		uniq++
		b := &eBlock{parent: p}
		if p == g {
			b.slot = firstSlot
		} else {
			b.slot = p.slot + uint64([]int{1, 2, 3, 5, 9, 11}[k.Choose(6, "slot-delta")])
		}
		num := p.rb.Number + 1
		if num >= 2 {
			b.epoch = (b.slot - firstSlot) / babeCfg.EpochLength
		}
		dg := cu.BabeDigest(k.Bool(1, 2, "primary"), 0, b.slot)
		// the first block of an epoch on its chain announces the data of the next epoch (sometimes it does not)
		firstOfEpoch := p == g || b.epoch > p.epoch
		// ... or a later block of the epoch does, if no ancestor within this epoch has announced yet
		late := false
		if !firstOfEpoch {
			announced := false
			for x := p; x != nil && x != g && x.epoch == b.epoch; x = x.parent {
				if x.annData != nil {
					announced = true
					break
				}
			}
			late = !announced && k.Bool(1, 3, "late-announcement")
		}
		if (firstOfEpoch && !k.Bool(1, 5, "no-announcement")) || late {
			d := types.NextEpochData{Authorities: []types.AuthorityRaw{{Key: [32]byte{uniq, 1}, Weight: 1}}, Randomness: [32]byte{uniq, 0xaa}}
			b.annData = &d
			dg.Add(babeConsensus(d))
			if k.Bool(1, 3, "config-announcement") {
				c := types.NextConfigDataV1{C1: uint64(uniq), C2: uint64(uniq) + 5, SecondarySlots: 1}
				b.annCfg = &c
				v := types.NewVersionedNextConfigData()
				v.SetValue(c)
				dg.Add(babeConsensus(v))
			}
		}
		h := types.NewHeader(p.rb.Hash, common.Hash{uniq}, common.Hash{}, num, dg)
		b.rb = &cu.RefBlock{Hash: h.Hash(), Parent: p.rb.Hash, Number: num, Header: h}
		pool = append(pool, b)
		return b
	}
	// block #1 is common to every fork (it fixes the first slot of the chain)
	b1 := mk(g)
	n.importBlock(b1)
	steps := k.Range(8, 45, "steps")
	for st := 0; st < steps; st++ {
		switch a := k.Choose(12, "action"); {
		case a <= 5: // produce and import a block on some live chain
			var live []*eBlock
			for _, b := range pool[1:] {
				if n.has[b.rb.Hash] {
					live = append(live, b)
				}
			}
			p := live[k.Choose(len(live), "parent")]
			if k.Bool(2, 3, "parent-recent") {
				p = live[len(live)-1]
			}
			b := mk(p)
			k.Event("import", "%s parent=%s num=%d slot=%d epoch=%d ann=%v cfg=%v", cu.Short(b.rb.Hash), cu.Short(p.rb.Hash), b.rb.Number, b.slot, b.epoch, b.annData != nil, b.annCfg != nil)
			n.importBlock(b)
		case a <= 8: // lookups for some live block
			n.lookups(pool)
		case a <= 10: // finalise a live block (as the digest handler does afterwards: persist epoch data)
			var cand []*eBlock
			for _, b := range pool[1:] {
				if n.has[b.rb.Hash] && b != n.fin && n.descends(n.fin, b) {
					cand = append(cand, b)
				}
			}
			if len(cand) == 0 {
				continue
			}
			t := cand[k.Choose(len(cand), "fin-target")]
			if err := n.bs.SetFinalisedHash(t.rb.Hash, uint64(st+1), 0); err != nil {
				k.Violate("C17", "finalise", "valid-finalisation-refused", "%v", err)
				k.Stop()
			}
			if k.Bool(1, 6, "finalise-step-write-refused") {
				// the disk refuses one write of the step that moves the finalised announcements to their
				// final place (I/O error, disk full). The step reports the error, the node lives on and the
				// step is never repeated for this block: what the block's descendants look up must not change
				skip := k.Choose(4, "refused-write-index")
				n.disk.OnWrite = func(rec *simdisk.Record) (error, bool) {
					if skip > 0 {
						skip--
						return nil, false
					}
					n.disk.OnWrite = nil
					n.refused = true
					k.Fault("write-error")
					return simdisk.ErrInjectedWrite, false
				}
			}
			e1 := n.es.FinalizeBABENextEpochData(t.rb.Header)
			e2 := n.es.FinalizeBABENextConfigData(t.rb.Header)
			n.disk.OnWrite = nil
			n.fin = t
			for _, b := range pool {
				if n.has[b.rb.Hash] && !n.descends(t, b) && !n.descends(b, t) {
					delete(n.has, b.rb.Hash)
				}
			}
			k.Nontriv = true
			k.Event("finalise", "%s num=%d epoch=%d (persist: %v / %v)", cu.Short(t.rb.Hash), t.rb.Number, t.epoch, e1 != nil, e2 != nil)
		default: // crash + restart: unfinalised blocks are lost and imported again
			if !k.Bool(1, 2, "restart-really") {
				continue
			}
			k.Fault("restart")
			k.Event("restart", "")
			n.open(gh, false)
			old := n.has
			n.has = map[common.Hash]bool{}
			for _, b := range pool {
				if n.descends(b, n.fin) { // the finalised chain is on disk
					n.has[b.rb.Hash] = true
				}
			}
			for _, b := range pool {
				if old[b.rb.Hash] && !n.has[b.rb.Hash] && (b == b1 || k.Bool(3, 4, "reimport")) && n.has[b.rb.Parent] {
					n.importBlock(b)
				}
			}
		}
	}
	n.lookups(pool)
}

func (n *eNode) descends(anc, b *eBlock) bool {
	for x := b; x != nil; x = x.parent {
		if x == anc {
			return true
		}
	}
	return false
}

func (n *eNode) importBlock(b *eBlock) {
	if err := n.bs.AddBlock(&types.Block{Header: *b.rb.Header, Body: *types.NewBody([]types.Extrinsic{})}); err != nil {
		n.k.Violate("C15", "add", "valid-add-refused", "AddBlock(%s): %v", cu.Short(b.rb.Hash), err)
		n.k.Stop()
	}
	n.has[b.rb.Hash] = true
	if err := n.dh.HandleDigests(b.rb.Header); err != nil {
		n.k.Event("digest-error", "%v", err)
	}
}

// guarded runs f under a wall-clock watchdog: a lookup that does not return is a violation (C26).
func (n *eNode) guarded(what string, f func()) {
	done := make(chan struct{})
	go func() {
		defer func() {
			if r := recover(); r != nil {
				n.k.Info["panic-in-lookup"] = fmt.Sprint(r)
			}
			close(done)
		}()
		f()
	}()
	select {
	case <-done:
		if p, ok := n.k.Info["panic-in-lookup"]; ok {
			delete(n.k.Info, "panic-in-lookup")
			n.k.Violate("C26", "panic", "panic-in-epoch-lookup", "%s panicked: %v", what, p)
		}
	case <-time.After(20 * time.Second):
		// a starved process must not look like a hang: grant the same time once more
		select {
		case <-done:
			n.k.Probe("lookup-slower-than-20s-wall")
			return
		case <-time.After(20 * time.Second):
		}
		n.k.NoMinimise = true
		n.k.Violate("C26", "lookup-terminates", "epoch-lookup-does-not-return", "%s did not return within 40 s of wall-clock time (six orders of magnitude above its normal cost)", what)
	}
}

// expected: what B's own ancestry announces for epoch e.
func expectedData(b *eBlock, e uint64) *types.NextEpochData {
	for x := b; x != nil && x.rb.Number > 0; x = x.parent {
		if x.annData != nil && x.epoch+1 == e {
			return x.annData
		}
	}
	return nil
}

func expectedCfg(b *eBlock, e uint64) (*types.NextConfigDataV1, bool) {
	var best *eBlock
	for x := b; x != nil && x.rb.Number > 0; x = x.parent {
		if x.annCfg != nil && x.epoch+1 <= e && (best == nil || x.epoch > best.epoch) {
			best = x
		}
	}
	if best == nil {
		return nil, false
	}
	return best.annCfg, true
}

func (n *eNode) lookups(pool []*eBlock) {
	k := n.k
	var live []*eBlock
	for _, b := range pool[1:] {
		if n.has[b.rb.Hash] && (n.descends(n.fin, b) || b == n.fin) {
			live = append(live, b)
		}
	}
	if len(live) == 0 {
		return
	}
	for i := 0; i < 3; i++ {
		b := live[k.Choose(len(live), "lookup-block")]
		e := b.epoch + uint64(k.Choose(2, "lookup-next-epoch"))
		if e == 0 {
			continue
		}
		k.Event("lookup", "%s num=%d epoch=%d", cu.Short(b.rb.Hash), b.rb.Number, e)
		var got *types.EpochDataRaw
		var err error
		n.guarded(fmt.Sprintf("GetEpochDataRaw(%d, block #%d)", e, b.rb.Number), func() { got, err = n.es.GetEpochDataRaw(e, b.rb.Header) })
		want := expectedData(b, e)
		switch {
		case want == nil && err == nil && got != nil:
			// nothing announced on the own ancestry: whatever is returned comes from somewhere else,
			// unless it was persisted when an ancestor chain was finalised (then it is the finalised chain's, i.e. the own ancestry's)
			k.Violate("C26", "epoch-data", "epoch-data-from-another-fork", "block #%d %s (epoch %d): its ancestry announces nothing for epoch %d but the lookup returned randomness %x", b.rb.Number, cu.Short(b.rb.Hash), b.epoch, e, got.Randomness[:2])
		case want != nil && err == nil && got.Randomness != want.Randomness:
			k.Violate("C26", "epoch-data", "epoch-data-from-another-fork", "block #%d %s: epoch %d data has randomness %x, its own ancestry announced %x", b.rb.Number, cu.Short(b.rb.Hash), e, got.Randomness[:2], want.Randomness[:2])
		case want != nil && err != nil && e == n.fin.epoch+1 && n.fin.rb.Number > 0 && expectedData(n.fin, e) != nil:
			// the data of the epoch after the finalised block's, announced on the finalised chain: the
			// finalise step either moved it to its final place or, if that write failed, left the
			// announcement where it was - it is what every coming block is verified with
			k.Violate("C26", "epoch-data", "next-epoch-data-lost-at-finalisation", "block #%d %s: data of epoch %d (the epoch after the finalised block #%d's) was announced on the finalised chain but the lookup fails: %v", b.rb.Number, cu.Short(b.rb.Hash), e, n.fin.rb.Number, err)
		case want != nil && err != nil:
			k.Probe("announced-epoch-data-lookup-failed")
			k.Event("lookup-failed", "epoch %d announced on the ancestry but: %v", e, err)
		case want != nil:
			k.Probe("epoch-data-found-on-own-fork")
		default:
			k.Probe("no-announcement-lookup-fails")
		}
		var cfg *types.ConfigData
		n.guarded(fmt.Sprintf("GetConfigData(%d, block #%d)", e, b.rb.Number), func() { cfg, err = n.es.GetConfigData(e, b.rb.Header) })
		wc, ok := expectedCfg(b, e)
		if err != nil || cfg == nil {
			// a configuration is always defined: the latest one announced on the block's own ancestry, else the genesis one
			k.Violate("C26", "config-data", "config-lookup-failed", "block #%d %s: no configuration for epoch %d (%v) although the latest earlier configuration of its own chain applies", b.rb.Number, cu.Short(b.rb.Hash), e, err)
		}
		if err == nil && cfg != nil {
			if ok && (cfg.C1 != wc.C1 || cfg.C2 != wc.C2) {
				class := "config-data-from-another-fork"
				if n.refused {
					// an older configuration of the block's own chain (or the genesis one) instead of the latest
					stale := cfg.C1 == babeCfg.C1 && cfg.C2 == babeCfg.C2
					for x := b; x != nil && x.rb.Number > 0 && !stale; x = x.parent {
						stale = x.annCfg != nil && x.annCfg.C1 == cfg.C1 && x.annCfg.C2 == cfg.C2
					}
					if stale {
						class = "configuration-lost-after-a-refused-write-of-the-finalise-step"
					}
				}
				k.Violate("C26", "config-data", class, "block #%d %s: config for epoch %d is c=%d/%d, the latest configuration announced on its own ancestry is c=%d/%d", b.rb.Number, cu.Short(b.rb.Hash), e, cfg.C1, cfg.C2, wc.C1, wc.C2)
			}
			if !ok && (cfg.C1 != babeCfg.C1 || cfg.C2 != babeCfg.C2) {
				k.Violate("C26", "config-data", "config-data-from-another-fork", "block #%d %s: config for epoch %d is c=%d/%d although its ancestry announces no configuration (genesis is c=%d/%d)", b.rb.Number, cu.Short(b.rb.Hash), e, cfg.C1, cfg.C2, babeCfg.C1, babeCfg.C2)
			}
			k.Probe("config-checked")
		}
	}
}
