package chain

import (
	"bytes"
	"fmt"
	"testing/synctest"

	"github.com/ChainSafe/gossamer/dot/state"
	"github.com/ChainSafe/gossamer/dot/types"
	"github.com/ChainSafe/gossamer/lib/common"
	"github.com/ChainSafe/gossamer/lib/crypto/ed25519"
	"github.com/ChainSafe/gossamer/lib/runtime/storage"
	"github.com/ChainSafe/gossamer/pkg/scale"
	"github.com/ChainSafe/gossamer/pkg/trie"
	"github.com/ChainSafe/gossamer/pkg/trie/inmemory"
	cu "github.com/ChainSafe/gossamer/verifsim/chainutil"
	"github.com/ChainSafe/gossamer/verifsim/kernel"
	"github.com/ChainSafe/gossamer/verifsim/simdisk"
	su "github.com/ChainSafe/gossamer/verifsim/storeutil"
)

// C36: a generated scenario of imports, finalisations and authority-set
// changes is executed once over the simulated disk; then the node is restarted
// from EVERY prefix of the write log through the real reload path.

var babeCfg = &types.BabeConfiguration{SlotDuration: 6000, EpochLength: 10, C1: 1, C2: 4, SecondarySlots: 1}

func edKey(seed byte) *ed25519.Keypair {
	s := make([]byte, 32)
	for i := range s {
		s[i] = seed + byte(i)*3
	}
	kp, err := ed25519.NewKeypairFromSeed(s)
	if err != nil {
		panic(err)
	}
	return kp
}

func authSet(ids ...byte) []types.GrandpaAuthoritiesRaw {
	out := make([]types.GrandpaAuthoritiesRaw, len(ids))
	for i, id := range ids {
		out[i] = types.GrandpaAuthoritiesRaw{Key: edKey(id).Public().(*ed25519.PublicKey).AsBytes(), ID: uint64(id)}
	}
	return out
}

func grandpaDigest(v any) types.ConsensusDigest {
	d := types.NewGrandpaConsensusDigest()
	if err := d.SetValue(v); err != nil {
		panic(err)
	}
	enc, err := scale.Marshal(d)
	if err != nil {
		panic(err)
	}
	return types.ConsensusDigest{ConsensusEngineID: types.GrandpaEngineID, Data: enc}
}

type crashNode struct {
	disk  *simdisk.Disk
	tries *state.Tries
	bs    *state.BlockState
	ss    *state.InmemoryStorageState
	gs    *state.GrandpaState
	ref   *cu.RefTree
	all   map[common.Hash]*fBlock
}

func runCrash(k *kernel.K) {
	disk := simdisk.NewDisk()
	db := disk.Open()
	gstate := map[string][]byte{"g": {1}}
	groot := su.SpecRoot(gstate, su.V0)
	gh := types.NewHeader(common.Hash{}, common.Hash(groot), common.Hash{}, 0, types.NewDigest())
	genesis := &fBlock{rb: &cu.RefBlock{Hash: gh.Hash(), Number: 0, Header: gh}, state: gstate}
	n := &crashNode{disk: disk, all: map[common.Hash]*fBlock{genesis.rb.Hash: genesis}}
	n.tries = state.NewTries()
	n.tries.SetEmptyTrie()
	var err error
	if n.bs, err = state.NewBlockStateFromGenesis(db, n.tries, gh, noTelemetry{}); err != nil {
		panic(err)
	}
	if n.ss, err = state.NewStorageState(db, n.bs, n.tries); err != nil {
		panic(err)
	}
	tr := inmemory.NewEmptyTrie()
	for kk, v := range gstate {
		tr.Put([]byte(kk), v)
	}
	if err := n.ss.StoreTrie(storage.NewTrieState(tr), nil); err != nil {
		panic(err)
	}
	gauths, _ := types.NewGrandpaVotersFromAuthoritiesRaw(authSet(1, 2, 3))
	if n.gs, err = state.NewGrandpaStateFromGenesis(db, n.bs, gauths, noTelemetry{}); err != nil {
		panic(err)
	}
	if _, err = state.NewEpochStateFromGenesis(db, n.bs, babeCfg); err != nil {
		panic(err)
	}
	synctest.Wait()
	n.ref = cu.NewRefTree(&cu.RefBlock{Hash: genesis.rb.Hash, Number: 0, Header: gh})
	genesisLen := len(disk.Log)

	// ---- scenario ---------------------------------------------------------
	ops := k.Range(4, 26, "ops")
	pool := []*fBlock{genesis}
	salt := 0
	round := uint64(0)
	nextAuth := byte(10)
	for i := 0; i < ops; i++ {
		switch a := k.Choose(10, "action"); {
		case a <= 5: // produce + import a block (possibly announcing an authority-set change)
			live := n.ref.All()
			var p *fBlock
			if k.Bool(2, 3, "extend-best") {
				p = n.all[n.bs.BestBlockHash()]
			} else {
				p = n.all[live[k.Choose(len(live), "parent")]]
			}
			salt++
			st := map[string][]byte{}
			for kk, v := range p.state {
				st[kk] = v
			}
			var puts [][2][]byte
			for j := k.Choose(3, "nputs"); j > 0; j-- {
				key := []byte{byte('a' + k.Choose(4, "put-key"))}
				val := []byte{byte(k.Choose(3, "put-val")), byte(salt)}
				if k.Bool(1, 5, "long-value") {
					val = append(val, bytes.Repeat([]byte{byte(salt)}, 40)...)
				}
				st[string(key)] = val
				puts = append(puts, [2][]byte{key, val})
			}
			root := su.SpecRoot(st, su.V0)
			dg := cu.BabeDigest(k.Bool(1, 2, "primary"), 0, uint64(1000+salt))
			what := ""
			switch c := k.Choose(8, "change"); {
			case c == 5 || c == 6:
				nextAuth++
				dg.Add(grandpaDigest(types.GrandpaScheduledChange{Auths: authSet(nextAuth, nextAuth+1, nextAuth+2), Delay: uint32(k.Choose(3, "delay"))}))
				what = " +scheduled-change"
			case c == 7:
				nextAuth++
				fin, _ := n.bs.GetHighestFinalisedHeader()
				dg.Add(grandpaDigest(types.GrandpaForcedChange{BestFinalizedBlock: uint32(fin.Number), Auths: authSet(nextAuth, nextAuth+1), Delay: uint32(k.Choose(3, "delay"))}))
				what = " +forced-change"
			}
			h := types.NewHeader(p.rb.Hash, common.Hash(root), common.Hash{byte(salt)}, p.rb.Number+1, dg)
			fb := &fBlock{rb: &cu.RefBlock{Hash: h.Hash(), Parent: p.rb.Hash, Number: p.rb.Number + 1, Header: h}, state: st, puts: puts, parent: p}
			pool = append(pool, fb)
			n.all[fb.rb.Hash] = fb
			k.Event("import", "%s parent=%s num=%d%s", cu.Short(fb.rb.Hash), cu.Short(p.rb.Hash), fb.rb.Number, what)
			n.importBlock(k, fb)
		default: // finalise a live block, as lib/grandpa's finalise() + the digest handler do
			live := n.ref.All()
			target := live[k.Choose(len(live), "fin-target")]
			if target == n.ref.Root {
				continue
			}
			setID, err := n.gs.GetCurrentSetID()
			if err != nil {
				k.Violate("C36", "scenario", "current-set-id-unreadable", "GetCurrentSetID failed during the scenario: %v", err)
			}
			// a round can be finalised twice: a commit message finalises round r, then the node's own
			// finalise() finalises a descendant in the same round
			if round == 0 || !k.Bool(1, 4, "same-round-again") {
				round++
			} else {
				k.Probe("finalised-twice-in-one-round")
			}
			k.Event("finalise", "%s num=%d round=%d set=%d", cu.Short(target), n.all[target].rb.Number, round, setID)
			n.finalise(k, target, round, setID)
		}
		synctest.Wait()
	}
	total := len(disk.Log)

	// ---- every crash index ------------------------------------------------
	var prevNum uint
	var prevRound, prevSet uint64
	restarts := 0
	// one crash point per run after which the node does not just restart but goes on: what an
	// interrupted operation left behind must not confuse the operations that follow
	contAt := -1
	if k.Bool(1, 2, "continue-after-one-crash") {
		contAt = genesisLen + k.Choose(total-genesisLen+1, "continue-after-crash-at")
	}
	for c := genesisLen; c <= total; c++ {
		restarts++
		d := disk.Prefix(c)
		what := describeRecord(disk, c)
		svc := state.VerifNewServiceOverDB(d.Open(), noTelemetry{}, babeCfg)
		if err := svc.Start(); err != nil {
			k.Violate("C36", "restart", "restart-failed@"+what, "restart after %d of %d writes (last write: %s) failed: %v", c, total, what, err)
		}
		head, err := svc.Block.GetHighestFinalisedHeader()
		if err != nil {
			k.Violate("C36", "restart", "finalised-head-unreadable@"+what, "after %d writes: finalised head header unreadable: %v", c, err)
		}
		hh := head.Hash()
		fb := n.all[hh]
		if fb == nil {
			k.Violate("C36", "restart", "finalised-head-unknown", "after %d writes: finalised head %s was never produced", c, cu.Short(hh))
		}
		if _, err := svc.Block.GetBlockBody(hh); err != nil {
			k.Violate("C36", "restart", "finalised-body-unreadable@"+what, "after %d writes (last: %s): body of finalised head #%d unreadable: %v", c, what, head.Number, err)
		}
		sr := head.StateRoot
		for kk, want := range fb.state {
			got, err := svc.Storage.GetStorage(&sr, []byte(kk))
			if err != nil || !bytes.Equal(got, want) {
				k.Violate("C36", "restart", "finalised-state-unreadable@"+what, "after %d writes (last: %s): state of finalised head #%d: key %q = %x (%v), expected %x", c, what, head.Number, kk, got, err, want)
			}
		}
		if got, err := svc.Storage.GetStorage(&sr, []byte("absent")); err != nil || got != nil {
			k.Violate("C36", "restart", "finalised-state-unreadable@"+what, "after %d writes: absent key read as %x (%v)", c, got, err)
		}
		rnd, set, err := svc.Block.GetHighestRoundAndSetID()
		if err != nil {
			k.Violate("C36", "restart", "round-and-set-unreadable@"+what, "after %d writes: %v", c, err)
		}
		if c > genesisLen {
			if head.Number < prevNum {
				k.Violate("C36", "monotone", "finalised-number-went-back@"+what, "crash after %d writes (last: %s): finalised number %d is older than %d after %d writes", c, what, head.Number, prevNum, c-1)
			}
			if set < prevSet || (set == prevSet && rnd < prevRound) {
				k.Violate("C36", "monotone", "round-or-set-went-back@"+what, "crash after %d writes (last: %s): finalised (set %d, round %d) is older than (set %d, round %d) after %d writes", c, what, set, rnd, prevSet, prevRound, c-1)
			}
		}
		prevNum, prevRound, prevSet = head.Number, rnd, set
		cur, err := svc.Grandpa.GetCurrentSetID()
		if err != nil {
			k.Violate("C36", "grandpa-set", "current-set-id-unreadable@"+what, "after %d writes: current set id unreadable: %v", c, err)
		}
		if auths, err := svc.Grandpa.GetAuthorities(cur); err != nil || len(auths) == 0 {
			k.Violate("C36", "grandpa-set", "current-set-without-authorities@"+what, "crash after %d of %d writes (last write: %s): current GRANDPA set id is %d but its authority list is missing: %v", c, total, what, cur, err)
		}
		if _, err := svc.Grandpa.GetSetIDChange(cur); err != nil {
			k.Violate("C36", "grandpa-set", "current-set-without-activation-block@"+what, "crash after %d of %d writes (last write: %s): current GRANDPA set id is %d but its activation block is missing: %v", c, total, what, cur, err)
		}
		synctest.Wait()
		if c == contAt && fb != nil {
			n.continueAfterCrash(k, d, svc, fb, c, what, &salt, &nextAuth)
		}
	}
	k.Info["restarts"] = float64(restarts)
	k.Info["writes"] = float64(total - genesisLen)
	k.Mix(fmt.Sprint(total - genesisLen))
	if total-genesisLen >= 10 {
		k.Nontriv = true
	}
}

// describeRecord names the last durable write before crash index c (stable text, used in classes).
func describeRecord(d *simdisk.Disk, c int) string {
	if c == 0 {
		return "none"
	}
	r := d.Log[c-1]
	key := r.Ops[0].K
	name := "other"
	for _, p := range []struct{ prefix, name string }{
		{"blockhdr", "block-header"}, {"blockblb", "block-body"}, {"blockhsh", "block-number-index"}, {"blockarr", "block-arrival"},
		{"blockjcp", "block-justification"}, {"blockhrs", "block-highest-round-and-set"}, {"blockfsn", "block-first-slot"}, {"block", "block-finalised-hash"},
		{"grandpasetID", "grandpa-current-set-id"}, {"grandpaauth", "grandpa-authorities"}, {"grandpachange", "grandpa-set-change-block"},
		{"grandpa", "grandpa-other"}, {"storage", "storage-trie"}, {"epoch", "epoch"},
	} {
		if bytes.HasPrefix(key, []byte(p.prefix)) {
			name = p.name
			break
		}
	}
	if r.Batch {
		name += "(batch)"
	}
	return name
}

func (n *crashNode) importBlock(k *kernel.K, fb *fBlock) {
	proot := fb.parent.rb.Header.StateRoot
	ts, err := n.ss.TrieState(&proot)
	if err != nil {
		k.Violate("C36", "scenario", "parent-state-not-available", "TrieState(parent) failed: %v", err)
	}
	ts.SetVersion(trie.V0)
	ts.StartTransaction()
	for _, p := range fb.puts {
		ts.Put(p[0], p[1])
	}
	if root, err := ts.Root(); err != nil || root != fb.rb.Header.StateRoot {
		k.Violate("C01", "root", "block-state-root-differs-from-spec", "state root %s, spec %s (%v)", root, fb.rb.Header.StateRoot, err)
		k.Stop()
	}
	// order of dot/core handleBlock: StoreTrie, AddBlock, HandleDigests, ApplyForcedChanges
	if k.Bool(1, 8, "trie-write-fails-once") {
		// the disk refuses the trie batch once (nothing of it is stored); the import fails before the
		// block is added, the process lives on and the same block is imported again later, executed
		// afresh on its parent's state
		n.disk.OnWrite = func(rec *simdisk.Record) (error, bool) {
			n.disk.OnWrite = nil
			return simdisk.ErrInjectedWrite, false
		}
		err := n.ss.StoreTrie(ts, fb.rb.Header)
		refused := n.disk.OnWrite == nil
		n.disk.OnWrite = nil
		if refused {
			k.Fault("write-error")
			if err == nil {
				k.Probe("store-trie-swallowed-a-write-error")
			}
			k.Event("import-failed", "%s: StoreTrie: %v; imported again", cu.Short(fb.rb.Hash), err)
			if ts, err = n.ss.TrieState(&proot); err != nil {
				k.Violate("C36", "scenario", "parent-state-not-available", "TrieState(parent) failed on the second import: %v", err)
			}
			ts.SetVersion(trie.V0)
			ts.StartTransaction()
			for _, p := range fb.puts {
				ts.Put(p[0], p[1])
			}
			if root, err := ts.Root(); err != nil || root != fb.rb.Header.StateRoot { // Root commits the transaction
				k.Violate("C01", "root", "block-state-root-differs-from-spec", "second import: state root %s, spec %s (%v)", root, fb.rb.Header.StateRoot, err)
				k.Stop()
			}
			if err := n.ss.StoreTrie(ts, fb.rb.Header); err != nil {
				panic(err)
			}
			k.Probe("block-imported-again-after-a-failed-trie-write")
		} else if err != nil {
			panic(err)
		}
	} else if err := n.ss.StoreTrie(ts, fb.rb.Header); err != nil {
		panic(err)
	}
	if err := n.bs.AddBlock(&types.Block{Header: *fb.rb.Header, Body: *types.NewBody([]types.Extrinsic{})}); err != nil {
		panic(err)
	}
	n.ref.Add(&cu.RefBlock{Hash: fb.rb.Hash, Parent: fb.rb.Parent, Number: fb.rb.Number, Header: fb.rb.Header})
	for _, d := range fb.rb.Header.Digest {
		v, _ := d.Value()
		cd, ok := v.(types.ConsensusDigest)
		if !ok || cd.ConsensusEngineID != types.GrandpaEngineID {
			continue
		}
		data := types.NewGrandpaConsensusDigest()
		if err := scale.Unmarshal(cd.Data, &data); err != nil {
			panic(err)
		}
		if err := n.gs.HandleGRANDPADigest(fb.rb.Header, data); err != nil {
			k.Event("digest-refused", "%v", err)
		}
	}
	if err := n.gs.ApplyForcedChanges(fb.rb.Header); err != nil {
		k.Event("forced-change-refused", "%v", err)
	} else {
		k.Probe("apply-forced-changes-called")
	}
}

func (n *crashNode) finalise(k *kernel.K, target common.Hash, round, setID uint64) {
	// order of lib/grandpa finalise(): justification, prevotes, precommits, finalised hash, latest round;
	// then the digest handler applies scheduled changes
	fb := n.all[target]
	n.bs.SetJustification(target, []byte{1, 2, 3, byte(round)})
	sv := []types.GrandpaSignedVote{{Vote: types.GrandpaVote{Hash: target, Number: uint32(fb.rb.Number)}}}
	n.gs.SetPrevotes(round, setID, sv)
	n.gs.SetPrecommits(round, setID, sv)
	if err := n.bs.SetFinalisedHash(target, round, setID); err != nil {
		k.Violate("C17", "finalise", "valid-finalisation-refused", "SetFinalisedHash(%s) failed: %v", cu.Short(target), err)
		k.Stop()
	}
	n.gs.SetLatestRound(round)
	n.ref.Finalise(target)
	before, _ := n.gs.GetCurrentSetID()
	if err := n.gs.ApplyScheduledChanges(fb.rb.Header); err != nil {
		k.Event("scheduled-change-error", "%v", err)
	}
	if after, _ := n.gs.GetCurrentSetID(); after != before {
		k.Probe("scheduled-change-applied")
	}
}

// continueAfterCrash: the node restarted from the first c writes goes on - two blocks on top of its
// finalised head, the first announcing a scheduled authority change without delay, both finalised one
// after the other (the change is applied) - and is then restarted once more from everything written.
func (n *crashNode) continueAfterCrash(k *kernel.K, d *simdisk.Disk, svc *state.Service, head *fBlock, c int, what string, salt *int, nextAuth *byte) {
	n2 := &crashNode{disk: d, bs: svc.Block, ss: svc.Storage, gs: svc.Grandpa, all: n.all,
		ref: cu.NewRefTree(&cu.RefBlock{Hash: head.rb.Hash, Number: head.rb.Number, Header: head.rb.Header})}
	rnd, _, err := svc.Block.GetHighestRoundAndSetID()
	if err != nil {
		return // reported by the restart oracle already
	}
	mk := func(p *fBlock, change bool) *fBlock {
		*salt++
		st := map[string][]byte{}
		for kk, v := range p.state {
			st[kk] = v
		}
		key, val := []byte{'z'}, []byte{9, byte(*salt)}
		st[string(key)] = val
		dg := cu.BabeDigest(true, 0, uint64(1000+*salt))
		if change {
			*nextAuth++
			dg.Add(grandpaDigest(types.GrandpaScheduledChange{Auths: authSet(*nextAuth, *nextAuth+1, *nextAuth+2), Delay: 0}))
		}
		h := types.NewHeader(p.rb.Hash, common.Hash(su.SpecRoot(st, su.V0)), common.Hash{byte(*salt)}, p.rb.Number+1, dg)
		fb := &fBlock{rb: &cu.RefBlock{Hash: h.Hash(), Parent: p.rb.Hash, Number: p.rb.Number + 1, Header: h}, state: st, puts: [][2][]byte{{key, val}}, parent: p}
		n.all[fb.rb.Hash] = fb
		return fb
	}
	b1 := mk(head, true)
	b2 := mk(b1, false)
	k.Event("continue", "after the crash at %d (%s): import %s (+scheduled change) and %s, finalise both", c, what, cu.Short(b1.rb.Hash), cu.Short(b2.rb.Hash))
	n2.importBlock(k, b1)
	n2.importBlock(k, b2)
	for i, b := range []*fBlock{b1, b2} {
		setID, err := n2.gs.GetCurrentSetID()
		if err != nil {
			k.Violate("C36", "scenario", "current-set-id-unreadable", "GetCurrentSetID failed while going on after a crash: %v", err)
		}
		n2.finalise(k, b.rb.Hash, rnd+1+uint64(i), setID)
		synctest.Wait()
	}
	k.Probe("went-on-after-a-crash")
	svc2 := state.VerifNewServiceOverDB(d.Clone().Open(), noTelemetry{}, babeCfg)
	if err := svc2.Start(); err != nil {
		k.Violate("C36", "restart", "restart-failed-after-going-on@"+what, "crash after %d writes (last: %s), restart, two more blocks finalised, restart: %v", c, what, err)
	}
	cur, err := svc2.Grandpa.GetCurrentSetID()
	if err != nil {
		k.Violate("C36", "grandpa-set", "current-set-id-unreadable-after-going-on@"+what, "crash after %d writes (last: %s), then going on: current set id unreadable: %v", c, what, err)
	}
	if _, err := svc2.Grandpa.GetAuthorities(cur); err != nil {
		k.Violate("C36", "grandpa-set", "current-set-without-authorities-after-going-on@"+what, "crash after %d writes (last: %s), restart, a further scheduled change applied, restart: current GRANDPA set id is %d but its authority list is missing: %v", c, what, cur, err)
	}
	if _, err := svc2.Grandpa.GetSetIDChange(cur); err != nil {
		k.Violate("C36", "grandpa-set", "current-set-without-activation-block-after-going-on@"+what, "crash after %d writes (last: %s), restart, a further scheduled change applied, restart: current GRANDPA set id is %d but its activation block is missing: %v", c, what, cur, err)
	}
	if h2, err := svc2.Block.GetHighestFinalisedHeader(); err != nil || h2.Hash() != b2.rb.Hash {
		k.Violate("C36", "restart", "finalised-head-after-going-on@"+what, "crash after %d writes (last: %s), then going on: finalised head is not the block finalised last (%v)", c, what, err)
	}
	synctest.Wait()
}
