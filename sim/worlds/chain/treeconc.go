package chain

import (
	"fmt"
	"sort"
	"strings"

	"github.com/ChainSafe/gossamer/dot/types"
	"github.com/ChainSafe/gossamer/lib/common"
	cu "github.com/ChainSafe/gossamer/verifsim/chainutil"
	"github.com/ChainSafe/gossamer/verifsim/kernel"
	"github.com/ChainSafe/gossamer/verifsim/simsync"
	gbt "github.com/ChainSafe/gossamer/verifsim/worlds/chain/gen/blocktree"
)

// C15 with several callers. In the node the block tree is shared by the importer (AddBlock), the
// finality gadget (Prune through SetFinalisedHash) and every reader. A fifth of the C15 runs execute a
// few AddBlock / Prune calls from 2-3 tasks on a copy of lib/blocktree whose mutexes are the
// cooperative scheduler's (prebuild.sh: sync.RWMutex -> simsync.RWMutex, nothing else): at every
// Lock/Unlock the tape decides who goes on. Oracle: the results of all calls and the final tree (all
// blocks as a multiset, leaves) equal those of SOME order of the same calls that respects each task's
// own order, executed on a reference tree - the statement's "for every sequence of additions and
// finalisations" for the sequences the concurrent callers can be taken to have issued.

type cop struct {
	task   int
	prune  bool
	hdr    *types.Header
	hash   common.Hash // block added, or target of the prune
	parent common.Hash
	num    uint
	// observed
	failed bool
	pruned []common.Hash
}

type cmodel struct {
	root   common.Hash
	parent map[common.Hash]common.Hash
	num    map[common.Hash]uint
}

func (m *cmodel) clone() *cmodel {
	c := &cmodel{root: m.root, parent: map[common.Hash]common.Hash{}, num: map[common.Hash]uint{}}
	for h, p := range m.parent {
		c.parent[h] = p
	}
	for h, n := range m.num {
		c.num[h] = n
	}
	return c
}

func (m *cmodel) has(h common.Hash) bool { _, ok := m.num[h]; return ok }

func (m *cmodel) descends(anc, h common.Hash) bool {
	for i := 0; i <= len(m.num); i++ {
		if h == anc {
			return true
		}
		if h == m.root {
			return false
		}
		h = m.parent[h]
	}
	panic("reference tree: parent links do not reach the root")
}

// apply executes o on the model and returns the expected observation.
func (m *cmodel) apply(o *cop) (failed bool, pruned []common.Hash) {
	if !o.prune {
		if !m.has(o.parent) || m.has(o.hash) || m.num[o.parent]+1 != o.num {
			return true, nil
		}
		m.parent[o.hash], m.num[o.hash] = o.parent, o.num
		return false, nil
	}
	if o.hash == m.root || !m.has(o.hash) {
		return false, nil
	}
	for h := range m.num {
		if !m.descends(o.hash, h) && !m.descends(h, o.hash) {
			pruned = append(pruned, h)
		}
	}
	var drop []common.Hash
	for h := range m.num {
		if !m.descends(o.hash, h) {
			drop = append(drop, h)
		}
	}
	for _, h := range drop {
		delete(m.num, h)
		delete(m.parent, h)
	}
	m.root = o.hash
	delete(m.parent, o.hash)
	cu.SortHashes(pruned)
	return false, pruned
}

func (m *cmodel) all() []common.Hash {
	var out []common.Hash
	for h := range m.num {
		out = append(out, h)
	}
	cu.SortHashes(out)
	return out
}

func (m *cmodel) leaves() []common.Hash {
	kids := map[common.Hash]bool{}
	for _, p := range m.parent {
		kids[p] = true
	}
	var out []common.Hash
	for h := range m.num {
		if !kids[h] {
			out = append(out, h)
		}
	}
	cu.SortHashes(out)
	return out
}

func hashList(hs []common.Hash) string {
	p := make([]string, len(hs))
	for i, h := range hs {
		p[i] = cu.Short(h)
	}
	return "[" + strings.Join(p, " ") + "]"
}

func runTreeConc(k *kernel.K) {
	genesis := types.NewHeader(common.Hash{}, common.Hash{1}, common.Hash{}, 0, types.NewDigest())
	bt := gbt.NewBlockTreeFromRoot(genesis)
	m := &cmodel{root: genesis.Hash(), parent: map[common.Hash]common.Hash{}, num: map[common.Hash]uint{genesis.Hash(): 0}}
	type blk struct {
		hdr *types.Header
		h   common.Hash
		num uint
	}
	pool := []blk{{genesis, genesis.Hash(), 0}}
	salt := uint64(0)
	mk := func(p blk) blk {
		salt++
		h := mkHeader(p.h, p.num+1, k.Bool(1, 2, "primary"), salt)
		return blk{h, h.Hash(), p.num + 1}
	}
	// the tree before the callers start (sequential)
	for i := k.Range(2, 7, "initial-blocks"); i > 0; i-- {
		b := mk(pool[k.Choose(len(pool), "initial-parent")])
		if err := bt.AddBlock(b.hdr, baseTime); err != nil {
			k.Violate("C15", "add", "valid-add-refused", "initial AddBlock failed: %v", err)
			k.Stop()
		}
		m.parent[b.h], m.num[b.h] = pool[0].h, b.num
		m.parent[b.h] = b.hdr.ParentHash
		pool = append(pool, b)
	}
	// the calls
	nTasks := k.Range(2, 3, "tasks")
	var ops []*cop
	per := make([][]*cop, nTasks)
	fresh := []blk{} // blocks some task adds: others may build on them or add them too
	for t := 0; t < nTasks; t++ {
		for i := k.Range(1, 3, "calls"); i > 0; i-- {
			o := &cop{task: t}
			switch c := k.Choose(6, "call"); {
			case c <= 1 && len(fresh) > 0: // the same block again (announced by two peers)
				b := fresh[k.Choose(len(fresh), "same-block")]
				o.hdr, o.hash, o.parent, o.num = b.hdr, b.h, b.hdr.ParentHash, b.num
				k.Fault("duplicate")
			case c == 5 && len(pool) > 1: // finalise a block that was there from the start
				o.prune, o.hash = true, pool[1+k.Choose(len(pool)-1, "prune-target")].h
			default:
				cands := append(append([]blk{}, pool...), fresh...)
				b := mk(cands[k.Choose(len(cands), "add-parent")])
				fresh = append(fresh, b)
				o.hdr, o.hash, o.parent, o.num = b.hdr, b.h, b.hdr.ParentHash, b.num
			}
			ops = append(ops, o)
			per[t] = append(per[t], o)
		}
	}
	density := k.Choose(3, "preemption-density")
	chooser := func(n int, label string) int {
		switch density {
		case 1:
			if k.Choose(4, "switch?") < 3 {
				return 0
			}
		case 2:
			if k.Choose(16, "switch?") < 15 {
				return 0
			}
		}
		return k.Choose(n, label)
	}
	s := simsync.New(chooser)
	s.Trace = func(from, to, why, site string) {
		k.Mix(from + ">" + to + "@" + why)
		k.Event("switch", "%s -> %s (%s)", from, to, why)
	}
	res := s.Run(func() {
		var hs []*simsync.Handle
		for t := 0; t < nTasks; t++ {
			t := t
			hs = append(hs, simsync.Go(fmt.Sprintf("c%d", t+1), func() {
				for _, o := range per[t] {
					if o.prune {
						o.pruned = append([]common.Hash{}, bt.Prune(o.hash)...)
						cu.SortHashes(o.pruned)
						k.Event("prune", "c%d Prune(%s) -> %s", t+1, cu.Short(o.hash), hashList(o.pruned))
					} else {
						err := bt.AddBlock(o.hdr, baseTime)
						o.failed = err != nil
						k.Event("add", "c%d AddBlock(%s on %s) -> %v", t+1, cu.Short(o.hash), cu.Short(o.parent), err)
					}
				}
			}))
		}
		for _, h := range hs {
			h.Join()
		}
	})
	if res.HarnessErr != "" {
		panic("harness error inside a simulated task: " + res.HarnessErr)
	}
	if res.Race != nil {
		k.Violate("C15", "race", res.Race.Class, "%s", res.Race.Msg)
	}
	if res.Deadlock != "" {
		k.Violate("C15", "deadlock", "deadlock:"+res.Deadlock, "no runnable task: %s", res.Deadlock)
	}
	if res.PanicClass != "" {
		k.Violate("C15", "panic", res.PanicClass, "%s", res.PanicMsg)
	}
	gotAll := append([]common.Hash{}, bt.GetAllBlocks()...)
	cu.SortHashes(gotAll)
	gotLeaves := append([]common.Hash{}, bt.Leaves()...)
	cu.SortHashes(gotLeaves)
	// some order of the calls that respects every task's own order explains everything observed
	idx := make([]int, nTasks)
	var order []*cop
	explained := false
	var try func(mm *cmodel)
	try = func(mm *cmodel) {
		if explained {
			return
		}
		if len(order) == len(ops) {
			if sameSeq(mm.all(), gotAll) && sameSeq(mm.leaves(), gotLeaves) {
				explained = true
			}
			return
		}
		for t := 0; t < nTasks; t++ {
			if idx[t] >= len(per[t]) {
				continue
			}
			o := per[t][idx[t]]
			c := mm.clone()
			failed, pruned := c.apply(o)
			if failed != o.failed || !sameSeq(pruned, o.pruned) {
				continue
			}
			idx[t]++
			order = append(order, o)
			try(c)
			order = order[:len(order)-1]
			idx[t]--
		}
	}
	try(m)
	if res.Preempts > 0 {
		k.Nontriv = true
		k.Probe("concurrent-tree-run-with-preemption")
	}
	if !explained {
		var sb strings.Builder
		for t := range per {
			fmt.Fprintf(&sb, " | c%d:", t+1)
			for _, o := range per[t] {
				if o.prune {
					fmt.Fprintf(&sb, " Prune(%s)->%s", cu.Short(o.hash), hashList(o.pruned))
				} else {
					fmt.Fprintf(&sb, " Add(%s on %s)->failed=%v", cu.Short(o.hash), cu.Short(o.parent), o.failed)
				}
			}
		}
		k.Violate("C15", "concurrent-callers", "no-order-of-the-calls-explains-the-tree",
			"after the calls of %d concurrent callers the tree holds %s with leaves %s; no order of the calls that keeps each caller's own order gives these results and this tree on the reference tree (initial blocks %s).%s",
			nTasks, hashList(gotAll), hashList(gotLeaves), hashList(func() []common.Hash {
				var hs []common.Hash
				for _, b := range pool {
					hs = append(hs, b.h)
				}
				sort.Slice(hs, func(i, j int) bool { return string(hs[i][:]) < string(hs[j][:]) })
				return hs
			}()), sb.String())
	}
	k.Mix(fmt.Sprintf("conc/%d/%d", len(gotAll), len(gotLeaves)))
}
