package chain

import (
	"testing"
	"time"

	"github.com/ChainSafe/gossamer/verifsim/kernel"
)

type world struct{}

func (world) Name() string    { return "chain" }
func (world) Props() []string { return []string{"C15", "C16", "C17", "C36", "C26", "C23"} }
func (world) Bubble(p string) bool {
	switch p {
	case "C15", "C16", "C26":
		return false // C26 needs a wall-clock watchdog: a lookup that never returns is part of the property
	}
	return true
}
func (world) Level(p string) string {
	if p == "C36" {
		return "fault_enumeration"
	}
	return "exploration"
}
func (world) Run(k *kernel.K) {
	switch k.Prop {
	case "C15", "C16":
		runTree(k)
	case "C17":
		runFinality(k)
	case "C36":
		runCrash(k)
	case "C26":
		runEpoch(k)
	case "C23":
		runAuthSet(k)
	}
}
func (world) Rule(p string) string {
	switch p {
	case "C15", "C16":
		return "one run = 1-3 real blocktree.BlockTree instances fed the same generated blocks (depth<=12, siblings, primary/secondary marks, tied arrival instants) through per-node inboxes whose delivery order, duplication and interleaving with finalisations are tape-chosen; after every event the touched node is compared with a reference tree built from parent links (block set, leaves, best block, pruned set, ancestry/LCA/range/by-number queries on sampled and finally all pairs). A run is non-trivial if it finalised at least once with >=2 blocks in the tree or delivered out of order/duplicated; distinct = distinct event-kind sequence fingerprint. A fifth of the C15 runs instead let 2-3 concurrent callers issue 1-3 calls each (AddBlock of new blocks, of blocks another caller adds too, of children of blocks another caller adds; Prune of an initial block) on a copy of lib/blocktree generated at check time whose mutexes are the cooperative scheduler's (every Lock/Unlock is a tape-decided scheduling point, nothing else is changed); the results of all calls and the final tree (all blocks as a multiset, leaves) must equal those of some order of the calls that keeps each caller's own order, executed on a reference tree."
	case "C17":
		return "one run = a real dot/state BlockState+StorageState over simdisk inside a synctest bubble; blocks with real state tries are imported in tape-chosen order, finalisation requests target descendants, the head again, stale ancestors, pruned siblings and unknown hashes; restarts reload from the simulated disk; in half of the finalisations a concurrent reader gets its turn between the disk writes of SetFinalisedHash (HasHeader/GetHeader of any block ever produced, tape-chosen per write). After every request: accepted => known descendant; rejected => head/tree/unfinalised/tries unchanged; every finalised-chain block resolvable by number from the DB; no abandoned block retrievable as unfinalised, no abandoned state trie cached. Non-trivial = at least one accepted finalisation that abandoned >=1 block or one restart."
	case "C23":
		return "one run = a real dot/state GrandpaState+BlockState with the real dot/digest BlockImportHandler over the simulated disk; a generated block tree with forks carries real GRANDPA consensus digests (scheduled changes with delay 0-3, forced changes with delay 0-2, one pending scheduled change per branch at a time, at most one pending forced change per fork; a third of the forced-change headers also carry a scheduled-change item, before or after the forced one, which Substrate ignores); blocks are imported in order (HandleDigests then ApplyForcedChanges, as dot/core does), finalisations target any live block but never jump over the effective block of a pending scheduled change (the cap an honest voter respects), and the finalisation handler's ApplyScheduledChanges step is delivered immediately or after later imports. After every step current set id, the authority list of every set and (when no forced change happened) the set id of every block number are compared with a reference Substrate authority-set model. A fifth of the runs may also finalise past the announcing block of a pending forced change; from then on only the invariants that hold under every reading are checked (every set up to the current one has authorities; no set holds the list of a scheduled change announced together with a forced change). Non-trivial = at least one change applied."
	case "C26":
		return "one run = a real dot/state EpochState+BlockState (+ the real dot/digest BlockImportHandler) over the simulated disk; generated blocks on competing forks with tape-chosen slot gaps (epoch length 10, skipped epochs included) announce next-epoch data and configuration in the first block of an epoch on their chain (sometimes not at all); blocks are imported, finalised (followed by the persistence steps of the digest handler), the node is crashed and restarted (unfinalised blocks re-imported); for live blocks the epoch data and configuration of their epoch and the next one are looked up under a 40 s wall-clock watchdog and compared with what walking that block's own ancestry finds (latest earlier configuration, genesis as fallback). A lookup that does not return is a violation. Non-trivial = at least one finalisation or restart. In a sixth of the finalisations the simulated disk refuses one of the first four writes of the finalise step (FinalizeBABENextEpochData / FinalizeBABENextConfigData); the step is not repeated, and the data of the epoch after the finalised block, announced on the finalised chain, must stay available to every descendant (either persisted or still pending)."
	case "C36":
		return "fault enumeration: one run = one generated scenario (4-26 operations: block imports with real state tries, forks, scheduled and forced GRANDPA authority changes, finalisations with justification/votes/round bookkeeping in the order lib/grandpa and dot/core issue them; an eighth of the imports have their trie batch refused once by the disk, after which the same block is executed afresh and imported again) executed once over the simulated disk; then the node is restarted through the real state.Service.Start() reload path from EVERY prefix of the write log (each Put one record, each batch one atomic record). Oracle per restart: start succeeds; finalised head header, body and full state readable and equal to the reference; finalised number and (set id, round) never older than at the previous crash index; current set id has an authority list and an activation block. Crash indexes are enumerated completely per scenario, scenarios are sampled. In half of the runs the node restarted from one tape-chosen crash index also goes on (two blocks on its finalised head, the first announcing a scheduled change without delay, both finalised so that the change is applied) and is restarted once more from everything written; the same oracle applies. Non-trivial = at least 10 writes."
	}
	return ""
}
func (world) Components(p string) ([]string, []string) {
	switch p {
	case "C15", "C16":
		return []string{"lib/blocktree (BlockTree, node, leafMap)", "dot/types header+BABE pre-digest encoding", "C15 concurrent runs: the same lib/blocktree sources, copied at check time with sync.RWMutex/Mutex replaced by the scheduler's (worlds/chain/prebuild.sh)"},
			[]string{"network delivery (tape-driven inboxes)", "arrival clock (explicit stamps)", "goroutine scheduling in the concurrent C15 runs (cooperative scheduler: one caller runs at a time, switches only at Lock/Unlock)"}
	case "C17":
		return []string{"dot/state BlockState (AddBlock, SetFinalisedHash, handleFinalisedBlock, NewBlockState reload)", "dot/state InmemoryStorageState+Tries", "lib/blocktree", "pkg/trie/inmemory", "lib/runtime/storage.TrieState"},
			[]string{"disk (simdisk)", "clock (synctest bubble)", "telemetry", "runtime (state changes drawn from the tape)", "network"}
	case "C23":
		return []string{"dot/state GrandpaState (HandleGRANDPADigest, changeTree / orderedPendingChanges, ApplyScheduledChanges, ApplyForcedChanges, GetSetIDByBlockNumber)", "dot/digest BlockImportHandler.HandleDigests", "dot/state BlockState", "dot/types GRANDPA consensus digests"},
			[]string{"disk (simdisk)", "dot/core import sequence and the asynchronous finalisation handler (their calls are issued by the harness in the same order, the finalisation step optionally delayed)", "GRANDPA voting (finalisation targets are tape-chosen under the honest cap)", "clock (synctest bubble)"}
	case "C26":
		return []string{"dot/state EpochState (HandleBABEDigest, GetEpochForBlock, GetEpochDataRaw, GetConfigData, findAncestor, FinalizeBABENextEpochData/ConfigData, restoreMapFromDisk)", "dot/state BlockState", "dot/digest BlockImportHandler.HandleDigests", "dot/types BABE consensus digests"},
			[]string{"disk (simdisk)", "block production (tape-chosen slots and announcements)", "the asynchronous finalisation handler (its two persistence calls are issued right after SetFinalisedHash)", "telemetry"}
	case "C36":
		return []string{"dot/state Service.Start reload path (NewBlockState, LoadFromDB, NewEpochState, NewGrandpaState)", "dot/state BlockState.SetFinalisedHash/handleFinalisedBlock, SetJustification", "dot/state GrandpaState (digest handling, ApplyScheduledChanges, ApplyForcedChanges, IncrementSetID, votes/round bookkeeping)", "dot/state InmemoryStorageState.StoreTrie + pkg/trie/inmemory WriteDirty", "internal/database table/batch wrappers"},
			[]string{"disk (simdisk write log replaces pebble)", "block execution (tape-chosen state changes)", "lib/grandpa and dot/core/dot/digest callers (their call order is replayed by the harness)", "clock (synctest bubble)", "telemetry"}
	}
	return nil, nil
}
func (world) Budget(p, tier string) (int, time.Duration) {
	if p == "C36" {
		if tier == "thorough" {
			return 200000, 8 * time.Minute
		}
		return 20000, 40 * time.Second
	}
	if tier == "thorough" {
		return 600000, 8 * time.Minute
	}
	return 40000, 40 * time.Second
}

func TestVerif(t *testing.T) { kernel.Main(t, world{}) }
