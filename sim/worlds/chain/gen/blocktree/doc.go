// Package blocktree is the copy of /repo/lib/blocktree whose mutexes are the cooperative
// scheduler's (simsync). Its source files are GENERATED AT CHECK TIME by ../../prebuild.sh from the
// current /repo working tree and are added to this directory through the go -overlay file only; this
// placeholder exists so that the directory is present for the go tool.
package blocktree
