package chain

import (
	"fmt"
	"time"

	"github.com/ChainSafe/gossamer/dot/types"
	"github.com/ChainSafe/gossamer/lib/blocktree"
	"github.com/ChainSafe/gossamer/lib/common"
	cu "github.com/ChainSafe/gossamer/verifsim/chainutil"
	"github.com/ChainSafe/gossamer/verifsim/kernel"
)

var baseTime = time.Date(2000, 1, 1, 0, 0, 0, 0, time.UTC)

// srcBlock is a block produced by the simulated block source.
type srcBlock struct {
	rb     *cu.RefBlock
	depth  int
	badNum bool
	noBabe bool // header whose first digest item is not a BABE pre-runtime digest: AddBlock cannot tell primary from secondary and refuses it
}

type treeNode struct {
	id      int
	bt      *blocktree.BlockTree
	ref     *cu.RefTree
	inbox   []*srcBlock
	orphans []*srcBlock
	pruned  map[common.Hash]bool // blocks this node abandoned (or never can add)
}

func mkHeader(parent common.Hash, number uint, primary bool, salt uint64) *types.Header {
	var sr common.Hash
	for i := 0; i < 8; i++ {
		sr[i] = byte(salt >> (8 * i))
	}
	return types.NewHeader(parent, sr, common.Hash{}, number, cu.BabeDigest(primary, 0, uint64(number)+salt%7))
}

func runTree(k *kernel.K) {
	if k.Prop == "C15" && k.Bool(1, 5, "concurrent-callers") {
		runTreeConc(k)
		return
	}
	nNodes := k.Range(1, 3, "nodes")
	steps := k.Range(8, 70, "steps")
	maxDepth := k.Range(3, 12, "maxdepth")
	genesis := types.NewHeader(common.Hash{}, common.Hash{1}, common.Hash{}, 0, types.NewDigest())
	gref := &cu.RefBlock{Hash: genesis.Hash(), Number: 0, Arrival: baseTime, Header: genesis}
	pool := []*srcBlock{{rb: gref}}
	nodes := make([]*treeNode, nNodes)
	for i := range nodes {
		nodes[i] = &treeNode{id: i, bt: blocktree.NewBlockTreeFromRoot(genesis), ref: cu.NewRefTree(&cu.RefBlock{Hash: gref.Hash, Number: 0, Arrival: baseTime, Header: genesis}), pruned: map[common.Hash]bool{}}
	}
	salt := uint64(0)
	for s := 0; s < steps; s++ {
		switch k.Choose(6, "action") {
		case 0, 1, 2: // source produces a block and announces it to every node
			// bias towards recent blocks so that chains get deep
			var p *srcBlock
			if k.Bool(1, 2, "parent-recent") {
				lo := len(pool) - 4
				if lo < 0 {
					lo = 0
				}
				p = pool[lo+k.Choose(len(pool)-lo, "parent")]
			} else {
				p = pool[k.Choose(len(pool), "parent")]
			}
			if p.depth >= maxDepth || p.badNum || p.noBabe {
				continue
			}
			salt++
			primary := k.Bool(1, 2, "primary")
			num := p.rb.Number + 1
			bad := k.Bool(1, 40, "badnumber")
			if bad {
				num += 1 + uint(k.Choose(2, "badnum-delta"))
			}
			h := mkHeader(p.rb.Hash, num, primary, salt)
			noBabe := !bad && k.Bool(1, 40, "no-babe-digest")
			if noBabe {
				dg := types.NewDigest()
				if k.Bool(1, 2, "foreign-first-item") {
					dg.Add(types.ConsensusDigest{ConsensusEngineID: types.GrandpaEngineID, Data: []byte{1, byte(salt)}})
				}
				h = types.NewHeader(p.rb.Hash, common.Hash{0x6e, byte(salt)}, common.Hash{}, num, dg)
			}
			arr := baseTime.Add(time.Duration(k.Choose(4, "arrival")) * time.Second)
			sb := &srcBlock{rb: &cu.RefBlock{Hash: h.Hash(), Parent: p.rb.Hash, Number: num, Primary: primary, Arrival: arr, Header: h}, depth: p.depth + 1, badNum: bad, noBabe: noBabe}
			pool = append(pool, sb)
			k.Event("produce", "%s parent=%s num=%d primary=%v arr=+%ds", cu.Short(sb.rb.Hash), cu.Short(p.rb.Hash), num, primary, int(arr.Sub(baseTime).Seconds()))
			for _, n := range nodes {
				n.inbox = append(n.inbox, sb)
				if k.Bool(1, 8, "dup") {
					n.inbox = append(n.inbox, sb)
					k.Fault("duplicate")
				}
			}
		case 3, 4: // deliver one message to one node
			n := nodes[k.Choose(nNodes, "node")]
			if len(n.inbox) == 0 {
				continue
			}
			i := k.Choose(len(n.inbox), "inbox-index")
			if i != 0 {
				k.Fault("reorder")
			}
			sb := n.inbox[i]
			n.inbox = append(n.inbox[:i], n.inbox[i+1:]...)
			n.deliver(k, sb)
			n.check(k, 4)
		case 5: // finalise some block at one node
			n := nodes[k.Choose(nNodes, "node")]
			all := n.ref.All()
			var target common.Hash
			if k.Bool(1, 10, "fin-unknown") {
				target = common.Hash{0xff, byte(s)}
			} else {
				target = all[k.Choose(len(all), "fin-target")]
			}
			n.finalise(k, target)
			n.check(k, 4)
		}
	}
	// drain inboxes FIFO, then a complete check of every node
	for _, n := range nodes {
		for len(n.inbox) > 0 {
			sb := n.inbox[0]
			n.inbox = n.inbox[1:]
			n.deliver(k, sb)
		}
		n.check(k, -1)
	}
	// nodes that never finalised and got the same blocks must agree on everything (order independence)
	for i := 1; i < nNodes; i++ {
		a, b := nodes[0], nodes[i]
		if a.ref.Root == b.ref.Root && cu.SameSet(a.ref.All(), b.ref.All()) {
			if a.bt.BestBlockHash() != b.bt.BestBlockHash() {
				k.Violate("C16", "order-independence", "best-differs-between-nodes-with-same-blocks",
					"node0 best=%s node%d best=%s", cu.Short(a.bt.BestBlockHash()), i, cu.Short(b.bt.BestBlockHash()))
			}
		}
	}
}

func (n *treeNode) deliver(k *kernel.K, sb *srcBlock) {
	rb := sb.rb
	err := n.bt.AddBlock(rb.Header, rb.Arrival)
	parentKnown := n.ref.Has(rb.Parent)
	switch {
	case n.ref.Has(rb.Hash):
		k.Event("dup-deliver", "n%d %s", n.id, cu.Short(rb.Hash))
		if err == nil {
			k.Violate("C15", "add-duplicate", "duplicate-add-not-refused", "node %d: adding existing block %s returned %v", n.id, cu.Short(rb.Hash), err)
		}
	case !parentKnown:
		k.Event("orphan-deliver", "n%d %s", n.id, cu.Short(rb.Hash))
		if err == nil {
			k.Violate("C15", "add-orphan", "orphan-add-not-refused", "node %d: adding block %s with unknown parent returned %v", n.id, cu.Short(rb.Hash), err)
		}
		n.orphans = append(n.orphans, sb)
	case sb.badNum:
		k.Event("badnum-deliver", "n%d %s", n.id, cu.Short(rb.Hash))
		if err == nil {
			k.Violate("C15", "add-badnumber", "wrong-number-accepted", "node %d: block %s with number %d under parent number %d accepted", n.id, cu.Short(rb.Hash), rb.Number, n.ref.Blocks[rb.Parent].Number)
		}
	case sb.noBabe && err != nil:
		// refused, as it may be: then it was not added and nothing of it may be in the tree (the block-set
		// comparison of check() and a later re-delivery see to that)
		k.Event("nobabe-refused", "n%d %s", n.id, cu.Short(rb.Hash))
		k.Probe("header-without-babe-digest-refused")
		if err2 := n.bt.AddBlock(rb.Header, rb.Arrival); err2 == nil {
			k.Violate("C15", "add-refused", "refused-block-accepted-on-redelivery", "node %d: block %s was refused (%v) and accepted when delivered again", n.id, cu.Short(rb.Hash), err)
		}
	default:
		k.Event("deliver", "n%d %s", n.id, cu.Short(rb.Hash))
		if err != nil {
			k.Violate("C15", "add", "valid-add-refused", "node %d: adding block %s (parent present) failed: %v", n.id, cu.Short(rb.Hash), err)
		}
		n.ref.Add(&cu.RefBlock{Hash: rb.Hash, Parent: rb.Parent, Number: rb.Number, Primary: rb.Primary, Arrival: rb.Arrival, Header: rb.Header})
		// retry orphans whose parent is now known (the node shim re-queues them)
		for i := 0; i < len(n.orphans); i++ {
			o := n.orphans[i]
			if n.ref.Has(o.rb.Parent) && !n.ref.Has(o.rb.Hash) {
				n.orphans = append(n.orphans[:i], n.orphans[i+1:]...)
				n.deliver(k, o)
				i = -1
			}
		}
	}
}

func (n *treeNode) finalise(k *kernel.K, target common.Hash) {
	before := len(n.ref.Blocks)
	got := n.bt.Prune(target)
	if !n.ref.Has(target) {
		k.Event("finalise-unknown", "n%d", n.id)
		if len(got) != 0 {
			k.Violate("C15", "prune", "prune-unknown-reports-blocks", "node %d: pruning unknown block reported %d blocks", n.id, len(got))
		}
		return
	}
	want := n.ref.Finalise(target)
	k.Event("finalise", "n%d %s pruned=%d of %d", n.id, cu.Short(target), len(want), before)
	if before >= 2 {
		k.Nontriv = true
	}
	if len(want) >= 2 {
		k.Probe("finalised-with->=2-abandoned")
	}
	if !cu.SameSet(got, want) {
		k.Violate("C15", "prune-reports-all-abandoned", "prune-result-differs",
			"node %d: finalising %s: Prune reported %d blocks %v, reference says %d abandoned %v", n.id, cu.Short(target), len(got), shorts(got), len(want), shorts(want))
	}
}

func shorts(hs []common.Hash) []string {
	out := make([]string, len(hs))
	cp := append([]common.Hash{}, hs...)
	cu.SortHashes(cp)
	for i, h := range cp {
		out[i] = cu.Short(h)
	}
	return out
}

// check compares the node's real tree with the reference. pairs<0 => all pairs.
func (n *treeNode) check(k *kernel.K, pairs int) {
	ref := n.ref
	all := ref.All()
	if got := n.bt.GetAllBlocks(); !cu.SameSet(got, all) {
		k.Violate("C15", "block-set", "tree-blocks-differ", "node %d: tree holds %v, reference %v", n.id, shorts(got), shorts(all))
	}
	if got := n.bt.Leaves(); !cu.SameSet(got, ref.Leaves()) {
		k.Violate("C15", "leaves", "leaves-differ", "node %d: leaves %v, reference %v", n.id, shorts(got), shorts(ref.Leaves()))
	}
	best := n.bt.BestBlockHash()
	wantBest := ref.Best()
	if best != wantBest {
		bb, wb := ref.Blocks[best], ref.Blocks[wantBest]
		desc := "unknown"
		if bb != nil {
			desc = fmt.Sprintf("num=%d primaries=%d arr=%v", bb.Number, ref.PrimaryCount(best), bb.Arrival.Sub(baseTime))
		}
		k.Violate("C16", "best-block", "best-differs-from-fork-choice", "node %d: best=%s (%s), fork choice says %s (num=%d primaries=%d arr=%v)",
			n.id, cu.Short(best), desc, cu.Short(wantBest), wb.Number, ref.PrimaryCount(wantBest), wb.Arrival.Sub(baseTime))
	}
	// by-number queries
	rootNum := ref.Blocks[ref.Root].Number
	maxNum := rootNum
	for _, b := range ref.Blocks {
		if b.Number > maxNum {
			maxNum = b.Number
		}
	}
	bestPath := ref.PathFrom(ref.Root, wantBest)
	checkNum := func(num uint) {
		var want []common.Hash
		for _, b := range ref.Blocks {
			if b.Number == num {
				want = append(want, b.Hash)
			}
		}
		if got := n.bt.GetHashesAtNumber(num); !cu.SameSet(got, want) {
			k.Violate("C15", "hashes-at-number", "hashes-at-number-differ", "node %d: GetHashesAtNumber(%d)=%v, reference %v (root#%d best#%d highest#%d)",
				n.id, num, shorts(got), shorts(want), rootNum, ref.Blocks[wantBest].Number, maxNum)
		}
		got, err := n.bt.GetHashByNumber(num)
		if num < rootNum || num > ref.Blocks[wantBest].Number {
			if err == nil {
				k.Violate("C15", "hash-by-number", "out-of-range-number-answered", "node %d: GetHashByNumber(%d) = %s outside [root#%d, best#%d]", n.id, num, cu.Short(got), rootNum, ref.Blocks[wantBest].Number)
			}
		} else if err != nil || got != bestPath[num-rootNum] {
			k.Violate("C15", "hash-by-number", "hash-by-number-differs", "node %d: GetHashByNumber(%d) = %s,%v; best chain has %s", n.id, num, cu.Short(got), err, cu.Short(bestPath[num-rootNum]))
		}
	}
	if pairs < 0 {
		for num := uint(0); num <= maxNum+1; num++ {
			checkNum(num)
		}
	} else {
		checkNum(rootNum + uint(k.Choose(int(maxNum-rootNum)+2, "q-num")))
	}
	pair := func(a, b common.Hash) {
		is, err := n.bt.IsDescendantOf(a, b)
		want := ref.IsDescendantOf(a, b)
		if err != nil || is != want {
			k.Violate("C15", "is-descendant", "ancestry-differs", "node %d: IsDescendantOf(%s,%s)=%v,%v reference %v", n.id, cu.Short(a), cu.Short(b), is, err, want)
		}
		lca, err := n.bt.LowestCommonAncestor(a, b)
		if err != nil || lca != ref.LCA(a, b) {
			k.Violate("C15", "lca", "lca-differs", "node %d: LCA(%s,%s)=%s,%v reference %s", n.id, cu.Short(a), cu.Short(b), cu.Short(lca), err, cu.Short(ref.LCA(a, b)))
		}
		rng, err := n.bt.RangeInMemory(a, b)
		if want {
			path := ref.PathFrom(a, b)
			if err != nil || !sameSeq(rng, path) {
				k.Violate("C15", "range", "range-differs", "node %d: RangeInMemory(%s,%s)=%v,%v reference %v", n.id, cu.Short(a), cu.Short(b), seq(rng), err, seq(path))
			}
			r2, err := n.bt.Range(a, b)
			if err != nil || !sameSeq(r2, path) {
				k.Violate("C15", "range", "range-differs", "node %d: Range(%s,%s)=%v,%v reference %v", n.id, cu.Short(a), cu.Short(b), seq(r2), err, seq(path))
			}
		} else if err == nil && ref.Blocks[a].Number > ref.Blocks[b].Number {
			k.Violate("C15", "range", "range-start-above-end-answered", "node %d: RangeInMemory(%s,%s) answered %v though start is higher than end", n.id, cu.Short(a), cu.Short(b), seq(rng))
		} else if err == nil && !isChain(ref, rng) {
			// start not an ancestor of end: whatever is returned must at least not pretend a parent-linked path from a to b
			if len(rng) > 0 && rng[0] == a && rng[len(rng)-1] == b {
				k.Violate("C15", "range", "range-between-unrelated-blocks", "node %d: RangeInMemory(%s,%s) returned %v although %s is not an ancestor of %s", n.id, cu.Short(a), cu.Short(b), seq(rng), cu.Short(a), cu.Short(b))
			}
		}
	}
	single := func(a common.Hash) {
		d, err := n.bt.GetAllDescendants(a)
		if err != nil || !cu.SameSet(d, ref.Descendants(a)) {
			k.Violate("C15", "descendants", "descendants-differ", "node %d: GetAllDescendants(%s)=%v,%v reference %v", n.id, cu.Short(a), shorts(d), err, shorts(ref.Descendants(a)))
		}
		at, err := n.bt.GetArrivalTime(a)
		if err != nil || (a != ref.Root && !at.Equal(ref.Blocks[a].Arrival)) {
			k.Violate("C15", "arrival", "arrival-differs", "node %d: GetArrivalTime(%s)=%v,%v", n.id, cu.Short(a), at, err)
		}
	}
	if pairs < 0 {
		for _, a := range all {
			single(a)
			for _, b := range all {
				pair(a, b)
			}
		}
	} else {
		for i := 0; i < pairs; i++ {
			a := all[k.Choose(len(all), "q-a")]
			b := all[k.Choose(len(all), "q-b")]
			pair(a, b)
			single(a)
		}
	}
	// unknown hashes
	unk := common.Hash{0xee, 0xee}
	if _, err := n.bt.IsDescendantOf(ref.Root, unk); err == nil {
		k.Violate("C15", "unknown-hash", "unknown-hash-answered", "IsDescendantOf(root, unknown) returned no error")
	}
	if _, err := n.bt.GetAllDescendants(unk); err == nil {
		k.Violate("C15", "unknown-hash", "unknown-hash-answered", "GetAllDescendants(unknown) returned no error")
	}
}

func isChain(ref *cu.RefTree, hs []common.Hash) bool {
	for i := 1; i < len(hs); i++ {
		b, ok := ref.Blocks[hs[i]]
		if !ok || b.Parent != hs[i-1] {
			return false
		}
	}
	return true
}

func sameSeq(a, b []common.Hash) bool {
	if len(a) != len(b) {
		return false
	}
	for i := range a {
		if a[i] != b[i] {
			return false
		}
	}
	return true
}

func seq(hs []common.Hash) []string {
	out := make([]string, len(hs))
	for i, h := range hs {
		out[i] = cu.Short(h)
	}
	return out
}
