package chain

import (
	"bytes"
	"fmt"
	"testing/synctest"

	"github.com/ChainSafe/gossamer/dot/digest"
	"github.com/ChainSafe/gossamer/dot/state"
	"github.com/ChainSafe/gossamer/dot/types"
	"github.com/ChainSafe/gossamer/lib/common"
	cu "github.com/ChainSafe/gossamer/verifsim/chainutil"
	"github.com/ChainSafe/gossamer/verifsim/kernel"
	"github.com/ChainSafe/gossamer/verifsim/simdisk"
)

// C23: authority-set changes are applied as Substrate applies them.

type aBlock struct {
	rb     *cu.RefBlock
	parent *aBlock
	sched  *aChange // scheduled change announced by this block
	forced *aChange // forced change announced by this block
}

type aChange struct {
	at      *aBlock
	delay   uint
	auths   []types.GrandpaAuthoritiesRaw
	applied bool
	dead    bool
	blocked bool
	bestFin uint32
}

func (c *aChange) effective() uint { return c.at.rb.Number + c.delay }

type aModel struct {
	setID    uint64
	auths    map[uint64][]types.GrandpaAuthoritiesRaw
	changeAt map[uint64]uint // effective number at which set id became current
	sched    []*aChange
	forced   []*aChange
	anyForce bool
	// loose: a finalisation went past the announcing block of a pending forced change. What that does
	// to the pending change is not determined by the statement, so from then on only the invariants
	// that hold under every reading are checked (checkAuthSetLoose)
	loose      bool
	ignoredIDs map[uint64]bool // authority ids of scheduled changes announced together with a forced change
}

func anc(a, b *aBlock) bool { // a is b or an ancestor of b
	for x := b; x != nil; x = x.parent {
		if x == a {
			return true
		}
	}
	return false
}

func runAuthSet(k *kernel.K) {
	disk := simdisk.NewDisk()
	db := disk.Open()
	gh := types.NewHeader(common.Hash{}, common.Hash{5}, common.Hash{}, 0, types.NewDigest())
	bs, err := state.NewBlockStateFromGenesis(db, state.NewTries(), gh, noTelemetry{})
	if err != nil {
		panic(err)
	}
	g0 := authSet(1, 2, 3)
	gv, _ := types.NewGrandpaVotersFromAuthoritiesRaw(g0)
	gs, err := state.NewGrandpaStateFromGenesis(db, bs, gv, noTelemetry{})
	if err != nil {
		panic(err)
	}
	es, err := state.NewEpochStateFromGenesis(db, bs, babeCfg)
	if err != nil {
		panic(err)
	}
	dh := digest.NewBlockImportHandler(es, gs)
	m := &aModel{auths: map[uint64][]types.GrandpaAuthoritiesRaw{0: g0}, changeAt: map[uint64]uint{0: 0}}
	g := &aBlock{rb: &cu.RefBlock{Hash: gh.Hash(), Number: 0, Header: gh}}
	live := []*aBlock{g}
	fin := g
	salt := byte(0)
	nextAuth := byte(20)
	var refusedAuths []uint64   // first authority id of forced changes that had to be refused
	var pendingNotify []*aBlock // finalised blocks whose ApplyScheduledChanges step has not run yet
	synctest.Wait()

	notify := func() {
		for _, t := range pendingNotify {
			// the digest handler's finalisation step
			err := gs.ApplyScheduledChanges(t.rb.Header)
			// model: the earliest pending, unapplied change on t's chain whose effective number is reached
			var pick *aChange
			for _, c := range m.sched {
				if c.applied || c.dead || !anc(c.at, t) || c.effective() > t.rb.Number {
					continue
				}
				if pick == nil || c.effective() < pick.effective() {
					pick = c
				}
			}
			for _, c := range m.sched {
				if !c.applied && !anc(c.at, t) && !anc(t, c.at) {
					c.dead = true // announced on an abandoned fork
				}
			}
			for _, c := range m.forced {
				if !c.applied && !anc(c.at, t) && !anc(t, c.at) {
					c.dead = true
				}
			}
			if pick != nil {
				pick.applied = true
				m.setID++
				m.auths[m.setID] = pick.auths
				m.changeAt[m.setID] = pick.effective()
				k.Probe("scheduled-change-applied")
				k.Nontriv = true
			}
			k.Event("finality-step", "%s #%d applied=%v err=%v", cu.Short(t.rb.Hash), t.rb.Number, pick != nil, err != nil)
		}
		pendingNotify = nil
	}

	// swarm knob: in a fifth of the runs finality may also move past the announcing block of a pending
	// forced change; such a run is checked against the loose invariants only from that point on
	freeFinality := k.Bool(1, 5, "knob-free-finality")
	steps := k.Range(10, 50, "steps")
	for st := 0; st < steps; st++ {
		switch a := k.Choose(10, "action"); {
		case a <= 6: // produce + import
			p := live[k.Choose(len(live), "parent")]
			if k.Bool(2, 3, "parent-recent") {
				p = live[len(live)-1]
			}
			salt++
			b := &aBlock{parent: p}
			num := p.rb.Number + 1
			dg := cu.BabeDigest(k.Bool(1, 2, "primary"), 0, uint64(2000+int(salt)))
			what := ""
			secondForced := false
			// what is still pending on this chain
			var lastSchedEff uint
			hasForcedPending := false
			for _, c := range m.sched {
				if !c.dead && anc(c.at, p) && c.effective() > lastSchedEff {
					lastSchedEff = c.effective()
				}
			}
			clearlyPending := false // a forced change on this chain that is pending beyond doubt: not yet due, never blocked
			for _, c := range m.forced {
				if !c.dead && !c.applied && anc(c.at, p) {
					hasForcedPending = true
					if !c.blocked && c.effective() > num {
						clearlyPending = true
					}
				}
			}
			switch c := k.Choose(8, "change"); {
			case (c == 5 || c == 6) && num > lastSchedEff && !hasForcedPending:
				nextAuth += 3
				b.sched = &aChange{at: b, delay: uint(k.Choose(4, "delay")), auths: authSet(nextAuth, nextAuth+1, nextAuth+2)}
				// other GRANDPA items of the same header (signals the authority-set code does not act on)
				// may sit before or after the change: every item is handed on exactly once
				noise := func(where string) {
					for i := k.Choose(3, "other-items-"+where); i > 0; i-- {
						switch k.Choose(3, "other-item") {
						case 0:
							dg.Add(grandpaDigest(types.GrandpaOnDisabled{ID: uint64(k.Choose(3, "disabled-id"))}))
						case 1:
							dg.Add(grandpaDigest(types.GrandpaPause{Delay: uint32(k.Choose(3, "pause-delay"))}))
						default:
							dg.Add(grandpaDigest(types.GrandpaResume{Delay: uint32(k.Choose(3, "resume-delay"))}))
						}
						what += " +signal-" + where
						k.Probe("other-grandpa-item-" + where + "-a-scheduled-change")
					}
				}
				if k.Bool(1, 3, "other-items-in-header") {
					noise("before")
					dg.Add(grandpaDigest(types.GrandpaScheduledChange{Auths: b.sched.auths, Delay: uint32(b.sched.delay)}))
					noise("after")
				} else {
					dg.Add(grandpaDigest(types.GrandpaScheduledChange{Auths: b.sched.auths, Delay: uint32(b.sched.delay)}))
				}
				what = fmt.Sprintf(" +scheduled(delay %d)", b.sched.delay) + what
			case c == 4 && clearlyPending && !m.loose && k.Bool(1, 2, "second-forced-change-on-this-fork"):
				// Substrate refuses a block that announces a forced change while another one is still pending
				// on the same fork (MultiplePendingForcedAuthoritySetChanges): the node must refuse the digest
				// and nothing of it may ever take effect
				nextAuth += 3
				refusedAuths = append(refusedAuths, uint64(nextAuth))
				dg.Add(grandpaDigest(types.GrandpaForcedChange{BestFinalizedBlock: uint32(fin.rb.Number), Auths: authSet(nextAuth, nextAuth+1), Delay: uint32(k.Choose(3, "delay"))}))
				secondForced = true
				what = " +second-forced(must be refused)"
			case c == 7 && !hasForcedPending && num > lastSchedEff:
				nextAuth += 3
				fdelay := uint(k.Choose(3, "delay"))
				if k.Bool(1, 3, "long-forced-delay") {
					fdelay += uint(3 + k.Choose(8, "long-delay")) // stays pending while the forks around it grow
				}
				b.forced = &aChange{at: b, delay: fdelay, auths: authSet(nextAuth, nextAuth+1), bestFin: uint32(fin.rb.Number)}
				forcedItem := grandpaDigest(types.GrandpaForcedChange{BestFinalizedBlock: b.forced.bestFin, Auths: b.forced.auths, Delay: uint32(b.forced.delay)})
				what = fmt.Sprintf(" +forced(delay %d)", b.forced.delay)
				if k.Bool(1, 3, "also-scheduled-digest") {
					// the same header also announces a scheduled change: Substrate looks for the forced change
					// first and then ignores the block's scheduled change, wherever the two items sit
					ignored := grandpaDigest(types.GrandpaScheduledChange{Auths: authSet(nextAuth+40, nextAuth+41, nextAuth+42), Delay: uint32(k.Choose(3, "ignored-delay"))})
					if m.ignoredIDs == nil {
						m.ignoredIDs = map[uint64]bool{}
					}
					m.ignoredIDs[uint64(nextAuth+40)] = true
					if k.Bool(1, 2, "scheduled-item-first") {
						dg.Add(ignored)
						dg.Add(forcedItem)
						what += " +scheduled-item-before-it(ignored)"
					} else {
						dg.Add(forcedItem)
						dg.Add(ignored)
						what += " +scheduled-item-after-it(ignored)"
					}
					k.Probe("forced-and-scheduled-in-one-header")
				} else {
					dg.Add(forcedItem)
				}
			}
			h := types.NewHeader(p.rb.Hash, common.Hash{salt}, common.Hash{}, num, dg)
			b.rb = &cu.RefBlock{Hash: h.Hash(), Parent: p.rb.Hash, Number: num, Header: h}
			if err := bs.AddBlock(&types.Block{Header: *h, Body: *types.NewBody([]types.Extrinsic{})}); err != nil {
				k.Violate("C15", "add", "valid-add-refused", "%v", err)
				k.Stop()
			}
			live = append(live, b)
			if err := dh.HandleDigests(h); err != nil {
				k.Event("digest-error", "%v", err)
				if secondForced {
					k.Probe("second-forced-change-refused")
				}
			} else if secondForced {
				k.Violate("C23", "forced-change", "second-forced-change-on-a-fork-accepted", "block %s announces a forced change while another forced change is pending on the same fork; the digest was accepted", cu.Short(h.Hash()))
			}
			if b.sched != nil {
				m.sched = append(m.sched, b.sched)
			}
			if b.forced != nil {
				m.forced = append(m.forced, b.forced)
			}
			ferr := gs.ApplyForcedChanges(h)
			// model: a pending forced change on this chain whose effective block is this block
			for _, c := range m.forced {
				if c.applied || c.dead || !anc(c.at, b) || c.effective() != num {
					continue
				}
				blocked := false
				for _, s := range m.sched {
					if !s.applied && !s.dead && anc(s.at, c.at) && s.effective() <= uint(c.bestFin) {
						blocked = true
					}
				}
				if blocked {
					k.Probe("forced-change-blocked-by-pending-scheduled")
					c.blocked = true // Substrate fails the import of this block; what happens to the change afterwards is not determined
					continue
				}
				c.applied = true
				m.setID++
				m.auths[m.setID] = c.auths
				m.changeAt[m.setID] = c.effective()
				m.anyForce = true
				for _, s := range m.sched {
					if !s.applied {
						s.dead = true
					}
				}
				for _, f := range m.forced {
					if !f.applied {
						f.dead = true
					}
				}
				k.Probe("forced-change-applied")
				k.Nontriv = true
			}
			k.Event("import", "%s parent=%s num=%d%s forcedErr=%v", cu.Short(b.rb.Hash), cu.Short(p.rb.Hash), num, what, ferr != nil)
		case a <= 8: // finalise, respecting the cap an honest voter respects
			notify()
			var cand []*aBlock
			for _, b := range live {
				if b != fin && anc(fin, b) {
					cand = append(cand, b)
				}
			}
			if len(cand) == 0 {
				continue
			}
			t := cand[k.Choose(len(cand), "fin-target")]
			// never beyond the effective block of a still pending scheduled change on that fork
			for {
				var cap *aChange
				for _, c := range m.sched {
					if !c.applied && !c.dead && anc(c.at, t) && c.effective() < t.rb.Number && (cap == nil || c.effective() < cap.effective()) {
						cap = c
					}
				}
				if cap == nil {
					break
				}
				for t.rb.Number > cap.effective() {
					t = t.parent
				}
			}
			// a forced change is announced because finality is stalled: while it is pending nothing at or
			// after its announcing block gets finalised (what a finalisation past it does to the pending
			// forced change is not determined by the statement)
			for _, c := range m.forced {
				if !c.applied && !c.dead && anc(c.at, t) {
					if freeFinality {
						m.loose = true
						k.Probe("finalised-past-a-pending-forced-change")
						continue
					}
					t = c.at.parent
				}
			}
			if t == fin || !anc(fin, t) {
				continue
			}
			finSet := m.setID
			if m.loose {
				finSet, _ = gs.GetCurrentSetID() // the model no longer knows the set id
			}
			if err := bs.SetFinalisedHash(t.rb.Hash, uint64(st+1), finSet); err != nil {
				k.Violate("C17", "finalise", "valid-finalisation-refused", "%v", err)
				k.Stop()
			}
			fin = t
			var keep []*aBlock
			for _, b := range live {
				if anc(t, b) {
					keep = append(keep, b)
				}
			}
			live = keep
			pendingNotify = append(pendingNotify, t)
			k.Event("finalise", "%s #%d", cu.Short(t.rb.Hash), t.rb.Number)
			// the finalisation handler is asynchronous: its step may run now or after later imports
			if !k.Bool(1, 3, "delay-finality-step") {
				notify()
			}
		default:
			notify()
		}
		synctest.Wait()
		if len(pendingNotify) == 0 {
			checkAuthSet(k, gs, m)
		}
	}
	notify()
	checkAuthSet(k, gs, m)
}

// checkAuthSetLoose: what holds whatever a finalisation past a pending forced change does - every set
// up to the current one has authorities, and none of them is the list of a scheduled change that was
// announced in the same header as a forced change (Substrate ignores that one, wherever it is listed).
func checkAuthSetLoose(k *kernel.K, gs *state.GrandpaState, m *aModel) {
	cur, err := gs.GetCurrentSetID()
	if err != nil {
		k.Violate("C23", "current-set-id", "current-set-id-unreadable", "%v", err)
	}
	for id := uint64(0); id <= cur; id++ {
		got, err := gs.GetAuthorities(id)
		if err != nil {
			k.Violate("C23", "authorities", "authorities-missing", "authorities of set %d missing: %v", id, err)
		}
		if len(got) > 0 && m.ignoredIDs[got[0].ID] {
			k.Violate("C23", "authorities", "scheduled-change-of-a-forced-change-block-applied", "set %d holds the authorities of a scheduled change that was announced in the same header as a forced change (first authority id %d)", id, got[0].ID)
		}
	}
}

func checkAuthSet(k *kernel.K, gs *state.GrandpaState, m *aModel) {
	if m.loose {
		checkAuthSetLoose(k, gs, m)
		return
	}
	cur, err := gs.GetCurrentSetID()
	if err != nil || cur != m.setID {
		k.Violate("C23", "current-set-id", "current-set-id-differs", "current set id is %d (%v), Substrate's rules give %d", cur, err, m.setID)
	}
	for id := uint64(0); id <= m.setID; id++ {
		got, err := gs.GetAuthorities(id)
		if err != nil {
			k.Violate("C23", "authorities", "authorities-missing", "authorities of set %d missing: %v", id, err)
		}
		want := m.auths[id]
		same := len(got) == len(want)
		for i := 0; same && i < len(got); i++ {
			kb := got[i].Key.Encode()
			same = bytes.Equal(kb, want[i].Key[:]) && got[i].ID == want[i].ID
		}
		if !same {
			k.Violate("C23", "authorities", "authorities-differ", "authorities of set %d: node has %d entries, expected %d (first expected id %d)", id, len(got), len(want), want[0].ID)
		}
	}
	if m.anyForce {
		return // a forced change rewrites the activation block of the running set; the per-number mapping is only asserted for standard changes
	}
	maxN := uint(0)
	for _, n := range m.changeAt {
		if n > maxN {
			maxN = n
		}
	}
	for n := uint(0); n <= maxN+2; n++ {
		want := uint64(0)
		for id := uint64(1); id <= m.setID; id++ {
			if m.changeAt[id] < n {
				want = id
			}
		}
		got, err := gs.GetSetIDByBlockNumber(n)
		if err != nil || got != want {
			k.Violate("C23", "set-id-by-number", "set-id-by-block-number-differs", "set id for block number %d is %d (%v), expected %d (changes effective at %v)", n, got, err, want, m.changeAt)
		}
	}
	k.Probe("authority-state-checked")
}
