#!/bin/bash
# prebuild.sh <builddir> <overlay_extra_json_path>
# Generates worlds/chain/gen/blocktree: a copy of the CURRENT /repo/lib/blocktree (or of the replacement
# files named in $VERIF_EXTRA_OVERLAY) in which sync.RWMutex / sync.Mutex are simsync's, so that the
# concurrent C15 runs decide at every lock and unlock which caller goes on. Nothing else is changed
# (sync.Map stays: one task runs at a time). Added to the build through the go -overlay file; nothing
# is written under /repo or into the harness source tree.
set -eu
BUILD="$1"
OUT="$2"
SIM=$(cd "$(dirname "$(readlink -f "$0")")/../.." && pwd)
W=$SIM/worlds/chain
GEN="$BUILD/chain_gen/blocktree"
TMP="$BUILD/chain_gen.tmp.$$"
rm -rf "$TMP"; mkdir -p "$TMP" "$GEN"
trap 'rm -rf "$TMP"' EXIT
python3 - "$TMP" "$GEN" "$W" "$OUT" <<'PY'
import json, os, re, sys, glob
tmp, gen, w, out = sys.argv[1:5]
repl = {}
eo = os.environ.get("VERIF_EXTRA_OVERLAY")
if eo:
    repl = json.load(open(eo))
files = sorted(f for f in glob.glob("/repo/lib/blocktree/*.go") if not f.endswith("_test.go"))
if not files:
    sys.exit("prebuild chain: no blocktree sources")
m = {}
for f in files:
    src = open(repl.get(f, f)).read()
    if "//go:build" in src.split("package")[0] and "integration" in src.split("package")[0]:
        continue
    n = src.count("sync.RWMutex") + src.count("sync.Mutex")
    src = src.replace("sync.RWMutex", "simsync.RWMutex").replace("sync.Mutex", "simsync.Mutex")
    if n:
        imp = '\t"github.com/ChainSafe/gossamer/verifsim/simsync"\n'
        if not re.search(r"\bsync\.", src.replace("simsync.", "")):
            src = re.sub(r'\n\t"sync"\n', "\n" + imp, src, count=1)
        else:
            src = re.sub(r'\n\t"sync"\n', '\n\t"sync"\n' + imp, src, count=1)
    # the copy lives next to the real package: its metrics must not register under the same name
    src = re.sub(r'Namespace:(\s*)"', r'Namespace:\1"verifsimcopy_', src)
    name = os.path.basename(f)
    open(os.path.join(tmp, name), "w").write(src)
    m[os.path.join(w, "gen/blocktree", name)] = os.path.join(gen, name)
for name in os.listdir(tmp):
    os.replace(os.path.join(tmp, name), os.path.join(gen, name))
t = out + ".tmp.%d" % os.getpid()
json.dump(m, open(t, "w"), indent=1)
os.replace(t, out)
print("prebuild chain: ok", len(m), "files")
PY
