package chain

import (
	"bytes"
	"encoding/json"
	"sort"
	"testing/synctest"
	"time"

	"github.com/ChainSafe/gossamer/dot/state"
	"github.com/ChainSafe/gossamer/dot/types"
	"github.com/ChainSafe/gossamer/lib/common"
	"github.com/ChainSafe/gossamer/lib/runtime/storage"
	"github.com/ChainSafe/gossamer/pkg/trie"
	"github.com/ChainSafe/gossamer/pkg/trie/inmemory"
	cu "github.com/ChainSafe/gossamer/verifsim/chainutil"
	"github.com/ChainSafe/gossamer/verifsim/kernel"
	"github.com/ChainSafe/gossamer/verifsim/simdisk"
	su "github.com/ChainSafe/gossamer/verifsim/storeutil"
)

type noTelemetry struct{}

func (noTelemetry) SendMessage(json.Marshaler) {}

// fBlock is a block of the simulated source with its full state (reference).
type fBlock struct {
	rb     *cu.RefBlock
	state  map[string][]byte // full state content after the block
	puts   [][2][]byte       // changes relative to the parent
	parent *fBlock
	depth  int
}

type fNode struct {
	k     *kernel.K
	disk  *simdisk.Disk
	tries *state.Tries
	bs    *state.BlockState
	ss    *state.InmemoryStorageState
	ref   *cu.RefTree
	inbox []*fBlock
	all   map[common.Hash]*fBlock // every block the source ever produced
	fin   []common.Hash           // finalised chain (genesis .. head), by number
	round uint64
}

func sortedHashes(m map[common.Hash]bool) []common.Hash {
	var out []common.Hash
	for h := range m {
		out = append(out, h)
	}
	sort.Slice(out, func(i, j int) bool { return bytes.Compare(out[i][:], out[j][:]) < 0 })
	return out
}

func (n *fNode) open(genesis *fBlock, fresh bool) {
	db := n.disk.Open()
	n.tries = state.NewTries()
	n.tries.SetEmptyTrie()
	var err error
	if fresh {
		n.bs, err = state.NewBlockStateFromGenesis(db, n.tries, genesis.rb.Header, noTelemetry{})
	} else {
		n.bs, err = state.NewBlockState(db, n.tries, noTelemetry{})
	}
	if err != nil {
		n.k.Violate("C17", "restart", "block-state-reload-failed", "opening block state (fresh=%v) failed: %v", fresh, err)
		n.k.Stop()
	}
	n.ss, err = state.NewStorageState(db, n.bs, n.tries)
	if err != nil {
		panic(err)
	}
	if fresh {
		tr := inmemory.NewEmptyTrie()
		for k, v := range genesis.state {
			tr.Put([]byte(k), v)
		}
		ts := storage.NewTrieState(tr)
		if err := n.ss.StoreTrie(ts, nil); err != nil {
			panic(err)
		}
	}
}

func runFinality(k *kernel.K) {
	steps := k.Range(10, 80, "steps")
	maxDepth := k.Range(3, 10, "maxdepth")
	// genesis with a small state
	gstate := map[string][]byte{"g": {1}}
	groot := su.SpecRoot(gstate, su.V0)
	gh := types.NewHeader(common.Hash{}, common.Hash(groot), common.Hash{}, 0, types.NewDigest())
	genesis := &fBlock{rb: &cu.RefBlock{Hash: gh.Hash(), Number: 0, Header: gh}, state: gstate}
	n := &fNode{k: k, disk: simdisk.NewDisk(), all: map[common.Hash]*fBlock{genesis.rb.Hash: genesis}}
	n.open(genesis, true)
	n.ref = cu.NewRefTree(&cu.RefBlock{Hash: genesis.rb.Hash, Number: 0, Header: gh})
	n.fin = []common.Hash{genesis.rb.Hash}
	pool := []*fBlock{genesis}
	salt := 0
	synctest.Wait()
	for s := 0; s < steps; s++ {
		if k.Bool(1, 3, "clock-advance") {
			time.Sleep(time.Duration(1+k.Choose(5, "clock-ms")) * time.Millisecond)
		}
		switch a := k.Choose(10, "action"); {
		case a <= 3: // the source produces a block
			var p *fBlock
			if k.Bool(1, 2, "parent-recent") {
				lo := len(pool) - 4
				if lo < 0 {
					lo = 0
				}
				p = pool[lo+k.Choose(len(pool)-lo, "parent")]
			} else {
				p = pool[k.Choose(len(pool), "parent")]
			}
			if p.depth >= maxDepth {
				continue
			}
			salt++
			st := map[string][]byte{}
			for kk, v := range p.state {
				st[kk] = v
			}
			var puts [][2][]byte
			// 0 changes => the state root coincides with the parent's; same key/value as a sibling => coincides with the sibling's
			for i := k.Choose(3, "nputs"); i > 0; i-- {
				key := []byte{byte('a' + k.Choose(4, "put-key"))}
				val := []byte{byte(k.Choose(3, "put-val")), byte(p.depth)}
				if k.Bool(1, 4, "put-unique") {
					val = append(val, byte(salt))
				}
				st[string(key)] = val
				puts = append(puts, [2][]byte{key, val})
			}
			root := su.SpecRoot(st, su.V0)
			num := p.rb.Number + 1
			h := types.NewHeader(p.rb.Hash, common.Hash(root), common.Hash{byte(salt), byte(salt >> 8)}, num, cu.BabeDigest(k.Bool(1, 2, "primary"), 0, uint64(1000+salt)))
			fb := &fBlock{rb: &cu.RefBlock{Hash: h.Hash(), Parent: p.rb.Hash, Number: num, Header: h}, state: st, puts: puts, parent: p, depth: p.depth + 1}
			pool = append(pool, fb)
			n.all[fb.rb.Hash] = fb
			n.inbox = append(n.inbox, fb)
			if k.Bool(1, 8, "dup") {
				n.inbox = append(n.inbox, fb)
				k.Fault("duplicate")
			}
			k.Event("produce", "%s parent=%s num=%d root=%x", cu.Short(fb.rb.Hash), cu.Short(p.rb.Hash), num, root[:3])
		case a <= 6: // import
			if len(n.inbox) == 0 {
				continue
			}
			i := k.Choose(len(n.inbox), "inbox-index")
			if i != 0 {
				k.Fault("reorder")
			}
			fb := n.inbox[i]
			n.inbox = append(n.inbox[:i], n.inbox[i+1:]...)
			n.importBlock(fb)
			synctest.Wait()
			n.checkCommon()
		case a <= 8: // finalisation request
			var target common.Hash
			kind := k.Choose(8, "fin-kind")
			live := n.ref.All()
			switch {
			case kind <= 3:
				target = live[k.Choose(len(live), "fin-live")]
			case kind == 4:
				target = n.ref.Root
			case kind == 5 && len(n.fin) > 1:
				target = n.fin[k.Choose(len(n.fin)-1, "fin-stale")]
			case kind == 6:
				target = pool[k.Choose(len(pool), "fin-any")].rb.Hash
			default:
				target = common.Hash{0xfe, byte(s)}
			}
			n.finalise(target)
			synctest.Wait()
			n.checkCommon()
		default: // crash + restart: only the simulated disk survives
			if !k.Bool(1, 5, "restart-really") {
				continue
			}
			k.Fault("restart")
			k.Event("restart", "finalised=#%d", len(n.fin)-1)
			n.open(genesis, false)
			head := n.all[n.fin[len(n.fin)-1]]
			n.ref = cu.NewRefTree(&cu.RefBlock{Hash: head.rb.Hash, Number: head.rb.Number, Header: head.rb.Header})
			// the source re-announces everything it has
			n.inbox = append([]*fBlock{}, pool[1:]...)
			synctest.Wait()
			n.checkCommon()
			n.checkPersistent(n.bs)
		}
	}
}

func (n *fNode) importBlock(fb *fBlock) {
	k := n.k
	parentKnown := n.ref.Has(fb.rb.Parent)
	known := n.ref.Has(fb.rb.Hash)
	if !parentKnown || known {
		// the importer only hands over blocks whose parent is known; exercise the refusal
		err := n.bs.AddBlock(&types.Block{Header: *fb.rb.Header, Body: *types.NewBody([]types.Extrinsic{})})
		k.Event("import-refused", "%s known=%v parentKnown=%v", cu.Short(fb.rb.Hash), known, parentKnown)
		if err == nil {
			k.Violate("C15", "add", "invalid-add-accepted", "AddBlock of %s (already known=%v, parent known=%v) succeeded", cu.Short(fb.rb.Hash), known, parentKnown)
			k.Stop()
		}
		return
	}
	proot := fb.parent.rb.Header.StateRoot
	ts, err := n.ss.TrieState(&proot)
	if err != nil {
		k.Violate("C17", "import", "parent-state-not-available", "TrieState(parent state of %s) failed: %v", cu.Short(fb.rb.Hash), err)
		k.Stop()
	}
	ts.SetVersion(trie.V0)
	ts.StartTransaction() // block execution runs inside a storage transaction that Root() commits
	for _, p := range fb.puts {
		if err := ts.Put(p[0], p[1]); err != nil {
			panic(err)
		}
	}
	root, err := ts.Root()
	if err != nil || root != fb.rb.Header.StateRoot {
		k.Violate("C01", "root", "block-state-root-differs-from-spec", "state root after executing block %s is %s, spec root %s (%v)", cu.Short(fb.rb.Hash), root, fb.rb.Header.StateRoot, err)
		k.Stop()
	}
	if err := n.ss.StoreTrie(ts, fb.rb.Header); err != nil {
		panic(err)
	}
	if err := n.bs.AddBlock(&types.Block{Header: *fb.rb.Header, Body: *types.NewBody([]types.Extrinsic{})}); err != nil {
		k.Violate("C15", "add", "valid-add-refused", "AddBlock(%s) with known parent failed: %v", cu.Short(fb.rb.Hash), err)
		k.Stop()
	}
	n.ref.Add(&cu.RefBlock{Hash: fb.rb.Hash, Parent: fb.rb.Parent, Number: fb.rb.Number, Header: fb.rb.Header})
	k.Event("import", "%s num=%d", cu.Short(fb.rb.Hash), fb.rb.Number)
}

type snapshot struct {
	head   common.Hash
	blocks []common.Hash
	unfin  []common.Hash
	roots  []common.Hash
}

func (n *fNode) snap() snapshot {
	s := snapshot{}
	s.head, _ = n.bs.GetHighestFinalisedHash()
	s.blocks = n.bs.VerifBlockTree().GetAllBlocks()
	cu.SortHashes(s.blocks)
	for h := range n.all {
		if n.bs.VerifUnfinalisedHas(h) {
			s.unfin = append(s.unfin, h)
		}
	}
	cu.SortHashes(s.unfin)
	s.roots = n.tries.VerifRoots()
	cu.SortHashes(s.roots)
	return s
}

func (n *fNode) finalise(target common.Hash) {
	k := n.k
	before := n.snap()
	valid := n.ref.Has(target)
	n.round++
	// a concurrent reader (RPC, sync, the network handlers read headers without the block state's
	// lock) gets its turn between the disk writes of the finalisation: at every write the tape may
	// let it look up any block the source ever produced. What it sees is not judged here (blocks are
	// in flux); what must hold is that afterwards nothing of an abandoned fork is retrievable.
	readers := k.Bool(1, 2, "reader-during-finalisation")
	if readers {
		pool := sortedHashes(func() map[common.Hash]bool {
			m := map[common.Hash]bool{}
			for h := range n.all {
				m[h] = true
			}
			return m
		}())
		prev := n.disk.Observer
		n.disk.Observer = func(ix int) {
			if prev != nil {
				prev(ix)
			}
			if len(pool) == 0 || !k.Bool(1, 2, "reader-at-this-write") {
				return
			}
			h := pool[k.Choose(len(pool), "reader-block")]
			_, _ = n.bs.HasHeader(h)
			_, _ = n.bs.GetHeader(h)
			k.Probe("read-between-writes-of-a-finalisation")
		}
		defer func() { n.disk.Observer = prev }()
	}
	err := n.bs.SetFinalisedHash(target, n.round, 0)
	if readers {
		n.disk.Observer = nil
	}
	after := n.snap()
	if err != nil {
		k.Event("finalise-refused", "%s valid=%v", cu.Short(target), valid)
		if valid {
			k.Violate("C17", "finalise", "valid-finalisation-refused", "finalising %s, a known descendant of the finalised head, failed: %v", cu.Short(target), err)
		}
		// a refused attempt changes nothing
		if before.head != after.head || !cu.SameSet(before.blocks, after.blocks) || !cu.SameSet(before.unfin, after.unfin) || !cu.SameSet(before.roots, after.roots) {
			k.Violate("C17", "refused-changes-nothing", "refused-finalisation-changed-state", "refused finalisation of %s changed state: head %s->%s, tree %d->%d blocks, unfinalised %d->%d, tries %d->%d",
				cu.Short(target), cu.Short(before.head), cu.Short(after.head), len(before.blocks), len(after.blocks), len(before.unfin), len(after.unfin), len(before.roots), len(after.roots))
		}
		return
	}
	if !valid {
		what := "unknown block"
		if fb := n.all[target]; fb != nil {
			what = "known block that does not descend from the finalised head"
			for _, f := range n.fin {
				if f == target {
					what = "stale ancestor of the finalised head"
				}
			}
		}
		class := "invalid-finalisation-accepted"
		if what == "stale ancestor of the finalised head" {
			class = "stale-ancestor-finalisation-accepted"
		}
		k.Violate("C17", "finalise", class, "finalising %s (%s) succeeded; head %s -> %s", cu.Short(target), what, cu.Short(before.head), cu.Short(after.head))
	}
	if target == n.ref.Root {
		k.Event("finalise-same", "%s", cu.Short(target))
	} else {
		path := n.ref.PathFrom(n.ref.Root, target)
		n.fin = append(n.fin, path[1:]...)
		pruned := n.ref.Finalise(target)
		k.Event("finalise", "%s abandoned=%d", cu.Short(target), len(pruned))
		if len(pruned) > 0 {
			k.Nontriv = true
			k.Probe("finalised-with-abandoned-blocks")
		}
		if len(pruned) >= 2 {
			k.Probe("finalised-with->=2-abandoned")
		}
		// no abandoned block is retrievable any more / keeps its trie
		liveRoots := map[common.Hash]bool{trie.EmptyHash: true}
		for _, h := range n.ref.All() {
			liveRoots[n.all[h].rb.Header.StateRoot] = true
		}
		for _, h := range pruned {
			if n.bs.VerifUnfinalisedHas(h) {
				k.Violate("C17", "abandoned-discarded", "abandoned-block-still-unfinalised", "abandoned block %s (#%d) is still retrievable as an unfinalised block after finalising %s", cu.Short(h), n.all[h].rb.Number, cu.Short(target))
			}
			if hd, err := n.bs.GetHeader(h); err == nil && hd != nil {
				k.Violate("C17", "abandoned-discarded", "abandoned-block-header-retrievable", "header of abandoned block %s is still retrievable", cu.Short(h))
			}
			sr := n.all[h].rb.Header.StateRoot
			if !liveRoots[sr] && n.tries.VerifHas(sr) {
				k.Violate("C17", "abandoned-discarded", "abandoned-trie-still-cached", "state trie %x of abandoned block %s is still cached", sr[:4], cu.Short(h))
			}
		}
	}
	if after.head != target {
		k.Violate("C17", "finalise", "head-not-target", "after finalising %s the highest finalised hash is %s", cu.Short(target), cu.Short(after.head))
	}
	n.checkPersistent(nil)
}

// checkCommon: invariants after every event.
func (n *fNode) checkCommon() {
	k := n.k
	head, err := n.bs.GetHighestFinalisedHash()
	if err != nil || head != n.ref.Root {
		k.Violate("C17", "head", "finalised-head-differs", "highest finalised hash is %s (%v), reference %s", cu.Short(head), err, cu.Short(n.ref.Root))
	}
	got := n.bs.VerifBlockTree().GetAllBlocks()
	if !cu.SameSet(got, n.ref.All()) {
		k.Violate("C15", "block-set", "tree-blocks-differ", "tree holds %v, reference %v", shorts(got), shorts(n.ref.All()))
		k.Stop()
	}
	// every cached trie belongs to a live block (or is the empty trie)
	liveRoots := map[common.Hash]bool{trie.EmptyHash: true}
	for _, h := range n.ref.All() {
		liveRoots[n.all[h].rb.Header.StateRoot] = true
	}
	for _, r := range n.tries.VerifRoots() {
		if !liveRoots[r] {
			k.Violate("C17", "tries-bounded", "trie-of-no-live-block-cached", "cached trie %x belongs to no live block (live blocks: %d, cached tries: %d)", r[:4], len(n.ref.Blocks), n.tries.VerifLen())
		}
	}
	// unfinalised map == tree minus the finalised root
	for h := range n.all {
		want := n.ref.Has(h) && h != n.ref.Root
		if n.bs.VerifUnfinalisedHas(h) != want {
			k.Violate("C17", "unfinalised-map", "unfinalised-map-differs", "block %s: in unfinalised map = %v, expected %v", cu.Short(h), !want, want)
		}
	}
}

// checkPersistent: every finalised-chain block is resolvable by number from
// persistent storage (checked on a fresh BlockState over a copy of the disk).
func (n *fNode) checkPersistent(reopened *state.BlockState) {
	k := n.k
	bs := reopened
	if bs == nil {
		var err error
		bs, err = state.NewBlockState(n.disk.Clone().Open(), state.NewTries(), noTelemetry{})
		if err != nil {
			k.Violate("C17", "persistent", "block-state-reload-failed", "reloading the block state from disk failed: %v", err)
		}
	}
	head, err := bs.GetHighestFinalisedHash()
	if err != nil || head != n.fin[len(n.fin)-1] {
		k.Violate("C17", "persistent", "persisted-head-differs", "persisted finalised head is %s (%v), expected %s", cu.Short(head), err, cu.Short(n.fin[len(n.fin)-1]))
	}
	for num, h := range n.fin {
		got, err := bs.GetHashByNumber(uint(num))
		if err != nil || got != h {
			k.Violate("C17", "persistent", "finalised-block-not-found-by-number", "finalised block #%d: lookup by number from storage gives %s (%v), expected %s", num, cu.Short(got), err, cu.Short(h))
		}
		hd, err := bs.GetHeader(h)
		if err != nil || hd.Hash() != h {
			k.Violate("C17", "persistent", "finalised-header-not-stored", "header of finalised block #%d not readable from storage: %v", num, err)
		}
		if _, err := bs.GetBlockBody(h); err != nil {
			k.Violate("C17", "persistent", "finalised-body-not-stored", "body of finalised block #%d not readable from storage: %v", num, err)
		}
	}
}
