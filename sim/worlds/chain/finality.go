package chain

import "github.com/ChainSafe/gossamer/verifsim/kernel"

func runFinality(k *kernel.K) {}
