package proofdb

import (
	"bytes"
	"sort"

	"github.com/ChainSafe/gossamer/dot/rpc/modules"
	"github.com/ChainSafe/gossamer/dot/state"
	"github.com/ChainSafe/gossamer/lib/common"
	"github.com/ChainSafe/gossamer/pkg/scale"
	"github.com/ChainSafe/gossamer/pkg/trie"
	triedbmem "github.com/ChainSafe/gossamer/pkg/trie/db"
	"github.com/ChainSafe/gossamer/pkg/trie/inmemory"
	"github.com/ChainSafe/gossamer/pkg/trie/inmemory/proof"
	"github.com/ChainSafe/gossamer/verifsim/kernel"
	"github.com/ChainSafe/gossamer/verifsim/simdisk"
	su "github.com/ChainSafe/gossamer/verifsim/storeutil"
)

// ---- C05: read proofs between a prover node and a verifier -------------------

// pst is one stored state of the prover node.
type pst struct {
	id     int
	model  *su.RefMap
	ver    su.Version
	root   common.Hash
	parent int
}

type psim struct {
	k      *kernel.K
	g      *gen
	disk   *simdisk.Disk
	tries  *state.Tries
	ss     *state.InmemoryStorageState
	states []*pst
	pool   [][]byte // every byte string the prover's disk holds (node encodings and raw hashed values)

	// knobs for input classes that reach recorded / reported findings
	absentInRequest bool // read-proof requests may contain absent keys (Generate refuses the whole request)
	hashedComplete  bool // V1 values longer than 32 bytes are requested on the fault-free channel / claimed by hash
	emptyComplete   bool // keys with an empty value are requested on the fault-free channel
	emptyState      bool // read-proof requests may address a state without any key
	comb            bool // the first state gets a "comb": one long key and a sibling key diverging at every nibble of it (a path of 66-96 nested hashed branches)
	hashClaims      bool // false claims "value = Blake2b(real value)" for V1 values longer than 32 bytes
}

// coreAdapter lets the real RPC StateModule.GetReadProof run over the real
// storage state without a block state: the "block hash" is the state root.
type coreAdapter struct {
	modules.CoreAPI
	ss *state.InmemoryStorageState
}

func (a coreAdapter) GetReadProofAt(block common.Hash, keys [][]byte) (common.Hash, [][]byte, error) {
	p, err := a.ss.GenerateTrieProof(block, keys)
	return block, p, err
}

func (s *psim) viol(oracle, class, f string, a ...any) {
	if !s.k.Violate("C05", oracle, class, f, a...) {
		s.k.Stop()
	}
}

func hasLong(m *su.RefMap) bool {
	for _, v := range m.M {
		if len(v) > 32 {
			return true
		}
	}
	return false
}

func runProof(k *kernel.K) {
	quiet()
	s := &psim{k: k, g: &gen{k: k}, disk: simdisk.NewDisk()}
	s.absentInRequest = knob(k, 1, 5, "absent-keys-in-request")
	s.comb = k.Bool(1, 8, "knob-deep-comb")
	s.hashedComplete = knob(k, 3, 4, "hashed-values-on-clean-channel")
	s.emptyComplete = knob(k, 3, 4, "empty-values-on-clean-channel")
	s.emptyState = knob(k, 1, 3, "requests-to-the-empty-state")
	s.hashClaims = knob(k, 3, 4, "hash-of-hashed-value-claims")
	s.tries = state.NewTries()
	ss, err := state.NewStorageState(s.disk.Open(), nil, s.tries)
	if err != nil {
		panic(err)
	}
	s.ss = ss
	s.tries.SetEmptyTrie()
	s.states = []*pst{{id: 0, model: su.NewRefMap(), ver: su.Version(k.Choose(2, "genesis-version")), root: trie.EmptyHash, parent: -1}}
	n := k.Range(2, 5, "states")
	for i := 0; i < n; i++ {
		s.build()
	}
	s.harvest()
	reqs := k.Range(3, 9, "requests")
	for i := 0; i < reqs; i++ {
		s.request()
	}
}

// build: fork a stored state, apply put/overwrite/delete operations through the
// real TrieState, store it with the real StoreTrie.
func (s *psim) build() {
	k := s.k
	b := s.states[k.Choose(len(s.states), "fork-base")]
	root := b.root
	for _, o := range s.states {
		if o.root == b.root && o.ver != b.ver && root != trie.EmptyHash {
			// the tries cache holds ONE trie object per root, with the version of whoever
			// stored it first; a state of the other version with the same root (same
			// content, no long values) is reloaded from the disk instead
			s.tries.VerifDelete(root)
			break
		}
	}
	ts, err := s.ss.TrieState(&root)
	if err != nil {
		s.viol("build", "stored-state-not-loadable", "TrieState(%x) of stored state %d failed: %v", root[:4], b.id, err)
	}
	ver := b.ver
	if b.id == 0 {
		ver = su.Version(k.Choose(2, "version")) // a chain starts with either version
	} else if ver == su.V0 && !hasLong(b.model) && k.Bool(1, 3, "raise-version") {
		ver = su.V1 // without long values the V0 and V1 encodings coincide: no lazily migrated state arises
	}
	ts.SetVersion(tlayout(ver))
	tr := ts.Trie().(*inmemory.InMemoryTrie)
	m := b.model.Clone()
	if s.comb && b.id == 0 {
		// storage keys are not limited to 32 bytes: a path that crosses more branch nodes than a 32-byte key has nibbles
		long := make([]byte, k.Range(33, 48, "comb-key-len"))
		for i := range long {
			long[i] = byte(0x31 + 7*i)
		}
		put := func(key []byte, tag byte) {
			val := make([]byte, 40)
			for i := range val {
				val[i] = tag ^ byte(i)
			}
			val[0], val[1] = byte(len(key)), tag
			if err := tr.Put(key, val); err != nil {
				s.viol("build", "put-failed", "Put(%s) failed: %v", hx(key), err)
			}
			m.Put(key, val)
		}
		put(long, 0xfe)
		for nib := 0; nib < 2*len(long); nib++ {
			sib := cp(long[:nib/2+1])
			if nib%2 == 0 {
				sib[nib/2] ^= 0x80
			} else {
				sib[nib/2] ^= 0x08
			}
			put(sib, byte(nib))
		}
		k.Probe("deep-comb-state")
	}
	nops := k.Range(1, 14, "ops")
	for i := 0; i < nops; i++ {
		ks := m.Keys()
		switch a := k.Choose(8, "op"); {
		case a <= 4 || len(ks) == 0: // put (new key or overwrite via key reuse)
			key, val := s.g.key(), s.g.val()
			if err := tr.Put(key, val); err != nil {
				s.viol("build", "put-failed", "Put(%s) failed: %v", hx(key), err)
			}
			m.Put(key, val)
		case a == 5: // overwrite a present key with a fresh value
			key, val := ks[k.Choose(len(ks), "overwrite-ix")], s.g.val()
			if err := tr.Put(key, val); err != nil {
				s.viol("build", "put-failed", "Put(%s) failed: %v", hx(key), err)
			}
			m.Put(key, val)
		default: // delete a present key
			key := ks[k.Choose(len(ks), "delete-ix")]
			if err := tr.Delete(key); err != nil {
				s.viol("build", "delete-failed", "Delete(%s) failed: %v", hx(key), err)
			}
			m.Delete(key)
		}
	}
	h, err := tr.Hash()
	if err != nil {
		s.viol("build", "hash-failed", "Hash() failed: %v", err)
	}
	if err := s.ss.StoreTrie(ts, nil); err != nil {
		s.viol("build", "store-failed", "StoreTrie failed without an injected fault: %v", err)
	}
	n := &pst{id: len(s.states), model: m, ver: ver, root: h, parent: b.id}
	s.states = append(s.states, n)
	k.Event("state", "s%d <- s%d v%d %d keys root=%x", n.id, b.id, ver, m.Len(), h[:4])
	if k.Bool(1, 3, "evict") && h != trie.EmptyHash {
		s.tries.VerifDelete(h) // the next fork from it reloads it from the disk
	}
}

// harvest collects everything the prover's disk holds: the material a Byzantine
// prover or a confused channel can put into a proof.
func (s *psim) harvest() {
	raw := s.disk.Raw()
	ks := make([]string, 0, len(raw))
	for key := range raw {
		ks = append(ks, key)
	}
	sort.Strings(ks)
	for _, key := range ks {
		s.pool = append(s.pool, cp(raw[key]))
	}
}

// poolNode picks one stored byte string (a copy); an empty disk has none.
func (s *psim) poolNode(label string) []byte {
	if len(s.pool) == 0 {
		return []byte{0x41, 0x00}
	}
	return cp(s.pool[s.k.Choose(len(s.pool), label)])
}

func (s *psim) generate(x *pst, keys [][]byte, viaRPC bool) ([][]byte, error) {
	if !viaRPC {
		return s.ss.GenerateTrieProof(x.root, keys)
	}
	s.k.Probe("proof-through-rpc-module")
	sm := modules.NewStateModule(nil, nil, coreAdapter{ss: s.ss}, nil)
	req := &modules.StateGetReadProofRequest{Hash: x.root}
	for _, key := range keys {
		req.Keys = append(req.Keys, common.BytesToHex(key))
	}
	var res modules.StateGetReadProofResponse
	if err := sm.GetReadProof(nil, req, &res); err != nil {
		return nil, err
	}
	if res.At != x.root {
		s.viol("rpc", "read-proof-for-another-block", "GetReadProof answered for %x, asked %x", res.At[:4], x.root[:4])
	}
	var out [][]byte
	for _, p := range res.Proof {
		b, err := common.HexToBytes(p)
		if err != nil {
			s.viol("rpc", "read-proof-not-hex", "GetReadProof returned %q: %v", p, err)
		}
		out = append(out, b)
	}
	return out, nil
}

// claim is one statement the verifier is asked to confirm with the delivered nodes.
type claim struct {
	key, val  []byte
	kind      string
	requested bool // key was in the read-proof request
}

func (s *psim) hashedIn(x *pst, key []byte) bool {
	v, ok := x.model.Get(key)
	return ok && x.ver == su.V1 && len(v) > 32
}

// absentNeighbour returns a key that is NOT in x, close to its keys.
func (s *psim) absentKey(x *pst) []byte {
	k := s.k
	ks := x.model.Keys()
	for try := 0; try < 6; try++ {
		var c []byte
		switch sh := k.Choose(5, "absent-shape"); {
		case sh == 0 && len(ks) > 0: // a present key extended
			c = append(cp(ks[k.Choose(len(ks), "absent-base")]), keyBytes[k.Choose(len(keyBytes), "absent-ext")])
		case sh == 1 && len(ks) > 0: // a present key cut short
			b := ks[k.Choose(len(ks), "absent-base")]
			if len(b) > 0 {
				c = cp(b[:k.Choose(len(b), "absent-cut")])
			}
		case sh == 2 && len(ks) > 0: // a present key with one nibble changed
			b := cp(ks[k.Choose(len(ks), "absent-base")])
			if len(b) > 0 {
				b[k.Choose(len(b), "absent-pos")] ^= []byte{0x01, 0x10, 0x0f, 0xf0}[k.Choose(4, "absent-xor")]
			}
			c = b
		case sh == 3: // a key present in another state
			o := s.states[k.Choose(len(s.states), "absent-other-state")]
			if oks := o.model.Keys(); len(oks) > 0 {
				c = oks[k.Choose(len(oks), "absent-other-key")]
			}
		default:
			c = s.g.key()
		}
		if c == nil {
			c = []byte{}
		}
		if _, ok := x.model.Get(c); !ok {
			return c
		}
	}
	return nil
}

func (s *psim) request() {
	k := s.k
	// target state: prefer the non-empty ones
	var cands []*pst
	for _, x := range s.states {
		if x.model.Len() > 0 {
			cands = append(cands, x)
		}
	}
	if s.emptyState {
		cands = s.states // the empty states too (GenerateTrieProof panics on an empty trie: RootNode copies a nil root)
	}
	if len(cands) == 0 {
		return
	}
	x := cands[k.Choose(len(cands), "target-state")]
	present := x.model.Keys()
	mode := k.Choose(3, "mode") // 0 honest prover + fault-free channel, 1 honest prover + faulty channel, 2 Byzantine prover
	viaRPC := k.Bool(1, 3, "via-rpc")

	// the key set of the request
	var keys [][]byte
	seen := map[string]bool{}
	nk := k.Range(1, 6, "request-keys")
	if k.Bool(1, 6, "request-many-keys") {
		nk = k.Range(7, 12, "request-keys-many")
	}
	hasAbsent := false
	for i := 0; i < nk; i++ {
		var key []byte
		if len(present) > 0 && !(s.absentInRequest && k.Bool(1, 4, "request-absent-key")) {
			key = present[k.Choose(len(present), "request-present-ix")]
		} else if key = s.absentKey(x); key == nil {
			continue
		}
		if mode == 0 {
			// input classes behind knobs (see the knob comments): only the fault-free
			// channel asserts completeness, so only there they are filtered
			if s.hashedIn(x, key) && !s.hashedComplete {
				continue
			}
			if v, ok := x.model.Get(key); ok && len(v) == 0 && !s.emptyComplete {
				continue
			}
		}
		if seen[string(key)] {
			continue
		}
		seen[string(key)] = true
		if _, ok := x.model.Get(key); !ok {
			hasAbsent = true
		}
		keys = append(keys, key)
	}
	if len(keys) == 0 {
		return
	}
	k.Event("request", "s%d (v%d, %d keys stored) keys=%d mode=%d rpc=%v absent=%v", x.id, x.ver, x.model.Len(), len(keys), mode, viaRPC, hasAbsent)

	nodes, err := s.generate(x, keys, viaRPC)
	if err != nil {
		if hasAbsent {
			k.Probe("generate-refuses-request-with-absent-key")
			if !s.absentInRequest {
				return // a request to the empty state: every key is absent; reported under the absent-keys knob only
			}
			s.viol("completeness", "generate-fails-for-request-with-absent-key", "read-proof request for %d keys of state %d, one of them absent: the prover returns no proof at all: %v", len(keys), x.id, err)
			return
		}
		s.viol("completeness", "generate-failed", "GenerateTrieProof(state %d, %d present keys) failed: %v", x.id, len(keys), err)
		return
	}
	if hasAbsent {
		k.Probe("absent-key-proof-generated")
	}

	var claims []claim
	clean := mode == 0
	switch mode {
	case 1:
		nodes = s.channelFaults(nodes)
	case 2:
		nodes, claims = s.byzantine(x, keys, nodes)
	}

	// the wire: the node list travels SCALE-encoded, as the host function receives it
	enc, err := scale.Marshal(nodes)
	if err != nil {
		panic(err)
	}
	if mode == 1 && k.Bool(1, 6, "wire-byte-fault") && len(enc) > 0 {
		enc = cp(enc)
		// (no bit flips on the wire: a flip in a compact length prefix makes pkg/scale
		// allocate up to a gigabyte - C12's subject - and stalls the worker; bit flips
		// are applied to the nodes themselves instead)
		switch k.Choose(2, "wire-fault-kind") {
		case 0:
			enc = enc[:k.Choose(len(enc), "wire-cut")]
			k.Fault("wire-truncated")
		default:
			enc = append(enc, s.poolNode("wire-splice")...)
			k.Fault("wire-splice")
		}
	}
	var got [][]byte
	if err := scale.Unmarshal(enc, &got); err != nil {
		k.Event("deliver", "undecodable proof message: rejected")
		k.Probe("wire-message-rejected-by-decoder")
		return
	}
	for _, n := range got {
		if len(n) > len(enc) {
			// pkg/scale returned a byte string longer than the whole message that carried
			// it (zero-filled): that is C12's subject (SCALE decoding), not the proof
			// verifier's; hashing gigabytes of zeros would only stall the run.
			k.Event("deliver", "decoder produced a %d-byte node from a %d-byte message: dropped", len(n), len(enc))
			k.Probe("scale-decoded-node-longer-than-message(C12)")
			return
		}
	}
	k.Event("deliver", "%d nodes", len(got))
	// the exported proof-database constructor must cope with whatever arrives
	if _, err := triedbmem.NewMemoryDBFromProof(got); err != nil {
		k.Probe("memory-db-from-proof-error")
	}

	// claims about the requested keys: the true pair, and "the key is present"
	for _, key := range keys {
		v, ok := x.model.Get(key)
		if ok {
			claims = append(claims, claim{key: key, val: v, kind: "true-pair", requested: true})
			claims = append(claims, claim{key: key, val: nil, kind: "key-present", requested: true})
		} else {
			claims = append(claims, claim{key: key, val: nil, kind: "absent-key-present", requested: true})
			claims = append(claims, claim{key: key, val: s.g.val(), kind: "absent-key-with-value", requested: true})
		}
	}
	// false claims a dishonest counterpart may attach to the same nodes
	nf := k.Range(1, 5, "false-claims")
	for i := 0; i < nf; i++ {
		if c, ok := s.falseClaim(x, keys); ok {
			claims = append(claims, c)
		}
	}
	for _, c := range claims {
		s.verify(x, got, c, clean)
	}
	if clean && len(keys) >= 2 {
		k.Nontriv = true
	}
}

// falseClaim builds a (key, value) pair that is not in state x.
func (s *psim) falseClaim(x *pst, keys [][]byte) (claim, bool) {
	k := s.k
	present := x.model.Keys()
	switch sh := k.Choose(7, "false-claim"); {
	case sh <= 3 && len(present) > 0: // a present key with a value it does not have
		var key []byte
		if k.Bool(2, 3, "false-claim-requested-key") {
			key = keys[k.Choose(len(keys), "false-claim-key")]
			if _, ok := x.model.Get(key); !ok {
				key = present[k.Choose(len(present), "false-claim-present")]
			}
		} else {
			key = present[k.Choose(len(present), "false-claim-present")]
		}
		real, _ := x.model.Get(key)
		var v []byte
		kind := ""
		switch k.Choose(6, "false-value") {
		case 0: // the value of another key of the same state
			v, _ = x.model.Get(present[k.Choose(len(present), "false-value-of")])
			kind = "value-of-sibling-key"
		case 1: // the value the key has in another state (before it was overwritten)
			for _, o := range s.states {
				if ov, ok := o.model.Get(key); ok && !bytes.Equal(ov, real) {
					v, kind = ov, "value-from-another-state"
					break
				}
			}
		case 2: // one bit off
			if len(real) > 0 {
				v = cp(real)
				v[k.Choose(len(v), "false-value-pos")] ^= 1 << uint(k.Choose(8, "false-value-bit"))
				kind = "value-with-flipped-bit"
			}
		case 3: // the hash of the value instead of the value
			if s.hashedIn(x, key) && !s.hashClaims {
				return claim{}, false // behind a knob: the verifier hands out the stored hash as the value
			}
			v, kind = su.Blake2b256(real), "hash-of-value"
		case 4: // a prefix / an extension of the value
			if len(real) > 1 && k.Bool(1, 2, "false-value-shorter") {
				v = cp(real[:len(real)-1])
			} else {
				v = append(cp(real), 0x00)
			}
			kind = "value-cut-or-extended"
		default:
			v, kind = s.g.val(), "fresh-value"
		}
		if len(v) == 0 || bytes.Equal(v, real) {
			return claim{}, false
		}
		return claim{key: key, val: v, kind: kind}, true
	default: // an absent key, with a value or as "present"
		key := s.absentKey(x)
		if key == nil {
			return claim{}, false
		}
		var v []byte
		kind := "absent-key-present"
		if k.Bool(2, 3, "absent-with-value") {
			kind = "absent-key-with-value"
			v = s.g.val()
			for _, o := range s.states { // prefer the value it has (had) in another state
				if ov, ok := o.model.Get(key); ok && len(ov) > 0 {
					v, kind = ov, "absent-key-with-value-from-another-state"
					break
				}
			}
			if len(present) > 0 && k.Bool(1, 3, "absent-with-sibling-value") {
				if sv, _ := x.model.Get(present[k.Choose(len(present), "absent-sibling")]); len(sv) > 0 {
					v, kind = sv, "absent-key-with-sibling-value"
				}
			}
		}
		return claim{key: key, val: v, kind: kind}, true
	}
}

// verify runs the real verifier on one claim and applies both oracles.
func (s *psim) verify(x *pst, nodes [][]byte, c claim, clean bool) {
	k := s.k
	err := proof.Verify(nodes, x.root[:], c.key, c.val)
	real, present := x.model.Get(c.key)
	truth := present && (len(c.val) == 0 || bytes.Equal(c.val, real))
	k.Event("verify", "%s %s=%s -> %v (true=%v)", c.kind, hx(c.key), hx(c.val), err == nil, truth)
	if err == nil && !truth {
		// soundness: whatever arrived, a confirmed pair must be in the state
		class := "absent-key-confirmed"
		if present {
			class = "wrong-value-confirmed"
			if x.ver == su.V1 && len(real) > 32 && bytes.Equal(c.val, su.Blake2b256(real)) {
				class = "hash-of-hashed-value-confirmed-as-value"
			}
		}
		s.viol("soundness", class, "Verify(%d nodes, root of state %d (v%d), key %s, value %s) = nil, but the state has %s (present=%v) [claim kind: %s]", len(nodes), x.id, x.ver, hx(c.key), hx(c.val), hx(real), present, c.kind)
		return
	}
	if err == nil && !clean {
		k.Probe("true-claim-verified-over-faulty-channel")
	}
	if !truth {
		k.Probe("false-claim-rejected")
		if !present {
			k.Probe("absent-key-claim-rejected")
		}
		return
	}
	hashed := x.ver == su.V1 && len(real) > 32
	if clean && c.requested && hashed {
		k.Probe("v1-hashed-value-requested-on-fault-free-channel")
	}
	if clean && c.requested {
		// completeness: honest prover, fault-free channel, requested present key
		if err != nil {
			class := "present-key-rejected"
			switch {
			case hashed:
				class = "present-key-rejected-v1-hashed-value"
			case len(real) == 0:
				class = "present-key-rejected-empty-value"
			}
			if c.kind == "key-present" {
				class += "-as-presence-claim"
			}
			s.viol("completeness", class, "fault-free channel: Verify(%d nodes, root of state %d (v%d), key %s, value %s [%s]) failed: %v", len(nodes), x.id, x.ver, hx(c.key), hx(c.val), c.kind, err)
			return
		}
		switch {
		case hashed:
			k.Probe("v1-hashed-value-proven")
		case x.ver == su.V1:
			k.Probe("v1-inline-value-proven")
		default:
			k.Probe("v0-value-proven")
		}
		if len(real) > 32 && x.ver == su.V0 {
			k.Probe("v0-long-value-proven")
		}
	}
}

// channelFaults applies 1-4 tape-chosen faults to the node list in transit.
func (s *psim) channelFaults(nodes [][]byte) [][]byte {
	k := s.k
	out := make([][]byte, len(nodes))
	for i := range nodes {
		out[i] = cp(nodes[i])
	}
	n := k.Range(1, 4, "channel-faults")
	for i := 0; i < n; i++ {
		kind := k.Choose(8, "channel-fault")
		if len(out) == 0 && kind != 6 && kind != 7 {
			continue
		}
		switch kind {
		case 0:
			j := k.Choose(len(out), "drop-ix")
			out = append(out[:j], out[j+1:]...)
			k.Fault("node-dropped")
		case 1:
			j := k.Choose(len(out), "dup-ix")
			out = append(out, cp(out[j]))
			k.Fault("node-duplicated")
		case 2:
			if len(out) >= 2 {
				a, b := k.Choose(len(out), "swap-a"), k.Choose(len(out), "swap-b")
				out[a], out[b] = out[b], out[a]
				if a != b {
					k.Fault("nodes-reordered")
				}
			}
		case 3:
			j := k.Choose(len(out), "foreign-ix")
			out[j] = s.poolNode("foreign-node")
			k.Fault("node-replaced-by-foreign-node")
			k.Probe("foreign-node-substitution")
		case 4:
			j := k.Choose(len(out), "flip-ix")
			if len(out[j]) > 0 {
				out[j][k.Choose(len(out[j]), "flip-pos")] ^= 1 << uint(k.Choose(8, "flip-bit"))
				k.Fault("node-bit-flipped")
			}
		case 5:
			j := k.Choose(len(out), "cut-ix")
			out[j] = out[j][:k.Choose(len(out[j])+1, "cut-len")]
			k.Fault("node-truncated")
		case 6:
			out = append(out, s.poolNode("foreign-node"))
			k.Fault("foreign-node-added")
			k.Probe("foreign-node-substitution")
		default:
			out = append(out, k.Bytes(k.Range(0, 40, "garbage-len"), "garbage"))
			k.Fault("garbage-node-added")
		}
	}
	return out
}

// byzantine: the prover assembles the node list itself and attaches claims that
// are false in state x. honest is the genuine proof for the requested keys.
func (s *psim) byzantine(x *pst, keys [][]byte, honest [][]byte) ([][]byte, []claim) {
	k := s.k
	k.Probe("byzantine-proof-attempt")
	var claims []claim
	// a key whose pair in another state differs from x
	type stale struct {
		o   *pst
		key []byte
		val []byte
	}
	var stales []stale
	for _, o := range s.states {
		if o == x {
			continue
		}
		for _, key := range o.model.Keys() {
			ov, _ := o.model.Get(key)
			if xv, ok := x.model.Get(key); !ok || !bytes.Equal(xv, ov) {
				stales = append(stales, stale{o, key, ov})
			}
		}
	}
	strat := k.Choose(6, "byzantine-strategy")
	if (strat == 1 || strat == 2) && len(stales) == 0 {
		strat = 0
	}
	switch strat {
	case 0: // genuine nodes, false claims only (the claims generator adds them)
		k.Fault("byzantine-genuine-proof-false-claims")
		for _, key := range keys {
			if real, ok := x.model.Get(key); ok {
				other := append(cp(real), 0x01)
				claims = append(claims, claim{key: key, val: other, kind: "byz-real-proof-other-value"})
			}
		}
		return honest, claims
	case 1, 2: // the proof of a state in which the pair was present (deleted / overwritten since)
		st := stales[k.Choose(len(stales), "stale-ix")]
		nodes, err := s.ss.GenerateTrieProof(st.o.root, [][]byte{st.key})
		if err != nil {
			s.viol("completeness", "generate-failed", "GenerateTrieProof(state %d, present key %s) failed: %v", st.o.id, hx(st.key), err)
		}
		if strat == 2 { // nodes of both states mixed
			nodes = append(nodes, honest...)
			for i := len(nodes) - 1; i > 0; i-- {
				j := k.Choose(i+1, "mix-shuffle")
				nodes[i], nodes[j] = nodes[j], nodes[i]
			}
			k.Fault("byzantine-nodes-of-two-states-mixed")
		} else {
			k.Fault("byzantine-proof-from-stale-state")
		}
		claims = append(claims, claim{key: st.key, val: st.val, kind: "byz-pair-of-another-state"})
		if _, ok := x.model.Get(st.key); !ok {
			claims = append(claims, claim{key: st.key, val: nil, kind: "byz-deleted-key-present"})
		}
		return nodes, claims
	case 3: // the proof of a sibling key, offered for an absent key
		k.Fault("byzantine-sibling-proof")
		for i := 0; i < 3; i++ {
			if key := s.absentKey(x); key != nil {
				sib := keys[k.Choose(len(keys), "sibling-of")]
				sv, _ := x.model.Get(sib)
				claims = append(claims, claim{key: key, val: sv, kind: "byz-absent-key-with-proven-sibling-value"})
				claims = append(claims, claim{key: key, val: nil, kind: "byz-absent-key-present"})
			}
		}
		return honest, claims
	case 4: // everything the disk holds, including raw values and nodes of all states
		k.Fault("byzantine-whole-disk-as-proof")
		nodes := make([][]byte, 0, len(s.pool))
		for _, p := range s.pool {
			nodes = append(nodes, cp(p))
		}
		for _, st := range stales {
			if len(claims) >= 6 {
				break
			}
			claims = append(claims, claim{key: st.key, val: st.val, kind: "byz-pair-of-another-state"})
		}
		return nodes, claims
	default: // the genuine proof plus the raw values of the requested keys (what a Substrate prover sends)
		k.Fault("byzantine-values-appended")
		nodes := append([][]byte{}, honest...)
		for _, key := range keys {
			if v, ok := x.model.Get(key); ok && len(v) > 0 {
				nodes = append(nodes, cp(v))
			}
		}
		for _, key := range keys {
			if v, ok := x.model.Get(key); ok && s.hashedIn(x, key) {
				if proof.Verify(nodes, x.root[:], key, v) == nil {
					k.Probe("hashed-value-verifies-when-raw-value-is-appended")
				} else {
					k.Probe("hashed-value-rejected-even-with-raw-value-appended")
				}
			}
		}
		return nodes, claims
	}
}
