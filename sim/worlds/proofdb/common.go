// Package proofdb is the simulated world for C05 (storage read proofs between a
// prover node and a verifier over a faulty channel) and C06 (the database-backed
// trie engine pkg/trie/triedb over the simulated disk). The oracles are the
// shared storeutil.RefMap / storeutil.SpecRoot; nothing here re-implements them.
package proofdb

import (
	"fmt"
	"io"
	"os"
	"strings"
	"sync"

	"github.com/ChainSafe/gossamer/internal/log"
	"github.com/ChainSafe/gossamer/verifsim/kernel"
)

var quietOnce sync.Once

// quiet turns gossamer's loggers off once per process (verify.go logs every
// proof node at Info level).
func quiet() {
	quietOnce.Do(func() { log.Patch(log.SetLevel(log.Critical), log.SetWriter(io.Discard)) })
}

// knob draws a per-run switch for an input class that reaches a reported
// finding. VERIF_PROOFDB_OFF="all" or a comma list of knob names forces such
// classes off (the tape is drawn all the same), so that the remaining inputs
// can be explored while a finding is still open; VERIF_PROOFDB_ON forces them on.
// Both are development switches: checks, replays and evidence use neither.
func knob(k *kernel.K, num, den int, name string) bool {
	v := k.Bool(num, den, "knob-"+name)
	listed := func(env string) (all, named bool) {
		val := os.Getenv(env)
		for _, x := range strings.Split(val, ",") {
			if x == name {
				named = true
			}
		}
		return val == "all", named
	}
	offAll, off := listed("VERIF_PROOFDB_OFF")
	onAll, on := listed("VERIF_PROOFDB_ON")
	switch {
	case off:
		return false
	case on:
		return true
	case offAll:
		return false
	case onAll:
		return true
	}
	return v
}

func hx(b []byte) string {
	if len(b) > 12 {
		return fmt.Sprintf("%x..(%d)", b[:6], len(b))
	}
	return fmt.Sprintf("%x", b)
}

func cp(b []byte) []byte { return append([]byte{}, b...) }

// keyBytes is the adversarial byte alphabet: shared high/low nibbles, 0x00/0xff.
var keyBytes = []byte{0x00, 0x01, 0x10, 0x11, 0xf0, 0xff, 0x0a, 0xa0}

// gen draws keys and values from the tape. Keys: 1-4 bytes over keyBytes (forces
// shared nibble prefixes and key-is-prefix-of-key), the empty key, extensions /
// truncations of earlier keys, keys longer than 63 nibbles. Values: lengths
// biased to 0/1/31/32/33/40/64 with a rare 4 KiB one.
type gen struct {
	k          *kernel.K
	keys       [][]byte
	prevV      [][]byte
	valCtr     int
	noEmpty    bool // no empty values
	noEmptyKey bool
	noLong     bool // no keys of 32 bytes or more
}

func (g *gen) remember(key []byte) {
	for _, x := range g.keys {
		if string(x) == string(key) {
			return
		}
	}
	if len(g.keys) < 28 {
		g.keys = append(g.keys, key)
	}
}

func (g *gen) key() []byte {
	k := g.k
	if len(g.keys) > 0 && k.Bool(3, 5, "key-reuse") {
		return g.keys[k.Choose(len(g.keys), "key-ix")]
	}
	var key []byte
	shape := k.Choose(14, "key-shape")
	if shape == 13 && g.noLong {
		shape = 0
	}
	switch shape {
	case 13: // long key: partial keys beyond 63 nibbles
		n := []int{32, 33, 64, 70, 160}[k.Choose(5, "longkey-len")]
		key = make([]byte, n)
		for i := range key {
			key[i] = keyBytes[(i*7+n)%len(keyBytes)]
		}
		key[n-1] = keyBytes[k.Choose(len(keyBytes), "longkey-last")]
		k.Probe("long-key")
	case 12:
		key = []byte{} // the empty key
		if g.noEmptyKey {
			key = []byte{0x00}
		}
	case 11, 10: // an earlier key extended by one byte (key is a prefix of key)
		if len(g.keys) > 0 {
			b := g.keys[k.Choose(len(g.keys), "ext-base")]
			key = append(cp(b), keyBytes[k.Choose(len(keyBytes), "ext-byte")])
			break
		}
		fallthrough
	case 9: // an earlier key cut short
		if len(g.keys) > 0 {
			b := g.keys[k.Choose(len(g.keys), "cut-base")]
			if len(b) > 1 {
				key = cp(b[:1+k.Choose(len(b)-1, "cut-at")])
				break
			}
		}
		fallthrough
	default:
		n := 1 + k.Choose(4, "key-len")
		key = make([]byte, n)
		for i := range key {
			key[i] = keyBytes[k.Choose(len(keyBytes), "key-byte")]
		}
	}
	g.remember(key)
	return key
}

var valLens = []int{1, 33, 31, 32, 40, 64, 0, 2, 5}

func (g *gen) val() []byte {
	k := g.k
	if len(g.prevV) > 0 && k.Bool(1, 5, "val-reuse") {
		return g.prevV[k.Choose(len(g.prevV), "val-ix")]
	}
	n := valLens[k.Choose(len(valLens), "val-len")]
	if n == 0 && g.noEmpty {
		n = 1
	}
	if k.Bool(1, 60, "val-big") {
		n = 4096
	}
	g.valCtr++
	v := make([]byte, n)
	for i := range v {
		v[i] = byte(g.valCtr*31 + i*7)
	}
	if n > 1 {
		v[0], v[1] = byte(g.valCtr), byte(g.valCtr>>8)
	}
	if len(g.prevV) < 12 {
		g.prevV = append(g.prevV, v)
	}
	return v
}
