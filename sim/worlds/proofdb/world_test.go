package proofdb

import (
	"testing"
	"time"

	"github.com/ChainSafe/gossamer/verifsim/kernel"
)

type world struct{}

func (world) Name() string    { return "proofdb" }
func (world) Props() []string { return []string{"C05", "C06"} }

// C05 stores states with the real StoreTrie, which spawns a notifier goroutine:
// the bubble is the quiescence barrier (as in the store world). C06 has no
// goroutines and no timers.
func (world) Bubble(p string) bool  { return p == "C05" }
func (world) Level(p string) string { return "exploration" }
func (world) Run(k *kernel.K) {
	switch k.Prop {
	case "C05":
		runProof(k)
	case "C06":
		runTrieDB(k)
	}
}
func (world) Rule(p string) string {
	switch p {
	case "C05":
		return "one run = a prover node (real dot/state InmemoryStorageState + pkg/trie/inmemory over a simulated disk) that builds 2-5 stored states as a tree of forks (TrieState(root), runtime-chosen state version V0/V1, put / overwrite / delete, StoreTrie, optional eviction), then answers 3-9 read-proof requests (1-12 keys) from its STORED state through GenerateTrieProof or the real RPC StateModule.GetReadProof; the node list travels SCALE-encoded to a verifier that calls proof.Verify (and db.NewMemoryDBFromProof). Tape-chosen per request: fault-free channel / faulty channel (1-4 of: node dropped, duplicated, reordered, replaced by or joined with a foreign node of another stored state or a raw stored value, bit-flipped, truncated, garbage added; truncation / splice of the SCALE wire message) / Byzantine prover (genuine proof with false claims, proof from a state where the pair was present before it was deleted or overwritten, nodes of two states mixed, sibling-key proof offered for an absent key, the whole disk as proof, raw values appended). Keys from an adversarial nibble alphabet (shared prefixes, key-is-prefix-of-key, empty key, keys over 63 nibbles), values 0/1/31/32/33/40/64 bytes and rare 4 KiB. Oracles from the statement over the reference ordered map of each state: soundness - for EVERY claim on EVERY delivered node list, Verify == nil implies the key is in the state (and, for a non-empty claimed value, with exactly that value); completeness - honest prover and fault-free channel: every requested present key verifies with its value and as present; absent keys never verify. Input classes that reached findings are drawn per run under knobs: absent keys inside a request (1/5; still a known finding, the other runs stay clean of it), and - repaired since, hence mostly on - V1 values over 32 bytes on the fault-free channel (3/4), empty values on the fault-free channel (3/4), requests addressed to a state without keys (1/3), claims 'value = Blake2b(real value)' for hashed values (3/4). Non-trivial = at least one fault or Byzantine strategy fired, or a fault-free request with >= 2 keys; distinct = event-kind sequence fingerprint. One run in eight gives the first state a comb: a 33-48 byte key with a sibling key diverging at every nibble (a path of 66-96 nested hashed branches)."
	case "C06":
		return "one run = a history of 8-70 tape-chosen steps on a real triedb.TrieDB[H256,Blake2-256] over a simulated disk: Put / Delete (adversarial nibble key alphabet incl. empty key, key-is-prefix-of-key, keys over 63 nibbles; values 0/1/31/32/33/40/64 bytes and rare 4 KiB; same-value rewrites; deletes biased to present keys so that branches merge and collapse; per-run delete weight 1/2/4 of 16), commit (Hash(), or commit() then Hash()), reopen (continue the history on a fresh NewTrieDB(root) over the same disk), crash (the disk keeps only the records up to some earlier commit, the instance is dropped, restart at that commit's root). Per-run knobs: V0/V1, cache option on/off, missing database key reads as (nil,nil) or ErrNotFound, NewEmptyTrieDB vs NewTrieDB(empty root). Oracles: after every commit Hash() == storeutil.SpecRoot(reference map, version); after every commit, reopen and crash a FRESH NewTrieDB(root) returns, for every key of the alphabet, every stored key and its absent neighbours (one-byte extension, truncation, one-nibble change), exactly the reference map's value or absent. Input classes that reached findings (all repaired since) are drawn per run under knobs: keys of 32 bytes or more (1/2), V1 values of exactly 32 bytes (3/4), Delete of an absent key that is a proper prefix of stored keys (3/4), Get through the uncommitted instance of a key that ends at a valueless branch (1/2; live reads are outside the statement and only counted). Non-trivial = a second commit with changes, a reopen or a crash happened; distinct = event-kind sequence fingerprint."
	}
	return ""
}
func (world) Components(p string) ([]string, []string) {
	if p == "C05" {
		return []string{"pkg/trie/inmemory/proof Generate + Verify", "pkg/trie/db NewMemoryDBFromProof / MemoryDB", "pkg/trie/inmemory (trie, Load from database, WriteDirty)", "pkg/trie/node (encode/decode/Merkle values)", "dot/state InmemoryStorageState (TrieState, StoreTrie, GenerateTrieProof) + Tries", "dot/rpc/modules StateModule.GetReadProof", "pkg/scale (wire encoding of the node list)"},
			[]string{"disk (simdisk)", "channel between prover and verifier (tape-driven fault seam)", "core service / block state behind GetReadProofAt (5-line adapter: block hash = state root)", "Wasm host functions ext_trie_blake2_256_verify_proof_version_1/2 (no runtime offline; they call proof.Verify with the same arguments)", "runtime issuing the storage operations (tape workload)"}
	}
	return []string{"pkg/trie/triedb TrieDB (Put, Delete, Get, Hash, commit, NewTrieDB, NewEmptyTrieDB, SetVersion, WithCache)", "pkg/trie/triedb lookup (TrieLookup)", "pkg/trie/triedb/codec (node encode/decode)", "pkg/trie/triedb/nibbles", "internal/primitives/runtime BlakeTwo256"},
		[]string{"disk (simdisk) behind a hash-database adapter that knows the empty node for the empty-trie hash, as the package's own test database does (TrieDB has no production database in gossamer)", "cache (the option accepts any value; gossamer has no cache implementation yet)", "caller issuing the operations (tape workload)"}
}
func (world) Budget(p, tier string) (int, time.Duration) {
	if tier == "thorough" {
		return 3000000, 8 * time.Minute
	}
	return 200000, 40 * time.Second
}

func TestVerif(t *testing.T) { kernel.Main(t, world{}) }
