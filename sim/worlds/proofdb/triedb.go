package proofdb

import (
	"bytes"
	"errors"
	"fmt"
	"sort"

	"github.com/ChainSafe/gossamer/internal/database"
	"github.com/ChainSafe/gossamer/internal/primitives/core/hash"
	"github.com/ChainSafe/gossamer/internal/primitives/runtime"
	"github.com/ChainSafe/gossamer/pkg/trie"
	"github.com/ChainSafe/gossamer/pkg/trie/triedb"
	"github.com/ChainSafe/gossamer/verifsim/kernel"
	"github.com/ChainSafe/gossamer/verifsim/simdisk"
	su "github.com/ChainSafe/gossamer/verifsim/storeutil"
)

// ---- C06: the database-backed trie engine over the simulated disk -----------

type tdb = triedb.TrieDB[hash.H256, runtime.BlakeTwo256]

// nodeDB is the hash-database contract TrieDB is written against (the same one
// the package's own test database implements): the encoding of the empty node
// is known for the empty-trie hash without ever being stored, and a missing key
// reads as (nil, nil) - or, as a per-run knob, as the real database's
// ErrNotFound. Everything else is the simulated disk.
type nodeDB struct {
	*simdisk.DB
	null         []byte
	errOnMissing bool
}

func (d nodeDB) Get(key []byte) ([]byte, error) {
	if bytes.HasSuffix(key, d.null) {
		return []byte{0}, nil
	}
	v, err := d.DB.Get(key)
	if err != nil && errors.Is(err, database.ErrNotFound) && !d.errOnMissing {
		return nil, nil
	}
	return v, err
}

// commitPoint is what a crash can fall back to: the disk after the first logLen
// write records holds exactly the trie committed with root (content model).
type commitPoint struct {
	logLen int
	root   hash.H256
	model  *su.RefMap
}

type tsim struct {
	k             *kernel.K
	g             *gen
	disk          *simdisk.Disk
	t             *tdb
	model         *su.RefMap
	ver           su.Version
	cache         bool
	errOnMissing  bool
	useShimCommit bool
	liveAtBranch  bool   // knob: read a key that ends at a valueless in-memory branch through the live instance
	longKeys      bool   // knob: keys of 32 bytes or more (Put/Delete append the node hash into the caller's key buffer)
	val32         bool   // knob: V1 values of exactly 32 bytes (NewValue hashes them, the spec keeps them inline)
	delPrefix     bool   // knob: Delete of an absent key that is a proper prefix of stored keys (removes the longer key's value)
	tag           string // class suffix for the next commit check
	null          hash.H256
	cps           []commitPoint
	dirty         int  // operations since the last commit
	merged        bool // a delete merged / collapsed a branch since the last commit
	commits       int
}

func tlayout(v su.Version) trie.TrieLayout {
	if v == su.V1 {
		return trie.V1
	}
	return trie.V0
}

func (s *tsim) open(d *simdisk.Disk) nodeDB {
	return nodeDB{DB: d.Open(), null: s.null.Bytes(), errOnMissing: s.errOnMissing}
}

func (s *tsim) newAt(root hash.H256, d *simdisk.Disk) *tdb {
	var t *tdb
	if s.cache {
		t = triedb.NewTrieDB[hash.H256, runtime.BlakeTwo256](root, s.open(d),
			triedb.WithCache[hash.H256, runtime.BlakeTwo256](map[string][]byte{}))
	} else {
		t = triedb.NewTrieDB[hash.H256, runtime.BlakeTwo256](root, s.open(d))
	}
	t.SetVersion(tlayout(s.ver))
	return t
}

func nibblesOf(k []byte) []byte {
	out := make([]byte, 0, 2*len(k))
	for _, b := range k {
		out = append(out, b>>4, b&15)
	}
	return out
}

// branchCount is the number of branch nodes of the radix-16 trie holding the
// given keys (structure only; used for the node-merge probe, not by an oracle).
func branchCount(es [][]byte, depth int) int {
	if len(es) <= 1 {
		return 0
	}
	first, last := es[0], es[len(es)-1]
	c := 0
	for depth+c < len(first) && depth+c < len(last) && first[depth+c] == last[depth+c] {
		c++
	}
	rest := es
	if len(es[0]) == depth+c {
		rest = es[1:]
	}
	n := 1
	for i := 0; i < len(rest); {
		j := i
		for j < len(rest) && rest[j][depth+c] == rest[i][depth+c] {
			j++
		}
		n += branchCount(rest[i:j], depth+c+1)
		i = j
	}
	return n
}

func modelBranches(m *su.RefMap) int {
	ks := m.Keys()
	es := make([][]byte, len(ks))
	for i, k := range ks {
		es[i] = nibblesOf(k)
	}
	sort.Slice(es, func(i, j int) bool { return bytes.Compare(es[i], es[j]) < 0 })
	return branchCount(es, 0)
}

func runTrieDB(k *kernel.K) {
	quiet()
	s := &tsim{k: k, g: &gen{k: k}, disk: simdisk.NewDisk(), model: su.NewRefMap()}
	s.null = runtime.BlakeTwo256{}.Hash([]byte{0})
	s.ver = su.Version(k.Choose(2, "version"))
	s.cache = k.Bool(1, 2, "knob-cache")
	s.errOnMissing = k.Bool(1, 3, "knob-missing-key-is-ErrNotFound")
	s.useShimCommit = k.Bool(1, 3, "knob-commit-directly")
	s.liveAtBranch = knob(k, 1, 2, "live-get-at-valueless-branch")
	s.longKeys = knob(k, 1, 2, "keys-of-32-bytes-or-more")
	s.val32 = knob(k, 3, 4, "v1-values-of-exactly-32-bytes")
	s.delPrefix = knob(k, 3, 4, "delete-absent-key-that-prefixes-stored-keys")
	s.g.noLong = !s.longKeys
	if s.cache {
		k.Probe("cache-on")
	} else {
		k.Probe("cache-off")
	}
	if k.Bool(1, 2, "start-with-NewEmptyTrieDB") {
		s.t = triedb.NewEmptyTrieDB[hash.H256, runtime.BlakeTwo256](s.open(s.disk))
		s.t.SetVersion(tlayout(s.ver))
	} else {
		s.t = s.newAt(s.null, s.disk)
	}
	s.cps = []commitPoint{{logLen: 0, root: s.null, model: su.NewRefMap()}}
	k.Event("open", "empty trie v%d cache=%v", s.ver, s.cache)
	steps := k.Range(8, 70, "steps")
	delW := []int{4, 2, 1}[k.Choose(3, "delete-weight")] // swarm: delete-heavy runs keep tries small, others grow them
	for i := 0; i < steps; i++ {
		a := k.Choose(16, "action")
		switch {
		case a < 12-delW:
			s.put()
		case a <= 11:
			s.del()
		case a <= 13:
			s.commit(true)
		case a == 14:
			s.reopen()
		default:
			s.crash()
		}
	}
	s.commit(true)
}

func (s *tsim) viol(oracle, class, f string, a ...any) {
	if !s.k.Violate("C06", oracle, class, f, a...) {
		s.k.Stop()
	}
}

func (s *tsim) put() {
	k := s.k
	key, val := s.g.key(), s.g.val()
	if s.ver == su.V1 && len(val) == 32 && !s.val32 {
		val = val[:31]
	}
	old, had := s.model.Get(key)
	k.Event("put", "%s=%s", hx(key), hx(val))
	if had && bytes.Equal(old, val) {
		k.Probe("rewrite-same-value")
		if s.ver == su.V1 && len(val) > 32 {
			k.Probe("rewrite-same-hashed-value")
		}
	}
	if len(val) == 32 && s.ver == su.V1 {
		k.Probe("v1-value-of-exactly-32-bytes")
	}
	if len(val) == 33 && s.ver == su.V1 {
		k.Probe("v1-value-of-exactly-33-bytes")
	}
	if err := s.t.Put(cp(key), cp(val)); err != nil {
		s.viol("put", "put-failed"+s.tags(), "Put(%s, %d bytes) failed without an injected fault: %v", hx(key), len(val), err)
	}
	s.model.Put(key, val)
	s.dirty++
	s.liveGet(key)
}

func (s *tsim) del() {
	k := s.k
	var key []byte
	if ks := s.model.Keys(); len(ks) > 0 && k.Bool(3, 4, "delete-present") {
		key = ks[k.Choose(len(ks), "delete-ix")]
	} else {
		key = s.g.key()
	}
	_, had := s.model.Get(key)
	before := 0
	if had {
		before = modelBranches(s.model)
	}
	absentPrefix := !had && len(s.model.KeysWithPrefix(key)) > 0
	if absentPrefix {
		if !s.delPrefix {
			return
		}
		k.Probe("delete-absent-key-that-prefixes-stored-keys")
	}
	k.Event("delete", "%s present=%v", hx(key), had)
	if err := s.t.Delete(cp(key)); err != nil {
		s.viol("delete", "delete-failed"+s.tags(), "Delete(%s) failed without an injected fault: %v", hx(key), err)
	}
	s.model.Delete(key)
	s.dirty++
	if had {
		if modelBranches(s.model) < before {
			s.merged = true
			k.Probe("delete-merges-or-collapses-branch")
		}
		if s.model.Len() == 0 {
			k.Probe("trie-emptied")
		}
	}
	s.liveGet(key)
	if absentPrefix {
		s.tag = "-after-delete-of-absent-key-that-prefixes-stored-keys"
		s.commit(true)
	}
}

// liveGet reads through the instance that holds uncommitted changes. The
// statement only speaks about the root and about a FRESH instance, so a
// difference here is counted as a probe, not reported as a violation.
func (s *tsim) liveGet(key []byte) {
	if endsAtValuelessBranch(s.model, key) {
		// Get on an instance with uncommitted changes panics for a key that ends exactly
		// at an in-memory branch without value (inMemoryFetchedValue(nil), node.go:149).
		// Live reads are outside the statement, so this input is only tried under a knob.
		if !s.liveAtBranch {
			return
		}
		s.k.Probe("live-get-at-valueless-branch")
	}
	got := s.t.Get(cp(key))
	want, ok := s.model.Get(key)
	if (ok && !bytes.Equal(got, want)) || (!ok && got != nil) {
		s.k.Probe("live-get-differs-from-map(not-asserted)")
	}
}

// endsAtValuelessBranch: key is absent and is exactly the path of a branch node
// (at least two stored keys extend it and diverge right after it).
func endsAtValuelessBranch(m *su.RefMap, key []byte) bool {
	if _, ok := m.Get(key); ok {
		return false
	}
	ext := m.KeysWithPrefix(key)
	if len(ext) < 2 {
		return false
	}
	a, b := nibblesOf(ext[0]), nibblesOf(ext[len(ext)-1])
	n := 2 * len(key)
	return a[n] != b[n]
}

func hasLen(m *su.RefMap, n int) bool {
	for _, v := range m.M {
		if len(v) == n {
			return true
		}
	}
	return false
}

// commit: Hash() commits and returns the root; it must be the spec root, and a
// fresh instance opened at it must read back the whole map.
func (s *tsim) commit(fresh bool) hash.H256 {
	k := s.k
	if s.useShimCommit {
		if err := s.t.VerifCommit(); err != nil {
			s.viol("commit", "commit-failed", "commit failed without an injected fault: %v", err)
		}
	}
	root, err := s.t.Hash()
	if err != nil {
		s.viol("commit", "commit-failed", "Hash() (commit) failed without an injected fault: %v", err)
	}
	s.commits++
	want := su.SpecRoot(s.model.M, s.ver)
	k.Event("commit", "root=%x keys=%d ops-since-last=%d log=%d", root.Bytes()[:4], s.model.Len(), s.dirty, len(s.disk.Log))
	if !bytes.Equal(root.Bytes(), want[:]) {
		class := fmt.Sprintf("root-differs-from-spec-v%d", s.ver)
		if s.ver == su.V1 && hasLen(s.model, 32) {
			class += "-with-value-of-exactly-32-bytes"
		}
		class += s.tags()
		s.viol("root", class, "after commit #%d (v%d, %d keys): Hash() = %x, spec root %x", s.commits, s.ver, s.model.Len(), root.Bytes()[:6], want[:6])
	}
	if s.model.Len() == 0 && root != s.null {
		s.viol("root", "empty-trie-root", "the empty trie has root %x", root.Bytes()[:6])
	}
	if s.commits >= 2 && s.dirty > 0 {
		k.Probe("repeated-commit-with-changes")
		k.Nontriv = true
	}
	s.cps = append(s.cps, commitPoint{logLen: len(s.disk.Log), root: root, model: s.model.Clone()})
	if fresh {
		if s.merged {
			k.Probe("node-merge-before-reopen")
		}
		s.checkFresh(s.disk, root, s.model, "after commit")
	}
	s.dirty, s.merged, s.tag = 0, false, ""
	return root
}

// tags: class suffixes naming the knob-guarded input classes present in the run.
func (s *tsim) tags() string {
	t := s.tag
	for _, key := range s.g.keys {
		if len(key) >= 32 {
			t += "-with-key-of-32-bytes-or-more"
			break
		}
	}
	return t
}

// probeKeys: every key of the alphabet, every stored key, and for each stored
// key its one-byte extension and its truncation (absent neighbours).
func (s *tsim) probeKeys(m *su.RefMap) [][]byte {
	seen := map[string]bool{}
	var out [][]byte
	add := func(b []byte) {
		if !seen[string(b)] {
			seen[string(b)] = true
			out = append(out, cp(b))
		}
	}
	for _, x := range s.g.keys {
		add(x)
	}
	for _, x := range m.Keys() {
		add(x)
		add(append(cp(x), 0x00))
		add(append(cp(x), 0x1f))
		if len(x) > 0 {
			add(x[:len(x)-1])
			y := cp(x)
			y[len(y)-1] ^= 0x01
			add(y)
			y = cp(x)
			y[len(y)-1] ^= 0x10
			add(y)
		}
	}
	add([]byte{})
	return out
}

// checkFresh opens a fresh TrieDB at root over disk d and compares Get for every
// probe key with the reference map.
func (s *tsim) checkFresh(d *simdisk.Disk, root hash.H256, m *su.RefMap, why string) {
	k := s.k
	f := s.newAt(root, d)
	for _, key := range s.probeKeys(m) {
		got := f.Get(cp(key))
		want, ok := m.Get(key)
		switch {
		case ok && !bytes.Equal(got, want):
			class := "fresh-get-wrong-or-missing-value"
			if got == nil {
				class = "fresh-get-present-key-absent"
				if s.ver == su.V1 && len(want) > 32 {
					class = "fresh-get-hashed-value-absent"
				}
			}
			s.viol("fresh-get", class+s.tags(), "fresh TrieDB at root %x (%s, v%d): Get(%s) = %s, committed map has %s", root.Bytes()[:6], why, s.ver, hx(key), hx(got), hx(want))
		case !ok && got != nil:
			s.viol("fresh-get", "fresh-get-absent-key-present"+s.tags(), "fresh TrieDB at root %x (%s): Get(%s) = %s but the key is absent", root.Bytes()[:6], why, hx(key), hx(got))
		}
	}
	k.Probe("fresh-instance-checked")
}

// reopen: commit, throw the instance away and continue the history on a fresh
// instance at the committed root (its nodes are now all persisted references).
func (s *tsim) reopen() {
	root := s.commit(true)
	s.t = s.newAt(root, s.disk)
	s.k.Event("reopen", "root=%x", root.Bytes()[:4])
	s.k.Probe("history-continued-on-reopened-instance")
	s.k.Nontriv = true
}

// crash: every write made after some commit is lost (the disk keeps the first
// logLen records); the in-memory instance is gone; restart at that commit's root.
func (s *tsim) crash() {
	k := s.k
	j := len(s.cps) - 1
	if j > 0 && k.Bool(1, 3, "crash-loses-commits") {
		j = k.Choose(len(s.cps), "crash-point")
	}
	c := s.cps[j]
	if j == len(s.cps)-1 && s.dirty > 0 {
		k.Probe("crash-with-uncommitted-operations")
	}
	if j < len(s.cps)-1 {
		k.Probe("crash-loses-whole-commits")
	}
	s.disk = s.disk.Prefix(c.logLen)
	s.cps = s.cps[:j+1]
	s.model = c.model.Clone()
	s.dirty, s.merged = 0, false
	k.Fault("crash")
	k.Event("crash", "disk keeps %d records, restart at commit point %d root=%x", c.logLen, j, c.root.Bytes()[:4])
	s.checkFresh(s.disk, c.root, s.model, "after crash")
	k.Probe("reopen-after-crash")
	s.t = s.newAt(c.root, s.disk)
}
