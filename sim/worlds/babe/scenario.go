package babe

import (
	"errors"
	"fmt"
	"testing/synctest"

	"github.com/ChainSafe/gossamer/dot/types"
	rbabe "github.com/ChainSafe/gossamer/lib/babe"
	"github.com/ChainSafe/gossamer/lib/common"
	"github.com/ChainSafe/gossamer/lib/crypto/sr25519"
	"github.com/ChainSafe/gossamer/pkg/scale"
	"github.com/ChainSafe/gossamer/verifsim/kernel"
	"github.com/ChainSafe/gossamer/verifsim/simdisk"
)

// scenario is one simulated chain: genesis, a short imported base chain that
// spans epochs 0..maxEpoch (epoch data of later epochs announced by
// NextEpochData / NextConfigData digests or already persisted), and the
// reference description of every epoch.
type scenario struct {
	k        *kernel.K
	n        *node
	salt     [4]byte
	keys     map[int]*sr25519.Keypair
	L        uint64
	S0       uint64
	epochs   []*refEpoch
	declarer []int // declarer[e] = index in chain of the block after which epoch e's data is available
	chain    []*chainBlock
	serial   int
	altEpoch *refEpoch // what the side branch announces for the last epoch (nil: no side branch)
}

var cMenu = [][2]uint64{{1, 1}, {1, 2}, {1, 4}, {3, 4}, {1, 10}, {1, 200}}

func (sc *scenario) key(i int) *sr25519.Keypair {
	if kp, ok := sc.keys[i]; ok {
		return kp
	}
	kp := keyFromSeed(sc.salt, i)
	sc.keys[i] = kp
	return kp
}

func (sc *scenario) mkEpoch(nAuth, offset int, c [2]uint64, sec byte, randomness [32]byte) *refEpoch {
	ep := &refEpoch{c1: c[0], c2: c[1], sec: sec, rand: randomness}
	for i := 0; i < nAuth; i++ {
		kp := sc.key((offset + i) % 7)
		ep.keys = append(ep.keys, kp)
		ep.auths = append(ep.auths, types.AuthorityRaw{Key: pubBytes(kp), Weight: 1})
	}
	ep.thr = refThreshold(ep.c1, ep.c2, nAuth)
	return ep
}

func (sc *scenario) drawEpoch(label string, prev *refEpoch) (ep *refEpoch, configChanged bool) {
	k := sc.k
	nAuth := 1 + k.Choose(5, label+"-authorities")
	offset := 0
	if prev != nil {
		offset = k.Choose(3, label+"-auth-offset")
	}
	var r [32]byte
	copy(r[:], k.Bytes(4, label+"-randomness"))
	r[31] = byte(len(sc.epochs))
	c := cMenu[0]
	sec := byte(0)
	if prev == nil || k.Bool(2, 3, label+"-config-changes") {
		c = cMenu[k.Choose(len(cMenu), label+"-c")]
		sec = byte(k.Choose(3, label+"-secondary"))
		configChanged = true
	} else {
		c = [2]uint64{prev.c1, prev.c2}
		sec = prev.sec
	}
	return sc.mkEpoch(nAuth, offset, c, sec, r), configChanged
}

// realThreshold is what the node's own lottery uses (data for the honest author only).
func realThreshold(ep *refEpoch) *scale.Uint128 {
	t, err := rbabe.CalculateThreshold(ep.c1, ep.c2, len(ep.auths))
	if err != nil {
		panic(err)
	}
	return t
}

func babeConsensusItem(v any) (types.ConsensusDigest, types.BabeConsensusDigest) {
	d := types.NewBabeConsensusDigest()
	if err := d.SetValue(v); err != nil {
		panic(err)
	}
	enc, err := scale.Marshal(d)
	if err != nil {
		panic(err)
	}
	return types.ConsensusDigest{ConsensusEngineID: types.BabeEngineID, Data: enc}, d
}

func (sc *scenario) fillerHeader(parent *chainBlock, slot uint64, extra ...types.ConsensusDigest) *types.Header {
	sc.serial++
	pd, err := types.NewBabeSecondaryPlainPreDigest(0, slot).ToPreRuntimeDigest()
	if err != nil {
		panic(err)
	}
	d := types.NewDigest()
	if err := d.Add(*pd); err != nil {
		panic(err)
	}
	for _, e := range extra {
		if err := d.Add(e); err != nil {
			panic(err)
		}
	}
	return types.NewHeader(parent.hash, common.Hash{0x51, byte(sc.serial)}, common.Hash{0xe1, byte(sc.serial)}, parent.number+1, d)
}

func (sc *scenario) refEpochOf(parent *chainBlock, slot uint64) uint64 {
	if parent.number == 0 {
		return 0 // block #1 is in epoch 0 by definition
	}
	return (slot - sc.S0) / sc.L
}

// newScenario draws the chain parameters. fixed != nil supplies the
// configuration of epoch 0 (used by the C27 driver).
func newScenario(k *kernel.K, fixed func(sc *scenario) *refEpoch) *scenario {
	sc := &scenario{k: k, keys: map[int]*sr25519.Keypair{}}
	copy(sc.salt[:], k.Bytes(2, "key-salt"))
	sc.L = uint64(k.Range(3, 12, "epoch-length"))
	durMenu := []uint64{6000, 3000, 1000}
	cfg := &types.BabeConfiguration{SlotDuration: durMenu[k.Choose(len(durMenu), "slot-duration")], EpochLength: sc.L}
	if fixed != nil {
		sc.epochs = append(sc.epochs, fixed(sc))
	} else {
		ep, _ := sc.drawEpoch("epoch0", nil)
		sc.epochs = append(sc.epochs, ep)
	}
	e0 := sc.epochs[0]
	cfg.C1, cfg.C2, cfg.SecondarySlots, cfg.GenesisAuthorities, cfg.Randomness = e0.c1, e0.c2, e0.sec, e0.auths, e0.rand
	gh := types.NewHeader(common.Hash{}, common.Hash{0x50}, common.Hash{}, 0, types.NewDigest())
	sc.n = &node{k: k, disk: simdisk.NewDisk(), cfg: cfg, genesis: gh}
	return sc
}

// build opens the node and imports the base chain.
func (sc *scenario) build(maxEpoch int) {
	k, n := sc.k, sc.n
	n.open(true)
	synctest.Wait()
	genesis := &chainBlock{hdr: n.genesis, hash: n.genesis.Hash(), number: 0}
	sc.chain = []*chainBlock{genesis}
	sc.declarer = []int{0}
	now := rbabe.VerifGetCurrentSlot(n.slotDuration())
	// the chain may be current, slightly ahead of the verifier's clock, or old (a syncing node)
	offMenu := []int64{0, -3, 2, -1500}
	sc.S0 = uint64(int64(now) + offMenu[k.Choose(len(offMenu), "chain-age")])
	var mainTip *chainBlock
	addAt := func(parent *chainBlock, slot uint64, extra []types.ConsensusDigest, handle []types.BabeConsensusDigest) *chainBlock {
		h := sc.fillerHeader(parent, slot, extra...)
		n.importBlock(h)
		for _, d := range handle {
			if err := n.es.HandleBABEDigest(h, d); err != nil {
				panic(fmt.Sprintf("HandleBABEDigest: %v", err))
			}
		}
		cb := &chainBlock{hdr: h, hash: h.Hash(), number: h.Number, slot: slot, epoch: sc.refEpochOf(parent, slot), side: parent.side}
		sc.chain = append(sc.chain, cb)
		synctest.Wait()
		return cb
	}
	mainTip = genesis
	add := func(slot uint64, extra []types.ConsensusDigest, handle []types.BabeConsensusDigest) *chainBlock {
		mainTip = addAt(mainTip, slot, extra, handle)
		return mainTip
	}
	// a competing branch for the last epoch: a sibling of the block that announces it, announcing other data
	sideBranch := maxEpoch >= 1 && k.Bool(1, 3, "side-branch-with-other-epoch-data")
	var sideParent *chainBlock
	slot := sc.S0
	for e := 0; e <= maxEpoch; e++ {
		// first block of epoch e; it announces epoch e+1
		var extra []types.ConsensusDigest
		var handle []types.BabeConsensusDigest
		persisted := false
		if e < maxEpoch {
			next, changed := sc.drawEpoch(fmt.Sprintf("epoch%d", e+1), sc.epochs[e])
			sc.epochs = append(sc.epochs, next)
			ci, d := babeConsensusItem(types.NextEpochData{Authorities: next.auths, Randomness: next.rand})
			extra = append(extra, ci)
			var cfgDigest *types.BabeConsensusDigest
			if changed {
				v := types.NewVersionedNextConfigData()
				if err := v.SetValue(types.NextConfigDataV1{C1: next.c1, C2: next.c2, SecondarySlots: next.sec}); err != nil {
					panic(err)
				}
				ci2, d2 := babeConsensusItem(v)
				extra = append(extra, ci2)
				cfgDigest = &d2
			}
			if sideBranch && e+1 == maxEpoch {
				sideParent = mainTip // the announcing block of the last epoch gets a sibling below
			}
			if !(sideBranch && e+1 == maxEpoch) && k.Bool(1, 3, "epoch-data-persisted") {
				// as after finalisation: the definitions are in the database
				persisted = true
				if err := n.es.SetEpochDataRaw(uint64(e+1), &types.EpochDataRaw{Authorities: next.auths, Randomness: next.rand}); err != nil {
					panic(err)
				}
				if changed {
					if err := n.es.StoreConfigData(uint64(e+1), &types.ConfigData{C1: next.c1, C2: next.c2, SecondarySlots: next.sec}); err != nil {
						panic(err)
					}
				}
			} else {
				handle = append(handle, d)
				if cfgDigest != nil {
					handle = append(handle, *cfgDigest)
				}
			}
		}
		if e > 0 {
			slot = sc.S0 + uint64(e)*sc.L + uint64(k.Choose(int(sc.L), "first-slot-in-epoch"))
		}
		add(slot, extra, handle)
		if e < maxEpoch {
			sc.declarer = append(sc.declarer, len(sc.chain)-1)
			k.Event("announce", "block #%d (epoch %d, slot S0+%d) announces epoch %d: authorities=%d c=%d/%d secondary=%d persisted=%v",
				len(sc.chain)-1, e, slot-sc.S0, e+1, len(sc.epochs[e+1].auths), sc.epochs[e+1].c1, sc.epochs[e+1].c2, sc.epochs[e+1].sec, persisted)
		}
		// optional filler later in the same epoch
		last := sc.S0 + uint64(e+1)*sc.L - 1
		if slot < last && k.Bool(1, 2, "filler") {
			slot = slot + 1 + uint64(k.Choose(int(last-slot), "filler-slot"))
			add(slot, nil, nil)
		}
	}
	if sideParent != nil {
		e := maxEpoch - 1
		alt, changed := sc.drawEpoch("alt-epoch", sc.epochs[e])
		sc.altEpoch = alt
		ci, d := babeConsensusItem(types.NextEpochData{Authorities: alt.auths, Randomness: alt.rand})
		extra := []types.ConsensusDigest{ci}
		handle := []types.BabeConsensusDigest{d}
		if changed {
			v := types.NewVersionedNextConfigData()
			if err := v.SetValue(types.NextConfigDataV1{C1: alt.c1, C2: alt.c2, SecondarySlots: alt.sec}); err != nil {
				panic(err)
			}
			ci2, d2 := babeConsensusItem(v)
			extra = append(extra, ci2)
			handle = append(handle, d2)
		} else {
			// no configuration change announced on this branch: the configuration of the previous epoch goes on
			alt.c1, alt.c2, alt.sec = sc.epochs[e].c1, sc.epochs[e].c2, sc.epochs[e].sec
		}
		aslot := sc.S0 + uint64(e)*sc.L + uint64(k.Choose(int(sc.L), "side-first-slot"))
		if e == 0 && sideParent.number == 0 {
			// a second block #1: the node counts epochs from the slot of the block #1 of its best chain, so
			// the two first blocks share the slot (two epoch grids in one tree are not what is looked at here)
			aslot = sc.S0
		}
		sideParent = &chainBlock{hdr: sideParent.hdr, hash: sideParent.hash, number: sideParent.number, slot: sideParent.slot, epoch: sideParent.epoch, side: true}
		sb := addAt(sideParent, aslot, extra, handle)
		k.Event("announce-on-side-branch", "block #%d (epoch %d) on a side branch announces epoch %d differently: authorities=%d c=%d/%d secondary=%d", sb.number, e, maxEpoch, len(alt.auths), alt.c1, alt.c2, alt.sec)
		k.Probe("side-branch-with-other-epoch-data")
		last := sc.S0 + uint64(e+1)*sc.L - 1
		if aslot < last && k.Bool(1, 2, "side-filler") {
			addAt(sb, aslot+1+uint64(k.Choose(int(last-aslot), "side-filler-slot")), nil, nil)
		}
	}
}

// restart reloads the node from the simulated disk. Blocks that are not
// finalised live in memory only, so the base chain is imported again (as a
// syncing node would); the announced epoch data must come back from the disk.
func (sc *scenario) restart() {
	sc.n.open(false)
	for _, cb := range sc.chain[1:] {
		sc.n.importBlock(cb.hdr)
	}
	synctest.Wait()
}

// ---- authoring -------------------------------------------------------------

// honestClaim runs the node's own slot lottery for every authority (starting
// at a tape-chosen one) until one of them may author the slot.
func (sc *scenario) honestClaim(ep *refEpoch, epoch, slot uint64, start int) (claim, bool) {
	thr := realThreshold(ep)
	for j := 0; j < len(ep.keys); j++ {
		i := (start + j) % len(ep.keys)
		pd, err := rbabe.VerifClaimSlot(epoch, slot, ep.rand, uint32(i), ep.auths, thr, types.AllowedSlots(ep.sec), ep.keys[i])
		if err == nil {
			return claimFromPreDigest(pd), true
		}
		if !errors.Is(err, rbabe.VerifErrNotOurTurnToPropose) {
			sc.k.Probe("lottery-unexpected-error")
		}
	}
	return claim{}, false
}

// draft is a block as an author (honest or not) puts it together.
type draft struct {
	parent      *chainBlock
	c           claim
	noPre       bool
	secondPre   *claim
	foreignPre  bool // pre-digest labelled with another consensus engine id
	mid         bool // an unrelated digest item between pre-digest and seal
	sealer      *sr25519.Keypair
	noSeal      bool
	sealOther   bool // the seal is made over a different header
	sealFlip    int  // bit to flip in the seal, -1 = none
	foreignSeal bool
	afterSeal   int // an item put into the digest AFTER the header was sealed (0 none, 1 seal-typed, 2 seal-typed of another engine, 3 consensus item)
	salt        byte
}

type built struct {
	hdr      *types.Header // as sent
	unsealed *types.Header
	seal     []byte
}

func (sc *scenario) buildBlock(d *draft) built {
	dig := types.NewDigest()
	add := func(v any) {
		if err := dig.Add(v); err != nil {
			panic(err)
		}
	}
	if !d.noPre {
		pd := *d.c.preDigest()
		if d.foreignPre {
			pd.ConsensusEngineID = types.ConsensusEngineID{'a', 'u', 'r', 'a'}
		}
		add(pd)
	}
	if d.secondPre != nil {
		add(*d.secondPre.preDigest())
	}
	if d.mid {
		add(types.ConsensusDigest{ConsensusEngineID: types.GrandpaEngineID, Data: []byte{9, d.salt}})
	}
	mk := func(stateSalt byte) *types.Header {
		dd := types.NewDigest()
		dd = append(dd, dig...)
		return types.NewHeader(d.parent.hash, common.Hash{0x52, d.salt, stateSalt}, common.Hash{0xe2, d.salt}, d.parent.number+1, dd)
	}
	unsealed := mk(0)
	b := built{unsealed: unsealed}
	if d.noSeal || d.sealer == nil {
		b.hdr = mk(0)
		return b
	}
	over := unsealed
	if d.sealOther {
		over = mk(1)
	}
	seal, err := rbabe.VerifSeal(d.sealer, over)
	if err != nil {
		panic(err)
	}
	sd := *seal
	sd.Data = append([]byte{}, seal.Data...)
	if d.sealFlip >= 0 {
		sd.Data[(d.sealFlip/8)%len(sd.Data)] ^= 1 << (d.sealFlip % 8)
	}
	if d.foreignSeal {
		sd.ConsensusEngineID = types.ConsensusEngineID{'a', 'u', 'r', 'a'}
	}
	b.seal = sd.Data
	switch d.afterSeal {
	case 1:
		add(types.SealDigest{ConsensusEngineID: types.BabeEngineID, Data: append([]byte{0xab, d.salt}, make([]byte, 62)...)})
	case 2:
		add(types.SealDigest{ConsensusEngineID: types.ConsensusEngineID{'a', 'u', 'r', 'a'}, Data: []byte{1, 2, 3, d.salt}})
	case 3:
		add(types.ConsensusDigest{ConsensusEngineID: types.GrandpaEngineID, Data: []byte{7, d.salt}})
	}
	if d.afterSeal != 0 {
		b.unsealed = mk(0) // the header without its (last) seal now differs from the one that was signed
	}
	// NewHeader caches the hash, so the sealed header is built in one go (a
	// header whose cached hash does not match its content would be an artefact)
	add(sd)
	b.hdr = mk(0)
	return b
}

// epochRef: the epoch data a block with this parent must be verified against: the side branch has its
// own announcement for the last epoch.
func (sc *scenario) epochRef(parent *chainBlock, epoch uint64) *refEpoch {
	if parent.side && sc.altEpoch != nil && int(epoch) == len(sc.epochs)-1 {
		return sc.altEpoch
	}
	return sc.epochs[epoch]
}

// declared: is the data of epoch e announced on the chain of the block at index pi?
func (sc *scenario) declared(pi int, e uint64) bool {
	p := sc.chain[pi]
	if p.side {
		return int(e) <= len(sc.epochs)-1 // the side branch starts at (or after) the announcing block's parent: everything up to the last epoch is announced on it
	}
	return pi >= sc.declarer[e]
}
