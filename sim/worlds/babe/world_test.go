package babe

import (
	"testing"
	"time"

	"github.com/ChainSafe/gossamer/verifsim/kernel"
)

type world struct{}

func (world) Name() string        { return "babe" }
func (world) Props() []string     { return []string{"C24", "C27"} }
func (world) Bubble(string) bool  { return true }
func (world) Level(string) string { return "exploration" }
func (world) Run(k *kernel.K) {
	switch k.Prop {
	case "C24":
		runVerify(k)
	case "C27":
		runSlots(k)
	}
}
func (world) Rule(p string) string {
	switch p {
	case "C24":
		return "one run = a real babe.VerificationManager over real dot/state BlockState/EpochState/SlotState on the simulated disk inside a synctest bubble; 1-5 sr25519 authorities per epoch derived from tape bytes, epoch configurations drawn per epoch (c in {1/1,1/2,1/4,3/4,1/10,1/200}, SecondarySlots 0/1/2), a short imported base chain spanning epochs 0..2 whose later epochs are announced by NextEpochData/NextConfigData digests (in memory, reloaded after a restart, or persisted); 4-12 blocks (children of genesis or of a base-chain block, in the parent's epoch or the next) are authored either through the node's own lottery (claimSlot) and buildBlockSeal, or by a Byzantine author (secondary claim of a kind the configuration forbids, wrong/out-of-range authority index, another authority's secondary slot, primary claim over the threshold, flipped VRF output/proof bit, flipped seal bit, seal by another authority or an outsider, seal over another header, missing seal/pre-digest/empty digest, VRF made for another epoch or randomness, slot relabelled). Each is passed to VerifyBlock (same object or re-decoded from its SCALE encoding) and the result compared with an independent predicate (own transcript, own threshold in 320-bit floats, own secondary-author formula, own seal check). Non-trivial = at least one block accepted and one rejected; distinct = distinct event-kind sequence. One more behaviour: an item (seal-typed, seal-typed of another engine, or a consensus item) is inserted into the digest AFTER the header was sealed honestly - the seal then no longer covers the header without the seal."
	case "C27":
		return "one run = a real dot/state SlotState on the simulated disk inside a synctest bubble. 3 of 4 runs: 8-60 steps of CheckEquivocation(slotNow from the node's clock = bubble clock + skew) for 1-3 signers with identical, conflicting (same number/other root, other number, other digest), late, future and out-of-order headers, header slots concentrated at slotNow, slotNow-1000+-2, the first saved slot +-2 and the stretch the next pruning removes, clock jumps of 1, ~1000, first+2000+-2 and thousands of slots, backward clock corrections, slot numbers near zero, restarts (new SlotState over the same disk), injected write errors/lost acks. 1 of 4 runs: the same oracle observes CheckEquivocation as called by the real VerificationManager.VerifyBlock for honestly authored blocks that are sent once, again (same object or re-decoded) and in conflicting versions, among them blocks whose author's clock is 1, 2 or about 1000/2000/2600 slots ahead of the node's, with pauses of one slot, 2-31 slots or about 1000/2000 slots; in these runs the reference is driven by the slot the node's own clock shows at the moment of the call, whatever the verifier passes down. Oracle: reference slot tables (Substrate check_equivocation rules; the side of the exact 1000/2000 bounds is left open by a 4-member family). Non-trivial = at least one proof or one pruning."
	}
	return ""
}
func (world) Components(p string) ([]string, []string) {
	switch p {
	case "C24":
		return []string{"lib/babe VerificationManager.VerifyBlock, verifier.verifyAuthorshipRight/verifyPreRuntimeDigest/verifyPrimarySlotWinner, verifySecondarySlotPlain/VRF, checkPrimaryThreshold, CalculateThreshold", "lib/babe claimSlot/claimPrimarySlot/claimSecondarySlotPlain/claimSecondarySlotVRF, BlockBuilder.buildBlockSeal (authors)", "dot/state BlockState, EpochState (GetEpochForBlock, GetEpochDataRaw, GetConfigData, HandleBABEDigest, reload), SlotState", "dot/types header/digest/BABE pre-digest SCALE codecs", "lib/crypto/sr25519 (schnorrkel VRF and signatures)"},
			[]string{"disk (simdisk)", "clock (synctest bubble)", "network (blocks handed to VerifyBlock directly)", "block import of the base chain (AddBlock + HandleBABEDigest called by the harness as dot/digest does)", "runtime (none: equivocation reports cannot be submitted)", "telemetry"}
	case "C27":
		return []string{"dot/state SlotState.CheckEquivocation", "lib/babe verifier.verifyBlockEquivocation + VerifyBlock (1 of 4 runs)", "internal/database table/batch wrappers", "dot/types header SCALE codec"},
			[]string{"disk (simdisk, with injected write errors)", "clock (synctest bubble + skew)", "runtime (none: the equivocation report is not submitted)", "network"}
	}
	return nil, nil
}
func (world) Budget(p, tier string) (int, time.Duration) {
	if tier == "thorough" {
		return 2000000, 8 * time.Minute
	}
	return 200000, 40 * time.Second
}

func TestVerif(t *testing.T) { kernel.Main(t, world{}) }
