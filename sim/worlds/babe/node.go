// Package babe is the BABE world of the /verif simulator: C24 (verification
// accepts exactly authorised blocks) and C27 (slot equivocations are detected
// exactly). Real lib/babe claiming, sealing and verification code over real
// dot/state BlockState / EpochState / SlotState on the simulated disk.
package babe

import (
	"encoding/binary"
	"encoding/json"
	"errors"
	"fmt"
	"math"
	"math/big"
	"time"

	"github.com/ChainSafe/gossamer/dot/state"
	"github.com/ChainSafe/gossamer/dot/types"
	rbabe "github.com/ChainSafe/gossamer/lib/babe"
	"github.com/ChainSafe/gossamer/lib/common"
	"github.com/ChainSafe/gossamer/lib/crypto/sr25519"
	"github.com/ChainSafe/gossamer/lib/runtime"
	"github.com/ChainSafe/gossamer/pkg/scale"
	"github.com/ChainSafe/gossamer/verifsim/kernel"
	"github.com/ChainSafe/gossamer/verifsim/simdisk"
	"github.com/gtank/merlin"
	"golang.org/x/crypto/blake2b"
)

type noTelemetry struct{}

func (noTelemetry) SendMessage(json.Marshaler) {}

// ---- deterministic key material ------------------------------------------

func keyFromSeed(salt [4]byte, i int) *sr25519.Keypair {
	s := blake2b.Sum256(append(append([]byte("verif-babe-key"), salt[:]...), byte(i)))
	kp, err := sr25519.NewKeypairFromSeed(s[:])
	if err != nil {
		panic(err)
	}
	return kp
}

func pubBytes(kp *sr25519.Keypair) [32]byte {
	return kp.Public().(*sr25519.PublicKey).AsBytes()
}

// ---- reference epoch description (what the statement calls "the epoch
// configuration") --------------------------------------------------------------

type refEpoch struct {
	keys   []*sr25519.Keypair // authority i's key pair (the simulator plays all authors)
	auths  []types.AuthorityRaw
	rand   [32]byte
	c1, c2 uint64
	sec    byte     // 0 = primary only, 1 = primary + secondary plain, 2 = primary + secondary VRF
	thr    *big.Int // independent threshold, floor(2^128 * (1-(1-c)^(1/n))), 2^128 if c == 1
}

var two128 = new(big.Int).Lsh(big.NewInt(1), 128)

// thresholdBand is the half-width of the band around the independently
// computed threshold in which no verdict is asserted: the code (like
// Substrate) computes the threshold in float64, the reference with 320-bit
// floats; the difference is bounded by a few ulps of 1.0 times 2^128.
var thresholdBand = new(big.Int).Lsh(big.NewInt(1), 84)

// refThreshold computes floor(2^128 * (1 - (1 - c1/c2)^(1/n))) with big
// floats (Newton iteration for the n-th root).
func refThreshold(c1, c2 uint64, n int) *big.Int {
	const prec = 320
	if c1 >= c2 {
		return new(big.Int).Set(two128)
	}
	x := new(big.Float).SetPrec(prec).Quo(
		new(big.Float).SetPrec(prec).SetUint64(c2-c1),
		new(big.Float).SetPrec(prec).SetUint64(c2)) // 1 - c
	var y *big.Float
	if n == 1 {
		y = x
	} else {
		xf, _ := x.Float64()
		y = new(big.Float).SetPrec(prec).SetFloat64(math.Pow(xf, 1/float64(n)))
		nf := new(big.Float).SetPrec(prec).SetInt64(int64(n))
		n1 := new(big.Float).SetPrec(prec).SetInt64(int64(n - 1))
		for it := 0; it < 12; it++ {
			// y <- ((n-1) y + x / y^(n-1)) / n
			p := new(big.Float).SetPrec(prec).SetInt64(1)
			for j := 0; j < n-1; j++ {
				p.Mul(p, y)
			}
			t := new(big.Float).SetPrec(prec).Quo(x, p)
			t.Add(t, new(big.Float).SetPrec(prec).Mul(n1, y))
			y = t.Quo(t, nf)
		}
	}
	p := new(big.Float).SetPrec(prec).Sub(new(big.Float).SetPrec(prec).SetInt64(1), y)
	p.Mul(p, new(big.Float).SetPrec(prec).SetInt(two128))
	out, _ := p.Int(nil)
	return out
}

// refTranscript is the BABE VRF transcript written from the specification
// (merlin "BABE"; slot number, current epoch as LE u64; chain randomness).
func refTranscript(randomness [32]byte, slot, epoch uint64) *merlin.Transcript {
	t := merlin.NewTranscript("BABE")
	var b [8]byte
	binary.LittleEndian.PutUint64(b[:], slot)
	t.AppendMessage([]byte("slot number"), b[:])
	binary.LittleEndian.PutUint64(b[:], epoch)
	t.AppendMessage([]byte("current epoch"), b[:])
	t.AppendMessage([]byte("chain randomness"), randomness[:])
	return t
}

// refSecondaryAuthor: big-endian BLAKE2b-256(randomness || slot LE u64) mod n (statement of C25).
func refSecondaryAuthor(randomness [32]byte, slot uint64, n int) uint32 {
	var b [8]byte
	binary.LittleEndian.PutUint64(b[:], slot)
	h := blake2b.Sum256(append(append([]byte{}, randomness[:]...), b[:]...))
	v := new(big.Int).SetBytes(h[:])
	return uint32(v.Mod(v, big.NewInt(int64(n))).Uint64())
}

// vrfValue returns the 128-bit lottery value of a VRF output (LE u128 of the
// 16 "substrate-babe-vrf" bytes), or ok=false if the output is not a valid point.
func vrfValue(pub *sr25519.PublicKey, randomness [32]byte, slot, epoch uint64, out [32]byte) (*big.Int, bool) {
	io, err := sr25519.AttachInput(out, pub, refTranscript(randomness, slot, epoch))
	if err != nil {
		return nil, false
	}
	b, err := io.MakeBytes(16, []byte("substrate-babe-vrf"))
	if err != nil {
		return nil, false
	}
	be := make([]byte, 16)
	for i := range b {
		be[15-i] = b[i]
	}
	return new(big.Int).SetBytes(be), true
}

// ---- claims ----------------------------------------------------------------

const (
	kindPrimary = 1
	kindPlain   = 2
	kindVRF     = 3
)

var kindName = map[int]string{kindPrimary: "primary", kindPlain: "secondary-plain", kindVRF: "secondary-vrf"}

// claim is the structured content of a BABE pre-digest as the author intends it.
type claim struct {
	kind  int
	idx   uint32
	slot  uint64
	out   [32]byte
	proof [64]byte
}

func (c claim) preDigest() *types.PreRuntimeDigest {
	var pd *types.PreRuntimeDigest
	var err error
	switch c.kind {
	case kindPrimary:
		pd, err = types.NewBabePrimaryPreDigest(c.idx, c.slot, c.out, c.proof).ToPreRuntimeDigest()
	case kindPlain:
		pd, err = types.NewBabeSecondaryPlainPreDigest(c.idx, c.slot).ToPreRuntimeDigest()
	case kindVRF:
		pd, err = types.NewBabeSecondaryVRFPreDigest(c.idx, c.slot, c.out, c.proof).ToPreRuntimeDigest()
	}
	if err != nil {
		panic(err)
	}
	return pd
}

// claimFromPreDigest reads back what the node's own lottery produced.
func claimFromPreDigest(pd *types.PreRuntimeDigest) claim {
	v, err := types.DecodeBabePreDigest(pd.Data)
	if err != nil {
		panic(err)
	}
	switch d := v.(type) {
	case types.BabePrimaryPreDigest:
		return claim{kind: kindPrimary, idx: d.AuthorityIndex, slot: d.SlotNumber, out: d.VRFOutput, proof: d.VRFProof}
	case types.BabeSecondaryPlainPreDigest:
		return claim{kind: kindPlain, idx: d.AuthorityIndex, slot: d.SlotNumber}
	case types.BabeSecondaryVRFPreDigest:
		return claim{kind: kindVRF, idx: d.AuthorityIndex, slot: d.SlotNumber, out: d.VrfOutput, proof: d.VrfProof}
	}
	panic("unknown pre-digest")
}

// judgeClaim is the independent predicate of C24 for the claim part:
// valid / invalid / unsure (borderline threshold: nothing is asserted).
func judgeClaim(c claim, ep *refEpoch, epoch uint64) (valid, unsure bool, why string) {
	n := len(ep.auths)
	if uint64(c.idx) >= uint64(n) {
		return false, false, "authority index out of range"
	}
	pub := ep.keys[c.idx].Public().(*sr25519.PublicKey)
	vrfOK := func() bool {
		ok, err := pub.VrfVerify(refTranscript(ep.rand, c.slot, epoch), c.out, c.proof)
		return err == nil && ok
	}
	switch c.kind {
	case kindPrimary:
		if !vrfOK() {
			return false, false, "primary claim: VRF proof invalid"
		}
		v, ok := vrfValue(pub, ep.rand, c.slot, epoch, c.out)
		if !ok {
			return false, false, "primary claim: VRF output invalid"
		}
		d := new(big.Int).Sub(v, ep.thr)
		if d.CmpAbs(thresholdBand) <= 0 && ep.thr.Cmp(two128) != 0 {
			return false, true, "primary claim: VRF value within the float band of the threshold"
		}
		if v.Cmp(ep.thr) >= 0 {
			return false, false, "primary claim: VRF value not below the epoch threshold"
		}
		return true, false, "primary claim below threshold"
	case kindPlain:
		if ep.sec != 1 {
			return false, false, fmt.Sprintf("secondary plain claim but the epoch allows secondary kind %d", ep.sec)
		}
		if c.idx != refSecondaryAuthor(ep.rand, c.slot, n) {
			return false, false, "secondary plain claim by an authority the slot is not assigned to"
		}
		return true, false, "secondary plain claim by the assigned authority"
	case kindVRF:
		if ep.sec != 2 {
			return false, false, fmt.Sprintf("secondary VRF claim but the epoch allows secondary kind %d", ep.sec)
		}
		if c.idx != refSecondaryAuthor(ep.rand, c.slot, n) {
			return false, false, "secondary VRF claim by an authority the slot is not assigned to"
		}
		if !vrfOK() {
			return false, false, "secondary VRF claim: VRF proof invalid"
		}
		return true, false, "secondary VRF claim by the assigned authority"
	}
	return false, false, "unknown claim kind"
}

// sealValid: the seal must be a signature of authority idx over the BLAKE2b-256
// of the SCALE encoding of the header without the seal.
func sealValid(unsealed *types.Header, seal []byte, ep *refEpoch, idx uint32) bool {
	if uint64(idx) >= uint64(len(ep.keys)) {
		return false
	}
	enc, err := scale.Marshal(*unsealed)
	if err != nil {
		panic(err)
	}
	h := blake2b.Sum256(enc)
	ok, err := ep.keys[idx].Public().(*sr25519.PublicKey).Verify(h[:], seal)
	return err == nil && ok
}

// headerKey identifies a header by content (fresh SCALE encoding, never the cached hash).
func headerKey(h *types.Header) string {
	enc, err := scale.Marshal(*h)
	if err != nil {
		panic(err)
	}
	return string(enc)
}

func copyHeaderViaWire(h *types.Header) *types.Header {
	enc, err := scale.Marshal(*h)
	if err != nil {
		panic(err)
	}
	out := types.NewEmptyHeader()
	if err := scale.Unmarshal(enc, out); err != nil {
		panic(err)
	}
	return out
}

// ---- node ------------------------------------------------------------------

type chainBlock struct {
	hdr    *types.Header
	hash   common.Hash
	number uint
	slot   uint64
	epoch  uint64
	side   bool // on the side branch that announces other data for the last epoch
}

// stubRuntime stands in for the Wasm runtime: it only receives equivocation
// reports. Any other call hits the nil embedded interface (harness trouble).
type stubRuntime struct {
	runtime.Instance
	reports []types.BabeEquivocationProof
}

func (s *stubRuntime) BabeGenerateKeyOwnershipProof(slot uint64, id [32]byte) (types.OpaqueKeyOwnershipProof, error) {
	return types.OpaqueKeyOwnershipProof{1}, nil
}

func (s *stubRuntime) BabeSubmitReportEquivocationUnsignedExtrinsic(p types.BabeEquivocationProof, _ types.OpaqueKeyOwnershipProof) error {
	s.reports = append(s.reports, p)
	return nil
}

type node struct {
	rt      *stubRuntime
	k       *kernel.K
	disk    *simdisk.Disk
	cfg     *types.BabeConfiguration
	genesis *types.Header
	bs      *state.BlockState
	es      *state.EpochState
	ss      *state.SlotState
	vm      *rbabe.VerificationManager
	slotTap rbabe.SlotState // what the verification manager is given (nil = ss)
}

func (n *node) open(fresh bool) {
	db := n.disk.Open()
	tries := state.NewTries()
	tries.SetEmptyTrie()
	var err error
	if fresh {
		n.bs, err = state.NewBlockStateFromGenesis(db, tries, n.genesis, noTelemetry{})
	} else {
		n.bs, err = state.NewBlockState(db, tries, noTelemetry{})
	}
	if err != nil {
		panic(fmt.Sprintf("block state (fresh=%v): %v", fresh, err))
	}
	if fresh {
		n.es, err = state.NewEpochStateFromGenesis(db, n.bs, n.cfg)
	} else {
		n.es, err = state.NewEpochState(db, n.bs, n.cfg)
	}
	if err != nil {
		panic(fmt.Sprintf("epoch state (fresh=%v): %v", fresh, err))
	}
	if n.rt == nil {
		n.rt = &stubRuntime{}
	}
	n.bs.StoreRuntime(n.bs.GenesisHash(), n.rt)
	n.ss = state.NewSlotState(db)
	var tap rbabe.SlotState = n.ss
	if n.slotTap != nil {
		tap = n.slotTap
	}
	n.vm = rbabe.NewVerificationManager(n.bs, tap, n.es)
}

func (n *node) slotDuration() time.Duration {
	return time.Duration(n.cfg.SlotDuration) * time.Millisecond
}

func (n *node) importBlock(h *types.Header) {
	if err := n.bs.AddBlock(&types.Block{Header: *h, Body: *types.NewBody([]types.Extrinsic{})}); err != nil {
		panic(fmt.Sprintf("AddBlock #%d: %v", h.Number, err))
	}
}

// errClass maps a verification error to a stable, hash-free name.
func errClass(err error) string {
	switch {
	case err == nil:
		return "accepted"
	case errors.Is(err, rbabe.ErrBadSignature):
		return "bad-signature"
	case errors.Is(err, rbabe.ErrVRFOutputOverThreshold):
		return "vrf-over-threshold"
	case errors.Is(err, rbabe.ErrBadSecondarySlotClaim):
		return "bad-secondary-claim"
	case errors.Is(err, rbabe.ErrBadSlotClaim):
		return "bad-slot-claim"
	case errors.Is(err, rbabe.ErrInvalidBlockProducerIndex):
		return "invalid-producer-index"
	case errors.Is(err, rbabe.ErrProducerEquivocated):
		return "producer-equivocated"
	case errors.Is(err, rbabe.ErrAuthIndexOutOfBound):
		return "auth-index-out-of-bound"
	case errors.Is(err, rbabe.VerifErrMissingDigestItems):
		return "missing-digest-items"
	case errors.Is(err, rbabe.VerifErrLastDigestItemNotSeal):
		return "last-item-not-seal"
	case errors.Is(err, types.ErrNoFirstPreDigest):
		return "first-item-not-pre-digest"
	}
	return "other-error"
}
