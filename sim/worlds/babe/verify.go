package babe

import (
	"fmt"
	"math/big"
	"testing/synctest"
	"time"

	"github.com/ChainSafe/gossamer/dot/types"
	rbabe "github.com/ChainSafe/gossamer/lib/babe"
	"github.com/ChainSafe/gossamer/lib/crypto/sr25519"
	"github.com/ChainSafe/gossamer/verifsim/kernel"
)

// ---- C24 driver ----------------------------------------------------------------

var tamperNames = []string{
	"honest", "honest", "honest", // weight 3
	"wrong-kind", "wrong-kind",
	"wrong-index", "others-secondary-slot", "primary-over-threshold",
	"vrf-output-altered", "vrf-proof-altered",
	"seal-altered", "seal-by-other-authority", "seal-over-other-header",
	"missing-seal", "missing-pre-digest", "empty-digest",
	"wrong-epoch-vrf", "slot-relabelled",
	"two-pre-digests", "foreign-engine-id",
	"item-inserted-after-sealing",
}

type pairKey struct {
	slot uint64
	key  [32]byte
}

func runVerify(k *kernel.K) {
	maxEpoch := k.Choose(3, "max-epoch")
	sc := newScenario(k, nil)
	sc.build(maxEpoch)
	n := sc.n
	e0 := sc.epochs[0]
	k.Event("genesis", "epoch-length=%d slot-duration=%dms authorities=%d c=%d/%d secondary=%d chain=%d blocks epochs=0..%d",
		sc.L, n.cfg.SlotDuration, len(e0.auths), e0.c1, e0.c2, e0.sec, len(sc.chain)-1, maxEpoch)
	// cross-check of the independent threshold against the one the node uses (probe only: C25's subject)
	for _, ep := range sc.epochs {
		rt := realThreshold(ep)
		rv := new(big.Int).Add(new(big.Int).Lsh(new(big.Int).SetUint64(rt.Upper), 64), new(big.Int).SetUint64(rt.Lower))
		d := new(big.Int).Sub(rv, ep.thr)
		if d.CmpAbs(thresholdBand) > 0 {
			k.Probe("threshold-differs-from-reference")
		}
	}
	seen := map[pairKey]bool{}
	usedSlot := map[uint64]int{}
	blocks := k.Range(4, 12, "blocks")
	accepted, rejected := 0, 0
	for b := 0; b < blocks; b++ {
		if k.Bool(1, 4, "clock-advance") {
			time.Sleep(time.Duration(1+k.Choose(3, "clock-slots")) * n.slotDuration())
		}
		if k.Bool(1, 12, "restart") {
			sc.restart()
			k.Fault("restart")
			k.Event("restart", "node reloaded from disk, base chain imported again")
		}
		// parent and epoch
		pi := k.Choose(len(sc.chain), "parent")
		parent := sc.chain[pi]
		epoch := uint64(0)
		if parent.number > 0 {
			epoch = parent.epoch
			if int(epoch) < maxEpoch && sc.declared(pi, epoch+1) && k.Bool(1, 2, "next-epoch") {
				epoch++
			}
		}
		ep := sc.epochRef(parent, epoch)
		var slot uint64
		if parent.number == 0 {
			slot = sc.S0 + uint64(k.Choose(int(2*sc.L), "slot"))
		} else {
			lo := sc.S0 + epoch*sc.L
			if parent.slot+1 > lo && parent.slot+1 < lo+sc.L && !k.Bool(1, 6, "slot-not-after-parent") {
				lo = parent.slot + 1
			}
			slot = lo + uint64(k.Choose(int(sc.S0+(epoch+1)*sc.L-lo), "slot"))
		}
		tamper := tamperNames[k.Choose(len(tamperNames), "behaviour")]
		d, ok := sc.author(tamper, parent, ep, epoch, slot, usedSlot[slot])
		if !ok {
			k.Event("no-block", "slot S0+%d epoch %d behaviour %s: nobody could author", slot-sc.S0, epoch, tamper)
			continue
		}
		usedSlot[slot]++
		if !d.noPre && parent.number > 0 {
			// the block's epoch follows from the slot it claims (a relabelled slot may leave the epoch)
			if e2 := sc.refEpochOf(parent, d.c.slot); e2 != epoch {
				if e2 != epoch+1 || int(e2) > maxEpoch || !sc.declared(pi, e2) {
					k.Probe("claimed-slot-outside-known-epochs")
					continue
				}
				epoch, ep = e2, sc.epochRef(parent, e2)
			}
		}
		blk := sc.buildBlock(d)
		// ---- the independent verdict ----
		valid, unsure, why := false, false, ""
		switch {
		case d.noPre:
			why = "no-pre-digest"
		case d.noSeal || d.sealer == nil:
			why = "no-seal"
		case d.secondPre != nil || d.foreignPre || d.foreignSeal:
			unsure, why = true, "not-covered-by-the-statement"
		default:
			cv, cu, cw := judgeClaim(d.c, ep, epoch)
			sv := sealValid(blk.unsealed, blk.seal, ep, d.c.idx)
			switch {
			case !sv:
				why = "seal"
				if !cv && !cu {
					why = cw
				}
			case cu:
				unsure, why = true, cw
			case !cv:
				why = cw
			default:
				valid, why = true, cw
			}
		}
		pk := pairKey{slot: d.c.slot}
		if !d.noPre && uint64(d.c.idx) < uint64(len(ep.auths)) {
			pk.key = ep.auths[d.c.idx].Key
		}
		if valid && seen[pk] {
			// a second valid block of the same author in the same slot is an
			// equivocation; what verification does with it is C27's subject
			k.Probe("equivocating-valid-block-not-sent")
			continue
		}
		hdr := blk.hdr
		if k.Bool(1, 2, "via-wire") {
			hdr = copyHeaderViaWire(hdr)
		}
		before := headerKey(hdr)
		err := n.vm.VerifyBlock(hdr)
		synctest.Wait()
		got := errClass(err) // only for violation classes: for tampered seals/proofs it depends on schnorrkel's random nonces
		verdict := "rejected"
		if err == nil {
			verdict = "accepted"
		}
		k.Event("verify", "#%d parent=#%d epoch=%d slot=S0+%d claim=%s idx=%d behaviour=%s (n=%d c=%d/%d secondary=%d) reference=%s -> %s",
			hdr.Number, parent.number, epoch, d.c.slot-sc.S0, kindName[d.c.kind], d.c.idx, tamper, len(ep.auths), ep.c1, ep.c2, ep.sec,
			map[bool]string{true: "valid", false: "invalid:" + codeOf(why)}[valid], verdict)
		if tamper != "honest" {
			k.Fault("byzantine-" + tamper)
		}
		if err == nil {
			accepted++
			seen[pk] = true
		} else {
			rejected++
		}
		if headerKey(hdr) != before {
			k.Probe("header-changed-by-verification")
		}
		switch {
		case unsure:
			k.Probe("unasserted-" + tamper + "-" + verdict)
		case tamper == "honest" && err != nil:
			k.Violate("C24", "honest-claim-passes", fmt.Sprintf("rejected-honest/%s/sec=%d/%s", kindName[d.c.kind], ep.sec, got),
				"a block authored through the node's own slot lottery (%s claim, authority %d of %d, epoch %d, c=%d/%d, secondary=%d, parent #%d) and sealed by buildBlockSeal was rejected: %s",
				kindName[d.c.kind], d.c.idx, len(ep.auths), epoch, ep.c1, ep.c2, ep.sec, parent.number, errText(err))
		case tamper == "honest" && !valid:
			k.Violate("C24", "lottery-vs-statement", fmt.Sprintf("lottery-claim-not-authorised/%s/sec=%d/%s", kindName[d.c.kind], ep.sec, codeOf(why)),
				"the node's own lottery produced a %s claim (authority %d of %d, epoch %d, secondary=%d) which the statement does not authorise: %s",
				kindName[d.c.kind], d.c.idx, len(ep.auths), epoch, ep.sec, why)
		case valid && err != nil:
			k.Violate("C24", "authorised-block-passes", fmt.Sprintf("rejected-valid/%s/%s/sec=%d/%s", tamper, kindName[d.c.kind], ep.sec, got),
				"an authorised and correctly sealed block (%s claim, authority %d of %d, epoch %d, c=%d/%d, secondary=%d, behaviour %s: %s) was rejected: %s",
				kindName[d.c.kind], d.c.idx, len(ep.auths), epoch, ep.c1, ep.c2, ep.sec, tamper, why, errText(err))
		case !valid && err == nil:
			k.Violate("C24", "unauthorised-block-rejected", fmt.Sprintf("accepted-invalid/%s/%s/sec=%d", codeOf(why), kindName[d.c.kind], ep.sec),
				"VerifyBlock accepted a block that is not authorised: %s (behaviour %s; %s claim, authority index %d of %d, epoch %d, c=%d/%d, secondary=%d, parent #%d)",
				why, tamper, kindName[d.c.kind], d.c.idx, len(ep.auths), epoch, ep.c1, ep.c2, ep.sec, parent.number)
		}
		if valid {
			k.Probe("valid-" + kindName[d.c.kind])
		} else if !unsure {
			k.Probe("invalid-" + codeOf(why))
		}
	}
	if accepted > 0 && rejected > 0 {
		k.Nontriv = true
	}
}

// codeOf shortens a judge reason to a stable code.
func codeOf(why string) string {
	switch why {
	case "no-pre-digest", "no-seal", "seal":
		return why
	case "authority index out of range":
		return "index-out-of-range"
	case "primary claim: VRF proof invalid", "secondary VRF claim: VRF proof invalid", "primary claim: VRF output invalid":
		return "vrf-invalid"
	case "primary claim: VRF value not below the epoch threshold":
		return "over-threshold"
	case "secondary plain claim by an authority the slot is not assigned to", "secondary VRF claim by an authority the slot is not assigned to":
		return "not-assigned-authority"
	case "primary claim below threshold", "secondary plain claim by the assigned authority", "secondary VRF claim by the assigned authority":
		return "ok"
	}
	if len(why) > 15 && (why[:15] == "secondary plain" || why[:13] == "secondary VRF") {
		return "kind-not-allowed"
	}
	return "other"
}

// author puts a block together for the given behaviour. ok=false: nothing
// could be authored (e.g. nobody won the slot).
func (sc *scenario) author(tamper string, parent *chainBlock, ep *refEpoch, epoch, slot uint64, salt int) (*draft, bool) {
	k := sc.k
	n := len(ep.keys)
	d := &draft{parent: parent, sealFlip: -1, salt: byte(salt), mid: k.Bool(1, 4, "middle-digest-item")}
	start := k.Choose(n, "first-author")
	honest := func() bool {
		for try := 0; try < 3; try++ {
			if c, ok := sc.honestClaim(ep, epoch, slot+uint64(try), start); ok {
				// stay inside the epoch when the slot had to move
				if try > 0 && parent.number > 0 && sc.refEpochOf(parent, slot+uint64(try)) != epoch {
					return false
				}
				d.c = c
				d.sealer = ep.keys[c.idx]
				return true
			}
		}
		return false
	}
	vrfSign := func(kp *sr25519.Keypair, r [32]byte, s, e uint64) (out [32]byte, proof [64]byte) {
		out, proof, err := kp.VrfSign(refTranscript(r, s, e))
		if err != nil {
			panic(err)
		}
		return out, proof
	}
	// the authority the real claiming code lets take the secondary slot
	secondaryOwner := func() int {
		for i := 0; i < n; i++ {
			if rbabe.VerifClaimSecondarySlotPlain(ep.rand, slot, ep.auths, uint32(i)) == nil {
				return i
			}
		}
		return -1
	}
	switch tamper {
	case "honest":
		return d, honest()
	case "wrong-kind":
		// a secondary claim of a kind the configuration does not allow, by the rightful secondary author
		kind := kindPlain
		switch ep.sec {
		case 1:
			kind = kindVRF
		case 0:
			kind = kindPlain + k.Choose(2, "forbidden-kind")
		}
		i := secondaryOwner()
		if i < 0 {
			return d, false
		}
		d.c = claim{kind: kind, idx: uint32(i), slot: slot}
		if kind == kindVRF {
			out, proof, err := rbabe.VerifClaimSecondarySlotVRF(ep.rand, slot, epoch, ep.auths, ep.keys[i], uint32(i))
			if err != nil {
				return d, false
			}
			d.c.out, d.c.proof = out, proof
		}
		d.sealer = ep.keys[i]
		return d, true
	case "wrong-index":
		if !honest() {
			return d, false
		}
		orig := d.c.idx
		switch k.Choose(4, "index-kind") {
		case 0:
			d.c.idx = uint32((int(orig) + 1 + k.Choose(n, "index-shift")) % (n + 1)) // another index, possibly n
		case 1:
			d.c.idx = uint32(n)
		case 2:
			d.c.idx = uint32(n + 1 + k.Choose(300, "index-beyond"))
		default:
			d.c.idx = 0xffffffff
		}
		if int(d.c.idx) < n && k.Bool(1, 2, "sealed-by-indexed-authority") {
			d.sealer = ep.keys[d.c.idx]
		}
		return d, true
	case "others-secondary-slot":
		i := secondaryOwner()
		if i < 0 || n < 2 {
			return d, false
		}
		j := (i + 1 + k.Choose(n-1, "thief")) % n
		kind := kindPlain
		if ep.sec == 2 || (ep.sec == 0 && k.Bool(1, 2, "thief-vrf")) {
			kind = kindVRF
		}
		d.c = claim{kind: kind, idx: uint32(j), slot: slot}
		if kind == kindVRF {
			d.c.out, d.c.proof = vrfSign(ep.keys[j], ep.rand, slot, epoch)
		}
		d.sealer = ep.keys[j]
		return d, true
	case "primary-over-threshold":
		for try := 0; try < 4; try++ {
			i := (start + try) % n
			s := slot
			out, proof := vrfSign(ep.keys[i], ep.rand, s, epoch)
			v, ok := vrfValue(ep.keys[i].Public().(*sr25519.PublicKey), ep.rand, s, epoch, out)
			if ok && v.Cmp(ep.thr) >= 0 {
				d.c = claim{kind: kindPrimary, idx: uint32(i), slot: s, out: out, proof: proof}
				d.sealer = ep.keys[i]
				return d, true
			}
		}
		return d, false
	case "vrf-output-altered", "vrf-proof-altered":
		if !honest() || d.c.kind == kindPlain {
			return d, false
		}
		bit := k.Choose(256, "vrf-bit")
		if tamper == "vrf-output-altered" {
			d.c.out[bit/8] ^= 1 << (bit % 8)
		} else {
			bit += 256 * k.Choose(2, "vrf-proof-half")
			d.c.proof[bit/8] ^= 1 << (bit % 8)
		}
		return d, true
	case "seal-altered":
		if !honest() {
			return d, false
		}
		d.sealFlip = k.Choose(512, "seal-bit")
		return d, true
	case "seal-by-other-authority":
		if !honest() {
			return d, false
		}
		if n >= 2 && !k.Bool(1, 3, "outsider") {
			d.sealer = ep.keys[(int(d.c.idx)+1+k.Choose(n-1, "other-sealer"))%n]
		} else {
			d.sealer = sc.key(7) // a key outside every authority set
		}
		return d, true
	case "seal-over-other-header":
		if !honest() {
			return d, false
		}
		d.sealOther = true
		return d, true
	case "missing-seal":
		if !honest() {
			return d, false
		}
		d.noSeal = true
		d.mid = k.Bool(1, 2, "two-items-without-seal")
		return d, true
	case "missing-pre-digest":
		if !honest() {
			return d, false
		}
		d.noPre = true
		return d, true
	case "empty-digest":
		if !honest() {
			return d, false
		}
		d.noPre, d.noSeal, d.mid = true, true, false
		return d, true
	case "wrong-epoch-vrf":
		// the VRF is made for another epoch index or with another epoch's randomness
		r, e := ep.rand, epoch
		if len(sc.epochs) > 1 && k.Bool(1, 2, "other-randomness") {
			r = sc.epochs[(int(epoch)+1)%len(sc.epochs)].rand
		} else {
			e = epoch + 1
		}
		i := start
		kind := kindPrimary
		if ep.sec == 2 && k.Bool(1, 2, "as-secondary") {
			kind = kindVRF
			if o := secondaryOwner(); o >= 0 {
				i = o
			}
		}
		d.c = claim{kind: kind, idx: uint32(i), slot: slot}
		d.c.out, d.c.proof = vrfSign(ep.keys[i], r, slot, e)
		d.sealer = ep.keys[i]
		return d, true
	case "slot-relabelled":
		if !honest() {
			return d, false
		}
		d.c.slot += uint64(1 + k.Choose(3, "relabel"))
		return d, true
	case "two-pre-digests":
		if !honest() {
			return d, false
		}
		second := d.c
		second.slot++
		d.secondPre = &second
		return d, true
	case "item-inserted-after-sealing":
		// anybody can do this to an honestly sealed header: the seal then no longer covers "the header without the seal"
		if !honest() {
			return d, false
		}
		d.afterSeal = 1 + k.Choose(3, "inserted-item-kind")
		return d, true
	case "foreign-engine-id":
		if !honest() {
			return d, false
		}
		if k.Bool(1, 2, "on-seal") {
			d.foreignSeal = true
		} else {
			d.foreignPre = true
		}
		return d, true
	}
	panic("unknown behaviour " + tamper)
}

// ---- C27 driver: through the verifier (the caller of CheckEquivocation) -----------

type tapCall struct {
	now, slot uint64
	clock     uint64 // the slot the node's clock shows at the time of the call
	hdr       *types.Header // snapshot of the header as it was passed
	signer    types.AuthorityID
	proof     *types.BabeEquivocationProof
	err       error
}

type slotTap struct {
	inner rbabe.SlotState
	calls []tapCall
	dur   time.Duration
}

func (t *slotTap) CheckEquivocation(now, slot uint64, h *types.Header, signer types.AuthorityID) (*types.BabeEquivocationProof, error) {
	snap := copyHeaderViaWire(h)
	p, err := t.inner.CheckEquivocation(now, slot, h, signer)
	t.calls = append(t.calls, tapCall{now: now, slot: slot, clock: rbabe.VerifGetCurrentSlot(t.dur), hdr: snap, signer: signer, proof: p, err: err})
	return p, err
}

// runSlotsViaVerifier: every block is honestly authored and sealed (c = 1, every
// slot is a primary slot of every authority), so each VerifyBlock reaches the
// equivocation check with slotNow taken from the node's clock. Blocks are sent
// once, again (same object or a fresh copy from the wire), and in conflicting
// versions.
func runSlotsViaVerifier(k *kernel.K) {
	nAuth := 1 + k.Choose(2, "authorities")
	sc := newScenario(k, func(sc *scenario) *refEpoch {
		return sc.mkEpoch(nAuth, 0, [2]uint64{1, 1}, 0, [32]byte{0x72, byte(nAuth)})
	})
	tap := &slotTap{}
	sc.n.slotTap = tap
	sc.build(0)
	tap.inner = sc.n.ss
	n := sc.n
	tap.dur = n.slotDuration()
	ep := sc.epochs[0]
	or := &slotOracle{k: k, fam: newSlotFamily()}
	k.Event("genesis", "via-verifier authorities=%d slot-duration=%dms", nAuth, n.cfg.SlotDuration)
	type sent struct {
		hdr    *types.Header
		d      *draft
		slot   uint64
		author uint32
	}
	var log []sent
	steps := k.Range(4, 14, "steps")
	serial := 0
	for s := 0; s < steps; s++ {
		var hdr *types.Header
		what := ""
		switch a := k.Choose(8, "action"); {
		case a <= 2 || len(log) == 0: // a new block in the current slot (or close to it)
			now := rbabe.VerifGetCurrentSlot(n.slotDuration())
			slot := uint64(int64(now) - int64(k.Choose(3, "behind")))
			if slot < sc.S0 {
				slot = sc.S0
			}
			parent := sc.chain[k.Choose(len(sc.chain), "parent")]
			if k.Bool(1, 6, "author-clock-ahead") {
				// a validly sealed block whose author's clock runs ahead of ours: by a slot or two, or by
				// about the retention (1000) and pruning (2000) bounds of the table
				ahead := []uint64{1, 2, 998, 999, 1000, 1001, 1999, 2000, 2001, 2600}
				slot = now + ahead[k.Choose(len(ahead), "ahead")]
				k.Fault("header-slot-ahead-of-clock")
			}
			if parent.number > 0 && slot >= sc.S0+sc.L {
				parent = sc.chain[0] // keep to epoch 0
			}
			c, ok := sc.honestClaim(ep, 0, slot, k.Choose(nAuth, "author"))
			if !ok {
				continue
			}
			serial++
			d := &draft{parent: parent, c: c, sealer: ep.keys[c.idx], sealFlip: -1, salt: byte(serial)}
			hdr = sc.buildBlock(d).hdr
			what = "new"
			for _, e := range log {
				if e.slot == c.slot && e.author == c.idx {
					what = "conflicting" // this author already has a block in this slot
				}
			}
			log = append(log, sent{hdr: hdr, d: d, slot: c.slot, author: c.idx})
		case a <= 4: // the same block again
			e := log[k.Choose(len(log), "which")]
			hdr = e.hdr
			what = "again-same-object"
			if k.Bool(1, 2, "from-wire") {
				hdr = copyHeaderViaWire(hdr)
				what = "again-from-wire"
			}
			k.Fault("duplicate")
		case a <= 6: // a conflicting block: same author and slot, other content
			e := log[k.Choose(len(log), "which")]
			serial++
			d2 := *e.d
			d2.salt = byte(serial)
			hdr = sc.buildBlock(&d2).hdr
			log = append(log, sent{hdr: hdr, d: &d2, slot: e.slot, author: e.author})
			what = "conflicting"
			k.Fault("conflicting")
		default:
			switch k.Choose(4, "pause") {
			case 0:
				time.Sleep(n.slotDuration())
			case 1:
				time.Sleep(time.Duration(2+k.Choose(30, "slots")) * n.slotDuration())
			case 3:
				long := []int{990, 999, 1000, 1001, 1990, 2000, 2001}
				time.Sleep(time.Duration(long[k.Choose(len(long), "long-pause")]) * n.slotDuration())
			default:
				sc.restart()
				tap.inner = n.ss
				k.Fault("restart")
			}
			k.Event("pause", "now=S0+%d", int64(rbabe.VerifGetCurrentSlot(n.slotDuration()))-int64(sc.S0))
			continue
		}
		tap.calls = tap.calls[:0]
		err := n.vm.VerifyBlock(hdr)
		synctest.Wait()
		k.Event("verify", "%s #%d -> %s, equivocation checks=%d", what, hdr.Number, errClass2(err), len(tap.calls))
		if len(tap.calls) == 0 {
			k.Probe("verifier-did-not-reach-equivocation-check")
		}
		for _, c := range tap.calls {
			k.Event("check", "now=S0+%d slot=S0+%d proof=%v err=%v", int64(c.now)-int64(sc.S0), int64(c.slot)-int64(sc.S0), c.proof != nil, c.err != nil)
			// the reference is driven by the slot the node's clock shows: what is retained and what
			// is pruned is a matter of the time that has passed, whatever the verifier passes down
			or.observe("via-verifier/"+what, c.clock, c.slot, c.hdr, c.signer, c.proof, c.err, false)
		}
	}
	if or.proofs > 0 {
		k.Nontriv = true
	}
}

// errClass2 distinguishes the errors the equivocation path produces.
func errClass2(err error) string {
	c := errClass(err)
	if c == "other-error" && err != nil {
		return "error"
	}
	return c
}
