package babe

import (
	"fmt"
	"testing/synctest"
	"time"

	"github.com/ChainSafe/gossamer/dot/state"
	"github.com/ChainSafe/gossamer/dot/types"
	rbabe "github.com/ChainSafe/gossamer/lib/babe"
	"github.com/ChainSafe/gossamer/lib/common"
	cu "github.com/ChainSafe/gossamer/verifsim/chainutil"
	"github.com/ChainSafe/gossamer/verifsim/kernel"
	"github.com/ChainSafe/gossamer/verifsim/simdisk"
)

// ---- reference slot table (C27) -------------------------------------------
//
// Written from the statement plus the semantics of Substrate's
// sc-consensus-slots check_equivocation which the statement's "retained
// window" refers to:
//   * a header whose slot is more than 1000 slots older than slotNow is ignored;
//   * nothing happens while slotNow is before the first saved slot;
//   * same signer, same slot: different header recorded => proof (recorded
//     header first, new header second); identical header => nothing;
//   * otherwise the header is recorded; when slotNow has moved 2000 slots past
//     the first saved slot, everything older than slotNow-1000 is pruned.
// The statement does not say on which side the exact bounds fall, so a small
// family of reference tables is kept (window "> 1000" or ">= 1000"; prune at
// ">= 2000" or "> 2000"); a result is a violation only if no member of the
// family that agreed with all earlier results agrees with it. Member 0 is
// Substrate's choice; if it dies while another member survives that is
// reported as a probe, not as a violation.

const (
	slotCapacity = 1000
	slotPruning  = 2000
)

type slotEntry struct {
	signer types.AuthorityID
	key    string
	hdr    *types.Header
}

type slotModel struct {
	name       string
	window     uint64 // ignore iff slotNow - slot > window
	pruneAbove uint64 // prune iff slotNow - first > pruneAbove
	hasFirst   bool
	first      uint64
	table      map[uint64][]slotEntry
	alive      bool
}

func newSlotFamily() []*slotModel {
	mk := func(name string, w, p uint64) *slotModel {
		return &slotModel{name: name, window: w, pruneAbove: p, table: map[uint64][]slotEntry{}, alive: true}
	}
	return []*slotModel{
		mk("substrate", slotCapacity, slotPruning-1),
		mk("window>=1000", slotCapacity-1, slotPruning-1),
		mk("prune>2000", slotCapacity, slotPruning),
		mk("window>=1000,prune>2000", slotCapacity-1, slotPruning),
	}
}

func satSub(a, b uint64) uint64 {
	if a < b {
		return 0
	}
	return a - b
}

type slotOutcome struct {
	what  string // ignored-old | before-first | proof | duplicate | recorded
	first *types.Header
	prune bool
}

// peek computes what this table expects for a check without changing it.
func (m *slotModel) peek(now, slot uint64, key string, signer types.AuthorityID) slotOutcome {
	if satSub(now, slot) > m.window {
		return slotOutcome{what: "ignored-old"}
	}
	first := slot
	if m.hasFirst {
		first = m.first
	}
	if now < first {
		return slotOutcome{what: "before-first"}
	}
	for _, e := range m.table[slot] {
		if e.signer == signer {
			if e.key != key {
				return slotOutcome{what: "proof", first: e.hdr}
			}
			return slotOutcome{what: "duplicate"}
		}
	}
	return slotOutcome{what: "recorded", prune: now-first > m.pruneAbove}
}

// commit applies a "recorded" outcome.
func (m *slotModel) commit(now, slot uint64, key string, signer types.AuthorityID, hdr *types.Header, o slotOutcome) {
	first := slot
	if m.hasFirst {
		first = m.first
	}
	if o.prune {
		nf := satSub(now, slotCapacity)
		for s := range m.table {
			if s >= first && s < nf {
				delete(m.table, s)
			}
		}
		first = nf
	}
	m.table[slot] = append(m.table[slot], slotEntry{signer: signer, key: key, hdr: hdr})
	m.hasFirst, m.first = true, first
}

// slotOracle applies one observed CheckEquivocation call to the family.
type slotOracle struct {
	k      *kernel.K
	fam    []*slotModel
	shadow *slotModel // a table that never prunes: only tells (as a probe) where pruning decided the outcome
	proofs int
	prunes int
}

func sameHeader(a, b *types.Header) bool { return headerKey(a) == headerKey(b) }

// observe compares the result of one real call with the reference family.
// writeFailed: an injected write error hit this call (nothing was stored).
func (o *slotOracle) observe(via string, now, slot uint64, hdr *types.Header, signer types.AuthorityID,
	proof *types.BabeEquivocationProof, err error, writeFailed bool) {
	k := o.k
	key := headerKey(hdr)
	lead := o.lead()
	exp := lead.peek(now, slot, key, signer)
	if d := satSub(now, slot); d == slotCapacity || d == slotCapacity+1 {
		k.Probe("edge-window-" + fmt.Sprint(d))
	}
	if lead.hasFirst && now >= lead.first && (now-lead.first == slotPruning || now-lead.first == slotPruning-1 || now-lead.first == slotPruning+1) {
		k.Probe("edge-prune-bound")
	}
	if err != nil && !writeFailed {
		k.Violate("C27", "check-equivocation", via+"/unexpected-error",
			"CheckEquivocation(now=%d, slot=%d) on a fault-free disk failed (reference expects %q): %s", now, slot, exp.what, errText(err))
		return
	}
	if proof != nil {
		// universal content checks
		if proof.Slot != slot {
			k.Violate("C27", "proof-content", via+"/slot", "proof carries slot %d, checked slot %d", proof.Slot, slot)
		}
		if proof.Offender != signer {
			k.Violate("C27", "proof-content", via+"/offender", "proof names another offender than the checked signer (slot %d)", slot)
		}
		if !sameHeader(&proof.SecondHeader, hdr) {
			k.Violate("C27", "proof-content", via+"/second-header", "second header of the proof is not the checked header (slot %d, number %d vs %d)", slot, proof.SecondHeader.Number, hdr.Number)
		}
	}
	// which members of the family agree with the observed result?
	aliveBefore := 0
	for _, m := range o.fam {
		if m.alive {
			aliveBefore++
		}
	}
	var agree []*slotModel
	var outcomes []slotOutcome
	for _, m := range o.fam {
		if !m.alive {
			continue
		}
		e := m.peek(now, slot, key, signer)
		ok := (e.what == "proof") == (proof != nil)
		if ok && proof != nil && !sameHeader(&proof.FirstHeader, e.first) {
			ok = false
		}
		if writeFailed && e.what != "recorded" {
			ok = false // a write was attempted where this table expects none
		}
		if ok {
			agree = append(agree, m)
			outcomes = append(outcomes, e)
		}
	}
	anyAgree := len(agree) > 0
	if anyAgree {
		for _, m := range o.fam {
			m.alive = false
		}
		for i, m := range agree {
			m.alive = true
			if outcomes[i].what == "recorded" && !writeFailed {
				m.commit(now, slot, key, signer, hdr, outcomes[i])
			}
		}
	}
	if !anyAgree {
		class := ""
		switch {
		case exp.what == "proof" && proof == nil:
			class = "missing-proof"
		case exp.what == "proof" && proof != nil:
			class = "proof-first-header-not-the-recorded-one"
		case exp.what == "duplicate":
			class = "proof-for-identical-header"
		case exp.what == "ignored-old":
			class = "proof-for-header-outside-window"
		case exp.what == "before-first":
			class = "proof-before-first-saved-slot"
		case exp.what == "recorded" && writeFailed:
			class = "write-failure-mismatch"
		default:
			class = "proof-without-recorded-conflict"
		}
		first := "-"
		if lead.hasFirst {
			first = fmt.Sprint(lead.first)
		}
		k.Violate("C27", "equivocation-exact", via+"/"+class,
			"CheckEquivocation(now=%d, slot=%d, header #%d, signer %x): got proof=%v, reference table %q expects %q (first saved slot %s, now-slot=%d)",
			now, slot, hdr.Number, signer[:2], proof != nil, lead.name, exp.what, first, int64(now)-int64(slot))
		return
	}
	if !o.fam[0].alive {
		k.Probe("substrate-edge-choice-contradicted")
	}
	if len(agree) < aliveBefore {
		k.Probe("exact-bound-decided-an-outcome")
	}
	if o.shadow == nil {
		o.shadow = &slotModel{name: "never-prune", window: slotCapacity, pruneAbove: ^uint64(0), table: map[uint64][]slotEntry{}, alive: true}
	}
	if sh := o.shadow.peek(now, slot, key, signer); true {
		if sh.what != exp.what {
			k.Probe("pruning-decided-outcome-" + exp.what + "-instead-of-" + sh.what)
		}
		if sh.what == "recorded" && exp.what == "recorded" && !writeFailed {
			o.shadow.commit(now, slot, key, signer, hdr, sh)
		}
	}
	switch exp.what {
	case "proof":
		o.proofs++
		k.Probe("proof")
	case "duplicate":
		k.Probe("duplicate-no-proof")
	case "ignored-old":
		k.Probe("ignored-outside-window")
	case "before-first":
		k.Probe("ignored-before-first-saved")
	case "recorded":
		if exp.prune && !writeFailed {
			o.prunes++
			k.Probe("pruned")
		}
	}
}

func (o *slotOracle) lead() *slotModel {
	for _, m := range o.fam {
		if m.alive {
			return m
		}
	}
	return o.fam[0]
}

// errText removes run-specific hex from an error text (seals and VRF proofs
// are randomised by schnorrkel, so hashes must never reach logs or messages).
func errText(err error) string {
	if err == nil {
		return "<nil>"
	}
	s := []byte(err.Error())
	out := make([]byte, 0, len(s))
	run := 0
	flush := func(upto int) {
		if run >= 8 {
			out = append(out, []byte("<hex>")...)
		} else {
			out = append(out, s[upto-run:upto]...)
		}
		run = 0
	}
	for i, c := range s {
		if (c >= '0' && c <= '9') || (c >= 'a' && c <= 'f') {
			run++
			continue
		}
		flush(i)
		out = append(out, c)
	}
	flush(len(s))
	return string(out)
}

// ---- C27 driver: direct stream of checks ------------------------------------

const c27SlotDuration = 6 * time.Second

// slotHeader builds the header of (slot, signer, variant). Variants 0 and 1
// share the block number and differ in the extrinsics root only; variant 2
// differs in number and state root; variant 3 differs in the digest only.
func slotHeader(slot uint64, signerIx int, variant int) *types.Header {
	num := uint(slot%997) + 1
	ext := common.Hash{0xe0, byte(signerIx)}
	st := common.Hash{0x50}
	dig := cu.BabeDigest(true, uint32(signerIx), slot)
	switch variant {
	case 1:
		ext[2] = 1
	case 2:
		num++
		st[1] = 2
	case 3:
		dig = cu.BabeDigest(false, uint32(signerIx), slot)
	}
	return types.NewHeader(common.Hash{0xaa, byte(slot)}, st, ext, num, dig)
}

func runSlots(k *kernel.K) {
	if k.Choose(4, "c27-mode") == 3 {
		runSlotsViaVerifier(k)
		return
	}
	disk := simdisk.NewDisk()
	ss := state.NewSlotState(disk.Open())
	or := &slotOracle{k: k, fam: newSlotFamily()}
	ns := 1 + k.Choose(3, "signers")
	var signers []types.AuthorityID
	for i := 0; i < ns; i++ {
		signers = append(signers, types.AuthorityID{0xa0 + byte(i), byte(i), 7})
	}
	// the node's clock: bubble time plus a skew (in slots) that may change
	var skew int64
	if k.Bool(1, 2, "small-slot-regime") {
		// slot numbers near zero: exercises the saturating subtractions
		skew = -int64(rbabe.VerifGetCurrentSlot(c27SlotDuration)) + int64(k.Choose(40, "start-slot"))
	}
	nowSlot := func() uint64 {
		v := int64(rbabe.VerifGetCurrentSlot(c27SlotDuration)) + skew
		if v < 0 {
			v = 0
		}
		return uint64(v)
	}
	faulty := k.Bool(1, 6, "disk-faults")
	failNext, lostAck, hookFired := false, false, false
	disk.OnWrite = func(rec *simdisk.Record) (error, bool) {
		if failNext {
			hookFired = true
			return simdisk.ErrInjectedWrite, lostAck
		}
		return nil, false
	}
	var used []uint64 // slots that were checked (for re-use)
	steps := k.Range(8, 60, "steps")
	restarts := 0
	for s := 0; s < steps; s++ {
		switch a := k.Choose(12, "action"); {
		case a <= 7: // a check
			now := nowSlot()
			lead := or.lead()
			var slot uint64
			switch sk := k.Choose(9, "slot-kind"); {
			case sk == 0:
				slot = now
			case sk == 1:
				slot = satSub(now, uint64(1+k.Choose(5, "behind")))
			case (sk == 2 || sk == 3) && len(used) > 0:
				lo := len(used) - 6
				if lo < 0 || k.Bool(1, 4, "any-used") {
					lo = 0
				}
				slot = used[lo+k.Choose(len(used)-lo, "used-slot")]
			case sk == 4:
				slot = uint64(int64(satSub(now, slotCapacity)) + int64(k.Choose(5, "edge-delta")) - 2)
			case sk == 5:
				slot = now + uint64(1+k.Choose(4, "ahead"))
				if k.Bool(1, 4, "far-ahead") {
					slot = now + uint64(900+k.Choose(1300, "far"))
				}
			case sk == 6 && lead.hasFirst:
				slot = uint64(int64(lead.first) + int64(k.Choose(5, "first-delta")) - 2)
			case sk == 7 && lead.hasFirst:
				// somewhere in the stretch the next pruning will remove / keep
				slot = lead.first + uint64(k.Choose(slotCapacity+5, "in-window"))
			default:
				slot = satSub(now, uint64(k.Choose(3, "behind0")))
			}
			if int64(slot) < 0 {
				slot = 0
			}
			si := k.Choose(ns, "signer")
			variant := 0
			if k.Bool(1, 3, "conflicting") {
				variant = 1 + k.Choose(3, "variant")
			}
			hdr := slotHeader(slot, si, variant)
			if k.Bool(1, 5, "hash-cached") {
				hdr.Hash() // as a caller that looked at the hash before
			}
			failNext, lostAck, hookFired = false, false, false
			if faulty && k.Bool(1, 8, "write-fault") {
				failNext = true
				lostAck = k.Bool(1, 3, "lost-ack")
			}
			proof, err := ss.CheckEquivocation(now, slot, hdr, signers[si])
			wf := false
			if hookFired {
				if lostAck {
					k.Fault("write-lost-ack")
					err = nil // the record was stored; the reference records too
				} else {
					k.Fault("write-error")
					wf = true
					if err == nil {
						k.Probe("write-error-swallowed")
					}
				}
			}
			failNext = false
			k.Event("check", "now=%d slot=%d (now-slot=%d) signer=%d variant=%d -> proof=%v err=%v", now, slot, int64(now)-int64(slot), si, variant, proof != nil, err != nil)
			or.observe("direct", now, slot, hdr, signers[si], proof, err, wf)
			used = append(used, slot)
			if restarts > 0 && proof != nil {
				k.Probe("proof-after-restart")
			}
		case a <= 9: // the clock moves forward
			var slots uint64
			lead := or.lead()
			switch jk := k.Choose(7, "jump-kind"); {
			case jk <= 1:
				slots = 1
			case jk == 2:
				slots = uint64(2 + k.Choose(20, "jump"))
			case jk == 3:
				slots = uint64(slotCapacity - 2 + k.Choose(5, "jump-1000"))
			case jk == 4 && lead.hasFirst:
				target := int64(lead.first) + slotPruning - 2 + int64(k.Choose(5, "jump-2000"))
				if d := target - int64(nowSlot()); d > 0 {
					slots = uint64(d)
				} else {
					slots = 1
				}
			case jk == 5:
				slots = uint64(300 + k.Choose(900, "jump-mid"))
			default:
				slots = uint64(slotPruning + k.Choose(3000, "jump-far"))
			}
			time.Sleep(time.Duration(slots) * c27SlotDuration)
			k.Event("clock-forward", "+%d slots -> now=%d", slots, nowSlot())
		case a == 10: // the clock is corrected (skew changes, possibly backwards)
			menu := []int64{-1, -2, -10, -500, -999, -1000, -1001, -1500, -2500, 1, 10, 1000}
			d := menu[k.Choose(len(menu), "skew-step")]
			skew += d
			if d < 0 {
				k.Fault("clock-backwards")
			}
			k.Event("clock-skew", "%+d slots -> now=%d", d, nowSlot())
		default: // crash + restart: a new SlotState over the same disk
			if !k.Bool(1, 2, "restart-really") {
				continue
			}
			ss = state.NewSlotState(disk.Open())
			restarts++
			k.Fault("restart")
			k.Event("restart", "records on disk=%d", len(disk.Log))
		}
		synctest.Wait()
	}
	if or.proofs > 0 || or.prunes > 0 {
		k.Nontriv = true
	}
}
