package store

import (
	"testing"
	"time"

	"github.com/ChainSafe/gossamer/verifsim/kernel"
)

type world struct{}

func (world) Name() string          { return "store" }
func (world) Props() []string       { return []string{"C01", "C02", "C03", "C04", "C38"} }
func (world) Bubble(p string) bool  { return true } // StoreTrie spawns notifier goroutines; the bubble gives a quiescence barrier
func (world) Level(p string) string { return "exploration" }
func (world) Run(k *kernel.K)       { runStore(k) }
func (world) Rule(p string) string {
	base := "one run = a tree of storage snapshots over the real dot/state InmemoryStorageState+Tries and pkg/trie/inmemory on a simulated disk: fork (TrieState(root) snapshot, runtime sets the state version, sometimes raising V0->V1), batches of put/overwrite/delete/clear-prefix(-limit)/child-trie operations by several interleaved writers, StoreTrie (incremental WriteDirty), eviction from the tries cache, restart (all memory dropped, disk kept), reads from memory and from the database, RPC paging. Keys come from an adversarial nibble alphabet (shared prefixes, key-is-prefix-of-key, empty key, keys longer than 63 nibbles), values are biased to 0/1/31/32/33/40/64 bytes. Every step is tape-chosen. "
	switch p {
	case "C01":
		return base + "C01 oracle: after every write batch the writer's root equals an independent spec-root function over the reference map (single-version states only). Non-trivial = >=2 interleaved writers or a store/evict/restart happened; distinct = event-kind sequence fingerprint."
	case "C02":
		return base + "C02 oracle: every Get/NextKey/GetKeysWithPrefix/Entries/iterator/ClearPrefixLimit result equals the ordered reference map. Non-trivial as for C01."
	case "C03":
		return base + "C03 oracle: after every write batch and store, every OTHER state still held in memory has an unchanged root (cached and vs. spec) and unchanged entries. Non-trivial as for C01."
	case "C04":
		return base + "C04 oracle: every acknowledged StoreTrie state reads back identically (root, entries, child tries, single-key reads of present and absent keys) from the cache, after eviction (direct DB path) and after restart. Non-trivial as for C01."
	case "C38":
		return base + "C38 oracle: pages of the real StateModule.GetKeysPaged (page sizes 1..n+1, state evicted between pages) concatenate to the sorted keys with the prefix, each once; GetPairs equals those keys with their values. Non-trivial = at least one multi-page listing. One RPC StateModule lives for the whole run (until a restart); a third of the enumerations ask for the best block (no block in the request), which the simulator moves to newly stored states, and re-use the prefix of the previous such enumeration half of the time."
	}
	return base
}
func (world) Components(p string) ([]string, []string) {
	real := []string{"pkg/trie/inmemory (trie, child tries, iterator, database load/store, GetFromDB)", "pkg/trie/node (encode/decode/hash, parallel branch encoding)", "dot/state InmemoryStorageState + Tries", "lib/runtime/storage.TrieState"}
	if p == "C38" {
		real = append(real, "dot/rpc/modules StateModule.GetKeysPaged/GetPairs")
	}
	return real, []string{"disk (simdisk)", "block state (state roots are addressed directly)", "runtime issuing the storage operations (tape workload)", "RPC transport (direct call)"}
}
func (world) Budget(p, tier string) (int, time.Duration) {
	if tier == "thorough" {
		return 2000000, 8 * time.Minute
	}
	return 100000, 40 * time.Second
}

func TestVerif(t *testing.T) { kernel.Main(t, world{}) }
