package store

import (
	"bytes"
	"fmt"
	"os"
	"sort"

	"github.com/ChainSafe/gossamer/dot/rpc/modules"
	"github.com/ChainSafe/gossamer/dot/state"
	"github.com/ChainSafe/gossamer/lib/common"
	"github.com/ChainSafe/gossamer/lib/runtime/storage"
	"github.com/ChainSafe/gossamer/pkg/trie"
	"github.com/ChainSafe/gossamer/pkg/trie/inmemory"
	"github.com/ChainSafe/gossamer/pkg/trie/node"
	"github.com/ChainSafe/gossamer/verifsim/kernel"
	"github.com/ChainSafe/gossamer/verifsim/simdisk"
	su "github.com/ChainSafe/gossamer/verifsim/storeutil"
)

// st is one storage state of the run: either a live writer (ts != nil, not yet
// stored) or a frozen stored state identified by its root.
type st struct {
	id     int
	model  *su.State
	ts     *storage.TrieState
	tr     *inmemory.InMemoryTrie // in-memory object if we still hold one
	stored bool
	root   common.Hash
	parent int
}

type sim struct {
	hintW *st    // C38: a state that just had part of a prefix cleared under a limit ...
	hintP []byte // ... and that prefix
	k           *kernel.K
	disk        *simdisk.Disk
	tries       *state.Tries
	ss          *state.InmemoryStorageState
	states      []*st
	valCtr      int
	curVer      su.Version // the chain's current runtime state version (monotone over the run)
	dupChildren bool       // knob: allow two child tries with identical content (known finding)
	zeroNibble  bool       // knob: allow prefixes whose last byte has a zero low nibble (known finding)
	nestedLimit bool       // knob: allow a limited clear that cuts between a key and a longer key it prefixes (known finding)
	keys        [][]byte
	cks         [][]byte
	prevV       [][]byte
	sm          *modules.StateModule // one RPC module for the whole run (what it remembers between requests matters)
	best        *st                  // the stored state of the simulated best block
	lastBestPx  []byte               // prefix of the last enumeration at the best block
}

// storageAdapter lets the real RPC StateModule run over the real storage state
// without a block state: "block hash" is mapped to the state root itself.
type storageAdapter struct {
	*state.InmemoryStorageState
	best func() *common.Hash // the state root of the simulated best block (a nil block in a request means that one)
}

// GetKeysWithPrefix: the real storage state turns a nil root into the best block's state root through
// the block state; here the simulator says which stored state is the best block's.
func (a storageAdapter) GetKeysWithPrefix(root *common.Hash, prefix []byte) ([][]byte, error) {
	if root == nil && a.best != nil {
		root = a.best()
	}
	return a.InmemoryStorageState.GetKeysWithPrefix(root, prefix)
}

func (a storageAdapter) GetStateRootFromBlock(bhash *common.Hash) (*common.Hash, error) {
	return bhash, nil
}

var _ modules.StorageAPI = storageAdapter{}

func hx(b []byte) string {
	if len(b) > 12 {
		return fmt.Sprintf("%x..(%d)", b[:6], len(b))
	}
	return fmt.Sprintf("%x", b)
}

func (s *sim) viol(prop, oracle, class, f string, a ...any) {
	if s.k.Violate(prop, oracle, class, f, a...) {
		return // known finding marked "continue": model and system still agree
	}
	// a violation of another property evaluated in this shared run: the state
	// may be corrupted from here on, so the run ends without a verdict
	s.k.Stop()
}

func (s *sim) newOpen() {
	s.tries = state.NewTries()
	ss, err := state.NewStorageState(s.disk.Open(), nil, s.tries)
	if err != nil {
		panic(err)
	}
	s.ss = ss
	s.sm = nil // the RPC module of the new process starts empty
}

var keyBytes = []byte{0x00, 0x01, 0x10, 0x11, 0xf0, 0xff, 0x0a, 0xa0}

func (s *sim) genKey() []byte {
	k := s.k
	if len(s.keys) > 0 && k.Bool(3, 5, "key-reuse") {
		return s.keys[k.Choose(len(s.keys), "key-ix")]
	}
	var key []byte
	switch k.Choose(12, "key-shape") {
	case 11: // long key: partial keys beyond 63 nibbles
		n := []int{32, 33, 64, 70, 160}[k.Choose(5, "longkey-len")]
		key = make([]byte, n)
		for i := range key {
			key[i] = keyBytes[(i*7+n)%len(keyBytes)]
		}
		key[n-1] = keyBytes[k.Choose(len(keyBytes), "longkey-last")]
		s.k.Probe("long-key")
	case 10:
		key = []byte{} // the empty key
	default:
		n := 1 + k.Choose(4, "key-len")
		key = make([]byte, n)
		for i := range key {
			key[i] = keyBytes[k.Choose(len(keyBytes), "key-byte")]
		}
	}
	if len(s.keys) < 24 {
		s.keys = append(s.keys, key)
	}
	return key
}

// genPrefix: prefixes whose last byte has a zero low nibble are only generated
// in runs with the zero-nibble knob (gossamer strips that nibble and matches
// too much; the pinned tests require it; see known_findings.json).
func (s *sim) genPrefix() []byte {
	p := s.genPrefix0()
	if len(p) > 0 && p[len(p)-1]&0x0f == 0 && !s.zeroNibble {
		p = append([]byte{}, p...)
		p[len(p)-1] |= 0x01
	}
	return p
}

func zeroNib(p []byte) bool { return len(p) > 0 && p[len(p)-1]&0x0f == 0 }

func (s *sim) genPrefix0() []byte {
	k := s.k
	switch k.Choose(5, "prefix-shape") {
	case 0:
		key := s.genKey()
		if len(key) == 0 {
			return key
		}
		return key[:1+k.Choose(len(key), "prefix-cut")]
	case 1:
		return []byte{keyBytes[k.Choose(len(keyBytes), "prefix-byte")]}
	case 2:
		return []byte{}
	case 3:
		return []byte{[]byte{0x10, 0xf0, 0xa0, 0x00}[k.Choose(4, "zero-nibble-prefix")]}
	default:
		return s.genKey()
	}
}

var valLens = []int{1, 0, 31, 32, 33, 40, 64, 2, 5}

func (s *sim) genVal() []byte {
	k := s.k
	if len(s.prevV) > 0 && k.Bool(1, 5, "val-reuse") {
		return s.prevV[k.Choose(len(s.prevV), "val-ix")]
	}
	n := valLens[k.Choose(len(valLens), "val-len")]
	if k.Bool(1, 60, "val-big") {
		n = 4096
	}
	s.valCtr++
	v := make([]byte, n)
	for i := range v {
		v[i] = byte(s.valCtr*31 + i*7)
	}
	if n > 1 {
		v[0], v[1] = byte(s.valCtr), byte(s.valCtr>>8)
	}
	if len(s.prevV) < 12 {
		s.prevV = append(s.prevV, v)
	}
	return v
}

func (s *sim) genCK() []byte {
	if len(s.cks) == 0 {
		s.cks = [][]byte{[]byte("c1"), []byte("c2"), []byte("c10"), {0x01}}
	}
	return s.cks[s.k.Choose(len(s.cks), "childkey")]
}

func tver(v su.Version) trie.TrieLayout {
	if v == su.V1 {
		return trie.V1
	}
	return trie.V0
}

func sameKeys(a, b [][]byte) bool {
	if len(a) != len(b) {
		return false
	}
	for i := range a {
		if !bytes.Equal(a[i], b[i]) {
			return false
		}
	}
	return true
}

func keysStr(ks [][]byte) string {
	out := "["
	for i, k := range ks {
		if i > 0 {
			out += " "
		}
		if i > 12 {
			out += "..."
			break
		}
		out += hx(k)
	}
	return out + "]"
}

// diffEntries describes the first difference between real entries and the model.
func diffEntries(got map[string][]byte, want map[string][]byte) string {
	var ks []string
	for k := range got {
		ks = append(ks, k)
	}
	for k := range want {
		if _, ok := got[k]; !ok {
			ks = append(ks, k)
		}
	}
	sort.Strings(ks)
	for _, k := range ks {
		g, okg := got[k]
		w, okw := want[k]
		switch {
		case !okg:
			return fmt.Sprintf("key %s missing (reference has %s)", hx([]byte(k)), hx(w))
		case !okw:
			return fmt.Sprintf("extra key %s = %s", hx([]byte(k)), hx(g))
		case !bytes.Equal(g, w):
			return fmt.Sprintf("key %s = %s, reference %s", hx([]byte(k)), hx(g), hx(w))
		}
	}
	return ""
}

// ---- the run --------------------------------------------------------------

func runStore(k *kernel.K) {
	s := &sim{k: k, disk: simdisk.NewDisk()}
	s.newOpen()
	ver := su.Version(k.Choose(2, "version"))
	s.curVer = ver
	s.dupChildren = k.Bool(1, 6, "knob-identical-children")
	s.zeroNibble = k.Bool(1, 6, "knob-zero-low-nibble-prefixes")
	s.nestedLimit = k.Bool(1, 6, "knob-nested-keys-limited-clear")
	// genesis: the empty state (same for both versions)
	s.tries.SetEmptyTrie()
	s.states = append(s.states, &st{id: 0, model: su.NewState(ver), stored: true, root: trie.EmptyHash, parent: -1})
	steps := k.Range(10, 70, "steps")
	// emphasis per property (swarm): what the action mix favours
	for i := 0; i < steps; i++ {
		a := k.Choose(16, "action")
		switch {
		case a <= 1:
			s.fork()
		case a <= 7:
			s.write()
		case a <= 9:
			s.read()
		case a == 10:
			s.store()
		case a == 11:
			s.evict()
		case a == 12:
			s.restart()
		case a == 13:
			s.page()
		case a == 14:
			s.readStored()
		default:
			if k.Prop == "C38" {
				s.page()
			} else if k.Prop == "C04" {
				if !s.store() {
					s.readStored()
				}
			} else {
				s.write()
			}
		}
	}
	// final: every stored state must read back exactly, from cache and from disk
	for _, x := range s.states {
		if x.stored {
			s.checkStored(x, true)
		}
	}
}

func (s *sim) live() []*st {
	var out []*st
	for _, x := range s.states {
		if x.ts != nil && !x.stored {
			out = append(out, x)
		}
	}
	return out
}

func (s *sim) storedStates() []*st {
	var out []*st
	for _, x := range s.states {
		if x.stored {
			out = append(out, x)
		}
	}
	return out
}

func (s *sim) fork() {
	k := s.k
	bases := s.storedStates()
	if len(s.live()) >= 4 || len(s.states) >= 14 {
		return
	}
	b := bases[k.Choose(len(bases), "fork-base")]
	root := b.root
	ts, err := s.ss.TrieState(&root)
	if err != nil {
		s.viol("C04", "fork-from-stored", "stored-state-not-loadable", "TrieState(%s) of stored state %d failed: %v", root.Short(), b.id, err)
		return
	}
	n := &st{id: len(s.states), model: b.model.Clone(), ts: ts, tr: ts.Trie().(*inmemory.InMemoryTrie), parent: b.id}
	// the runtime sets the state version before executing a block; a runtime
	// upgrade raises it from V0 to V1 for every later block (monotone over the run)
	if s.curVer == su.V0 && k.Bool(1, 8, "raise-version") {
		s.curVer = su.V1
		k.Probe("version-raised")
	}
	if n.model.Version == su.V0 && s.curVer == su.V1 {
		if n.model.HasLongValue() {
			n.model.Mixed = true
			k.Probe("version-raised-with-long-values")
		}
		n.model.Version = su.V1 // without long values the V0 and V1 encodings (and child roots) coincide
	}
	ts.SetVersion(tver(n.model.Version))
	s.states = append(s.states, n)
	k.Event("fork", "s%d <- s%d (v%d)", n.id, b.id, n.model.Version)
	if len(s.live()) >= 2 {
		k.Nontriv = true
	}
}

func (s *sim) write() {
	k := s.k
	lv := s.live()
	if len(lv) == 0 {
		s.fork()
		lv = s.live()
		if len(lv) == 0 {
			return
		}
	}
	w := lv[k.Choose(len(lv), "writer")]
	nops := 1 + k.Choose(5, "batch")
	for i := 0; i < nops; i++ {
		s.op(w)
	}
	s.checkRoot(w)
	s.checkOthers(w)
	if s.hintW == w && !w.stored {
		hp := s.hintP
		s.hintW, s.hintP = nil, nil
		if s.storeOne(w) {
			cut := k.Choose(len(hp)+1, "page-prefix-cut")
			px := hp[:len(hp)-cut]
			if !zeroNib(px) || s.zeroNibble {
				k.Probe("paged-right-after-a-limited-clear")
				s.pageOf(w, px, false)
			}
		}
	}
	s.hintW, s.hintP = nil, nil
}

func (s *sim) op(w *st) {
	k := s.k
	m := w.model
	switch k.Choose(14, "op") {
	case 0, 1, 2, 3, 4: // put / overwrite
		key, val := s.genKey(), s.genVal()
		if bytes.HasPrefix(key, su.ChildStoragePrefix) {
			return
		}
		k.Event("put", "s%d %s=%s", w.id, hx(key), hx(val))
		if old, ok := m.Main.Get(key); ok {
			if bytes.Equal(old, val) {
				k.Probe("rewrite-same-value")
			}
			if len(old) > 32 != (len(val) > 32) {
				k.Probe("value-crosses-32-threshold")
			}
		}
		if err := w.tr.Put(key, val); err != nil {
			s.viol("C02", "put", "put-failed", "Put(%s) failed: %v", hx(key), err)
		}
		m.Main.Put(key, val)
	case 5, 6: // delete
		key := s.genKey()
		k.Event("delete", "s%d %s", w.id, hx(key))
		if _, ok := m.Main.Get(key); ok && m.Main.Len() > 1 {
			k.Probe("delete-present")
		}
		if err := w.tr.Delete(key); err != nil {
			s.viol("C02", "delete", "delete-failed", "Delete(%s) failed: %v", hx(key), err)
		}
		m.Main.Delete(key)
		m.DropOrphanChildren()
	case 7: // clear prefix
		p := s.genPrefix()
		n := len(m.Main.KeysWithPrefix(p))
		k.Event("clear-prefix", "s%d %s (%d match)", w.id, hx(p), n)
		if err := w.tr.ClearPrefix(p); err != nil {
			s.viol("C02", "clear-prefix", "clear-prefix-failed", "ClearPrefix(%s) failed: %v", hx(p), err)
		}
		m.Main.ClearPrefix(p)
		m.DropOrphanChildren()
		if zeroNib(p) {
			if d := diffEntries(w.tr.Entries(), m.Main.M); d != "" {
				s.viol("C02", "clear-prefix", "clear-prefix-zero-low-nibble-prefix", "ClearPrefix(%s): %s", hx(p), d)
				s.k.Stop()
			}
		}
		if n >= 2 {
			k.Probe("clear-prefix->=2")
		}
	case 8, 9: // clear prefix with limit
		p := s.genPrefix()
		n := len(m.Main.KeysWithPrefix(p))
		limit := uint32(k.Choose(n+2, "limit"))
		// nested: some matching key is a proper prefix of another matching key and the limit cuts the set
		nested := false
		if mk := m.Main.KeysWithPrefix(p); limit > 0 && int(limit) < n {
			for i := 0; i+1 < len(mk) && !nested; i++ {
				nested = bytes.HasPrefix(mk[i+1], mk[i])
			}
		}
		if nested && !s.nestedLimit {
			return
		}
		wantDel, wantAll := m.Main.ClearPrefixLimit(p, limit)
		m.DropOrphanChildren()
		k.Event("clear-prefix-limit", "s%d %s limit=%d (%d match)", w.id, hx(p), limit, n)
		del, all, err := w.tr.ClearPrefixLimit(p, limit)
		if err != nil {
			s.viol("C02", "clear-prefix-limit", "clear-prefix-limit-failed", "ClearPrefixLimit(%s,%d) failed: %v", hx(p), limit, err)
		}
		if nested && !zeroNib(p) {
			if d := diffEntries(w.tr.Entries(), m.Main.M); d != "" {
				s.viol("C02", "clear-prefix-limit", "clear-prefix-limit-nested-keys-order", "ClearPrefixLimit(%s,%d) with %d matching keys, one a prefix of another: %s (the smallest keys must go first)", hx(p), limit, n, d)
				s.k.Stop()
			}
		}
		if zeroNib(p) {
			if d := diffEntries(w.tr.Entries(), m.Main.M); d != "" || del != wantDel || all != wantAll {
				s.viol("C02", "clear-prefix-limit", "clear-prefix-zero-low-nibble-prefix", "ClearPrefixLimit(%s,%d) = (%d,%v) want (%d,%v): %s", hx(p), limit, del, all, wantDel, wantAll, d)
				s.k.Stop()
			}
		}
		if del != wantDel || all != wantAll {
			class := "clear-prefix-limit-result-differs"
			if limit == 0 && n == 0 {
				class = "clear-prefix-limit-zero-result-differs"
			}
			s.viol("C02", "clear-prefix-limit", class, "ClearPrefixLimit(%s, %d) with %d matching keys returned (deleted=%d, allDeleted=%v), ordered map says (%d, %v)", hx(p), limit, n, del, all, wantDel, wantAll)
		}
		if int(limit) == n && n > 0 {
			k.Probe("limit-hits-last-key")
		}
		if k.Prop == "C38" && del > 0 && !all && !zeroNib(p) && k.Bool(1, 2, "page-after-limited-clear") {
			// a block that clears part of a map, then a listing of what is left of it and of its surroundings
			s.hintW, s.hintP = w, append([]byte{}, p...)
		}
	case 10, 11: // child put
		if m.Mixed {
			return // child roots of a lazily migrated state are not defined by a single-version spec
		}
		ck, key, val := s.genCK(), s.genKey(), s.genVal()
		c := m.Children[string(ck)]
		after := su.NewRefMap()
		if c != nil {
			after = c.Clone()
		}
		after.Put(key, val)
		if !s.childOpAllowed(m, ck, after) {
			return
		}
		k.Event("child-put", "s%d %s/%s=%s", w.id, hx(ck), hx(key), hx(val))
		twins := s.twinsOf(m, ck)
		s.childOp(w, twins, func() error { return w.tr.PutIntoChild(ck, key, val) }, "child-put", "PutIntoChild(%s,%s)", hx(ck), hx(key))
		m.Children[string(ck)] = after
		m.SyncChild(ck)
		s.checkTwins(w, twins)
		if len(m.Children) >= 2 {
			k.Probe("two-child-tries")
		}
	case 12: // child clear one key (only while the child keeps at least one key)
		ck := s.genCK()
		c := m.Children[string(ck)]
		if c == nil || c.Len() < 2 || m.Mixed {
			return
		}
		ks := c.Keys()
		key := ks[k.Choose(len(ks), "child-key-ix")]
		after := c.Clone()
		after.Delete(key)
		if !s.childOpAllowed(m, ck, after) {
			return
		}
		k.Event("child-clear", "s%d %s/%s", w.id, hx(ck), hx(key))
		twins := s.twinsOf(m, ck)
		s.childOp(w, twins, func() error { return w.tr.ClearFromChild(ck, key) }, "child-clear", "ClearFromChild(%s,%s)", hx(ck), hx(key))
		m.Children[string(ck)] = after
		m.SyncChild(ck)
		s.checkTwins(w, twins)
	case 13: // delete whole child
		ck := s.genCK()
		if m.Children[string(ck)] == nil {
			return
		}
		k.Event("child-delete", "s%d %s", w.id, hx(ck))
		if err := w.tr.DeleteChild(ck); err != nil {
			s.viol("C04", "child-delete", "child-delete-failed", "DeleteChild(%s) failed: %v", hx(ck), err)
		}
		delete(m.Children, string(ck))
		m.SyncChild(ck)
	}
}

// twinsOf lists the other child tries whose content is identical to ck's.
func (s *sim) twinsOf(m *su.State, ck []byte) []string {
	c := m.Children[string(ck)]
	if c == nil {
		return nil
	}
	r := su.SpecRoot(c.M, m.Version)
	var out []string
	for o, oc := range m.Children {
		if o != string(ck) && su.SpecRoot(oc.M, m.Version) == r {
			out = append(out, o)
		}
	}
	sort.Strings(out)
	return out
}

// childOpAllowed: two child tries with identical content are only generated in
// runs with the identical-children knob (gossamer keys its in-memory child
// tries by root hash; see known_findings.json).
func (s *sim) childOpAllowed(m *su.State, ck []byte, after *su.RefMap) bool {
	if s.dupChildren {
		return true
	}
	r := su.SpecRoot(after.M, m.Version)
	for o, oc := range m.Children {
		if o != string(ck) && su.SpecRoot(oc.M, m.Version) == r {
			return false
		}
	}
	return true
}

// childOp runs a real child-trie mutation. If the mutated child has an
// identical twin, a failure is attributed to the identical-content collision.
func (s *sim) childOp(w *st, twins []string, f func() error, oracle, what string, a ...any) {
	var err error
	func() {
		if len(twins) > 0 {
			defer func() {
				if r := recover(); r != nil {
					if _, ok := r.(error); ok || true {
						s.k.Probe("identical-children-collision")
						s.viol("C04", "child-identical-content", "identical-child-tries-collision", "%s panicked while another child trie (%s) has identical content: %v", fmt.Sprintf(what, a...), hx([]byte(twins[0])), r)
					}
				}
			}()
		}
		err = f()
	}()
	if err != nil {
		if len(twins) > 0 {
			s.viol("C04", "child-identical-content", "identical-child-tries-collision", "%s failed while another child trie (%s) has identical content: %v", fmt.Sprintf(what, a...), hx([]byte(twins[0])), err)
		}
		s.viol("C04", oracle, oracle+"-failed", "%s failed: %v", fmt.Sprintf(what, a...), err)
	}
}

// checkTwins: after mutating one of several identical child tries the others
// must still be there, unchanged.
func (s *sim) checkTwins(w *st, twins []string) {
	for _, o := range twins {
		s.k.Probe("identical-children-mutated")
		ct, err := w.tr.GetChild([]byte(o))
		if err != nil || ct == nil {
			s.viol("C04", "child-identical-content", "identical-child-tries-collision", "state %d: child trie %s vanished from memory after its identical twin was modified (GetChild = %v, %v)", w.id, hx([]byte(o)), ct, err)
		}
		if d := diffEntries(ct.Entries(), w.model.Children[o].M); d != "" {
			s.viol("C04", "child-identical-content", "identical-child-tries-collision", "state %d: child trie %s changed after its identical twin was modified: %s", w.id, hx([]byte(o)), d)
		}
	}
}

// deepRoot recomputes the root with the real encoder from a private copy of
// every node, ignoring all cached Merkle values.
func deepRoot(tr *inmemory.InMemoryTrie) (common.Hash, error) {
	var cp func(n *node.Node) *node.Node
	cp = func(n *node.Node) *node.Node {
		if n == nil {
			return nil
		}
		c := &node.Node{PartialKey: append([]byte(nil), n.PartialKey...), IsHashedValue: n.IsHashedValue, MustBeHashed: n.MustBeHashed,
			Dirty: true, Generation: n.Generation, Descendants: n.Descendants}
		if n.StorageValue != nil {
			c.StorageValue = append([]byte{}, n.StorageValue...)
		}
		if n.Children != nil {
			c.Children = make([]*node.Node, len(n.Children))
			for i, ch := range n.Children {
				c.Children[i] = cp(ch)
			}
		}
		return c
	}
	r := cp(tr.VerifRoot())
	if r == nil {
		return trie.EmptyHash, nil
	}
	_, mv, err := r.EncodeAndHashRoot()
	if err != nil {
		return common.Hash{}, err
	}
	return common.BytesToHash(mv), nil
}

// checkRoot: C01 — the root the node computes equals the spec root.
func (s *sim) checkRoot(w *st) {
	if d := diffEntries(w.tr.Entries(), w.model.Main.M); d != "" {
		s.viol("C02", "entries", "entries-differ-from-ordered-map", "state %d after a write batch: %s", w.id, d)
	}
	if w.model.Mixed {
		return
	}
	got, err := w.tr.Hash()
	if err != nil {
		s.viol("C01", "root", "hash-failed", "Hash() failed: %v", err)
	}
	if dr, err := deepRoot(w.tr); err != nil || dr != got {
		s.viol("C01", "root", "cached-root-differs-from-recomputed", "state %d: Hash() = %x but recomputing from the nodes gives %x (%v)", w.id, got[:6], dr[:6], err)
	}
	want := w.model.Root()
	if got != common.Hash(want) {
		// make sure the contents agree, so that this really is a root problem
		d := diffEntries(w.tr.Entries(), w.model.Main.M)
		if d != "" {
			s.viol("C02", "entries", "entries-differ-from-ordered-map", "state %d: %s", w.id, d)
		}
		class := fmt.Sprintf("root-differs-from-spec-v%d", w.model.Version)
		if len(w.model.Children) > 0 {
			class += "-with-child-tries"
		}
		if os.Getenv("VERIF_DEBUG") != "" {
			fmt.Println(w.tr.String())
			fresh := inmemory.NewEmptyTrie()
			fresh.SetVersion(tver(w.model.Version))
			for _, kk := range w.model.Main.Keys() {
				v, _ := w.model.Main.Get(kk)
				fresh.Put(kk, v)
			}
			fmt.Println("FRESH", fresh.MustHash(), "\n", fresh.String())
			for _, kk := range w.model.Main.Keys() {
				v, _ := w.model.Main.Get(kk)
				fmt.Printf("  %x = %s\n", kk, hx(v))
			}
		}
		s.viol("C01", "root", class, "state %d (v%d, %d keys): root %x, spec root %x", w.id, w.model.Version, w.model.Main.Len(), got[:6], want[:6])
	}
	if w.model.Main.Len() == 0 && got != trie.EmptyHash {
		s.viol("C01", "root", "empty-state-root", "empty state root is %x", got[:6])
	}
}

// checkOthers: C03 — no operation on one snapshot changes another state.
func (s *sim) checkOthers(w *st) {
	for _, x := range s.states {
		if x == w || x.tr == nil {
			continue
		}
		h, err := x.tr.Hash()
		if err != nil {
			s.viol("C03", "isolation", "hash-failed", "Hash() of state %d failed: %v", x.id, err)
		}
		if x.stored && h != x.root {
			s.viol("C03", "isolation", "stored-state-root-changed", "after a write on state %d (v%d) the root of stored state %d (v%d) changed from %x to %x", w.id, w.model.Version, x.id, x.model.Version, x.root[:6], h[:6])
		}
		dr, err := deepRoot(x.tr)
		if err != nil {
			s.viol("C03", "isolation", "hash-failed", "recomputing the root of state %d failed: %v", x.id, err)
		}
		if dr != h {
			class := "other-state-recomputed-root-changed"
			if w.model.Version != x.model.Version || w.model.Mixed {
				class += "-after-version-raise"
			}
			s.viol("C03", "isolation", class, "after a write on state %d (v%d) the root of state %d (v%d) recomputed from its nodes is %x, but was %x", w.id, w.model.Version, x.id, x.model.Version, dr[:6], h[:6])
		}
		if !x.model.Mixed && h != common.Hash(x.model.Root()) {
			s.viol("C03", "isolation", "other-state-root-changed", "after a write on state %d the root of state %d is %x, expected %x", w.id, x.id, h[:6], x.model.Root())
		}
		if d := diffEntries(x.tr.Entries(), x.model.Main.M); d != "" {
			s.viol("C03", "isolation", "other-state-contents-changed", "after a write on state %d, state %d: %s", w.id, x.id, d)
		}
	}
}

// read: C02 — every read equals the ordered map's answer.
func (s *sim) read() {
	k := s.k
	var cands []*st
	for _, x := range s.states {
		if x.tr != nil {
			cands = append(cands, x)
		}
	}
	if len(cands) == 0 {
		return
	}
	x := cands[k.Choose(len(cands), "reader-state")]
	m := x.model
	k.Event("read", "s%d", x.id)
	for i := 0; i < 3; i++ {
		key := s.genKey()
		got := x.tr.Get(key)
		want, ok := m.Main.Get(key)
		if (ok && !bytes.Equal(got, want)) || (!ok && got != nil) {
			s.viol("C02", "get", "get-differs", "state %d: Get(%s) = %s, ordered map has %s (present=%v)", x.id, hx(key), hx(got), hx(want), ok)
		}
		nk := x.tr.NextKey(key)
		wantNk := m.Main.NextKey(key)
		if !bytes.Equal(nk, wantNk) || (wantNk == nil) != (nk == nil) {
			s.viol("C02", "next-key", "next-key-differs", "state %d: NextKey(%s) = %s, ordered map says %s", x.id, hx(key), hx(nk), hx(wantNk))
		}
	}
	p := s.genPrefix()
	gotKs := x.tr.GetKeysWithPrefix(p)
	wantKs := m.Main.KeysWithPrefix(p)
	if !sameKeys(gotKs, wantKs) {
		class := "keys-with-prefix-differ"
		if len(p) > 0 && p[len(p)-1]&0x0f == 0 {
			class = "keys-with-prefix-differ-zero-low-nibble-prefix"
		}
		s.viol("C02", "keys-with-prefix", class, "state %d: GetKeysWithPrefix(%s) = %s, ordered map says %s", x.id, hx(p), keysStr(gotKs), keysStr(wantKs))
	}
	if d := diffEntries(x.tr.Entries(), m.Main.M); d != "" {
		s.viol("C02", "entries", "entries-differ-from-ordered-map", "state %d: %s", x.id, d)
	}
	// iteration order: the iterator starts at the empty cursor and yields the keys
	// strictly greater than it, in ascending order
	it := x.tr.Iter()
	var iterKs [][]byte
	for kk := it.NextKey(); kk != nil; kk = it.NextKey() {
		iterKs = append(iterKs, kk)
		if len(iterKs) > m.Main.Len()+2 {
			break
		}
	}
	var wantIter [][]byte
	for _, kk := range m.Main.Keys() {
		if len(kk) > 0 {
			wantIter = append(wantIter, kk)
		}
	}
	if !sameKeys(iterKs, wantIter) {
		s.viol("C02", "iterator", "iterator-order-differs", "state %d: iteration yields %s, ordered map %s", x.id, keysStr(iterKs), keysStr(wantIter))
	}
	// child reads
	for ck, c := range m.Children {
		for _, key := range c.Keys() {
			got, err := x.tr.GetFromChild([]byte(ck), key)
			want, _ := c.Get(key)
			if err != nil || !bytes.Equal(got, want) {
				s.viol("C04", "child-read", "child-get-differs-in-memory", "state %d: GetFromChild(%s,%s) = %s,%v; reference %s", x.id, hx([]byte(ck)), hx(key), hx(got), err, hx(want))
			}
		}
	}
}

func (s *sim) store() bool {
	k := s.k
	lv := s.live()
	if len(lv) == 0 {
		return false
	}
	return s.storeOne(lv[k.Choose(len(lv), "store-which")])
}

func (s *sim) storeOne(w *st) bool {
	k := s.k
	root, err := w.tr.Hash()
	if err != nil {
		s.viol("C01", "root", "hash-failed", "Hash() failed: %v", err)
	}
	if err := s.ss.StoreTrie(w.ts, nil); err != nil {
		s.viol("C04", "store", "store-failed-without-fault", "StoreTrie of state %d failed without an injected fault: %v", w.id, err)
	}
	w.stored = true
	w.root = root
	if s.best == nil || k.Bool(1, 2, "becomes-best-block") {
		s.best = w // a new block was imported on top: requests without a block now mean this state
	}
	k.Event("store", "s%d root=%x keys=%d children=%d", w.id, root[:4], w.model.Main.Len(), len(w.model.Children))
	if w.parent > 0 {
		k.Probe("incremental-store-on-stored-parent")
	}
	k.Nontriv = true
	s.checkOthers(w)
	return true
}

func (s *sim) evict() {
	k := s.k
	ss := s.storedStates()
	x := ss[k.Choose(len(ss), "evict-which")]
	if !s.tries.VerifHas(x.root) {
		return
	}
	s.tries.VerifDelete(x.root)
	// every state with that root loses its in-memory object (the cache holds one per root)
	for _, y := range s.states {
		if y.stored && y.root == x.root {
			y.tr, y.ts = nil, nil
		}
	}
	k.Fault("evict")
	k.Event("evict", "s%d", x.id)
}

// restart: all memory is lost (live writers too), only the simulated disk survives.
func (s *sim) restart() {
	if !s.k.Bool(1, 2, "restart-really") {
		return
	}
	var keep []*st
	for _, x := range s.states {
		if x.stored {
			x.tr, x.ts = nil, nil
			keep = append(keep, x)
		}
	}
	s.states = keep
	s.newOpen()
	s.tries.SetEmptyTrie()
	s.k.Fault("restart")
	s.k.Event("restart", "%d stored states survive", len(keep))
}

func (s *sim) readStored() {
	ss := s.storedStates()
	x := ss[s.k.Choose(len(ss), "read-stored-which")]
	s.checkStored(x, false)
}

// checkStored: C04 — a persisted state reads back identically.
func (s *sim) checkStored(x *st, full bool) {
	k := s.k
	m := x.model
	root := x.root
	cached := s.tries.VerifHas(root)
	k.Event("read-stored", "s%d cached=%v", x.id, cached)
	if !cached {
		k.Probe("read-from-db")
	}
	// single-key reads first (they take the direct DB path when the state is not cached)
	keys := m.Main.Keys()
	probe := [][]byte{}
	if full {
		probe = append(probe, keys...)
		probe = append(probe, s.keys...)
	} else {
		for i := 0; i < 4; i++ {
			probe = append(probe, s.genKey())
		}
		if len(keys) > 0 {
			probe = append(probe, keys[k.Choose(len(keys), "present-key")])
		}
	}
	for _, key := range probe {
		got, err := s.ss.GetStorage(&root, key)
		want, ok := m.Main.Get(key)
		if err != nil {
			s.viol("C04", "get-storage", "get-storage-error", "state %d (cached=%v): GetStorage(%s) failed: %v", x.id, cached, hx(key), err)
		}
		if ok && !bytes.Equal(got, want) {
			class := "get-storage-wrong-value"
			if !cached && m.Version == su.V1 && len(want) > 32 {
				class = "get-from-db-hashed-value"
			}
			s.viol("C04", "get-storage", class, "state %d (v%d, cached=%v): GetStorage(%s) = %s, stored value is %s", x.id, m.Version, cached, hx(key), hx(got), hx(want))
		}
		if !ok && got != nil {
			s.viol("C04", "get-storage", "absent-key-read-as-present", "state %d (cached=%v): GetStorage(%s) = %s but the key is absent", x.id, cached, hx(key), hx(got))
		}
	}
	// reload by root
	t, err := s.ss.LoadFromDB(root)
	if err != nil {
		s.viol("C04", "reload", "reload-failed", "state %d: LoadFromDB(%x) failed: %v", x.id, root[:6], err)
	}
	if h := t.MustHash(); h != root {
		s.viol("C04", "reload", "reloaded-root-differs", "state %d: reloaded trie has root %x, stored root %x", x.id, h[:6], root[:6])
	}
	if d := diffEntries(t.Entries(), m.Main.M); d != "" {
		s.viol("C04", "reload", "reloaded-entries-differ", "state %d (v%d): %s", x.id, m.Version, d)
	}
	for ck, c := range m.Children {
		ct, err := t.GetChild([]byte(ck))
		if err != nil || ct == nil {
			s.viol("C04", "reload-child", "reloaded-child-missing", "state %d: child trie %s missing after reload: %v", x.id, hx([]byte(ck)), err)
		}
		if d := diffEntries(ct.Entries(), c.M); d != "" {
			s.viol("C04", "reload-child", "reloaded-child-entries-differ", "state %d child %s: %s", x.id, hx([]byte(ck)), d)
		}
		for _, key := range c.Keys() {
			got, err := s.ss.GetStorageFromChild(&root, []byte(ck), key)
			want, _ := c.Get(key)
			if err != nil || !bytes.Equal(got, want) {
				s.viol("C04", "reload-child", "child-get-differs", "state %d: GetStorageFromChild(%s,%s) = %s,%v; stored %s", x.id, hx([]byte(ck)), hx(key), hx(got), err, hx(want))
			}
		}
		k.Probe("child-trie-reloaded")
	}
	if x.tr == nil {
		x.tr = t.(*inmemory.InMemoryTrie)
	}
}

// page: C38 — paginated key listing and pair listing through the real RPC module.
func (s *sim) page() {
	k := s.k
	ss := s.storedStates()
	x := ss[k.Choose(len(ss), "page-which")]
	atBest := s.best != nil && s.best.stored && k.Bool(1, 3, "page-at-best-block")
	if atBest {
		x = s.best
	}
	s.pageOf(x, nil, atBest)
}

// pageOf pages state x; p == nil: a generated prefix.
func (s *sim) pageOf(x *st, p []byte, atBest bool) {
	k := s.k
	m := x.model
	root := x.root
	if s.sm == nil {
		s.sm = modules.NewStateModule(nil, storageAdapter{InmemoryStorageState: s.ss, best: func() *common.Hash {
			r := s.best.root
			return &r
		}}, nil, nil)
	}
	sm := s.sm
	if p == nil {
		p = s.genPrefix()
	}
	if atBest {
		if s.lastBestPx != nil && k.Bool(1, 2, "same-prefix-as-last-time") {
			p = s.lastBestPx
		}
		s.lastBestPx = p
		k.Probe("paged-at-best-block")
	}
	blockArg := &root
	if atBest {
		blockArg = nil
	}
	want := m.Main.KeysWithPrefix(p)
	qty := uint32(1 + k.Choose(len(want)+2, "page-size"))
	k.Event("page", "s%d prefix=%s qty=%d (%d match, cached=%v)", x.id, hx(p), qty, len(want), s.tries.VerifHas(root))
	var got []string
	after := ""
	for pages := 0; pages < len(want)+3; pages++ {
		var res modules.StateStorageKeysResponse
		req := &modules.StateStorageKeyRequest{Prefix: fmt.Sprintf("0x%x", p), Qty: qty, AfterKey: after, Block: blockArg}
		if err := sm.GetKeysPaged(nil, req, &res); err != nil {
			s.viol("C38", "paging", "get-keys-paged-failed", "GetKeysPaged failed: %v", err)
		}
		if len(res) == 0 {
			break
		}
		if uint32(len(res)) > qty {
			s.viol("C38", "paging", "page-larger-than-requested", "page of %d keys for qty %d", len(res), qty)
		}
		got = append(got, res...)
		after = res[len(res)-1]
		// between pages other things happen: the trie being paged may be evicted
		if k.Bool(1, 4, "evict-between-pages") && s.tries.VerifHas(root) {
			s.tries.VerifDelete(root)
			for _, y := range s.states {
				if y.stored && y.root == root {
					y.tr, y.ts = nil, nil
				}
			}
			k.Fault("evict-between-pages")
		}
	}
	wantS := make([]string, len(want))
	for i, w := range want {
		wantS[i] = fmt.Sprintf("0x%x", w)
	}
	if fmt.Sprint(got) != fmt.Sprint(wantS) {
		class := "paged-keys-differ"
		if len(p) > 0 && p[len(p)-1]&0x0f == 0 {
			class = "paged-keys-differ-zero-low-nibble-prefix"
		}
		s.viol("C38", "paging", class, "state %d prefix %s qty %d: pages give %v, sorted keys with prefix are %v", x.id, hx(p), qty, got, wantS)
	}
	if len(want) > int(qty) {
		k.Probe("multi-page")
		k.Nontriv = true
	}
	// pairs
	pfx := fmt.Sprintf("0x%x", p)
	var pres modules.StatePairResponse
	if err := sm.GetPairs(nil, &modules.StatePairRequest{Prefix: &pfx, Bhash: &root}, &pres); err != nil {
		s.viol("C38", "pairs", "get-pairs-failed", "GetPairs failed: %v", err)
	}
	gotPairs := map[string]string{}
	for _, e := range pres {
		kv := e.([]string)
		if _, dup := gotPairs[kv[0]]; dup {
			s.viol("C38", "pairs", "pair-listed-twice", "GetPairs lists %s twice", kv[0])
		}
		gotPairs[kv[0]] = kv[1]
	}
	wantPairs := map[string]string{}
	for _, w := range want {
		v, _ := m.Main.Get(w)
		wantPairs[common.BytesToHex(w)] = common.BytesToHex(v)
	}
	if len(p) == 0 {
		wantPairs = map[string]string{}
		for kk, v := range m.Main.M {
			wantPairs[common.BytesToHex([]byte(kk))] = common.BytesToHex(v)
		}
	}
	if fmt.Sprint(gotPairs) != fmt.Sprint(wantPairs) {
		class := "pairs-differ"
		for kk, v := range wantPairs {
			if g, ok := gotPairs[kk]; ok && g != v && len(v) > 66 && m.Version == su.V1 {
				class = "pairs-hashed-value-from-db"
			}
		}
		if len(p) > 0 && p[len(p)-1]&0x0f == 0 {
			class += "-zero-low-nibble-prefix"
		}
		s.viol("C38", "pairs", class, "state %d prefix %s: GetPairs = %v, reference %v", x.id, hx(p), gotPairs, wantPairs)
	}
}
