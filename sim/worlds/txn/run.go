package txn

import (
	"bytes"
	"encoding/binary"
	"encoding/hex"
	"fmt"
	"runtime/debug"
	"sort"
	"strings"

	"github.com/ChainSafe/gossamer/lib/runtime/storage"
	"github.com/ChainSafe/gossamer/pkg/trie"
	"github.com/ChainSafe/gossamer/pkg/trie/inmemory"
	"github.com/ChainSafe/gossamer/verifsim/kernel"
	"github.com/ChainSafe/gossamer/verifsim/storeutil"
)

const (
	// class prefix of failures that a known defect of pkg/trie/inmemory explains
	knownZeroNibble = "zero-low-nibble-prefix"
	// class prefix of failures explained by the known defect of TrieState that is not repaired:
	// DeleteChildLimit(limit)/ClearPrefixInChild(WithLimit) with NO open transaction change the child
	// trie behind the parent trie (stale child root entry, emptied child trie not removed)
	knownDirectChild = "child-clear-without-transaction"

	prop          = "C08"
	childRootPfx  = ":child_storage:default:"
	childNsPfx    = ":child_storage:"
	maxDepth      = 5
	presentMarker = "<present>"
)

func hx(s string) string {
	if s == "" {
		return "''"
	}
	pr := true
	for i := 0; i < len(s); i++ {
		if s[i] < 0x21 || s[i] > 0x7e {
			pr = false
		}
	}
	if pr {
		return "'" + s + "'"
	}
	return "0x" + hex.EncodeToString([]byte(s))
}

func hv(v []byte) string {
	if v == nil {
		return "nil"
	}
	if len(v) > 4 {
		return fmt.Sprintf("[%d]%x..", len(v), v[:2])
	}
	return fmt.Sprintf("[%d]%x", len(v), v)
}

func isChildRootKey(k string) bool { return strings.HasPrefix(k, childNsPfx) }

// Key pools. Main keys: shared prefixes, keys that are prefixes of others, the
// empty key, a last byte with a zero low nibble (0x10 vs 0x10 0x01 / 0x11 / 0x1f),
// keys equal to child-trie NAMES ('a','ab','c1',0x10 are also child names) and
// keys under the child-root prefix (those are only read, see Rule).
var mainPool = []string{
	"a", "ab", "abc", "abd", "b", "", "\x10", "\x10\x01", "\x11", "\x1f", "\x10\x00", "c1", "\x01",
	":", ":child", ":code",
}
var kidNamePool = []string{"a", "c1", "ab", "\x10"}
var kidKeyPool = []string{"a", "ab", "abc", "b", "", "\x10", "\x10\x01", "\x1f", "\x11", childRootPfx + "a"}
var valLens = []int{1, 0, 31, 32, 33, 64, 2, 32, 33}

type line struct{ tag, key, val, pfx string }

func (l line) String() string { return l.tag + "|" + l.key + " = " + l.val }

// sut is one real TrieState under test together with its backend. The same
// calls are issued to every live sut in lockstep.
//   - primary (verdict): TrieState over the real pkg/trie/inmemory trie.
//   - secondary (canary): TrieState over the reference backend (mapTrie). It is
//     driven first. Its iterator turns a non-terminating TrieState loop into a
//     reportable violation before the real backend is touched, and its verdict
//     tells where a failure of the primary lives: if the canary agrees with
//     the model on the same calls the defect is below TrieState (class prefix
//     "inmemory-only: "). A failure seen only on the canary is recorded as an
//     observation for property "C08-REF" and the canary is dropped.
type sut struct {
	name    string
	primary bool
	real    bool // backend is pkg/trie/inmemory
	ts      *storage.TrieState
	ref     *mapTrie
	alive   bool
	snaps   []string
}

type sutDead struct{}

// continueSafe lists the oracles after whose failure model and system still
// agree on the state (only a returned flag/number was wrong): a known finding
// marked "continue" lets the run go on only for these.
var continueSafe = map[string]bool{"clear-result-all": true, "clear-result-count": true}

type env struct {
	k        *kernel.K
	suts     []*sut // canary first, primary second
	prim     *sut
	sec      *sut
	m        *model
	ver      trie.TrieLayout
	mainKeys []string // writable main alphabet
	roKeys   []string // read-only main alphabet (child-root zone)
	kids     []string
	kidKeys  []string
	mainPfx  []string
	kidPfx   []string
	lastOp   string
	valCtr   int
	// ctx names a KNOWN defect of pkg/trie/inmemory that the current call can run into
	// (only set in runs whose knob allows generating it); it prefixes the class.
	ctx        string
	zeroNibble bool // knob: prefixes whose last byte has a zero low nibble
	// knob: limited kill / prefix clear of a child trie with no open transaction
	directChildClear bool
}

// fail reports an oracle failure observed on s by a check that every live
// instance goes through (the canary first).
func (e *env) fail(s *sut, oracle, class, f string, a ...any) {
	e.failX(s, true, oracle, class, f, a...)
}

// failX: attribute says whether the canary went through the same check before.
func (e *env) failX(s *sut, attribute bool, oracle, class, f string, a ...any) {
	if s.primary {
		switch {
		case e.ctx != "":
			class = e.ctx + ": " + class
		case attribute && e.sec.alive:
			// the canary has just passed the same check
			class = "inmemory-only: " + class
			f = "[the same TrieState calls over the reference backend agree with the model: defect of pkg/trie/inmemory] " + f
		}
		if e.k.Violate(prop, oracle, class, f, a...) {
			// a known finding marked "continue": sound only for the oracles about a returned
			// flag/number (state and model still agree); for every other oracle the run ends here
			if continueSafe[oracle] && e.ctx == "" {
				return
			}
			e.k.Stop()
		}
	}
	e.k.Violate("C08-REF", "reference-backend:"+oracle, class,
		"[only over the reference backend; not a verdict] "+f, a...)
	e.k.Probe("canary(reference-backend)-diverged")
	s.alive = false
	panic(sutDead{})
}

func panicSite(stack string) string {
	lines := strings.Split(stack, "\n")
	seen := false
	for _, l := range lines {
		if strings.HasPrefix(l, "panic(") {
			seen = true
			continue
		}
		if seen && strings.Contains(l, "/repo/") {
			l = strings.TrimSpace(l)
			if j := strings.LastIndex(l, " +0x"); j > 0 {
				l = l[:j]
			}
			return strings.TrimPrefix(l, "/repo/")
		}
	}
	return "?"
}

// guard runs f for s. A panic while driving the primary propagates to the
// kernel (gossamer frame => violation "panic", harness frame => trouble); a
// panic of gossamer code while driving the canary drops the canary.
func (e *env) guard(s *sut, f func()) {
	defer func() {
		r := recover()
		if r == nil {
			return
		}
		if _, ok := r.(sutDead); ok {
			return
		}
		if s.primary || strings.HasSuffix(fmt.Sprintf("%T", r), "stopRun") {
			panic(r)
		}
		site := panicSite(string(debug.Stack()))
		if site == "?" {
			panic(r) // not in gossamer code: a harness bug must not be masked
		}
		e.k.Violate("C08-REF", "reference-backend:panic", "panic@"+site,
			"[only over the reference backend; not a verdict] panic %v at %s after %s", r, site, e.lastOp)
		e.k.Probe("canary(reference-backend)-diverged")
		s.alive = false
	}()
	f()
}

func (e *env) each(f func(s *sut)) {
	for _, s := range e.suts {
		if s.alive {
			e.guard(s, func() { f(s) })
		}
	}
}

func (e *env) sweepAll() { e.each(e.sweep) }

func (e *env) mode() string {
	if e.m.depth() == 0 {
		return "direct"
	}
	return "tx"
}

func (e *env) class(what string) string {
	return fmt.Sprintf("%s after %s [%s]", what, e.lastOp, e.mode())
}

// value draws a value that no other write of the run produces (except the
// empty value). Child tries only get empty values in runs with at most one
// child trie: two child tries with identical contents collide in the in-memory
// trie's childTries map (known finding of C04, generated by the store world).
func (e *env) value(child bool) []byte {
	e.valCtr++
	n := valLens[e.k.Choose(len(valLens), "vallen")]
	if n == 0 && child && len(e.kids) > 1 {
		n = 1
	}
	v := make([]byte, n)
	for i := range v {
		if i%2 == 0 {
			v[i] = byte(e.valCtr)
		} else {
			v[i] = byte(e.valCtr >> 8)
		}
	}
	return v
}

// ---- thin driver over the real TrieState (errors of child reads are what the
// host functions turn into None) ------------------------------------------

func (s *sut) get(n ns, key string) []byte {
	if !n.child {
		return s.ts.Get([]byte(key))
	}
	v, err := s.ts.GetChildStorage([]byte(n.name), []byte(key))
	if err != nil {
		return nil
	}
	return v
}

func (s *sut) next(n ns, key string) []byte {
	var r []byte
	if !n.child {
		r = s.ts.NextKey([]byte(key))
	} else {
		var err error
		r, err = s.ts.GetChildNextKey([]byte(n.name), []byte(key))
		if err != nil {
			return nil
		}
	}
	if len(r) == 0 {
		return nil // ext_storage_next_key encodes an empty result as None
	}
	return r
}

func (s *sut) kidKeys(c, prefix string) []string {
	ks, err := s.ts.GetKeysWithPrefixFromChild([]byte(c), []byte(prefix))
	if err != nil {
		return nil
	}
	out := make([]string, 0, len(ks))
	for _, k := range ks {
		out = append(out, string(k))
	}
	sort.Strings(out)
	return out
}

func renderVal(key string, v []byte, main bool) string {
	if v == nil {
		return "nil"
	}
	if main && isChildRootKey(key) {
		return presentMarker
	}
	return fmt.Sprintf("[%d]%x", len(v), v)
}

func renderKey(k []byte) string {
	if k == nil {
		return "nil"
	}
	return hx(string(k))
}

func renderList(ks []string) string {
	p := make([]string, len(ks))
	for i, k := range ks {
		p[i] = hx(k)
	}
	return "{" + strings.Join(p, ",") + "}"
}

func (e *env) allMainKeys() []string { return append(append([]string{}, e.mainKeys...), e.roKeys...) }

// observe reads everything observable from the real TrieState.
func (e *env) observe(s *sut, raw bool) []line {
	var out []line
	for _, k := range e.allMainKeys() {
		v := s.ts.Get([]byte(k))
		out = append(out, line{"get", hx(k), renderVal(k, v, true), ""})
		if raw && isChildRootKey(k) {
			out = append(out, line{"rawget", hx(k), fmt.Sprintf("%x", v), ""})
		}
		out = append(out, line{"next", hx(k), renderKey(s.next(ns{}, k)), ""})
	}
	ent := s.ts.TrieEntries()
	var es []string
	for _, k := range sortedKeys(ent) {
		es = append(es, hx(k)+"="+renderVal(k, ent[k], true))
	}
	out = append(out, line{"entries", "", "{" + strings.Join(es, ",") + "}", ""})
	for _, c := range e.kids {
		n := ns{true, c}
		for _, k := range e.kidKeys {
			out = append(out, line{"cget", hx(c) + "/" + hx(k), renderVal(k, s.get(n, k), false), ""})
			out = append(out, line{"cnext", hx(c) + "/" + hx(k), renderKey(s.next(n, k)), ""})
		}
		for _, p := range e.kidPfx {
			out = append(out, line{"ckeys", hx(c) + "/" + hx(p), renderList(s.kidKeys(c, p)), p})
		}
	}
	return out
}

// mainView is the main namespace as Substrate's top trie shows it: live main
// keys plus one child-root entry per child trie that is non-empty in the backend.
func (e *env) mainView() map[string][]byte {
	mv := e.m.live(ns{})
	for c, s := range e.m.bKids {
		if len(s) > 0 {
			mv[childRootPfx+c] = []byte(presentMarker)
		}
	}
	return mv
}

func nextIn(keys []string, key string) []byte {
	i := sort.SearchStrings(keys, key)
	for i < len(keys) && keys[i] <= key {
		i++
	}
	if i < len(keys) {
		return []byte(keys[i])
	}
	return nil
}

// expect renders the same lines from the model.
func (e *env) expect() []line {
	var out []line
	mv := e.mainView()
	mks := sortedKeys(mv)
	for _, k := range e.allMainKeys() {
		v, ok := mv[k]
		if !ok {
			v = nil
		} else if v == nil {
			v = []byte{}
		}
		out = append(out, line{"get", hx(k), renderVal(k, v, true), ""})
		out = append(out, line{"next", hx(k), renderKey(nextIn(mks, k)), ""})
	}
	var es []string
	for _, k := range mks {
		v := mv[k]
		if v == nil {
			v = []byte{}
		}
		es = append(es, hx(k)+"="+renderVal(k, v, true))
	}
	out = append(out, line{"entries", "", "{" + strings.Join(es, ",") + "}", ""})
	for _, c := range e.kids {
		lv := e.m.live(ns{true, c})
		lks := sortedKeys(lv)
		for _, k := range e.kidKeys {
			v, ok := lv[k]
			if !ok {
				v = nil
			} else if v == nil {
				v = []byte{}
			}
			out = append(out, line{"cget", hx(c) + "/" + hx(k), renderVal(k, v, false), ""})
			out = append(out, line{"cnext", hx(c) + "/" + hx(k), renderKey(nextIn(lks, k)), ""})
		}
		for _, p := range e.kidPfx {
			var l []string
			for _, k := range lks {
				if strings.HasPrefix(k, p) {
					l = append(l, k)
				}
			}
			out = append(out, line{"ckeys", hx(c) + "/" + hx(p), renderList(l), p})
		}
	}
	return out
}

func snapshot(ls []line) string {
	var b strings.Builder
	for _, l := range ls {
		b.WriteString(l.String())
		b.WriteByte('\n')
	}
	return b.String()
}

// sweep compares every observable read with the model.
func (e *env) sweep(s *sut) {
	got := e.observe(s, false)
	want := e.expect()
	if len(got) != len(want) {
		panic("txn harness: sweep shape mismatch")
	}
	for i := range got {
		if got[i] != want[i] {
			if got[i].tag == "ckeys" && zeroNib(got[i].pfx) && e.ctx == "" {
				// the listing may fall through to the trie's GetKeysWithPrefix (known: strips a trailing zero nibble)
				e.ctx = knownZeroNibble
				defer func() { e.ctx = "" }()
			}
			e.fail(s, "read-"+got[i].tag, e.class(got[i].tag),
				"%s: gossamer %s, Substrate overlay semantics prescribe %s (depth %d)", got[i].tag+"|"+got[i].key, got[i].val, want[i].val, e.m.depth())
		}
	}
}

func firstDiff(a, b string) string {
	la, lb := strings.Split(a, "\n"), strings.Split(b, "\n")
	for i := range la {
		if i >= len(lb) || la[i] != lb[i] {
			o := "<none>"
			if i < len(lb) {
				o = lb[i]
			}
			return "at start: " + la[i] + " ; now: " + o
		}
	}
	return "?"
}

// ---- root / contents after the outermost commit ---------------------------

func (e *env) specVer() storeutil.Version {
	if e.ver == trie.V1 {
		return storeutil.V1
	}
	return storeutil.V0
}

func (e *env) checkCommitted(s *sut, when string) {
	// contents
	gotMain := s.ts.Trie().Entries()
	wantMain := e.mainView()
	gks, wks := sortedKeys(gotMain), sortedKeys(wantMain)
	if strings.Join(gks, "\x00|") != strings.Join(wks, "\x00|") {
		e.fail(s, "committed-contents", e.class("main-keys "+when), "main trie keys %s, committed operations applied directly give %s", renderList(gks), renderList(wks))
	}
	for _, k := range wks {
		if !isChildRootKey(k) && !bytes.Equal(gotMain[k], wantMain[k]) {
			e.fail(s, "committed-contents", e.class("main-value "+when), "main trie %s = %s, want %s", hx(k), hv(gotMain[k]), hv(wantMain[k]))
		}
	}
	for _, c := range e.kids {
		var got map[string][]byte
		if ch, err := s.ts.Trie().GetChild([]byte(c)); err == nil && ch != nil {
			got = ch.Entries()
		}
		want := e.m.bKids[c]
		if strings.Join(sortedKeys(got), "\x00|") != strings.Join(sortedKeys(want), "\x00|") {
			e.fail(s, "committed-contents", e.class("child-keys "+when), "child %s keys %s, want %s", hx(c), renderList(sortedKeys(got)), renderList(sortedKeys(want)))
		}
		for k, v := range want {
			if !bytes.Equal(got[k], v) {
				e.fail(s, "committed-contents", e.class("child-value "+when), "child %s key %s = %s, want %s", hx(c), hx(k), hv(got[k]), hv(v))
			}
		}
	}
	// root
	got, err := s.ts.Trie().Hash()
	if err != nil {
		e.fail(s, "committed-root", e.class("hash-error "+when), "Trie().Hash(): %v", err)
	}
	full := map[string][]byte{}
	for k, v := range e.m.bMain {
		full[k] = v
	}
	for c, ks := range e.m.bKids {
		if len(ks) > 0 {
			r := storeutil.SpecRoot(ks, e.specVer())
			full[childRootPfx+c] = r[:]
		}
	}
	spec := storeutil.SpecRoot(full, e.specVer())
	if !s.real {
		// reference backend: Hash() is the spec root over its stored entries (child roots as
		// written through PutIntoChild/ClearFromChild/DeleteChild by the code under test)
		if !bytes.Equal(spec[:], got[:]) {
			e.fail(s, "committed-root", e.class("root "+when), "root %s differs from the root %x of the committed operations applied directly (a child root entry of the main trie is stale)", got, spec)
		}
		e.k.Probe("root-checked-reference-backend")
		return
	}
	// real backend: (a) a fresh real in-memory trie fed the net committed contents, (b) the independent spec root
	fresh := inmemory.NewEmptyTrie()
	fresh.SetVersion(e.ver)
	for _, k := range sortedKeys(e.m.bMain) {
		if err := fresh.Put([]byte(k), append([]byte{}, e.m.bMain[k]...)); err != nil {
			panic("txn harness: fresh put: " + err.Error())
		}
	}
	for _, c := range sortedKeys(e.m.bKids) {
		ks := e.m.bKids[c]
		for _, k := range sortedKeys(ks) {
			if err := fresh.PutIntoChild([]byte(c), []byte(k), append([]byte{}, ks[k]...)); err != nil {
				panic("txn harness: fresh child put: " + err.Error())
			}
		}
	}
	want := fresh.MustHash()
	if got != want {
		e.fail(s, "committed-root", e.class("root "+when), "root %s differs from the root %s of a fresh in-memory trie built from the committed operations applied directly", got, want)
	}
	if !bytes.Equal(spec[:], got[:]) {
		e.k.Violate("C01", "txn-spec-root", "in-memory trie root differs from spec root", "root %s (equal to the fresh in-memory trie root) differs from the independent spec root %x", got, spec)
		e.k.Probe("inmemory-root-differs-from-spec-root")
	}
	e.k.Probe("root-checked")
}

// ---- operations -----------------------------------------------------------

func (e *env) pickNs() ns {
	if len(e.kids) == 0 {
		return ns{}
	}
	return ns{true, e.kids[e.k.Choose(len(e.kids), "kid")]}
}

func (e *env) pickKey(n ns, label string) string {
	if n.child {
		return e.kidKeys[e.k.Choose(len(e.kidKeys), label)]
	}
	return e.mainKeys[e.k.Choose(len(e.mainKeys), label)]
}

func nsKind(n ns) string {
	if n.child {
		return "child"
	}
	return "main"
}

func (e *env) opGet(n ns, exists bool) {
	var key string
	if n.child {
		key = e.pickKey(n, "key")
	} else {
		all := e.allMainKeys()
		key = all[e.k.Choose(len(all), "key")]
	}
	kind := "get"
	if exists {
		kind = "exists"
	}
	var want []byte
	var ok bool
	if n.child {
		want, ok = e.m.get(n, key)
	} else {
		want, ok = e.mainView()[key]
	}
	if ok && want == nil {
		want = []byte{}
	}
	e.k.Event(kind, "%s %s (model: %s)", n, hx(key), hv(want))
	e.each(func(s *sut) {
		var got []byte
		if !n.child && exists {
			if s.ts.Has([]byte(key)) {
				got = []byte{}
			}
		} else {
			got = s.get(n, key)
		}
		if (got != nil) != ok {
			e.fail(s, "read-"+kind, e.class(kind+" "+nsKind(n)), "%s %s %s: gossamer %s, want present=%v (%s)", kind, n, hx(key), hv(got), ok, hv(want))
		}
		if !exists && ok && !(isChildRootKey(key) && !n.child) && !bytes.Equal(got, want) {
			e.fail(s, "read-"+kind, e.class(kind+" "+nsKind(n)), "%s %s %s: gossamer %s, want %s", kind, n, hx(key), hv(got), hv(want))
		}
	})
}

func (e *env) opNext(n ns) {
	var key string
	var keys []string
	if n.child {
		key = e.pickKey(n, "key")
		keys = sortedKeys(e.m.live(n))
	} else {
		all := e.allMainKeys()
		key = all[e.k.Choose(len(all), "key")]
		keys = sortedKeys(e.mainView())
	}
	want := nextIn(keys, key)
	e.k.Event("next-key", "%s %s (model: %s)", n, hx(key), renderKey(want))
	e.each(func(s *sut) {
		got := s.next(n, key)
		if !bytes.Equal(got, want) || (got == nil) != (want == nil) {
			e.fail(s, "read-next", e.class("next "+nsKind(n)), "next-key %s %s: gossamer %s, want %s", n, hx(key), renderKey(got), renderKey(want))
		}
	})
	if want != nil && e.m.depth() > 0 {
		// did the answer need both the overlay and the backend?
		ov := e.m.ovKeys(n)
		bn := nextIn(sortedKeys(e.m.backend(n, false)), key)
		if bn != nil && len(ov) > 0 {
			if ov[string(want)] && !bytes.Equal(bn, want) {
				e.k.Probe("next-key-from-overlay-past-backend-candidate")
			}
			if !ov[string(want)] {
				for k := range ov {
					if k > key && k < string(want) {
						e.k.Probe("next-key-from-backend-past-overlay-tombstone")
						break
					}
				}
			}
		}
	}
}

func (e *env) opKidKeys() {
	c := e.kids[e.k.Choose(len(e.kids), "kid")]
	p := e.kidPfx[e.k.Choose(len(e.kidPfx), "prefix")]
	var want []string
	for _, k := range sortedKeys(e.m.live(ns{true, c})) {
		if strings.HasPrefix(k, p) {
			want = append(want, k)
		}
	}
	e.k.Event("child-keys", "%s prefix %s (model: %s)", hx(c), hx(p), renderList(want))
	if zeroNib(p) {
		e.ctx = knownZeroNibble
		defer func() { e.ctx = "" }()
	}
	e.each(func(s *sut) {
		got := s.kidKeys(c, p)
		if renderList(got) != renderList(want) {
			e.fail(s, "read-ckeys", e.class("child-keys"), "keys of child %s under %s: gossamer %s, want %s", hx(c), hx(p), renderList(got), renderList(want))
		}
	})
}

func (e *env) isKidName(key string) bool {
	for _, c := range e.kids {
		if c == key {
			return true
		}
	}
	return false
}

func (e *env) opSet(n ns) {
	key := e.pickKey(n, "key")
	v := e.value(n.child)
	if n.child {
		if len(e.m.live(n)) == 0 && len(e.m.backend(n, false)) > 0 {
			e.k.Probe("child-recreated-after-deletion")
		}
		e.lastOp = "child-set"
		e.k.Event("child-set", "%s %s = %s", n, hx(key), hv(v))
		e.each(func(s *sut) {
			if err := s.ts.SetChildStorage([]byte(n.name), []byte(key), append([]byte{}, v...)); err != nil {
				e.fail(s, "write-error", e.class("child-set"), "SetChildStorage(%s,%s): %v", hx(n.name), hx(key), err)
			}
		})
	} else {
		e.lastOp = "set"
		e.k.Event("set", "%s = %s", hx(key), hv(v))
		if e.isKidName(key) {
			e.k.Probe("main-write-on-key-equal-to-child-name")
		}
		e.each(func(s *sut) {
			if err := s.ts.Put([]byte(key), append([]byte{}, v...)); err != nil {
				e.fail(s, "write-error", e.class("set"), "Put(%s): %v", hx(key), err)
			}
		})
	}
	e.m.put(n, key, v)
	e.sweepAll()
}

func (e *env) opDel(n ns) {
	key := e.pickKey(n, "key")
	if n.child {
		e.lastOp = "child-clear"
		e.k.Event("child-clear", "%s %s", n, hx(key))
		// the host function only logs an error here (clearing in a missing child trie)
		e.each(func(s *sut) { _ = s.ts.ClearChildStorage([]byte(n.name), []byte(key)) })
	} else {
		e.lastOp = "delete"
		e.k.Event("delete", "%s", hx(key))
		if e.isKidName(key) {
			e.k.Probe("main-write-on-key-equal-to-child-name")
		}
		e.each(func(s *sut) {
			if err := s.ts.Delete([]byte(key)); err != nil {
				e.fail(s, "write-error", e.class("delete"), "Delete(%s): %v", hx(key), err)
			}
		})
	}
	e.m.del(n, key)
	e.sweepAll()
}

type clearRes struct {
	deleted    uint32
	all        bool
	err        error
	haveResult bool
	gone       []string
}

// opClear covers clear-prefix (main / child) and kill-child, with or without a limit.
func (e *env) opClear(n ns, kill bool) {
	prefix := ""
	if !kill {
		if n.child {
			prefix = e.kidPfx[e.k.Choose(len(e.kidPfx), "prefix")]
		} else {
			prefix = e.mainPfx[e.k.Choose(len(e.mainPfx), "prefix")]
		}
	}
	// number of matching keys decides the range of limits: every limit 0..n+1
	nMatch := 0
	for k := range e.m.live(n) {
		if strings.HasPrefix(k, prefix) {
			nMatch++
		}
	}
	nb := 0
	for k := range e.m.backend(n, false) {
		if strings.HasPrefix(k, prefix) {
			nb++
		}
	}
	if nb > nMatch {
		nMatch = nb
	}
	limited := e.k.Bool(2, 3, "limited")
	var limit uint32
	viaLimitAPI := limited
	if limited {
		limit = uint32(e.k.Choose(nMatch+2, "limit"))
	} else if e.k.Bool(1, 3, "none-via-limit-api") {
		viaLimitAPI = true // Option::None as the host functions pass it
	}
	plan := e.m.planClear(n, prefix, limited, limit)
	directChild := plan.direct && n.child && (!kill || limited)
	if directChild && !e.directChildClear {
		e.k.Event("skipped", "%s clear with no open transaction (known defect, generated in 1 run of 6)", n)
		return
	}
	if directChild {
		e.ctx = knownDirectChild
		defer func() { e.ctx = "" }()
	}
	if plan.direct && zeroNib(prefix) {
		// reaches the trie's ClearPrefix/ClearPrefixLimit/GetKeysWithPrefix (known: strip a trailing zero nibble)
		e.ctx = knownZeroNibble
		defer func() { e.ctx = "" }()
	}
	name := "clear-prefix"
	if kill {
		name = "kill-child"
	} else if n.child {
		name = "child-clear-prefix"
	}
	if limited {
		name += "-limit"
	}
	e.lastOp = name
	lim := "none"
	if limited {
		lim = fmt.Sprint(limit)
	}
	e.k.Event(name, "%s prefix %s limit %s (backend %s, overlay %s)", n, hx(prefix), lim, renderList(plan.bp), renderList(plan.ov))
	res := map[*sut]*clearRes{}
	e.each(func(s *sut) {
		r := &clearRes{}
		res[s] = r
		if !s.real {
			// the reference backend's iterator panics with endlessLoop when it is polled 10000 times
			// after the end of the iteration: a loop in TrieState that cannot terminate, whatever the
			// backend. It is a verdict although it is the canary that shows it (the real trie would spin).
			defer func() {
				if x := recover(); x != nil {
					if _, ok := x.(endlessLoop); !ok {
						panic(x)
					}
					e.k.Violate(prop, "hang", name+" never returns [tx]", "%s %s prefix %s limit %s does not terminate: the key iterator was polled %d times after it had reported the end of the iteration", name, n, hx(prefix), lim, maxPollsAfterEnd)
					e.k.Stop()
				}
			}()
		}
		switch {
		case kill:
			var lp *[]byte
			if limited {
				b := make([]byte, 4)
				binary.LittleEndian.PutUint32(b, limit)
				lp = &b
			}
			if !limited && !viaLimitAPI {
				r.err = s.ts.DeleteChild([]byte(n.name))
			} else {
				r.deleted, r.all, r.err = s.ts.DeleteChildLimit([]byte(n.name), lp)
				r.haveResult = r.err == nil
			}
		case n.child:
			if !viaLimitAPI {
				r.err = s.ts.ClearPrefixInChild([]byte(n.name), []byte(prefix))
			} else {
				l := limit
				if !limited {
					l = ^uint32(0)
				}
				r.deleted, r.all, r.err = s.ts.ClearPrefixInChildWithLimit([]byte(n.name), []byte(prefix), l)
				r.haveResult = r.err == nil
			}
		default:
			if !viaLimitAPI {
				r.err = s.ts.ClearPrefix([]byte(prefix))
			} else {
				l := limit
				if !limited {
					l = ^uint32(0)
				}
				r.deleted, r.all, r.err = s.ts.ClearPrefixLimit([]byte(prefix), l)
				r.haveResult = r.err == nil
			}
		}
		if r.err != nil && !n.child {
			e.fail(s, "write-error", e.class(name), "%s(%s): %v", name, hx(prefix), r.err)
		}
		// which backend-only keys are gone?
		for _, k := range plan.pb {
			if s.get(n, k) == nil {
				r.gone = append(r.gone, k)
			}
		}
	})
	// the primary decides what the model adopts where the semantics leave a choice
	p := e.prim
	r := res[p]
	if plan.direct {
		if len(r.gone) != plan.lenLo {
			if e.ctx == knownDirectChild {
				e.ctx = "" // how many keys go is not part of that known defect
			}
			e.failX(p, false, "direct-clear", e.class(name+" count"), "%s %s prefix %s limit %s with no open transaction removed %d of %d matching keys, want %d", name, n, hx(prefix), lim, len(r.gone), len(plan.bp), plan.lenLo)
		}
		e.m.applyClear(plan, 0, r.gone)
		// which keys a limited clear removes with no transaction open is adopted from the primary;
		// bring the canary's backend in line
		if e.sec.alive {
			e.sec.ref.resync(n, e.m.backend(n, false))
		}
	} else {
		for i, k := range r.gone {
			if plan.pb[i] != k {
				e.failX(p, false, "clear-limit-state", e.class(name+" order"), "%s %s prefix %s limit %s: backend keys %s were removed but the smaller key %s survived (backend keys go in lexicographic order)", name, n, hx(prefix), lim, renderList(r.gone), hx(plan.pb[i]))
			}
		}
		if len(r.gone) < plan.lenLo || len(r.gone) > plan.lenHi {
			e.failX(p, false, "clear-limit-state", e.class(name+" count"), "%s %s prefix %s limit %s: %d of the %d backend-only keys were removed, Substrate removes between %d and %d (backend %s, overlay %s)", name, n, hx(prefix), lim, len(r.gone), len(plan.pb), plan.lenLo, plan.lenHi, renderList(plan.bp), renderList(plan.ov))
		}
		if plan.lenLo != plan.lenHi {
			e.k.Probe("clear-limit-substrate-generations-differ")
		}
		if limited && limit > 0 && int(limit) == len(plan.pb) && len(plan.pb) == len(plan.bp) {
			e.k.Probe("clear-limit-equals-backend-count")
		}
		if limited && int(limit) < len(plan.pb) {
			e.k.Probe("clear-limit-cut-short")
		}
		if len(plan.ov) > 0 && limited {
			e.k.Probe("clear-limit-with-overlay-keys")
		}
		e.m.applyClear(plan, len(r.gone), nil)
	}
	e.each(func(s *sut) {
		r := res[s]
		// returned flag/number: decided by TrieState, not by the backend - checked on the primary only
		if r != nil && r.haveResult && !plan.direct && s.primary {
			// The flag: "some remaining" is required when a backend-only key under the prefix survived
			// the limit; "all removed" is required when nothing survived and both generations of
			// Substrate say so. (Both generations say "some remaining" for a few degenerate calls after
			// which nothing is left, e.g. limit 0 over keys that are already deleted - not asserted.)
			if len(r.gone) < len(plan.pb) && r.all {
				e.failX(s, false, "clear-result-all", "all-removed-flag-true-although-keys-remain/"+name, "%s %s prefix %s limit %s returned allDeleted=true although backend keys under the prefix survive the limit (backend keys under prefix %s, removed %s)", name, n, hx(prefix), lim, renderList(plan.bp), renderList(r.gone))
			}
			if len(r.gone) == len(plan.pb) && plan.allKnown && plan.all && !r.all {
				e.failX(s, false, "clear-result-all", "all-removed-flag-false-although-nothing-remains/"+name, "%s %s prefix %s limit %s returned allDeleted=false although no key under the prefix remains and no backend key was left unvisited; Substrate reports all removed (backend keys under prefix %s, overlay keys under prefix %s)", name, n, hx(prefix), lim, renderList(plan.bp), renderList(plan.ov))
			}
			// The number: Substrate reports backend keys only (removed, later: visited); gossamer's
			// unit tests pin "overlay keys deleted + backend keys". Neither reading is excluded:
			// at least the backend-only keys actually removed, at most backend keys visited plus
			// the overlay keys that were live.
			if lo, hi := uint32(len(r.gone)), plan.cntHi+uint32(plan.ovLive); r.deleted < lo || r.deleted > hi {
				e.failX(s, false, "clear-result-count", "removed-count-out-of-range/"+name, "%s %s prefix %s limit %s returned %d removed keys; %d backend-only keys were removed, at most %d backend keys could be visited and %d overlay keys were live (backend keys under prefix %s, overlay keys under prefix %s)", name, n, hx(prefix), lim, r.deleted, lo, plan.cntHi, plan.ovLive, renderList(plan.bp), renderList(plan.ov))
			}
		}
		e.sweep(s)
		if directChild {
			// a stale child root only shows in the state root
			e.checkCommitted(s, "after child clear with no open transaction")
		}
	})
}

func (e *env) opStart() {
	e.k.Event("start-tx", "depth %d -> %d", e.m.depth(), e.m.depth()+1)
	e.each(func(s *sut) {
		s.snaps = append(s.snaps, snapshot(e.observe(s, true)))
		s.ts.StartTransaction()
	})
	e.m.start()
	e.lastOp = "start"
	if e.m.depth() >= 3 {
		e.k.Probe("nesting-depth>=3")
	}
	if e.m.depth() == maxDepth {
		e.k.Probe("nesting-depth=5")
	}
	e.sweepAll()
}

func (e *env) note(l *layer, rolledBack bool) {
	if l.size() > 0 {
		e.k.Nontriv = true
		if rolledBack && l.touchesChild() {
			e.k.Probe("rollback-with-child-trie-changes")
		}
	}
}

func (e *env) opRollback(why string) {
	e.k.Event("rollback", "%s depth %d -> %d", why, e.m.depth(), e.m.depth()-1)
	e.each(func(s *sut) { s.ts.RollbackTransaction() })
	e.note(e.m.rollback(), true)
	e.lastOp = "rollback"
	e.each(func(s *sut) {
		at := s.snaps[len(s.snaps)-1]
		s.snaps = s.snaps[:len(s.snaps)-1]
		if now := snapshot(e.observe(s, true)); now != at {
			e.fail(s, "rollback-restores", "state after rollback differs from the matching start", "%s", firstDiff(at, now))
		}
		e.sweep(s)
	})
}

func (e *env) opCommit(viaRoot bool) {
	outer := e.m.depth() == 1
	e.k.Event("commit", "depth %d -> %d root=%v", e.m.depth(), e.m.depth()-1, viaRoot)
	rootGot := map[*sut][32]byte{}
	e.each(func(s *sut) {
		if viaRoot {
			r, err := s.ts.Root()
			if err != nil {
				e.fail(s, "committed-root", e.class("Root error"), "Root(): %v", err)
			}
			rootGot[s] = r
		} else {
			s.ts.CommitTransaction()
		}
		s.snaps = s.snaps[:len(s.snaps)-1]
	})
	l := e.m.commit()
	e.lastOp = "commit"
	if outer && l.size() > 0 {
		e.k.Nontriv = true
		e.k.Probe("outermost-commit-with-changes")
	} else if l.size() > 0 {
		e.k.Probe("inner-commit-with-changes")
	}
	e.each(func(s *sut) {
		if outer {
			e.checkCommitted(s, "at outermost commit")
			if viaRoot {
				if h := s.ts.Trie().MustHash(); h != rootGot[s] {
					e.fail(s, "committed-root", e.class("Root() vs Trie().Hash()"), "Root() returned %x, Trie().Hash() %s", rootGot[s], h)
				}
			}
		}
		e.sweep(s)
	})
}

func (e *env) abort() {
	all := !e.k.Bool(1, 2, "abort-innermost-only")
	if all {
		e.k.Fault("abort-rollback-all-levels")
		for e.m.depth() > 0 {
			e.opRollback("ABORT")
		}
	} else {
		e.k.Fault("abort-rollback-innermost")
		e.opRollback("ABORT")
	}
}

func pickSubset(k *kernel.K, pool []string, n int, label string) []string {
	if n > len(pool) {
		n = len(pool)
	}
	idx := make([]int, len(pool))
	for i := range idx {
		idx[i] = i
	}
	var out []string
	for i := 0; i < n; i++ {
		j := k.Choose(len(idx), label)
		out = append(out, pool[idx[j]])
		idx = append(idx[:j], idx[j+1:]...)
	}
	return out
}

func zeroNib(p string) bool { return len(p) > 0 && p[len(p)-1]&0x0f == 0 }

func (e *env) usable(ps []string) []string {
	if e.zeroNibble {
		return ps
	}
	var out []string
	for _, p := range ps {
		if !zeroNib(p) {
			out = append(out, p)
		}
	}
	return out
}

func prefixesOf(keys []string, wide bool) []string {
	set := map[string]bool{}
	for _, k := range keys {
		for i := 0; i <= len(k); i++ {
			p := k[:i]
			// Substrate's Ext refuses a main-storage prefix that is a prefix of, or lies under,
			// ":child_storage:" ("" and ":" included); gossamer's host function only refuses the latter.
			if !wide && (strings.HasPrefix(childNsPfx, p) || strings.HasPrefix(p, childNsPfx)) {
				continue
			}
			set[p] = true
		}
	}
	return sortedKeys(set)
}

func run(k *kernel.K) {
	e := &env{k: k, m: newModel(), lastOp: "init"}
	e.ver = trie.V0
	if k.Bool(1, 2, "state-version-1") {
		e.ver = trie.V1
	}
	e.mainKeys = pickSubset(k, mainPool, k.Range(3, 10, "main-alphabet"), "main-key")
	e.kids = pickSubset(k, kidNamePool, k.Choose(4, "kids"), "kid-name")
	e.kidKeys = pickSubset(k, kidKeyPool, k.Range(2, 6, "kid-alphabet"), "kid-key")
	e.roKeys = []string{childRootPfx}
	for _, c := range e.kids {
		e.roKeys = append(e.roKeys, childRootPfx+c)
	}
	// prefixes whose last byte has a zero low nibble (0x10, 0x1000) only in 1 run of 6: the in-memory
	// trie strips that nibble in ClearPrefix/ClearPrefixLimit/GetKeysWithPrefix (known finding of C02)
	e.zeroNibble = k.Bool(1, 6, "knob-zero-low-nibble-prefixes")
	e.directChildClear = k.Bool(1, 6, "knob-child-clear-without-transaction")
	e.mainPfx = e.usable(prefixesOf(e.mainKeys, false))
	if len(e.mainPfx) == 0 {
		e.mainPfx = []string{"a"}
	}
	e.kidPfx = e.usable(prefixesOf(e.kidKeys, true))
	if len(e.kidPfx) > 5 {
		e.kidPfx = append([]string{""}, pickSubset(k, e.kidPfx[1:], 4, "kid-prefix")...)
	}

	// initial committed state, built directly in both backends
	e.sec = &sut{name: "reference-backend", alive: true}
	e.prim = &sut{name: "inmemory-backend", primary: true, real: true, alive: true}
	e.suts = []*sut{e.sec, e.prim} // the canary goes first
	ref := newMapTrie(e.ver)
	real := inmemory.NewEmptyTrie()
	real.SetVersion(e.ver)
	nInit := k.Choose(21, "initial-keys")
	for i := 0; i < nInit; i++ {
		n := ns{}
		if len(e.kids) > 0 && k.Bool(1, 3, "initial-in-child") {
			n = ns{true, e.kids[k.Choose(len(e.kids), "kid")]}
		}
		key := e.pickKey(n, "key")
		v := e.value(n.child)
		put := func(tr trie.Trie) {
			var err error
			if n.child {
				err = tr.PutIntoChild([]byte(n.name), []byte(key), append([]byte{}, v...))
			} else {
				err = tr.Put([]byte(key), append([]byte{}, v...))
			}
			if err != nil {
				panic("txn harness: initial state: " + err.Error())
			}
		}
		put(ref)
		put(real)
		e.m.put(n, key, v)
	}
	e.sec.ts, e.sec.ref = storage.NewTrieState(ref), ref
	e.prim.ts = storage.NewTrieState(real)
	k.Event("init", "version %d, %d main keys, %d child tries, alphabet main %s kids %s kid-keys %s", e.ver, len(e.m.bMain), len(e.m.bKids), renderList(e.mainKeys), renderList(e.kids), renderList(e.kidKeys))
	e.sweepAll()

	nOps := k.Range(5, 200, "ops")
	abortAt := -1
	if k.Bool(1, 2, "inject-abort") {
		abortAt = k.Choose(nOps, "abort-at")
	}
	// block execution always runs inside a transaction (wazero Instance.ExecuteBlock);
	// half of the runs never mutate with no transaction open
	blockStyle := !k.Bool(1, 2, "allow-direct-mutation")
	if blockStyle {
		e.opStart()
	}
	hasKids := len(e.kids) > 0
	for i := 0; i < nOps; i++ {
		if abortAt >= 0 && i >= abortAt && e.m.depth() > 0 {
			abortAt = -1
			e.abort()
			k.Probe("abort-injected")
			if blockStyle && e.m.depth() == 0 {
				e.opStart()
			}
			continue
		}
		d := e.m.depth()
		switch op := k.Choose(40, "op"); {
		case op < 5:
			e.opSet(ns{})
		case op < 8:
			e.opDel(ns{})
		case op < 10:
			e.opGet(ns{}, false)
		case op < 11:
			e.opGet(ns{}, true)
		case op < 13:
			e.opNext(ns{})
		case op < 15:
			e.opClear(ns{}, false)
		case op < 19:
			if d < maxDepth {
				e.opStart()
			}
		case op < 22:
			if d > 1 || (d == 1 && !blockStyle) {
				e.opCommit(false)
			} else if d == 1 && k.Bool(1, 4, "block-boundary") {
				// end of a block: ext_storage_root commits the block's transaction, the next block opens a new one
				e.opCommit(k.Bool(1, 2, "via-Root"))
				e.opStart()
			}
		case op < 25:
			if d > 1 || (d == 1 && !blockStyle) {
				e.opRollback("rollback")
			} else if d == 1 && k.Bool(1, 4, "block-discarded") {
				e.opRollback("rollback")
				e.opStart()
			}
		case !hasKids:
			e.opSet(ns{})
		case op < 29:
			e.opSet(e.pickNs())
		case op < 31:
			e.opDel(e.pickNs())
		case op < 33:
			e.opGet(e.pickNs(), k.Bool(1, 3, "exists"))
		case op < 35:
			e.opNext(e.pickNs())
		case op < 36:
			e.opKidKeys()
		case op < 38:
			e.opClear(e.pickNs(), true)
		default:
			e.opClear(e.pickNs(), false)
		}
	}
	// unwind
	for e.m.depth() > 0 {
		if k.Bool(1, 3, "final-rollback") {
			e.opRollback("final")
		} else {
			e.opCommit(e.m.depth() == 1 && k.Bool(1, 2, "via-Root"))
		}
	}
	e.lastOp = "end"
	e.each(func(s *sut) {
		e.checkCommitted(s, "at end of run")
		e.sweep(s)
	})
	if e.sec.alive {
		k.Probe("canary(reference-backend)-agreed-whole-run")
	}
}
