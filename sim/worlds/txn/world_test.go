package txn

import (
	"runtime/debug"
	"testing"
	"time"

	"github.com/ChainSafe/gossamer/verifsim/kernel"
)

type world struct{}

func (world) Name() string         { return "txn" }
func (world) Props() []string      { return []string{"C08"} }
func (world) Bubble(string) bool   { return false }
func (world) Level(string) string  { return "exploration" }
func (world) Run(k *kernel.K)      { run(k) }
func (world) Rule(p string) string { return rule }
func (world) Components(p string) ([]string, []string) {
	return []string{
			"lib/runtime/storage.TrieState (Put/Get/Has/Delete/ClearPrefix/ClearPrefixLimit/NextKey/TrieEntries, SetChildStorage/GetChildStorage/ClearChildStorage/DeleteChild/DeleteChildLimit/ClearPrefixInChild/ClearPrefixInChildWithLimit/GetChildNextKey/GetKeysWithPrefixFromChild, StartTransaction/CommitTransaction/RollbackTransaction/Root/Trie) - two instances per run, driven in lockstep",
			"lib/runtime/storage.storageDiff (snapshot, upsert, delete, clearPrefix, deleteChildLimit, clearPrefixInChild, upsertChild, deleteFromChild, applyToTrie)",
			"pkg/trie/inmemory.InMemoryTrie as backend of the verdict-giving TrieState instance (and, freshly built, as root reference)",
		},
		[]string{
			"backend of the second TrieState instance (canary, driven first): mapTrie, the trie.Trie contract over ordered maps with storeutil.SpecRoot as Hash() and child roots stored as main entries; its iterator panics when polled 10000 times after the end of an iteration, which turns a non-terminating loop of TrieState into a reportable violation (oracle hang) before the real trie is touched; when the canary agrees with the model where the verdict instance does not, the class gets the prefix 'inmemory-only: '",
			"the runtime issuing storage host calls (tape-driven workload following the call patterns of lib/runtime/wazero/imports.go: values copied, child-read errors mapped to None, empty next-key mapped to None, kill limit as little-endian bytes, Option::None limit as MaxUint32)",
			"runtime trap / failed block execution (abort = rollback of all or of the innermost open transaction at a tape-chosen operation index)",
		}
}
func (world) Budget(p, tier string) (int, time.Duration) {
	if tier == "thorough" {
		return 2000000, 8 * time.Minute
	}
	return 150000, 40 * time.Second
}

const rule = "one run = two real storage.TrieState instances driven in lockstep with the same calls: the verdict instance over the real pkg/trie/inmemory trie and a canary over a reference map backend (driven first; detects non-terminating loops; tells whether a failure lives in TrieState or below it; a failure seen only on the canary is an observation, not a verdict); state version 0 or 1, 0-20 tape-chosen initial keys in the main trie and up to 3 child tries; 5-200 tape-chosen runtime storage calls (set/get/exists/delete/clear-prefix with no limit or every limit 0..n+1/next-key on main storage; set/get/exists/clear/kill with and without limit/clear-prefix with and without limit/next-key/key listing on child storage) interleaved with StartTransaction/CommitTransaction/RollbackTransaction/Root up to nesting depth 5, half of the runs block-style (always inside a transaction, commit or Root() at block boundaries), half also mutating with no transaction open; an abort (rollback of all or of the innermost open level) is injected at a tape-chosen operation index. Alphabet: <=10 main keys out of 16 (shared prefixes, keys that are prefixes of others, empty key, 0x10/0x1000/0x1001/0x11/0x1f, keys equal to child-trie names, ':'/':child'/':code'), child names out of {a,c1,ab,0x10}, child keys incl. the empty key and ':child_storage:default:a', prefixes = all prefixes of alphabet keys incl. the empty prefix for child tries; values of length 0,1,2,31,32,33,64, every non-empty value unique in the run. Inputs that run into KNOWN unrepaired defects are generated in 1 run of 6 each (tape knobs) and end the run with a class carrying the defect's prefix: prefixes whose last byte has a zero low nibble ('zero-low-nibble-prefix: ', in-memory trie, C02) and limited kill/prefix clear of a child trie with no open transaction ('child-clear-without-transaction: ', TrieState); two child tries with identical contents (C04) are never generated (child tries get empty values only in runs with at most one child trie). Oracle: a stack of overlay layers over a backend map (main and per-child namespaces, tombstones) implementing Substrate's OverlayedChanges/Ext semantics; after EVERY mutating call and transaction boundary every key of the alphabet is read back through Get, NextKey, TrieEntries, GetChildStorage, GetChildNextKey and GetKeysWithPrefixFromChild and compared; every rollback/abort is additionally compared, model-free, with the observation taken at the matching start; after every outermost commit and at the end of the run the committed main and child contents and Trie().Hash() are compared with the committed operations applied directly (root of a fresh in-memory trie fed the net contents; storeutil.SpecRoot as a C01 observation; canary: SpecRoot). For limited clears only what both generations of Substrate's limit_remove_from_backend agree on is asserted (all overlay keys gone, backend-only keys removed in lexicographic order, their number within the interval of the two generations; oracle clear-result-all: flag must be false when a backend-only key survived, true when nothing survived and both generations say so; oracle clear-result-count: number within [backend-only keys removed, backend keys visited + live overlay keys]; after these two oracles state and model still agree, so a known finding may continue). With no transaction open a limited clear must remove exactly min(limit,n) keys (which ones is adopted). Main-storage writes to keys under ':child_storage:' and main prefixes that are a prefix of ':child_storage:' are not generated (Substrate's Ext refuses them); such keys are only read (presence = child trie non-empty in the backend). A run is non-trivial if a rollback/abort discarded, or an outermost commit applied, a layer with at least one change; distinct = distinct event-kind sequence fingerprint."

func TestVerif(t *testing.T) {
	// runs are tiny and allocation-heavy (every read is rendered); collect less often
	debug.SetGCPercent(1000)
	kernel.Main(t, world{})
}
