package txn

import (
	"fmt"
	"os"
	"strconv"
	"testing"

	"github.com/ChainSafe/gossamer/lib/runtime/storage"
	"github.com/ChainSafe/gossamer/pkg/trie/inmemory"
	"github.com/ChainSafe/gossamer/verifsim/kernel"
)

// TestDebugRun prints the trace of one generated run:
//
//	TXN_RUN=7 [TXN_SEED=1] .build/txn.test -test.run '^TestDebugRun$' -test.v
func TestDebugRun(t *testing.T) {
	s := os.Getenv("TXN_RUN")
	if s == "" {
		t.Skip("TXN_RUN not set")
	}
	ix, _ := strconv.ParseUint(s, 10, 64)
	seed := uint64(1)
	if v := os.Getenv("TXN_SEED"); v != "" {
		seed, _ = strconv.ParseUint(v, 10, 64)
	}
	if v := os.Getenv("TXN_BENCH"); v != "" { // run ix..ix+n-1 silently (profiling)
		n, _ := strconv.ParseUint(v, 10, 64)
		for i := ix; i < ix+n; i++ {
			kernel.RunOne(t, world{}, "C08", "quick", kernel.NewGenTape(seed, i), i)
		}
		return
	}
	r := kernel.RunOne(t, world{}, "C08", "quick", kernel.NewGenTape(seed, ix), ix)
	for _, l := range r.Log {
		fmt.Println(l)
	}
	if r.Trouble != "" {
		fmt.Println("TROUBLE", r.Trouble)
	}
	if r.Viol != nil {
		fmt.Printf("VIOLATION %s\n  %s\n", r.Viol.Key(), r.Viol.Msg)
	}
	for _, o := range r.Others {
		fmt.Printf("OTHER %s\n  %s\n", o.Key(), o.Msg)
	}
	fmt.Println("probes", r.Probes, "faults", r.Faults)
}

// TestDefectProbes replays a few hand-written call sequences against the real
// TrieState over the real in-memory trie and prints what comes back
// (TXN_PROBES=1). Confirmations for defects that other defects mask in random runs.
func TestDefectProbes(t *testing.T) {
	if os.Getenv("TXN_PROBES") == "" {
		t.Skip("TXN_PROBES not set")
	}
	mk := func() *storage.TrieState {
		tr := inmemory.NewEmptyTrie()
		_ = tr.PutIntoChild([]byte("c"), []byte("k"), []byte{1})
		_ = tr.PutIntoChild([]byte("c"), []byte("k2"), []byte{2})
		_ = tr.Put([]byte("c"), []byte{9})
		return storage.NewTrieState(tr)
	}
	{
		ts := mk()
		ts.StartTransaction()
		_ = ts.ClearChildStorage([]byte("c"), []byte("k"))
		_ = ts.SetChildStorage([]byte("c"), []byte("k"), []byte{7})
		inTx, _ := ts.GetChildStorage([]byte("c"), []byte("k"))
		ts.CommitTransaction()
		after, err := ts.GetChildStorage([]byte("c"), []byte("k"))
		fmt.Printf("P1 child clear(k); child set(k,7); in tx: %v; after commit: %v err=%v   (want [7] [7])\n", inTx, after, err)
	}
	{
		ts := mk()
		ts.StartTransaction()
		_ = ts.Delete([]byte("c")) // main key "c", a child trie is also named "c"
		ts.CommitTransaction()
		main := ts.Get([]byte("c"))
		kid, err := ts.GetChildStorage([]byte("c"), []byte("k"))
		fmt.Printf("P2 main delete('c') in tx, commit: main 'c' = %v (want nil), child c/k = %v err=%v (want [1])\n", main, kid, err)
	}
	{
		ts := mk()
		ts.StartTransaction()
		_ = ts.DeleteChild([]byte("c"))
		_ = ts.SetChildStorage([]byte("c"), []byte("new"), []byte{5})
		k2, _ := ts.GetChildStorage([]byte("c"), []byte("k2"))
		ts.CommitTransaction()
		k2c, _ := ts.GetChildStorage([]byte("c"), []byte("k2"))
		main := ts.Get([]byte("c"))
		fmt.Printf("P3 kill child c; child set(new): c/k2 in tx = %v, after commit = %v (want nil nil); main 'c' = %v (want [9])\n", k2, k2c, main)
	}
}

// TestChildAlias: two child tries with equal contents share one entry of
// InMemoryTrie.childTries (keyed by the child root hash).
func TestChildAlias(t *testing.T) {
	if os.Getenv("TXN_PROBES") == "" {
		t.Skip("TXN_PROBES not set")
	}
	defer func() { fmt.Println("P4 recovered:", recover()) }()
	tr := inmemory.NewEmptyTrie()
	_ = tr.PutIntoChild([]byte("c1"), []byte("k"), []byte{1})
	_ = tr.PutIntoChild([]byte("c2"), []byte("k"), []byte{1}) // same contents => same root hash
	_ = tr.PutIntoChild([]byte("c1"), []byte("x"), []byte{2}) // deletes childTries[hash], which c2 still needs
	v, err := tr.GetFromChild([]byte("c2"), []byte("k"))
	fmt.Printf("P4 c1={k:1}, c2={k:1}, put c1/x: GetFromChild(c2,k) = %v err=%v (want [1])\n", v, err)
	err = tr.PutIntoChild([]byte("c2"), []byte("y"), []byte{3})
	fmt.Println("P4 PutIntoChild(c2,y):", err)
}
