package txn

import (
	"fmt"
	"os"
	"strconv"
	"testing"

	"github.com/ChainSafe/gossamer/verifsim/kernel"
)

// TestDebugRun prints the trace of one generated run:
//
//	TXN_RUN=7 [TXN_SEED=1] .build/txn.test -test.run '^TestDebugRun$' -test.v
func TestDebugRun(t *testing.T) {
	s := os.Getenv("TXN_RUN")
	if s == "" {
		t.Skip("TXN_RUN not set")
	}
	ix, _ := strconv.ParseUint(s, 10, 64)
	seed := uint64(1)
	if v := os.Getenv("TXN_SEED"); v != "" {
		seed, _ = strconv.ParseUint(v, 10, 64)
	}
	if v := os.Getenv("TXN_BENCH"); v != "" { // run ix..ix+n-1 silently (profiling)
		n, _ := strconv.ParseUint(v, 10, 64)
		for i := ix; i < ix+n; i++ {
			kernel.RunOne(t, world{}, "C08", "quick", kernel.NewGenTape(seed, i), i)
		}
		return
	}
	r := kernel.RunOne(t, world{}, "C08", "quick", kernel.NewGenTape(seed, ix), ix)
	for _, l := range r.Log {
		fmt.Println(l)
	}
	if r.Trouble != "" {
		fmt.Println("TROUBLE", r.Trouble)
	}
	if r.Viol != nil {
		fmt.Printf("VIOLATION %s\n  %s\n", r.Viol.Key(), r.Viol.Msg)
	}
	for _, o := range r.Others {
		fmt.Printf("OTHER %s\n  %s\n", o.Key(), o.Msg)
	}
	fmt.Println("probes", r.Probes, "faults", r.Faults)
}
