package txn

import (
	"fmt"
	"sort"
	"strings"

	"github.com/ChainSafe/gossamer/lib/common"
	"github.com/ChainSafe/gossamer/pkg/trie"
	"github.com/ChainSafe/gossamer/pkg/trie/tracking"
	"github.com/ChainSafe/gossamer/verifsim/storeutil"
)

// mapTrie is a STUB backend: the trie.Trie contract implemented over plain
// ordered maps, with the independent spec root as Hash(). The real TrieState is
// run over it so that what fails there is a defect of TrieState/storageDiff and
// not one of pkg/trie/inmemory (whose own defects belong to C02 and would
// otherwise stop every run of this world). It mirrors the real trie's
// conventions that TrieState relies on:
//   - the main map holds one entry ":child_storage:default:"+name -> child root per
//     child trie, written by PutIntoChild/ClearFromChild (NOT recomputed lazily:
//     mutating a trie obtained from GetChild behind the parent's back leaves
//     that entry stale, exactly as in the real trie);
//   - a child trie that becomes empty through ClearFromChild is removed;
//   - PrefixedIter(p) iterates the keys strictly greater than p.
type mapTrie struct {
	m    map[string][]byte
	kids map[string]*mapTrie
	ver  trie.TrieLayout
}

var _ trie.Trie = (*mapTrie)(nil)

func newMapTrie(v trie.TrieLayout) *mapTrie {
	return &mapTrie{m: map[string][]byte{}, kids: map[string]*mapTrie{}, ver: v}
}

func (t *mapTrie) sv() storeutil.Version {
	if t.ver == trie.V1 {
		return storeutil.V1
	}
	return storeutil.V0
}

func (t *mapTrie) String() string { return fmt.Sprintf("mapTrie(%d keys)", len(t.m)) }

func (t *mapTrie) Get(key []byte) []byte {
	v, ok := t.m[string(key)]
	if !ok {
		return nil
	}
	if v == nil {
		return []byte{}
	}
	return v
}

func (t *mapTrie) Put(key, value []byte) error {
	if value == nil {
		value = []byte{}
	}
	t.m[string(key)] = value
	return nil
}

func (t *mapTrie) Delete(key []byte) error { delete(t.m, string(key)); return nil }

func (t *mapTrie) Hash() (common.Hash, error) {
	return common.Hash(storeutil.SpecRoot(t.m, t.sv())), nil
}

func (t *mapTrie) MustHash() common.Hash { h, _ := t.Hash(); return h }

func (t *mapTrie) sorted() []string { return sortedKeys(t.m) }

func (t *mapTrie) Entries() map[string][]byte {
	out := make(map[string][]byte, len(t.m))
	for k, v := range t.m {
		out[k] = v
	}
	return out
}

func (t *mapTrie) NextKey(key []byte) []byte { return nextIn(t.sorted(), string(key)) }

func (t *mapTrie) GetKeysWithPrefix(prefix []byte) [][]byte {
	var out [][]byte
	for _, k := range t.sorted() {
		if strings.HasPrefix(k, string(prefix)) {
			out = append(out, []byte(k))
		}
	}
	return out
}

func (t *mapTrie) ClearPrefix(prefix []byte) error {
	for k := range t.m {
		if strings.HasPrefix(k, string(prefix)) {
			delete(t.m, k)
		}
	}
	return nil
}

func (t *mapTrie) ClearPrefixLimit(prefix []byte, limit uint32) (uint32, bool, error) {
	var deleted uint32
	all := true
	for _, k := range t.sorted() {
		if !strings.HasPrefix(k, string(prefix)) {
			continue
		}
		if deleted == limit {
			all = false
			break
		}
		delete(t.m, k)
		deleted++
	}
	return deleted, all, nil
}

func (t *mapTrie) SetVersion(v trie.TrieLayout) { t.ver = v }

func (t *mapTrie) GetChangedNodeHashes() (inserted, deleted map[common.Hash]struct{}, err error) {
	return map[common.Hash]struct{}{}, map[common.Hash]struct{}{}, nil
}

func (t *mapTrie) HandleTrackedDeltas(bool, tracking.Getter) {}

// ---- iterator ---------------------------------------------------------------

type mapIter struct {
	t      *mapTrie
	cursor string
	atRoot bool // nothing consumed yet and no cursor: the empty key is still ahead
	polled int  // calls after the iteration was exhausted
}

// endlessLoop is the panic value of an iterator that keeps being polled after
// it reported the end of the iteration: the caller's loop can never terminate.
// It turns a hang of the code under test into a reportable event.
type endlessLoop struct{}

const maxPollsAfterEnd = 10000

func (t *mapTrie) Iter() trie.TrieIterator { return &mapIter{t: t, atRoot: true} }
func (t *mapTrie) PrefixedIter(prefix []byte) trie.TrieIterator {
	return &mapIter{t: t, cursor: string(prefix)}
}

func (it *mapIter) NextEntry() *trie.Entry {
	keys := it.t.sorted()
	i := sort.SearchStrings(keys, it.cursor)
	if !it.atRoot {
		for i < len(keys) && keys[i] <= it.cursor {
			i++
		}
	}
	it.atRoot = false
	if i >= len(keys) {
		if it.polled++; it.polled > maxPollsAfterEnd {
			panic(endlessLoop{})
		}
		return nil
	}
	it.cursor = keys[i]
	return &trie.Entry{Key: []byte(keys[i]), Value: it.t.m[keys[i]]}
}

func (it *mapIter) NextKey() []byte {
	e := it.NextEntry()
	if e == nil {
		return nil
	}
	return e.Key
}

func (it *mapIter) NextKeyFunc(pred func([]byte) bool) []byte {
	for k := it.NextKey(); k != nil; k = it.NextKey() {
		if pred(k) {
			return k
		}
	}
	return nil
}

func (it *mapIter) Seek(target []byte) {
	it.NextKeyFunc(func(k []byte) bool { return string(k) >= string(target) })
}

// ---- child tries --------------------------------------------------------------

func childRootKey(name []byte) string { return childRootPfx + string(name) }

func errNoChild(name []byte) error {
	return fmt.Errorf("%w at key 0x%x%x", trie.ErrChildTrieDoesNotExist, childRootPfx, name)
}

func (t *mapTrie) child(name []byte) (*mapTrie, error) {
	if _, ok := t.m[childRootKey(name)]; !ok {
		return nil, errNoChild(name)
	}
	c := t.kids[string(name)]
	if c == nil {
		return nil, errNoChild(name)
	}
	return c, nil
}

func (t *mapTrie) GetChild(name []byte) (trie.Trie, error) {
	c, err := t.child(name)
	if err != nil {
		return nil, err
	}
	return c, nil
}

func (t *mapTrie) GetFromChild(name, key []byte) ([]byte, error) {
	c, err := t.child(name)
	if err != nil {
		return nil, err
	}
	return c.Get(key), nil
}

func (t *mapTrie) GetChildTries() map[common.Hash]trie.Trie {
	out := map[common.Hash]trie.Trie{}
	for _, c := range t.kids {
		out[c.MustHash()] = c
	}
	return out
}

func (t *mapTrie) setChild(name []byte, c *mapTrie) {
	h := c.MustHash()
	t.m[childRootKey(name)] = h.ToBytes()
	t.kids[string(name)] = c
}

func (t *mapTrie) PutIntoChild(name, key, value []byte) error {
	c, err := t.child(name)
	if err != nil {
		c = newMapTrie(t.ver)
	}
	c.ver = t.ver
	_ = c.Put(key, value)
	t.setChild(name, c)
	return nil
}

func (t *mapTrie) DeleteChild(name []byte) error {
	delete(t.m, childRootKey(name))
	delete(t.kids, string(name))
	return nil
}

func (t *mapTrie) ClearFromChild(name, key []byte) error {
	c, err := t.child(name)
	if err != nil {
		return err
	}
	_ = c.Delete(key)
	if len(c.m) == 0 {
		return t.DeleteChild(name)
	}
	t.setChild(name, c)
	return nil
}

// resync makes one namespace hold exactly the given contents (used after a
// limited clear with no transaction open, where which keys go is adopted from
// the primary instance).
func (t *mapTrie) resync(n ns, want map[string][]byte) {
	if !n.child {
		for k := range t.m {
			if !isChildRootKey(k) {
				if _, ok := want[k]; !ok {
					delete(t.m, k)
				}
			}
		}
		for k, v := range want {
			t.m[k] = v
		}
		return
	}
	if len(want) == 0 {
		_ = t.DeleteChild([]byte(n.name))
		return
	}
	c := newMapTrie(t.ver)
	for k, v := range want {
		c.m[k] = v
	}
	t.setChild([]byte(n.name), c)
}
