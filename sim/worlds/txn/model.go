package txn

import (
	"sort"
	"strings"
)

// Reference model for C08, written from the property statement and from the
// semantics of Substrate's sp-state-machine (OverlayedChanges + Ext), NOT from
// gossamer's storageDiff:
//
//   * the committed state ("backend") is a main map plus one map per child trie;
//     a child trie exists iff it has at least one key;
//   * an open transaction is a LAYER of changes (value or tombstone per key, main
//     and per child separately - the two namespaces never interact); reads walk
//     the layers from the innermost outwards and fall through to the backend;
//   * commit merges the innermost layer into the one below (the outermost into
//     the backend), rollback drops it;
//   * clear-prefix / kill-child: every key of the OVERLAY (all layers) under the
//     prefix is deleted unconditionally and never counts towards the limit, then
//     backend keys are deleted in lexicographic order up to the limit
//     (sp_io::storage::clear_prefix documentation, Ext::clear_prefix,
//     Ext::kill_child_storage, Ext::limit_remove_from_backend).
//     Two released generations of limit_remove_from_backend differ on whether a
//     backend key that already has an overlay entry counts towards the limit
//     (before the cursor API it did, since then it does not). The model computes
//     both and exposes the interval; only what both agree on is asserted.

// ns selects a namespace: the main storage or one child trie.
type ns struct {
	child bool
	name  string
}

func (n ns) String() string {
	if !n.child {
		return "main"
	}
	return "child(" + hx(n.name) + ")"
}

type ent struct {
	v   []byte
	del bool
}

type layer struct {
	main map[string]ent
	kids map[string]map[string]ent
}

func newLayer() *layer { return &layer{main: map[string]ent{}, kids: map[string]map[string]ent{}} }

func (l *layer) space(n ns, create bool) map[string]ent {
	if !n.child {
		return l.main
	}
	s := l.kids[n.name]
	if s == nil && create {
		s = map[string]ent{}
		l.kids[n.name] = s
	}
	return s
}

func (l *layer) size() int {
	c := len(l.main)
	for _, s := range l.kids {
		c += len(s)
	}
	return c
}

func (l *layer) touchesChild() bool {
	for _, s := range l.kids {
		if len(s) > 0 {
			return true
		}
	}
	return false
}

type model struct {
	bMain  map[string][]byte
	bKids  map[string]map[string][]byte
	layers []*layer
}

func newModel() *model {
	return &model{bMain: map[string][]byte{}, bKids: map[string]map[string][]byte{}}
}

func (m *model) depth() int { return len(m.layers) }

func (m *model) backend(n ns, create bool) map[string][]byte {
	if !n.child {
		return m.bMain
	}
	s := m.bKids[n.name]
	if s == nil && create {
		s = map[string][]byte{}
		m.bKids[n.name] = s
	}
	return s
}

func (m *model) dropEmptyKids() {
	for c, s := range m.bKids {
		if len(s) == 0 {
			delete(m.bKids, c)
		}
	}
}

// ovLookup finds the innermost overlay entry of key.
func (m *model) ovLookup(n ns, key string) (ent, bool) {
	for i := len(m.layers) - 1; i >= 0; i-- {
		if s := m.layers[i].space(n, false); s != nil {
			if e, ok := s[key]; ok {
				return e, true
			}
		}
	}
	return ent{}, false
}

// ovKeys is the set of keys that have an entry (value or tombstone) in any layer.
func (m *model) ovKeys(n ns) map[string]bool {
	out := map[string]bool{}
	for _, l := range m.layers {
		for k := range l.space(n, false) {
			out[k] = true
		}
	}
	return out
}

func (m *model) get(n ns, key string) ([]byte, bool) {
	if e, ok := m.ovLookup(n, key); ok {
		if e.del {
			return nil, false
		}
		return e.v, true
	}
	v, ok := m.backend(n, false)[key]
	return v, ok
}

// live is the merged view of a namespace.
func (m *model) live(n ns) map[string][]byte {
	out := map[string][]byte{}
	for k, v := range m.backend(n, false) {
		out[k] = v
	}
	for _, l := range m.layers {
		for k, e := range l.space(n, false) {
			if e.del {
				delete(out, k)
			} else {
				out[k] = e.v
			}
		}
	}
	return out
}

func sortedKeys[V any](mm map[string]V) []string {
	ks := make([]string, 0, len(mm))
	for k := range mm {
		ks = append(ks, k)
	}
	sort.Strings(ks)
	return ks
}

func (m *model) put(n ns, key string, v []byte) {
	if len(m.layers) == 0 {
		m.backend(n, true)[key] = v
		return
	}
	m.layers[len(m.layers)-1].space(n, true)[key] = ent{v: v}
}

func (m *model) del(n ns, key string) {
	if len(m.layers) == 0 {
		if b := m.backend(n, false); b != nil {
			delete(b, key)
		}
		m.dropEmptyKids()
		return
	}
	m.layers[len(m.layers)-1].space(n, true)[key] = ent{del: true}
}

func (m *model) start() { m.layers = append(m.layers, newLayer()) }

func (m *model) rollback() *layer {
	l := m.layers[len(m.layers)-1]
	m.layers = m.layers[:len(m.layers)-1]
	return l
}

func (m *model) commit() *layer {
	top := m.rollback()
	if len(m.layers) > 0 {
		below := m.layers[len(m.layers)-1]
		for k, e := range top.main {
			below.main[k] = e
		}
		for c, s := range top.kids {
			bs := below.space(ns{true, c}, true)
			for k, e := range s {
				bs[k] = e
			}
		}
		return top
	}
	apply := func(n ns, s map[string]ent) {
		for k, e := range s {
			if e.del {
				if b := m.backend(n, false); b != nil {
					delete(b, k)
				}
			} else {
				m.backend(n, true)[k] = e.v
			}
		}
	}
	apply(ns{}, top.main)
	for c, s := range top.kids {
		apply(ns{true, c}, s)
	}
	m.dropEmptyKids()
	return top
}

// clearPlan is what the semantics prescribe for one clear-prefix / kill-child.
type clearPlan struct {
	n       ns
	prefix  string
	limited bool
	limit   uint32
	direct  bool     // no open transaction: everything is backend
	ov      []string // overlay keys under the prefix: all deleted, never counted
	ovLive  int      // how many of them were live values
	bp      []string // backend keys under the prefix, sorted
	pb      []string // backend keys under the prefix without any overlay entry, sorted
	// number of pb keys (an initial segment of pb) that get deleted
	lenLo, lenHi int
	// result flags; Known = both generations of Substrate agree
	allKnown bool
	all      bool
	cntKnown bool
	cnt      uint32
	cntHi    uint32 // larger of the two generations' counts
}

func (m *model) planClear(n ns, prefix string, limited bool, limit uint32) *clearPlan {
	p := &clearPlan{n: n, prefix: prefix, limited: limited, limit: limit, direct: len(m.layers) == 0}
	for _, k := range sortedKeys(m.backend(n, false)) {
		if strings.HasPrefix(k, prefix) {
			p.bp = append(p.bp, k)
		}
	}
	if p.direct {
		p.pb = p.bp
		nDel := len(p.bp)
		if limited && int64(limit) < int64(nDel) {
			nDel = int(limit)
		}
		p.lenLo, p.lenHi = nDel, nDel
		return p
	}
	ovs := m.ovKeys(n)
	for _, k := range sortedKeys(ovs) {
		if strings.HasPrefix(k, prefix) {
			p.ov = append(p.ov, k)
			if e, _ := m.ovLookup(n, k); !e.del {
				p.ovLive++
			}
		}
	}
	for _, k := range p.bp {
		if !ovs[k] {
			p.pb = append(p.pb, k)
		}
	}
	// current generation: overlay-shadowed backend keys are skipped and not counted
	var delNew, loops uint32
	cursor := false
	for _, k := range p.bp {
		if limited && delNew == limit {
			cursor = true
			break
		}
		if !ovs[k] {
			delNew++
		}
		loops++
	}
	// previous generation: every backend key visited counts
	var numOld uint32
	allOld := true
	lenOld := 0
	for _, k := range p.bp {
		if limited && numOld == limit {
			allOld = false
			break
		}
		numOld++
		if !ovs[k] {
			lenOld++
		}
	}
	p.lenLo, p.lenHi = lenOld, int(delNew)
	if p.lenLo > p.lenHi {
		p.lenLo, p.lenHi = p.lenHi, p.lenLo
	}
	if allOld == !cursor {
		p.allKnown, p.all = true, allOld
	}
	if numOld == loops {
		p.cntKnown, p.cnt = true, numOld
	}
	p.cntHi = max(numOld, loops)
	return p
}

// applyClear performs the plan with nPB pure-backend keys removed; for the
// direct mode gone lists exactly which backend keys vanished.
func (m *model) applyClear(p *clearPlan, nPB int, gone []string) {
	if p.direct {
		b := m.backend(p.n, false)
		for _, k := range gone {
			delete(b, k)
		}
		m.dropEmptyKids()
		return
	}
	top := m.layers[len(m.layers)-1].space(p.n, true)
	for _, k := range p.ov {
		top[k] = ent{del: true}
	}
	for _, k := range p.pb[:nPB] {
		top[k] = ent{del: true}
	}
}
