package grandpa

import (
	"testing"
	"time"

	"github.com/ChainSafe/gossamer/verifsim/kernel"
)

type world struct{}

func (world) Name() string          { return "grandpa" }
func (world) Props() []string       { return []string{"C18", "C21", "C22"} }
func (world) Bubble(p string) bool  { return true }
func (world) Level(p string) string { return "exploration" }
func (world) Run(k *kernel.K)       { runGrandpa(k) }
func (world) Rule(p string) string {
	base := "one run = 4-7 GRANDPA voters (C18: 1-10), fewer than a third Byzantine (C18: the adversary may hold any number of keys), each honest voter a real lib/grandpa.Service over real dot/state on its own simulated disk, on a generated block tree with forks that keeps growing and that nodes import at different times. Every step is tape-chosen: deliver one in-flight message (any order), advance one node's round driver by one action of finalisation.go (initiateRound / prevote incl. primary / precommit behind the real supermajority gate / attemptToFinalize + commit), a Byzantine action (votes and commit messages composed from own valid signatures, replayed honest precommits, forged, duplicated, equivocating, mis-numbered, wrong round/set/stage, non-authority entries; selective sending), block production/import, partition/heal, crash+restart from disk. Messages travel as bytes from the real encoders through the real decoders; per message the network may drop or duplicate. One third of the C21/C22 runs use the REAL round driver instead of the simulator's: Service.Start's vote tracker goroutine and finalisationHandler / finalisationEngine / votingRoundHandler goroutines with their real timers on the virtual clock, each node on a timer grid of its own so that one party is active at a time; the driver delivers messages, lets 10 ms - 4 s of virtual time pass, plays the Byzantine voters, restarts nodes; oracles there: safety after every step, every precommit a node's own driver sends has > 2/3 of the prevotes the node counts, every commit it announces carries > 2/3 valid precommits, uncountable votes leave the tallies unchanged. "
	switch p {
	case "C18":
		return base + "C18 oracle: for every commit message delivered, an independent count of distinct authorities with a valid precommit on the target or a descendant plus authorities with two different valid precommits decides must-not/must finalise: finalised => count > 2n/3; clean messages at the boundary with count > 2n/3 => finalised. In a quarter of the runs the authority set changes for real (the Byzantine keys leave the set, every node moves to the next set id at its own moment, n and the threshold are those of the set the receiving node is in) and a pending commit may be handled by the node between the reads inside updateAuthorities. Non-trivial = at least one Byzantine commit or a finalisation."
	case "C21":
		return base + "C21 oracle: per node and round a model tally of the votes the statement says are countable; every vote that must not be counted leaves the node's tally unchanged, every countable vote is tallied (equivocators by the GRANDPA rule); the node's precommit equals the highest block with > 2/3 of the counted prevotes and it only finalises a block with > 2/3 of the counted precommits that is an ancestor of that target. Non-trivial as for C18."
	case "C22":
		return base + "C22 oracle (invariant after every event): the finalised heads of all honest nodes lie on one chain and each node's head only moves to descendants. Non-trivial = at least one fault or Byzantine action and one finalisation. A sixth of the C22 runs instead execute 24 one-round scenarios of the generic implementation (pkg/finality-grandpa): 3-6 voters with weights 1-7 handed to NewVoterSet in a tape-chosen order, one of them optionally listed twice with split weight, Byzantine voters of total weight <= f, a tree of 2-7 blocks (half of the scenarios: two forks and a split attack in which every Byzantine voter tells each observer what it favours), every honest voter an observer with its own real Round that prevotes once and precommits once for the prevote-GHOST its Round reports, a network that reorders, drops and duplicates; every block any two observers ever report as finalised must lie on one chain."
	}
	return base
}
func (world) Components(p string) ([]string, []string) {
	return []string{"lib/grandpa Service: message decoding, vote validation, equivocation tracking, tallies, GHOST, pre-vote/pre-commit choice, attemptToFinalize/finalise, commit creation and verification, handleNetworkMessage", "dot/state BlockState + GrandpaState over simdisk", "lib/blocktree", "pkg/scale"},
		[]string{"network (tape-driven transport carrying the real encodings)", "round timers: in 2/3 of the runs the finalisation.go goroutines are replaced by simulator events calling the same Service methods behind the same guards and the vote tracker goroutine is not started; in 1/3 of the C21/C22 runs both run for real (finalisation.go gets a hand-over hook inserted at check time, see worlds/grandpa/prebuild.sh)", "runtime (equivocation report stub)", "clock (synctest bubble)", "telemetry"}
}
func (world) Budget(p, tier string) (int, time.Duration) {
	if tier == "thorough" {
		return 400000, 8 * time.Minute
	}
	return 40000, 40 * time.Second
}

func TestVerif(t *testing.T) { kernel.Main(t, world{}) }
