#!/bin/bash
# prebuild.sh <builddir> <overlay_extra_json_path>
# Real round driver mode (real.go): the finalisation engine hands an action to the voting round
# handler over an unbuffered channel and goes straight on (e.g. into its first finalisation attempt)
# while the handler carries the action out - two goroutines of one node whose relative order the Go
# scheduler decides. For a replayable run the simulator decides it: a copy of the CURRENT
# /repo/lib/grandpa/finalisation.go (or of the replacement named in $VERIF_EXTRA_OVERLAY, used by
# sensitivity tests) gets one call to verifHandoff() after every such hand-over and is swapped in
# through go -overlay. Nothing else in the file changes; /repo is not written. If the hand-over
# statements are not found the file is used as it is (VerifHandoffSites = 0, reported as a probe).
set -eu
BUILD="$1"
OUT="$2"
GEN="$BUILD/grandpa_gen"
mkdir -p "$GEN"
python3 - "$GEN" "$OUT" <<'PY'
import json, os, re, sys
gen, out = sys.argv[1], sys.argv[2]
target = "/repo/lib/grandpa/finalisation.go"
src = target
xo = os.environ.get("VERIF_EXTRA_OVERLAY")
if xo:
    m = json.load(open(xo))
    src = m.get(target, target)
lines = open(src).read().split("\n")
res, sites = [], 0
for l in lines:
    res.append(l)
    m = re.match(r"^(\s*)f\.actionCh <- \w+\s*$", l)
    if m:
        res.append(m.group(1) + "verifHandoff()")
        sites += 1
tmp = os.path.join(gen, "finalisation.go.tmp%d" % os.getpid())
open(tmp, "w").write("\n".join(res))
os.replace(tmp, os.path.join(gen, "finalisation.go"))
tmp = os.path.join(gen, "handoff_gen.go.tmp%d" % os.getpid())
open(tmp, "w").write("//go:build verif\n\npackage grandpa\n\n// VerifHandoffSites: hand-overs instrumented in finalisation.go by the grandpa world's prebuild step\nconst VerifHandoffSites = %d\n" % sites)
os.replace(tmp, os.path.join(gen, "handoff_gen.go"))
rep = {"/repo/lib/grandpa/zz_verif_handoff_gen.go": os.path.join(gen, "handoff_gen.go")}
if sites > 0:
    rep[target] = os.path.join(gen, "finalisation.go")
tmp = out + ".tmp%d" % os.getpid()
json.dump(rep, open(tmp, "w"), indent=1)
os.replace(tmp, out)
print("prebuild grandpa: %d hand-over sites instrumented in %s" % (sites, src))
PY
