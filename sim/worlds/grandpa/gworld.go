package grandpa

import (
	"encoding/json"
	"fmt"
	"sort"
	"sync"
	"testing/synctest"
	"time"

	"github.com/ChainSafe/gossamer/dot/network"
	"github.com/ChainSafe/gossamer/dot/state"
	"github.com/ChainSafe/gossamer/dot/types"
	"github.com/ChainSafe/gossamer/lib/common"
	"github.com/ChainSafe/gossamer/lib/crypto/ed25519"
	gp "github.com/ChainSafe/gossamer/lib/grandpa"
	"github.com/ChainSafe/gossamer/lib/runtime"
	"github.com/ChainSafe/gossamer/pkg/scale"
	cu "github.com/ChainSafe/gossamer/verifsim/chainutil"
	"github.com/ChainSafe/gossamer/verifsim/kernel"
	"github.com/ChainSafe/gossamer/verifsim/simdisk"
	"github.com/libp2p/go-libp2p/core/peer"
	"github.com/libp2p/go-libp2p/core/protocol"
)

type noTelemetry struct{}

func (noTelemetry) SendMessage(json.Marshaler) {}

// stubRuntime only answers the two calls the equivocation report needs.
type stubRuntime struct{ runtime.Instance }

func (stubRuntime) Stop() {}
func (stubRuntime) GrandpaGenerateKeyOwnershipProof(uint64, ed25519.PublicKeyBytes) (types.GrandpaOpaqueKeyOwnershipProof, error) {
	return types.GrandpaOpaqueKeyOwnershipProof{1}, nil
}
func (stubRuntime) GrandpaSubmitReportEquivocationUnsignedExtrinsic(types.GrandpaEquivocationProof, types.GrandpaOpaqueKeyOwnershipProof) error {
	return nil
}

func edSeed(seed int) []byte {
	s := make([]byte, 32)
	for i := range s {
		s[i] = byte(seed*7 + i*3 + 1)
	}
	return s
}

func edKey(seed int) *ed25519.Keypair {
	s := edSeed(seed)
	kp, err := ed25519.NewKeypairFromSeed(s)
	if err != nil {
		panic(err)
	}
	return kp
}

func pkb(kp *ed25519.Keypair) ed25519.PublicKeyBytes {
	return kp.Public().(*ed25519.PublicKey).AsBytes()
}

// wire is one message in flight.
type wire struct {
	from, to int
	raw      []byte
	what     string
}

// gsim is one simulated GRANDPA network.
type gsim struct {
	k           *kernel.K
	n           int // voters
	keys        []*ed25519.Keypair
	voters      []gp.Voter
	byz         []bool // byz[i]: voter i is Byzantine (no honest service runs for it)
	nodes       []*gnode
	pending     []wire
	ref         *cu.RefTree // the whole block tree (source)
	blocks      []*cu.RefBlock
	genesis     *types.Header
	cut         map[[2]int]bool        // partitioned links
	targeted    bool                   // targeted split-vote attack run
	crashes     bool                   // crash-restarts of honest voters enabled in this run
	offEstimate bool                   // some honest voter prevoted off the chain of its last round's estimate
	setChanges  bool                   // C18 runs: the authority set really changes (Byzantine keys are removed); applied in every node's GRANDPA state, picked up at its next round
	authChanges bool                   // some blocks announce a scheduled authority change (same voters), which caps precommits
	chg         map[common.Hash]uint32 // announcing block -> delay
	real        bool                   // the real finalisation.go goroutines and the vote tracker drive the rounds (real.go)
	// honest precommits observed on the wire, for Byzantine replay
	observed []observedPrecommit
	rs       *realState
	inSeam   bool
}

type gnode struct {
	s     *gsim
	id    int
	disk  *simdisk.Disk
	bs    *state.BlockState
	gs    *state.GrandpaState
	svc   *gp.Service
	phase int
	has   map[common.Hash]bool // imported blocks
	fin   common.Hash          // last observed finalised head
	// model of what this node must have counted in its current round
	mRound uint64
	mVotes [2]map[ed25519.PublicKeyBytes]gp.Vote // first counted vote per authority, per stage
	mEqv   [2]map[ed25519.PublicKeyBytes]bool
	// what this voter has signed, across restarts: (set, round, stage) -> block
	signed       map[[3]uint64]common.Hash
	lastEst      *cu.RefBlock // model: estimate of the round the node left last (nil: none)
	lastEstRound uint64
	amnesiac     bool             // signed two different votes in one round after a restart wiped its memory
	sets         map[uint64][]int // authority set (voter indexes) per set id, as stored in this node's GRANDPA state
	restarted    bool
	excusedRound uint64 // highest round this voter had signed a vote in when it was last restarted
	// real round driver mode (real.go)
	outMu    sync.Mutex
	outbox   []outMsg
	running  bool
	runDone  chan struct{}
	runErr   error
	runPanic string
}

// outMsg is a message a node's own goroutines handed to the network stub (real round driver mode).
type outMsg struct {
	to  int // -1: gossip
	raw []byte
}

// recordOwnVote notes a vote the voter signs. A voter that was restarted in the middle of a round
// has no memory of the vote it cast (gossamer keeps its own votes in memory only) and may sign a
// second, different vote for the same round: from then on it is an equivocator, not an honest
// voter in the sense of C22, and counts against the less-than-a-third budget.
func (n *gnode) recordOwnVote(stage int, v *gp.Vote) {
	n.recordOwnVoteAt(n.svc.VerifSetID(), n.svc.VerifRound(), stage, v.Hash)
}

// netStub implements grandpa.Network for one node.
type netStub struct{ n *gnode }

func (ns netStub) GossipMessage(msg network.NotificationsMessage) {
	raw, err := msg.Encode()
	if err != nil {
		panic(err)
	}
	if ns.n.s.real {
		// called from the node's own goroutines: only queue, the driver applies the network afterwards
		ns.n.outMu.Lock()
		ns.n.outbox = append(ns.n.outbox, outMsg{to: -1, raw: raw})
		ns.n.outMu.Unlock()
		return
	}
	for j := range ns.n.s.nodes {
		if j != ns.n.id {
			ns.n.s.send(ns.n.id, j, raw, "gossip")
		}
	}
}
func (ns netStub) SendMessage(to peer.ID, msg gp.NotificationsMessage) error {
	raw, err := msg.Encode()
	if err != nil {
		return err
	}
	if ns.n.s.real {
		for j := range ns.n.s.nodes {
			if peerOf(j) == to {
				ns.n.outMu.Lock()
				ns.n.outbox = append(ns.n.outbox, outMsg{to: j, raw: raw})
				ns.n.outMu.Unlock()
			}
		}
		return nil
	}
	for j := range ns.n.s.nodes {
		if peerOf(j) == to {
			ns.n.s.send(ns.n.id, j, raw, "direct")
		}
	}
	return nil
}
func (netStub) RegisterNotificationsProtocol(protocol.ID, network.MessageType, network.HandshakeGetter, network.HandshakeDecoder,
	network.HandshakeValidator, network.MessageDecoder, network.NotificationsMessageHandler, network.NotificationsMessageBatchHandler, uint64) error {
	return nil
}

func peerOf(i int) peer.ID { return peer.ID(fmt.Sprintf("peer-%02d", i)) }

// send applies the per-message network faults and queues the message.
func (s *gsim) send(from, to int, raw []byte, what string) {
	k := s.k
	s.observe(raw)
	if s.byz[to] {
		return // Byzantine voters are played by the simulator; they see everything via seenVotes
	}
	if s.cut[[2]int{from, to}] {
		k.Fault("partition-drop")
		return
	}
	if k.Bool(1, 12, "drop") {
		k.Fault("drop")
		return
	}
	s.pending = append(s.pending, wire{from, to, raw, what})
	if k.Bool(1, 16, "duplicate") {
		k.Fault("duplicate")
		s.pending = append(s.pending, wire{from, to, raw, what + "-dup"})
	}
}

func (s *gsim) newNode(id int) *gnode {
	n := &gnode{s: s, id: id, disk: simdisk.NewDisk(), has: map[common.Hash]bool{}}
	n.open(true)
	return n
}

func (n *gnode) open(fresh bool) {
	s := n.s
	db := n.disk.Open()
	tries := state.NewTries()
	var err error
	if fresh {
		n.bs, err = state.NewBlockStateFromGenesis(db, tries, s.genesis, noTelemetry{})
	} else {
		n.bs, err = state.NewBlockState(db, tries, noTelemetry{})
	}
	if err != nil {
		panic(err)
	}
	if fresh {
		n.gs, err = state.NewGrandpaStateFromGenesis(db, n.bs, s.voters, noTelemetry{})
		if err != nil {
			panic(err)
		}
	} else {
		n.gs = state.NewGrandpaState(db, n.bs, noTelemetry{})
	}
	head, _ := n.bs.GetHighestFinalisedHeader()
	n.bs.StoreRuntime(head.Hash(), stubRuntime{})
	n.svc, err = gp.NewService(&gp.Config{BlockState: n.bs, GrandpaState: n.gs, Network: netStub{n}, Voters: s.voters,
		Keypair: s.keys[n.id], Authority: true, Interval: time.Second, Telemetry: noTelemetry{}})
	if err != nil {
		panic(err)
	}
	// what survives a restart: the finalised chain (unfinalised blocks live in memory only)
	n.has = map[common.Hash]bool{head.Hash(): true}
	for x := s.ref.Blocks[head.Hash()]; x != nil && x.Number > 0; {
		x = s.ref.Blocks[x.Parent]
		if x != nil {
			n.has[x.Hash] = true
		}
	}
	if !fresh {
		n.restarted = true
		for key := range n.signed {
			if key[1] > n.excusedRound {
				n.excusedRound = key[1]
			}
		}
	}
	if n.sets == nil {
		all := make([]int, s.n)
		for i := range all {
			all[i] = i
		}
		n.sets = map[uint64][]int{0: all}
	}
	if s.setChanges {
		n.disk.OnRead = func([]byte) error { n.seamInsideUpdateAuthorities(); return nil }
	}
	n.fin = head.Hash()
	n.phase = 0
	n.lastEst = nil
	n.resetModel(0)
}

func (n *gnode) resetModel(round uint64) {
	n.mRound = round
	for st := 0; st < 2; st++ {
		n.mVotes[st] = map[ed25519.PublicKeyBytes]gp.Vote{}
		n.mEqv[st] = map[ed25519.PublicKeyBytes]bool{}
	}
}

func (s *gsim) threshold2of3(count int) bool { return 3*count > 2*s.n }

// curSet: the authority set of the set id the node's service is in.
func (n *gnode) curSet() []int {
	if set, ok := n.sets[n.svc.VerifSetID()]; ok {
		return set
	}
	all := make([]int, n.s.n)
	for i := range all {
		all[i] = i
	}
	return all
}

func (n *gnode) isAuthNow(id ed25519.PublicKeyBytes) bool {
	for _, i := range n.curSet() {
		if pkb(n.s.keys[i]) == id {
			return true
		}
	}
	return false
}

func (n *gnode) supermajorityNow(count int) bool { return 3*count > 2*len(n.curSet()) }

// ---- block tree -----------------------------------------------------------

func (s *gsim) produce(parent *cu.RefBlock, salt int) *cu.RefBlock {
	h := types.NewHeader(parent.Hash, common.Hash{byte(salt), byte(salt >> 8)}, common.Hash{}, parent.Number+1,
		cu.BabeDigest(s.k.Bool(1, 2, "primary"), 0, uint64(100+salt)))
	rb := &cu.RefBlock{Hash: h.Hash(), Parent: parent.Hash, Number: parent.Number + 1, Header: h}
	s.ref.Add(rb)
	s.blocks = append(s.blocks, rb)
	if s.authChanges && s.pendingChangeOn(parent) == nil && s.k.Bool(1, 4, "announce-authority-change") {
		s.chg[rb.Hash] = uint32(s.k.Choose(3, "change-delay"))
		s.k.Event("announce-change", "%s #%d delay=%d", cu.Short(rb.Hash), rb.Number, s.chg[rb.Hash])
	}
	return rb
}

// pendingChangeOn: the block on b's chain (b included) that announced an authority change, if any.
func (s *gsim) pendingChangeOn(b *cu.RefBlock) *cu.RefBlock {
	for x := b; x != nil; x = s.ref.Blocks[x.Parent] {
		if _, ok := s.chg[x.Hash]; ok {
			return x
		}
		if x.Number == 0 {
			break
		}
	}
	return nil
}

// capped: GRANDPA votes do not go past the block at which a pending authority change announced on
// the same chain takes effect: the vote is that ancestor instead.
func (s *gsim) capped(b *cu.RefBlock) *cu.RefBlock {
	a := s.pendingChangeOn(b)
	if a == nil {
		return b
	}
	eff := a.Number + uint(s.chg[a.Hash])
	x := b
	for x.Number > eff {
		x = s.ref.Blocks[x.Parent]
	}
	return x
}

// importChain imports b and its missing ancestors into node n.
func (n *gnode) importChain(b *cu.RefBlock) {
	var chain []*cu.RefBlock
	x := b
	for ; x != nil && !n.has[x.Hash]; x = n.s.ref.Blocks[x.Parent] {
		chain = append(chain, x)
	}
	if x == nil {
		return // does not connect to anything the node still holds (at or below its finalised head on another fork)
	}
	for i := len(chain) - 1; i >= 0; i-- {
		x := chain[i]
		if err := n.bs.AddBlock(&types.Block{Header: *x.Header, Body: *types.NewBody([]types.Extrinsic{})}); err != nil {
			// the parent may have been pruned by a finalisation on another fork: not importable any more
			return
		}
		n.has[x.Hash] = true
		if d, ok := n.s.chg[x.Hash]; ok {
			// what dot/digest does at import for a header with a scheduled-change digest (same voters: the
			// change itself is never applied in this world, only its cap on the votes is looked at)
			dg := types.NewGrandpaConsensusDigest()
			var raw []types.GrandpaAuthoritiesRaw
			for _, v := range n.s.voters {
				raw = append(raw, types.GrandpaAuthoritiesRaw{Key: v.Key.AsBytes(), ID: v.ID})
			}
			if err := dg.SetValue(types.GrandpaScheduledChange{Auths: raw, Delay: d}); err != nil {
				panic(err)
			}
			if err := n.gs.HandleGRANDPADigest(x.Header, dg); err != nil {
				n.s.k.Event("change-not-tracked", "n%d %s: %v", n.id, cu.Short(x.Hash), err)
			} else {
				n.s.k.Probe("authority-change-tracked")
			}
		}
	}
}

// isDesc: child descends from (or is) anc in the full tree.
func (s *gsim) isDesc(anc, child common.Hash) bool {
	for {
		if child == anc {
			return true
		}
		b, ok := s.ref.Blocks[child]
		if !ok || b.Number == 0 {
			return false
		}
		child = b.Parent
	}
}

// ---- signing helpers (used by Byzantine actors and by the oracle) ----------

func signVote(kp *ed25519.Keypair, stage gp.Subround, v gp.Vote, round, setID uint64) [64]byte {
	msg, err := scale.Marshal(gp.FullVote{Stage: stage, Vote: v, Round: round, SetID: setID})
	if err != nil {
		panic(err)
	}
	sig, err := kp.Sign(msg)
	if err != nil {
		panic(err)
	}
	return ed25519.NewSignatureBytes(sig)
}

// altSignVote: another valid signature of the same vote by voter key (see altsig.go).
func altSignVote(key int, stage gp.Subround, v gp.Vote, round, setID uint64, tweak byte) [64]byte {
	msg, err := scale.Marshal(gp.FullVote{Stage: stage, Vote: v, Round: round, SetID: setID})
	if err != nil {
		panic(err)
	}
	return altSign(edSeed(key), msg, tweak)
}

func validSig(id ed25519.PublicKeyBytes, sig [64]byte, stage gp.Subround, v gp.Vote, round, setID uint64) bool {
	pk, err := ed25519.NewPublicKey(id[:])
	if err != nil {
		return false
	}
	msg, _ := scale.Marshal(gp.FullVote{Stage: stage, Vote: v, Round: round, SetID: setID})
	ok, err := pk.Verify(msg, sig[:])
	return err == nil && ok
}

func (s *gsim) isAuthority(id ed25519.PublicKeyBytes) bool {
	for _, kp := range s.keys {
		if pkb(kp) == id {
			return true
		}
	}
	return false
}

func sortedAuth(m map[ed25519.PublicKeyBytes]gp.Vote) []ed25519.PublicKeyBytes {
	var out []ed25519.PublicKeyBytes
	for k := range m {
		out = append(out, k)
	}
	sort.Slice(out, func(i, j int) bool { return string(out[i][:]) < string(out[j][:]) })
	return out
}

func wait() { synctest.Wait() }

// observe records honest precommits that went over the wire (anyone can replay them).
func (s *gsim) observe(raw []byte) {
	cm := new(network.ConsensusMessage)
	if err := cm.Decode(raw); err != nil || len(cm.Data) < 2 {
		return
	}
	m, err := gp.VerifDecodeMessage(cm)
	if err != nil {
		return
	}
	vm, ok := m.(*gp.VoteMessage)
	if !ok || vm.Message.Stage != gp.VerifPrecommit {
		return
	}
	o := observedPrecommit{round: vm.Round, setID: vm.SetID, sv: gp.SignedVote{Vote: gp.Vote{Hash: vm.Message.BlockHash, Number: vm.Message.Number}, Signature: vm.Message.Signature, AuthorityID: vm.Message.AuthorityID}}
	for _, x := range s.observed {
		if x == o {
			return
		}
	}
	if len(s.observed) < 64 {
		s.observed = append(s.observed, o)
	}
}
