package grandpa

// Real round driver mode. The honest voters are started the way Service.Start starts them: the vote
// tracker goroutine (1 s ticker, replays votes and commits for blocks that arrive later) and the
// finalisationHandler with its per-round finalisationEngine / votingRoundHandler goroutines and
// their timers (prevote after 2 intervals, precommit after 4, finalisation attempts every half
// interval) - all real code of lib/grandpa/finalisation.go and message_tracker.go, on the bubble's
// virtual clock. The simulator owns everything between the nodes: what a node's goroutines hand to
// the network stub is only queued; the driver - the single goroutine that consumes the tape -
// applies loss / duplication / partitions, chooses delivery order and how much virtual time passes
// between deliveries, plays the Byzantine voters, produces blocks and restarts nodes.
//
// One active party at a time: every node gets its own timer grid (tracker ticks at A+k*1s, round
// timers at A+3ms+k*500ms with anchors A that differ between nodes modulo 500 ms) and the driver
// only wakes at instants no node timer can fire at (x5 ms), waits for quiescence first, and then
// acts. So at any virtual instant at most one node's goroutines (or the driver) run, and what they
// do depends on the tape only.

import (
	"fmt"
	"runtime"
	"runtime/debug"
	"sort"
	"strings"
	"testing/synctest"
	"time"

	"github.com/ChainSafe/gossamer/dot/network"
	"github.com/ChainSafe/gossamer/lib/common"
	"github.com/ChainSafe/gossamer/lib/crypto/ed25519"
	gp "github.com/ChainSafe/gossamer/lib/grandpa"
	cu "github.com/ChainSafe/gossamer/verifsim/chainutil"
	"github.com/ChainSafe/gossamer/verifsim/kernel"
)

type seenPrevote struct {
	node  int
	round uint64
	hash  common.Hash
}

type seenFinal struct {
	node  int
	round uint64
	hash  common.Hash
}

type realState struct {
	t0        time.Time
	slots     map[int]int // anchor slot (10 ms units modulo 500 ms) -> node id + 1
	prevotes  []seenPrevote
	finals    []seenFinal
	lastRound map[int]uint64
	finPrev   map[int]common.Hash // finalised head of a node at the previous poll
}

func (s *gsim) runReal(salt *int) {
	k := s.k
	s.rs = &realState{t0: time.Now(), slots: map[int]int{}, lastRound: map[int]uint64{}, finPrev: map[int]common.Hash{}}
	// one processor and no collector cycle while node goroutines are active: within a node the engine
	// hands an action to the voting handler and goes on; which of the two runs first is then the
	// scheduler's fixed choice, not a race between threads or a matter of where a collection stopped the world
	defer runtime.GOMAXPROCS(runtime.GOMAXPROCS(1))
	defer debug.SetGCPercent(debug.SetGCPercent(-1))
	defer s.stopAllReal()
	// after a hand-over the engine waits until the handler has carried the action out (see prebuild.sh)
	gp.VerifHandoff = func() { synctest.Wait() }
	defer func() { gp.VerifHandoff = nil }()
	if gp.VerifHandoffSites == 0 {
		k.Probe("real-driver-handoffs-not-instrumented")
	}
	time.Sleep(5 * time.Millisecond) // the driver lives on x5 ms
	for _, n := range s.honest() {
		s.rs.finPrev[n.id] = n.finHead()
		n.startReal()
	}
	s.afterStepReal()
	steps := k.Range(40, 320, "steps")
	for st := 0; st < steps; st++ {
		switch a := k.Choose(24, "action"); {
		case a <= 9:
			if len(s.pending) == 0 {
				s.passTime()
				break
			}
			i := 0
			if k.Bool(1, 3, "reorder") {
				i = k.Choose(len(s.pending), "pending-index")
				if i != 0 {
					k.Fault("reorder")
				}
			}
			w := s.pending[i]
			s.pending = append(s.pending[:i], s.pending[i+1:]...)
			s.deliver(w)
		case a <= 12:
			// the network catches up: everything in flight arrives, in order
			for len(s.pending) > 0 {
				w := s.pending[0]
				s.pending = s.pending[1:]
				s.deliver(w)
				wait()
			}
		case a <= 18:
			s.passTime()
		case a <= 20:
			s.byzantine()
		case a == 21:
			*salt++
			p := s.blocks[k.Choose(len(s.blocks), "produce-parent")]
			if k.Bool(2, 3, "produce-on-tip") {
				p = s.blocks[len(s.blocks)-1]
			}
			b := s.produce(p, *salt)
			k.Event("produce", "%s parent=%s num=%d", cu.Short(b.Hash), cu.Short(p.Hash), b.Number)
			for _, n := range s.honest() {
				if !k.Bool(1, 4, "import-later") {
					n.importChain(b)
				}
			}
		case a == 22:
			n := s.pickHonest("sync-node")
			for _, b := range s.blocks[1:] {
				n.importChain(b)
			}
			k.Event("sync", "n%d", n.id)
		default:
			if k.Bool(1, 4, "partition-or-heal") {
				s.partition()
			} else if s.crashes && k.Bool(1, 2, "crash") {
				n := s.pickHonest("crash-node")
				k.Fault("crash-restart")
				k.Event("crash-restart", "n%d", n.id)
				n.stopReal()
				n.open(false)
				var keep []wire
				for _, w := range s.pending {
					if w.to != n.id {
						keep = append(keep, w)
					}
				}
				s.pending = keep
				s.rs.finPrev[n.id] = n.finHead()
				s.rs.lastRound[n.id] = 0
				n.startReal()
			}
		}
		wait()
		s.afterStepReal()
		if st%128 == 127 {
			runtime.GC() // everybody else is parked
		}
	}
}

// passTime lets virtual time pass; the nodes' timers fire and their goroutines act meanwhile.
func (s *gsim) passTime() {
	d := []time.Duration{10, 50, 250, 500, 1000, 2000, 4000}[s.k.Choose(7, "pass-time")] * time.Millisecond
	time.Sleep(d)
	wait()
	s.k.Event("time", "+%v", d)
}

// startReal starts the node's tracker and round driver on a timer grid of its own.
func (n *gnode) startReal() {
	s := n.s
	rs := s.rs
	for slot, id := range rs.slots {
		if id == n.id+1 {
			delete(rs.slots, slot)
		}
	}
	c := s.k.Choose(50, "start-skew")
	var off time.Duration
	for {
		off = 5*time.Millisecond + time.Duration(c)*10*time.Millisecond
		slot := int((time.Since(rs.t0)+off)/(10*time.Millisecond)) % 50
		if rs.slots[slot] == 0 {
			rs.slots[slot] = n.id + 1
			break
		}
		c++
	}
	time.Sleep(off)
	wait()
	n.disk.OnRead = func([]byte) error { n.seamInsideInitiateRound(); n.seamInsideVoteValidation(); return nil }
	n.svc.VerifTrackerStart()
	time.Sleep(3 * time.Millisecond)
	wait()
	n.runDone = make(chan struct{})
	n.running = true
	n.runErr, n.runPanic = nil, ""
	svc, done := n.svc, n.runDone
	go func() {
		defer close(done)
		defer func() {
			if r := recover(); r != nil {
				n.runPanic = fmt.Sprintf("%v\n%s", r, debug.Stack())
			}
		}()
		n.runErr = svc.VerifInitiate()
	}()
	time.Sleep(2 * time.Millisecond)
	wait()
	s.k.Event("start", "n%d grid=+%v", n.id, off)
}

func (n *gnode) stopReal() {
	if !n.running {
		return
	}
	n.running = false
	_ = n.svc.Stop()
	// finalisationHandler.Stop can wait forever: an engine that already told its voting handler that
	// the round is over (alreadyFinalized from defineRoundVotes) goes on into finalizeRound and blocks
	// in a second, bare send to a handler that has left; it then never sees its stop channel. Such a
	// voter has stopped voting for good (a liveness matter outside the listed properties, counted as a
	// probe); its goroutines hold no timers and are left behind.
	select {
	case <-n.runDone:
	case <-time.After(30 * time.Second):
		n.s.k.Probe("round-driver-wedged-at-stop")
	}
}

func (s *gsim) stopAllReal() {
	for _, n := range s.honest() {
		n.stopReal()
	}
}

// afterStepReal: what the nodes' own goroutines did since the last step is looked at (oracles on the
// messages they sent), handed to the simulated network, and the invariants are checked.
func (s *gsim) afterStepReal() {
	k := s.k
	for _, n := range s.honest() {
		if n.runPanic != "" {
			inG := false
			site := "?"
			if g, st := panicSiteOf(n.runPanic); g {
				inG, site = true, st
			}
			if !inG {
				panic("grandpa world: harness panic in a node goroutine: " + n.runPanic)
			}
			k.Violate(k.Prop, "panic", "panic@"+site+":round-driver", "node %d: panic in the round driver: %s", n.id, firstLine(n.runPanic))
		}
		if n.running && n.runErr != nil {
			select {
			case <-n.runDone:
				// the real Start panics the node on this error; it is a loss of liveness of one voter, not a safety matter
				k.Probe("round-driver-stopped-with-error")
				k.Event("driver-error", "n%d %v", n.id, n.runErr)
				n.running = false
			default:
			}
		}
	}
	for _, n := range s.honest() {
		n.outMu.Lock()
		out := n.outbox
		n.outbox = nil
		n.outMu.Unlock()
		// gossamer itself walks Go maps when it re-handles tracked votes (answers to lagging peers) and
		// when it lists the precommits of a commit message: neither the order of such sends nor the bytes
		// of a commit are a function of the run. The network sees them in a canonical order instead.
		type keyed struct {
			key string
			m   outMsg
		}
		ks := make([]keyed, len(out))
		for i, m := range out {
			ks[i] = keyed{fmt.Sprintf("%03d|%s", m.to+1, canonKey(m.raw)), m}
		}
		sort.SliceStable(ks, func(i, j int) bool { return ks[i].key < ks[j].key })
		for i := range ks {
			out[i] = ks[i].m
		}
		for _, m := range out {
			n.observeOwn(m.raw)
			if m.to >= 0 {
				s.send(n.id, m.to, m.raw, "direct")
				continue
			}
			for j := range s.nodes {
				if j != n.id {
					s.send(n.id, j, m.raw, "gossip")
				}
			}
		}
	}
	for _, n := range s.honest() {
		r := n.svc.VerifRound()
		if r != s.rs.lastRound[n.id] {
			k.Event("round", "n%d round %d -> %d", n.id, s.rs.lastRound[n.id], r)
			s.rs.lastRound[n.id] = r
		}
		h := n.finHead()
		if h != s.rs.finPrev[n.id] {
			rr, _, _ := n.bs.GetHighestRoundAndSetID()
			s.rs.finals = append(s.rs.finals, seenFinal{n.id, rr, h})
		}
	}
	s.checkSafety()
	s.checkTalliesReal()
	for _, n := range s.honest() {
		s.rs.finPrev[n.id] = n.finHead()
	}
}

// canonKey identifies a GRANDPA message by what it says, not by how it happens to be laid out.
func canonKey(raw []byte) string {
	cm := new(network.ConsensusMessage)
	if err := cm.Decode(raw); err != nil || len(cm.Data) < 2 {
		return fmt.Sprintf("X|%x", raw)
	}
	msg, err := gp.VerifDecodeMessage(cm)
	if err != nil {
		return fmt.Sprintf("X|%x", raw)
	}
	switch m := msg.(type) {
	case *gp.VoteMessage:
		return fmt.Sprintf("V|%d|%d|%d|%x|%d|%x", m.Round, m.SetID, m.Message.Stage, m.Message.BlockHash, m.Message.Number, m.Message.AuthorityID)
	case *gp.CommitMessage:
		var parts []string
		for i := range m.Precommits {
			if i < len(m.AuthData) {
				parts = append(parts, fmt.Sprintf("%x:%x:%d", m.AuthData[i].AuthorityID, m.Precommits[i].Hash, m.Precommits[i].Number))
			}
		}
		sort.Strings(parts)
		return fmt.Sprintf("C|%d|%d|%x|%d|%d|%v", m.Round, m.SetID, m.Vote.Hash, m.Vote.Number, len(m.Precommits), parts)
	}
	return fmt.Sprintf("O|%x", raw)
}

// seamInsideInitiateRound: the network handlers of a node run concurrently with its round driver. The
// one place where that matters most is the change of rounds: initiateRound reads the block state
// (no lock of the service held) before it takes the round lock, resets the votes and increments the
// round. At those disk reads - reached by the node's own goroutine while the driver sleeps - the tape
// may let a vote message that is in flight to this node be handled right there, as a network
// goroutine scheduled at that instant would.
func (n *gnode) seamInsideInitiateRound() {
	s := n.s
	if !s.real || s.inSeam || !n.running {
		return
	}
	// only at the reads initiateRound makes with no lock held: its own GetHighestRoundAndSetID and the
	// GetCurrentSetID of updateAuthorities (GetFinalisedHeader reads under the block state's lock)
	var pcs [24]uintptr
	cnt := runtime.Callers(3, pcs[:])
	frames := runtime.CallersFrames(pcs[:cnt])
	inside, stateFrame := false, ""
	for {
		f, more := frames.Next()
		if stateFrame == "" && strings.Contains(f.Function, "/dot/state.") {
			stateFrame = f.Function
			if !strings.HasSuffix(stateFrame, ").GetHighestRoundAndSetID") && !strings.HasSuffix(stateFrame, ").GetCurrentSetID") {
				return
			}
		} else if stateFrame != "" {
			// the caller of that state function: initiateRound itself, or updateAuthorities called by it
			if strings.HasSuffix(f.Function, "grandpa.(*Service).initiateRound") {
				inside = true
			} else if !strings.HasSuffix(f.Function, "grandpa.(*Service).updateAuthorities") {
				return
			}
			if inside {
				break
			}
		}
		if !more {
			break
		}
	}
	if !inside {
		return
	}
	var mine []int
	for i, w := range s.pending {
		if w.to == n.id {
			mine = append(mine, i)
		}
	}
	if len(mine) == 0 || !s.k.Bool(1, 3, "deliver-inside-initiate-round") {
		return
	}
	i := mine[s.k.Choose(len(mine), "seam-message")]
	w := s.pending[i]
	cm := new(network.ConsensusMessage)
	if err := cm.Decode(w.raw); err != nil || len(cm.Data) < 2 {
		return
	}
	if m, err := gp.VerifDecodeMessage(cm); err != nil {
		return
	} else if _, ok := m.(*gp.VoteMessage); !ok {
		return
	}
	s.pending = append(s.pending[:i], s.pending[i+1:]...)
	s.inSeam = true
	_, err := n.svc.VerifHandleNetworkBytes(peerOf(w.from), w.raw)
	s.inSeam = false
	s.k.Fault("vote-handled-inside-initiate-round")
	s.k.Event("deliver-inside-initiate-round", "n%d<-%d err=%v", n.id, w.from, err != nil)
}

// seamInsideVoteValidation: the mirror image of the seam above. While a network handler validates a
// vote it reads the block state; if it holds no lock of the service at that point (the round lock in
// particular), the node's own goroutines may get their turn there - virtual time passes, timers fire,
// the round may end and the next one begin - before the handler goes on. With the round lock held
// (as validateVoteMessage holds it) nothing can run in between and the seam stays shut.
func (n *gnode) seamInsideVoteValidation() {
	s := n.s
	if !s.real || s.inSeam || !n.running {
		return
	}
	var pcs [24]uintptr
	cnt := runtime.Callers(3, pcs[:])
	frames := runtime.CallersFrames(pcs[:cnt])
	inValidation, stateFrame := false, ""
	for {
		f, more := frames.Next()
		if strings.Contains(f.Function, "/dot/state.") {
			stateFrame = f.Function
			if !strings.HasSuffix(stateFrame, ").HasHeader") {
				return // every other block state function on the way holds the block state's lock
			}
		}
		if strings.HasSuffix(f.Function, "grandpa.(*Service).validateVoteMessage") {
			inValidation = true
			break
		}
		if strings.HasSuffix(f.Function, "grandpa.(*Service).initiateRound") || !more {
			break
		}
	}
	if !inValidation || stateFrame == "" || !n.svc.VerifRoundLockFree() {
		return
	}
	if !s.k.Bool(1, 3, "time-passes-inside-vote-validation") {
		return
	}
	d := []time.Duration{500, 1000, 2000, 4000}[s.k.Choose(4, "seam-time")] * time.Millisecond
	s.inSeam = true
	time.Sleep(d)
	s.inSeam = false
	s.k.Fault("time-passed-inside-vote-validation")
	s.k.Event("time-inside-validation", "n%d +%v", n.id, d)
}

// checkTalliesReal: what a node counts is made of votes of its current round, and a voter that signed
// one vote per round and stage is nobody's equivocator.
func (s *gsim) checkTalliesReal() {
	k := s.k
	for _, n := range s.honest() {
		if !n.running {
			continue
		}
		round, setID := n.svc.VerifRound(), n.svc.VerifSetID()
		for _, stage := range []gp.Subround{gp.VerifPrevote, gp.VerifPrecommit} {
			votes := n.svc.VerifSignedVotes(stage)
			for _, id := range sortedSigned(votes) {
				sv := votes[id]
				if id == pkb(s.keys[n.id]) {
					continue // its own entry may be the primary proposal (another stage)
				}
				if !validSig(id, sv.Signature, stage, sv.Vote, round, setID) && !validSig(id, sv.Signature, gp.VerifPrimaryProposal, sv.Vote, round, setID) {
					k.Violate(k.Prop, "tally", "vote-of-another-round-in-the-tally", "node %d counts, in round %d stage %d, a vote by %x for %s whose signature is not for this round and set", n.id, round, stage, id[:2], cu.Short(sv.Vote.Hash))
				}
			}
			_, eqv := n.tallies(stage)
			for j, other := range s.nodes {
				if other == nil || other.amnesiac || other.restarted {
					continue
				}
				if _, is := eqv[pkb(s.keys[j])]; is {
					k.Violate(k.Prop, "tally", "honest-voter-taken-for-equivocator", "node %d counts voter %d as an equivocator in round %d stage %d, but that voter signed at most one vote per round and stage", n.id, j, round, stage)
				}
			}
		}
	}
	k.Probe("real-driver-tallies-checked")
}

func sortedSigned(m map[ed25519.PublicKeyBytes]gp.SignedVote) []ed25519.PublicKeyBytes {
	var out []ed25519.PublicKeyBytes
	for id := range m {
		out = append(out, id)
	}
	sort.Slice(out, func(i, j int) bool { return string(out[i][:]) < string(out[j][:]) })
	return out
}

func firstLine(s string) string {
	for i, c := range s {
		if c == '\n' {
			return s[:i]
		}
	}
	return s
}

// panicSiteOf classifies a recovered panic of a node goroutine by its stack (see kernel.classifyPanic).
func panicSiteOf(stack string) (bool, string) {
	return kernel.ClassifyPanic(stack)
}

// observeOwn: oracles on a message an honest node's real round driver sent.
func (n *gnode) observeOwn(raw []byte) {
	s, k := n.s, n.s.k
	cm := new(network.ConsensusMessage)
	if err := cm.Decode(raw); err != nil || len(cm.Data) < 2 {
		return
	}
	msg, err := gp.VerifDecodeMessage(cm)
	if err != nil {
		return
	}
	switch m := msg.(type) {
	case *gp.VoteMessage:
		if m.Message.AuthorityID != pkb(s.keys[n.id]) {
			return
		}
		v := gp.Vote{Hash: m.Message.BlockHash, Number: m.Message.Number}
		switch m.Message.Stage {
		case gp.VerifPrevote:
			n.recordOwnVoteAt(m.SetID, m.Round, 0, v.Hash)
			s.rs.prevotes = append(s.rs.prevotes, seenPrevote{n.id, m.Round, v.Hash})
			k.Event("prevote", "n%d round=%d %s #%d", n.id, m.Round, cu.Short(v.Hash), v.Number)
			k.Probe("real-driver-prevote")
			// the head the round started from descends from the head seen at the previous poll
			if !n.has[v.Hash] || !s.isDesc(s.rs.finPrev[n.id], v.Hash) {
				k.Violate("C21", "prevote-choice", "prevote-not-on-finalised-chain", "node %d prevoted %s (#%d) in round %d which it does not hold below its finalised head %s", n.id, cu.Short(v.Hash), v.Number, m.Round, cu.Short(s.rs.finPrev[n.id]))
			}
		case gp.VerifPrecommit:
			n.recordOwnVoteAt(m.SetID, m.Round, 1, v.Hash)
			k.Event("precommit", "n%d round=%d %s #%d", n.id, m.Round, cu.Short(v.Hash), v.Number)
			k.Probe("real-driver-precommit")
			if n.svc.VerifRound() != m.Round {
				k.Probe("real-driver-precommit-gate-unchecked-round-moved-on")
				return
			}
			// the tallies only grow within a round: what the node counts now is at least what it counted when it precommitted
			votes, eqv := n.tallies(gp.VerifPrevote)
			w := len(eqv)
			for _, pv := range votes {
				if s.isDesc(v.Hash, pv.Hash) {
					w++
				}
			}
			k.Probe("real-driver-precommit-gate-checked")
			if !s.threshold2of3(w) {
				k.Violate("C21", "precommit-choice", "precommit-without-prevote-supermajority", "node %d round %d precommits to %s (#%d) which has %d of %d counted prevotes (real round driver)", n.id, m.Round, cu.Short(v.Hash), v.Number, w, s.n)
			}
		}
	case *gp.CommitMessage:
		holds, supporters, _ := n.commitPredicate(m)
		k.Event("own-commit", "n%d round=%d %s supporters=%d/%d", n.id, m.Round, cu.Short(m.Vote.Hash), supporters, s.n)
		k.Probe("real-driver-commit")
		if !holds {
			k.Violate("C21", "finalise-choice", "finalised-without-precommit-supermajority", "node %d round %d announces the finalisation of %s with a commit that carries valid precommits of only %d of %d authorities (real round driver)", n.id, m.Round, cu.Short(m.Vote.Hash), supporters, s.n)
		}
	}
}

// recordOwnVoteAt notes a vote the voter signs. An honest voter signs one prevote and one precommit
// per round. The one excuse: a voter that was restarted has no memory of the votes it cast before
// (gossamer keeps its own votes in memory only) and may sign a second, different vote for a round it
// had already voted in - from then on it is an equivocator, not an honest voter in the sense of C22,
// and counts against the less-than-a-third budget. Without a restart (or for a later round) a second,
// different vote is the voter's own code equivocating.
func (n *gnode) recordOwnVoteAt(setID, round uint64, stage int, h common.Hash) {
	if n.signed == nil {
		n.signed = map[[3]uint64]common.Hash{}
	}
	key := [3]uint64{setID, round, uint64(stage)}
	if old, ok := n.signed[key]; ok && old != h {
		if !n.restarted || round > n.excusedRound {
			n.s.k.Violate(n.s.k.Prop, "honest-votes-once", fmt.Sprintf("honest-voter-signed-two-different-votes-in-one-round:stage-%d", stage),
				"node %d signed a second vote in round %d (set %d, stage %d): first %s, now %s - without having been restarted since the first one", n.id, round, setID, stage, cu.Short(old), cu.Short(h))
		}
		if !n.amnesiac {
			n.s.k.Probe("restarted-voter-signed-second-vote-in-round")
			n.s.k.Event("amnesiac", "n%d round=%d stage=%d %s then %s", n.id, round, stage, cu.Short(old), cu.Short(h))
		}
		n.amnesiac = true
		return
	}
	n.signed[key] = h
}

// realOffEstimate: the signature of the recorded defect of determinePreVote in what was seen on the
// wire - an honest voter prevoted, in a later round, for a block that does not descend from a block
// an honest voter had finalised in an earlier round (GRANDPA: the prevote of round r+1 is on the
// chain of the estimate of round r, which is at or above anything finalisable in round r).
func (s *gsim) realOffEstimate() bool {
	for _, f := range s.rs.finals {
		for _, p := range s.rs.prevotes {
			if p.round > f.round && !s.isDesc(f.hash, p.hash) {
				return true
			}
		}
	}
	return false
}

// deliverReal: the C21 tally oracle around the real receive path, in the form that stays sound while
// the node's own goroutines and its tracker also add votes.
func (n *gnode) deliverVoteReal(w wire, m *gp.VoteMessage) {
	s, k, svc := n.s, n.s.k, n.svc
	vote := gp.Vote{Hash: m.Message.BlockHash, Number: m.Message.Number}
	id := m.Message.AuthorityID
	reason := ""
	blk := s.ref.Blocks[vote.Hash]
	switch {
	case !validSig(id, m.Message.Signature, m.Message.Stage, vote, m.Round, m.SetID):
		reason = "bad-signature"
	case !s.isAuthority(id):
		reason = "non-authority"
	case m.SetID != svc.VerifSetID():
		reason = "wrong-set"
	case m.Round != svc.VerifRound():
		reason = "other-round"
	case id == pkb(s.keys[n.id]):
		reason = "own-vote"
	case blk == nil || !n.has[vote.Hash]:
		reason = "unknown-block"
	case uint(vote.Number) != blk.Number:
		reason = "wrong-number"
	case !s.isDesc(svc.VerifHead().Hash(), vote.Hash):
		reason = "not-descending-from-finalised-head"
	}
	if reason == "" && !s.isDesc(n.finHead(), vote.Hash) {
		reason = "between-rounds"
	}
	if !n.running {
		reason = "between-rounds" // the voter's round driver stopped: nothing is promised about its tallies
	}
	beforeV, beforeE := n.tallies(m.Message.Stage)
	_, err := svc.VerifHandleNetworkBytes(peerOf(w.from), w.raw)
	wait()
	afterV, afterE := n.tallies(m.Message.Stage)
	k.Event("deliver-vote", "n%d<-%d stage=%d round=%d %s#%d by %x %s -> err=%v", n.id, w.from, m.Message.Stage, m.Round, cu.Short(vote.Hash), vote.Number, id[:2], orOK(reason), err != nil)
	if m.Message.Stage != gp.VerifPrevote && m.Message.Stage != gp.VerifPrecommit {
		return
	}
	if reason == "between-rounds" {
		return
	}
	if reason != "" {
		k.Probe("uncountable-vote:" + reason)
		if !sameTally(beforeV, afterV) || !sameEqv(beforeE, afterE) {
			k.Violate("C21", "tally", "uncountable-vote-changed-tally:"+reason, "node %d: a vote that must not be counted (%s: stage %d round %d set %d block %s #%d by %x) changed the tally: votes %d->%d, equivocators %d->%d",
				n.id, reason, m.Message.Stage, m.Round, m.SetID, cu.Short(vote.Hash), vote.Number, id[:2], len(beforeV), len(afterV), len(beforeE), len(afterE))
		}
		return
	}
	k.Probe("countable-vote")
	_, isEqv := afterE[id]
	if cur, ok := afterV[id]; !isEqv && (!ok || cur != vote) {
		k.Violate("C21", "tally", "countable-vote-not-tallied", "node %d stage %d: after a valid vote by %x for %s the authority is neither counted for that block nor among the equivocators (counted: %v)", n.id, stageIx(m.Message.Stage), id[:2], cu.Short(vote.Hash), ok)
	}
}
