package grandpa

import (
	"github.com/ChainSafe/gossamer/dot/network"
	"github.com/ChainSafe/gossamer/lib/common"
	"github.com/ChainSafe/gossamer/lib/crypto/ed25519"
	gp "github.com/ChainSafe/gossamer/lib/grandpa"
	cu "github.com/ChainSafe/gossamer/verifsim/chainutil"
)

// observedPrecommit is an honest precommit seen on the wire (replayable by anyone).
type observedPrecommit struct {
	round, setID uint64
	sv           gp.SignedVote
}

var garbage = [64]byte{0xde, 0xad, 0xbe, 0xef}

func (s *gsim) advKeys() []int {
	var out []int
	for i, b := range s.byz {
		if b {
			out = append(out, i)
		}
	}
	return out
}

func (s *gsim) anyBlock(label string) *cu.RefBlock {
	return s.blocks[s.k.Choose(len(s.blocks), label)]
}

func rawOf(m gp.GrandpaMessage) []byte {
	cm, err := m.ToConsensusMessage()
	if err != nil {
		panic(err)
	}
	raw, err := (*network.ConsensusMessage)(cm).Encode()
	if err != nil {
		panic(err)
	}
	return raw
}

// byzantine: one action of the adversary (a Byzantine voter or a plain peer).
func (s *gsim) byzantine() {
	k := s.k
	if k.Prop == "C18" || k.Bool(1, 3, "byz-commit") {
		s.byzCommit()
		return
	}
	if len(s.advKeys()) > 0 && (k.Bool(1, 3, "byz-split") || (s.targeted && k.Bool(2, 3, "byz-split-targeted"))) {
		s.byzSplit()
		return
	}
	s.byzVote()
}

// byzSplit: the classic attack of a Byzantine voter - validly signed votes for blocks on two
// different forks, one fork shown to some nodes, the other to the rest, both (an equivocation, in
// a chosen order) to some.
func (s *gsim) byzSplit() {
	k := s.k
	adv := s.advKeys()
	a := adv[k.Choose(len(adv), "byz-key")]
	stage := []gp.Subround{gp.VerifPrevote, gp.VerifPrecommit}[k.Choose(2, "byz-stage")]
	x, y := s.anyBlock("byz-split-x"), s.anyBlock("byz-split-y")
	if s.targeted {
		lv := s.ref.Leaves()
		x = s.ref.Blocks[lv[k.Choose(len(lv), "byz-split-leaf-x")]]
		y = s.ref.Blocks[lv[k.Choose(len(lv), "byz-split-leaf-y")]]
	}
	ref := s.pickHonest("byz-round-of")
	round, setID := ref.svc.VerifRound(), ref.svc.VerifSetID()
	mk := func(b *cu.RefBlock) []byte {
		v := gp.Vote{Hash: b.Hash, Number: uint32(b.Number)}
		return rawOf(&gp.VoteMessage{Round: round, SetID: setID, Message: gp.SignedMessage{Stage: stage, BlockHash: v.Hash, Number: v.Number,
			Signature: signVote(s.keys[a], stage, v, round, setID), AuthorityID: pkb(s.keys[a])}})
	}
	rx, ry := mk(x), mk(y)
	k.Fault("byzantine-split-vote")
	k.Event("byz-split", "voter %d stage=%d round=%d %s#%d | %s#%d", a, stage, round, cu.Short(x.Hash), x.Number, cu.Short(y.Hash), y.Number)
	for _, h := range s.honest() {
		switch k.Choose(5, "byz-split-show") {
		case 4: // the SAME vote twice, the second copy under another valid signature: a repeat, not an equivocation
			v := gp.Vote{Hash: x.Hash, Number: uint32(x.Number)}
			rx2 := rawOf(&gp.VoteMessage{Round: round, SetID: setID, Message: gp.SignedMessage{Stage: stage, BlockHash: v.Hash, Number: v.Number,
				Signature: altSignVote(a, stage, v, round, setID, 1), AuthorityID: pkb(s.keys[a])}})
			s.pending = append(s.pending, wire{a, h.id, rx, "byz-split"}, wire{a, h.id, rx2, "byz-resigned"})
			k.Probe("same-vote-two-valid-signatures")
		case 0:
			s.pending = append(s.pending, wire{a, h.id, rx, "byz-split"})
		case 1:
			s.pending = append(s.pending, wire{a, h.id, ry, "byz-split"})
		case 2:
			s.pending = append(s.pending, wire{a, h.id, rx, "byz-split"}, wire{a, h.id, ry, "byz-split"})
		default:
			s.pending = append(s.pending, wire{a, h.id, ry, "byz-split"}, wire{a, h.id, rx, "byz-split"})
		}
	}
}

func (s *gsim) byzVote() {
	k := s.k
	n := s.pickHonest("byz-target")
	adv := s.advKeys()
	stage := []gp.Subround{gp.VerifPrevote, gp.VerifPrecommit, gp.VerifPrimaryProposal}[k.Choose(3, "byz-stage")]
	blk := s.anyBlock("byz-block")
	vote := gp.Vote{Hash: blk.Hash, Number: uint32(blk.Number)}
	what := "vote"
	if k.Bool(1, 6, "byz-wrong-number") {
		vote.Number += uint32(1 + k.Choose(2, "byz-number-delta"))
		what += "+wrong-number"
	}
	if k.Bool(1, 10, "byz-fake-block") {
		vote.Hash = common.Hash{0xba, 0xd0, byte(k.Choose(4, "byz-fake"))}
		what += "+unknown-block"
	}
	round := n.svc.VerifRound()
	switch k.Choose(8, "byz-round") {
	case 6:
		round++
	case 7:
		if round > 0 {
			round--
		}
	}
	setID := n.svc.VerifSetID()
	if k.Bool(1, 12, "byz-wrong-set") {
		setID++
	}
	var id ed25519.PublicKeyBytes
	var sig [64]byte
	switch c := k.Choose(6, "byz-signer"); {
	case c <= 2 && len(adv) > 0: // a Byzantine voter signs with its own key
		a := adv[k.Choose(len(adv), "byz-key")]
		id = pkb(s.keys[a])
		sig = signVote(s.keys[a], stage, vote, round, setID)
		what += "+own-key"
	case c == 3: // a key that is not in the authority set
		kp := edKey(100 + k.Choose(3, "byz-outsider"))
		id = pkb(kp)
		sig = signVote(kp, stage, vote, round, setID)
		what += "+non-authority"
	case c == 4 && len(adv) > 0: // valid signature, but for another round
		a := adv[k.Choose(len(adv), "byz-key")]
		id = pkb(s.keys[a])
		sig = signVote(s.keys[a], stage, vote, round+1, setID)
		what += "+signed-for-other-round"
	default: // an honest authority id with a garbage signature
		h := s.honest()
		id = pkb(s.keys[h[k.Choose(len(h), "byz-impersonate")].id])
		sig = garbage
		sig[5] = byte(k.Choose(4, "byz-garbage"))
		what += "+forged"
	}
	vm := &gp.VoteMessage{Round: round, SetID: setID, Message: gp.SignedMessage{Stage: stage, BlockHash: vote.Hash, Number: vote.Number, Signature: sig, AuthorityID: id}}
	raw := rawOf(vm)
	k.Fault("byzantine-vote")
	k.Event("byz-vote", "->n%d %s stage=%d round=%d %s#%d", n.id, what, stage, round, cu.Short(vote.Hash), vote.Number)
	from := s.n // a plain peer
	if len(adv) > 0 {
		from = adv[0]
	}
	// selective sending: to the target only, or to everybody
	if k.Bool(1, 2, "byz-broadcast") {
		for _, h := range s.honest() {
			s.pending = append(s.pending, wire{from, h.id, raw, "byz-vote"})
		}
	} else {
		s.pending = append(s.pending, wire{from, n.id, raw, "byz-vote"})
	}
}

func (s *gsim) byzCommit() {
	k := s.k
	n := s.pickHonest("byz-target")
	adv := s.advKeys()
	round := n.svc.VerifRound()
	if k.Bool(1, 8, "byz-commit-next-round") {
		round++
	}
	setID := n.svc.VerifSetID()
	// target: usually a block the node holds below its finalised head, on any fork
	target := s.anyBlock("byz-commit-target")
	head := n.svc.VerifHead().Hash()
	var pre []gp.Vote
	var auth []gp.AuthData
	add := func(id ed25519.PublicKeyBytes, sig [64]byte, v gp.Vote) {
		pre = append(pre, v)
		auth = append(auth, gp.AuthData{Signature: sig, AuthorityID: id})
	}
	descendants := s.ref.Descendants(target.Hash)
	onTarget := func(label string) gp.Vote {
		b := s.ref.Blocks[descendants[k.Choose(len(descendants), label)]]
		return gp.Vote{Hash: b.Hash, Number: uint32(b.Number)}
	}
	what := ""
	var thisRound []observedPrecommit
	for _, o := range s.observed {
		if o.round == round && o.setID == setID {
			thisRound = append(thisRound, o)
		}
	}
	if len(thisRound) > 0 && k.Bool(1, 6, "byz-commit-transplant") {
		// signatures are valid for what was signed and for nothing else: first a commit carrying the
		// honest precommits of this round as they were signed (the node verifies them; the target is
		// not theirs, so it is refused), then the same authority/signature pairs next to votes for the
		// target (a verifier that remembers "this signature was good" must not count them)
		for _, o := range thisRound {
			add(o.sv.AuthorityID, o.sv.Signature, o.sv.Vote)
		}
		first := &gp.CommitMessage{Round: round, SetID: setID, Vote: gp.Vote{Hash: target.Hash, Number: uint32(target.Number)}, Precommits: pre, AuthData: auth}
		from := s.n
		if len(adv) > 0 {
			from = adv[0]
		}
		s.pending = append(s.pending, wire{from, n.id, rawOf(first), "byz-commit"})
		k.Fault("byzantine-commit")
		pre, auth = nil, nil
		for _, o := range thisRound {
			add(o.sv.AuthorityID, o.sv.Signature, onTarget("byz-entry-block"))
		}
		for _, a := range adv { // and the adversary's own keys, validly
			v := onTarget("byz-entry-block")
			add(pkb(s.keys[a]), signVote(s.keys[a], gp.VerifPrecommit, v, round, setID), v)
		}
		k.Probe("honest-signatures-transplanted-onto-other-votes")
		what = "transplant"
	} else if k.Bool(1, 2, "byz-commit-boundary") && len(adv) > 0 {
		// a clean message with a chosen number of supporters around the 2/3 boundary
		need := 2*len(n.curSet())/3 + 1 // relative to the set the target node is in
		cnt := need - 1 + k.Choose(2, "byz-boundary-side")
		if cnt > len(adv) {
			cnt = len(adv)
		}
		for i := 0; i < cnt; i++ {
			v := onTarget("byz-entry-block")
			add(pkb(s.keys[adv[i]]), signVote(s.keys[adv[i]], gp.VerifPrecommit, v, round, setID), v)
		}
		what = "boundary"
	} else {
		entries := k.Choose(s.n+4, "byz-entries")
		for i := 0; i < entries; i++ {
			switch c := k.Choose(13, "byz-entry-kind"); {
			case c == 12 && len(adv) > 0: // ONE precommit of an adversary key listed twice, with two different valid signatures
				a := adv[k.Choose(len(adv), "byz-key")]
				b := s.anyBlock("byz-entry-any-block")
				v := gp.Vote{Hash: b.Hash, Number: uint32(b.Number)}
				add(pkb(s.keys[a]), signVote(s.keys[a], gp.VerifPrecommit, v, round, setID), v)
				add(pkb(s.keys[a]), altSignVote(a, gp.VerifPrecommit, v, round, setID, byte(k.Choose(3, "byz-alt-nonce"))), v)
				k.Probe("same-precommit-two-valid-signatures")
			case c >= 10 && len(pre) > 0: // a second entry, with a forged signature and another vote, for an authority that is already listed
				j := k.Choose(len(pre), "byz-forge-second-for")
				g := garbage
				g[11] = byte(k.Choose(5, "byz-garbage"))
				b := s.anyBlock("byz-entry-any-block")
				add(auth[j].AuthorityID, g, gp.Vote{Hash: b.Hash, Number: uint32(b.Number)})
			case c <= 1 && len(adv) > 0: // valid, on the target's chain
				a := adv[k.Choose(len(adv), "byz-key")]
				v := onTarget("byz-entry-block")
				add(pkb(s.keys[a]), signVote(s.keys[a], gp.VerifPrecommit, v, round, setID), v)
			case c == 2 && len(adv) > 0: // valid, but for a block off the target's chain (true equivocation if repeated)
				a := adv[k.Choose(len(adv), "byz-key")]
				b := s.anyBlock("byz-entry-any-block")
				v := gp.Vote{Hash: b.Hash, Number: uint32(b.Number)}
				add(pkb(s.keys[a]), signVote(s.keys[a], gp.VerifPrecommit, v, round, setID), v)
			case c == 3 && len(pre) > 0: // duplicate of an earlier entry
				j := k.Choose(len(pre), "byz-dup-entry")
				add(auth[j].AuthorityID, auth[j].Signature, pre[j])
			case c == 4: // an honest authority id listed with a garbage signature
				h := s.honest()
				g := garbage
				g[7] = byte(k.Choose(5, "byz-garbage"))
				add(pkb(s.keys[h[k.Choose(len(h), "byz-impersonate")].id]), g, onTarget("byz-entry-block"))
			case c == 5: // the same honest id twice with two different garbage signatures (fake equivocation)
				h := s.honest()
				id := pkb(s.keys[h[k.Choose(len(h), "byz-impersonate")].id])
				g1, g2 := garbage, garbage
				g1[9], g2[9] = 1, 2
				add(id, g1, onTarget("byz-entry-block"))
				add(id, g2, onTarget("byz-entry-block"))
			case c == 6: // a key outside the authority set
				kp := edKey(100 + k.Choose(3, "byz-outsider"))
				v := onTarget("byz-entry-block")
				add(pkb(kp), signVote(kp, gp.VerifPrecommit, v, round, setID), v)
			case c == 7 && len(adv) > 0: // signed for another round or set, or as a prevote
				a := adv[k.Choose(len(adv), "byz-key")]
				v := onTarget("byz-entry-block")
				switch k.Choose(3, "byz-wrong-what") {
				case 0:
					add(pkb(s.keys[a]), signVote(s.keys[a], gp.VerifPrecommit, v, round+1, setID), v)
				case 1:
					add(pkb(s.keys[a]), signVote(s.keys[a], gp.VerifPrecommit, v, round, setID+1), v)
				default:
					add(pkb(s.keys[a]), signVote(s.keys[a], gp.VerifPrevote, v, round, setID), v)
				}
			case c == 8 && len(s.observed) > 0: // an honest precommit observed on the wire
				o := s.observed[k.Choose(len(s.observed), "byz-observed")]
				add(o.sv.AuthorityID, o.sv.Signature, o.sv.Vote)
			default: // all observed honest precommits of this round
				for _, o := range s.observed {
					if o.round == round && o.setID == setID {
						add(o.sv.AuthorityID, o.sv.Signature, o.sv.Vote)
					}
				}
			}
		}
		what = "mixed"
	}
	cm := &gp.CommitMessage{Round: round, SetID: setID, Vote: gp.Vote{Hash: target.Hash, Number: uint32(target.Number)}, Precommits: pre, AuthData: auth}
	if k.Bool(1, 20, "byz-commit-length-mismatch") && len(cm.AuthData) > 0 {
		cm.AuthData = cm.AuthData[:len(cm.AuthData)-1]
	}
	raw := rawOf(cm)
	k.Fault("byzantine-commit")
	k.Event("byz-commit", "->n%d %s round=%d target=%s#%d entries=%d (head %s)", n.id, what, round, cu.Short(target.Hash), target.Number, len(pre), cu.Short(head))
	from := s.n
	if len(adv) > 0 {
		from = adv[0]
	}
	s.pending = append(s.pending, wire{from, n.id, raw, "byz-commit"})
}
