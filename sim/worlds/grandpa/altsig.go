package grandpa

// A second valid Ed25519 signature of the same message. Ed25519 signing is deterministic only by
// convention (RFC 8032 derives the nonce from the key and the message); whoever holds a key can
// sign the same vote again with another nonce, and both signatures verify. A Byzantine voter can
// therefore list ONE precommit twice with two different valid signatures - which is a repeated
// vote, not an equivocation. Plain RFC 8032 equations over math/big (slow, used a few times per run).

import (
	"bytes"
	stded "crypto/ed25519"
	"crypto/sha512"
	"math/big"
)

var (
	edP, _  = new(big.Int).SetString("7fffffffffffffffffffffffffffffffffffffffffffffffffffffffffffffed", 16)
	edL, _  = new(big.Int).SetString("1000000000000000000000000000000014def9dea2f79cd65812631a5cf5d3ed", 16)
	edBx, _ = new(big.Int).SetString("15112221349535400772501151409588531511454012693041857206046113283949847762202", 10)
	edBy, _ = new(big.Int).SetString("46316835694926478169428394003475163141307993866256225615783033603165251855960", 10)
	edD     = func() *big.Int { // -121665/121666 mod p
		d := new(big.Int).ModInverse(big.NewInt(121666), edP)
		d.Mul(d, big.NewInt(-121665))
		return d.Mod(d, edP)
	}()
)

type edPoint struct{ x, y *big.Int }

func edMul(v ...*big.Int) *big.Int {
	r := big.NewInt(1)
	for _, f := range v {
		r.Mul(r, f)
		r.Mod(r, edP)
	}
	return r
}

func edAdd(a, b edPoint) edPoint {
	t := edMul(edD, a.x, b.x, a.y, b.y)
	xn := new(big.Int).Add(edMul(a.x, b.y), edMul(b.x, a.y))
	yn := new(big.Int).Add(edMul(a.y, b.y), edMul(a.x, b.x))
	xd := new(big.Int).Add(big.NewInt(1), t)
	yd := new(big.Int).Sub(big.NewInt(1), t)
	xd.ModInverse(xd.Mod(xd, edP), edP)
	yd.ModInverse(yd.Mod(yd, edP), edP)
	return edPoint{edMul(xn, xd), edMul(yn, yd)}
}

func edBaseMult(k *big.Int) edPoint {
	res := edPoint{big.NewInt(0), big.NewInt(1)}
	base := edPoint{edBx, edBy}
	for i := k.BitLen() - 1; i >= 0; i-- {
		res = edAdd(res, res)
		if k.Bit(i) == 1 {
			res = edAdd(res, base)
		}
	}
	return res
}

func edLE(v *big.Int) []byte {
	be := v.FillBytes(make([]byte, 32))
	for i, j := 0, 31; i < j; i, j = i+1, j-1 {
		be[i], be[j] = be[j], be[i]
	}
	return be
}

func edFromLE(b []byte) *big.Int {
	be := make([]byte, len(b))
	for i := range b {
		be[len(b)-1-i] = b[i]
	}
	return new(big.Int).SetBytes(be)
}

func edEncode(p edPoint) []byte {
	out := edLE(p.y)
	if p.x.Bit(0) == 1 {
		out[31] |= 0x80
	}
	return out
}

// altSign signs msg with the key derived from seed using a nonce chosen by tweak. The result is
// checked with the standard library before it is returned.
func altSign(seed, msg []byte, tweak byte) [64]byte {
	h := sha512.Sum512(seed)
	h[0] &= 248
	h[31] &= 127
	h[31] |= 64
	a := edFromLE(h[:32])
	pub := edEncode(edBaseMult(a))
	std := stded.NewKeyFromSeed(seed).Public().(stded.PublicKey)
	if !bytes.Equal(pub, std) {
		panic("grandpa world: altSign arithmetic is wrong (public key)")
	}
	nh := sha512.Sum512(append(append([]byte{'a', 'l', 't', tweak}, seed...), msg...))
	r := edFromLE(nh[:])
	r.Mod(r, edL)
	encR := edEncode(edBaseMult(r))
	kh := sha512.Sum512(bytes.Join([][]byte{encR, pub, msg}, nil))
	kk := edFromLE(kh[:])
	kk.Mod(kk, edL)
	s := new(big.Int).Mul(kk, a)
	s.Add(s, r)
	s.Mod(s, edL)
	var sig [64]byte
	copy(sig[:32], encR)
	copy(sig[32:], edLE(s))
	if !stded.Verify(std, msg, sig[:]) {
		panic("grandpa world: altSign produced an invalid signature")
	}
	return sig
}
