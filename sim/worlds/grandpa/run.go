package grandpa

import (
	"fmt"
	"runtime"
	"strings"

	"github.com/ChainSafe/gossamer/dot/network"
	"github.com/ChainSafe/gossamer/dot/types"
	"github.com/ChainSafe/gossamer/lib/common"
	"github.com/ChainSafe/gossamer/lib/crypto/ed25519"
	gp "github.com/ChainSafe/gossamer/lib/grandpa"
	cu "github.com/ChainSafe/gossamer/verifsim/chainutil"
	"github.com/ChainSafe/gossamer/verifsim/kernel"
)

func runGrandpa(k *kernel.K) {
	// a sixth of the C22 runs: the generic implementation's rounds with weighted voter sets (generic.go)
	if k.Prop == "C22" && k.Bool(1, 6, "generic-rounds") {
		runGenericRounds(k)
		return
	}
	s := &gsim{k: k, cut: map[[2]int]bool{}, chg: map[common.Hash]uint32{}}
	if k.Prop == "C18" {
		s.n = k.Range(1, 10, "voters")
	} else {
		s.n = k.Range(4, 7, "voters")
	}
	// targeted runs (swarm): the smallest network in which one Byzantine voter matters, two forks of
	// similar length, and an adversary that mostly splits its votes between the forks
	s.targeted = k.Prop != "C18" && k.Bool(1, 3, "targeted-split-attack")
	if s.targeted {
		s.n = 4
	}
	// crash-restarts are a swarm knob: a voter restarted in the middle of a round may vote twice in
	// it (see recordOwnVote), which takes the run outside the premise of C22, so most runs go without
	s.crashes = k.Bool(1, 3, "crash-restarts-enabled")
	// a third of the C21/C22 runs: the real finalisation.go goroutines, timers and vote tracker drive the rounds (real.go)
	s.real = (k.Prop == "C21" || k.Prop == "C22") && k.Bool(1, 3, "real-round-driver")
	// a fifth of the remaining C21 runs: blocks announce scheduled authority changes, which cap the votes
	// (pending changes live in memory only, so no restarts in these runs)
	s.authChanges = k.Prop == "C21" && !s.real && k.Bool(1, 5, "authority-changes")
	if s.authChanges {
		s.crashes = false
	}
	// a quarter of the C18 runs: the authority set changes for real during the run (no restarts in these)
	s.setChanges = k.Prop == "C18" && k.Bool(1, 4, "authority-set-changes")
	if s.setChanges {
		s.crashes = false
	}
	maxByz := (s.n - 1) / 3
	nbyz := k.Choose(maxByz+1, "byzantine")
	if s.targeted {
		nbyz = 1
	}
	if k.Prop == "C18" {
		nbyz = k.Choose(s.n, "adversary-keys") // the commit verifier must hold whatever keys the sender controls
	}
	s.byz = make([]bool, s.n)
	for i := 0; i < nbyz; i++ {
		s.byz[s.n-1-i] = true
	}
	for i := 0; i < s.n; i++ {
		kp := edKey(i)
		s.keys = append(s.keys, kp)
		s.voters = append(s.voters, gp.Voter{Key: *kp.Public().(*ed25519.PublicKey), ID: uint64(i)})
	}
	s.genesis = types.NewHeader(common.Hash{}, common.Hash{9}, common.Hash{}, 0, types.NewDigest())
	groot := &cu.RefBlock{Hash: s.genesis.Hash(), Number: 0, Header: s.genesis}
	s.ref = cu.NewRefTree(groot)
	s.blocks = []*cu.RefBlock{groot}
	// initial tree: a chain with a few forks
	salt := 0
	tip := groot
	for i, d := 0, k.Range(2, 6, "chain-len"); i < d; i++ {
		salt++
		tip = s.produce(tip, salt)
	}
	nforks := k.Choose(3, "forks")
	if s.targeted {
		nforks = 1
	}
	for i, f := 0, nforks; i < f; i++ {
		p := s.blocks[k.Choose(len(s.blocks), "fork-parent")]
		if s.targeted {
			p = s.blocks[1+k.Choose(2, "fork-parent-low")]
		}
		for j, d := 0, 1+k.Choose(3, "fork-len"); j < d; j++ {
			salt++
			p = s.produce(p, salt)
		}
	}
	s.nodes = make([]*gnode, s.n)
	for i := 0; i < s.n; i++ {
		if s.byz[i] {
			continue
		}
		s.nodes[i] = s.newNode(i)
		// every node knows some prefix of what the source produced
		for _, b := range s.blocks[1:] {
			if !k.Bool(1, 8, "block-not-yet-synced") {
				s.nodes[i].importChain(b)
			}
		}
	}
	wait()
	if s.real {
		k.Probe("real-round-driver-run")
		s.runReal(&salt)
		return
	}
	steps := k.Range(30, 260, "steps")
	for st := 0; st < steps; st++ {
		switch a := k.Choose(24, "action"); {
		case a <= 10:
			if len(s.pending) == 0 {
				s.advanceSome()
				break
			}
			i := 0
			if k.Bool(1, 3, "reorder") {
				i = k.Choose(len(s.pending), "pending-index")
				if i != 0 {
					k.Fault("reorder")
				}
			}
			w := s.pending[i]
			s.pending = append(s.pending[:i], s.pending[i+1:]...)
			s.deliver(w)
		case a <= 18:
			s.advanceSome()
		case a <= 20:
			s.byzantine()
		case a == 21:
			// the source produces a block; some nodes import it at once
			salt++
			p := s.blocks[k.Choose(len(s.blocks), "produce-parent")]
			if k.Bool(2, 3, "produce-on-tip") {
				p = s.blocks[len(s.blocks)-1]
			}
			b := s.produce(p, salt)
			k.Event("produce", "%s parent=%s num=%d", cu.Short(b.Hash), cu.Short(p.Hash), b.Number)
			for _, n := range s.honest() {
				if !k.Bool(1, 4, "import-later") {
					n.importChain(b)
				}
			}
		case a == 22:
			// a lagging node catches up with the source
			n := s.pickHonest("sync-node")
			for _, b := range s.blocks[1:] {
				n.importChain(b)
			}
			k.Event("sync", "n%d", n.id)
		default:
			if s.setChanges && k.Bool(1, 2, "change-authority-set") {
				s.changeSet()
			} else if k.Bool(1, 4, "partition-or-heal") {
				s.partition()
			} else if s.crashes && k.Bool(1, 2, "crash") {
				n := s.pickHonest("crash-node")
				k.Fault("crash-restart")
				k.Event("crash-restart", "n%d", n.id)
				n.open(false)
				// messages in flight to a crashed node are lost
				var keep []wire
				for _, w := range s.pending {
					if w.to != n.id {
						keep = append(keep, w)
					}
				}
				s.pending = keep
			}
		}
		wait()
		s.checkSafety()
	}
}

func (s *gsim) honest() []*gnode {
	var out []*gnode
	for _, n := range s.nodes {
		if n != nil {
			out = append(out, n)
		}
	}
	return out
}

func (s *gsim) pickHonest(label string) *gnode {
	h := s.honest()
	return h[s.k.Choose(len(h), label)]
}

func (s *gsim) advanceSome() { s.pickHonest("advance-node").advance() }

func (s *gsim) partition() {
	k := s.k
	if len(s.cut) > 0 {
		s.cut = map[[2]int]bool{}
		k.Event("heal", "")
		return
	}
	side := map[int]bool{}
	for i := 0; i < s.n; i++ {
		side[i] = k.Bool(1, 2, "partition-side")
	}
	for i := 0; i < s.n; i++ {
		for j := 0; j < s.n; j++ {
			if side[i] != side[j] {
				s.cut[[2]int{i, j}] = true
			}
		}
	}
	k.Fault("partition")
	k.Event("partition", "%v", side)
}

// checkSafety: C22 — all honest finalised heads lie on one chain; per node the head only advances.
func (s *gsim) checkSafety() {
	k := s.k
	hs := s.honest()
	heads := make([]common.Hash, len(hs))
	for i, n := range hs {
		h, err := n.bs.GetHighestFinalisedHash()
		if err != nil {
			k.Violate("C22", "finalised-head", "finalised-head-unreadable", "node %d: %v", n.id, err)
		}
		heads[i] = h
		if h != n.fin {
			if !s.isDesc(n.fin, h) {
				k.Violate("C17", "monotone", "finalised-head-left-its-chain", "node %d: finalised head moved from %s to %s which does not descend from it", n.id, cu.Short(n.fin), cu.Short(h))
				k.Stop()
			}
			k.Event("finalised", "n%d %s #%d", n.id, cu.Short(h), s.ref.Blocks[h].Number)
			k.Probe("finalisation")
			k.Nontriv = true
			n.fin = h
		}
	}
	if k.Prop == "C18" && s.adversaryKeys()*3 >= s.n {
		return // the adversary holds a third or more: safety is not promised
	}
	faulty := s.adversaryKeys()
	for _, n := range hs {
		if n.amnesiac {
			faulty++
		}
	}
	if faulty*3 >= s.n {
		// voters that equivocated (Byzantine ones, and restarted ones that voted twice in a round)
		// hold a third or more of the weight: outside the premise of C22
		k.Probe("safety-premise-lost-to-restarted-voters")
		return
	}
	for i := range hs {
		for j := i + 1; j < len(hs); j++ {
			if !s.isDesc(heads[i], heads[j]) && !s.isDesc(heads[j], heads[i]) {
				class := "conflicting-finalised-blocks"
				if s.real && s.realOffEstimate() {
					s.offEstimate = true
				}
				if s.offEstimate {
					class += ":after-prevote-off-last-round-estimate"
				}
				k.Violate("C22", "safety", class, "node %d finalised %s (#%d) and node %d finalised %s (#%d): different forks",
					hs[i].id, cu.Short(heads[i]), s.ref.Blocks[heads[i]].Number, hs[j].id, cu.Short(heads[j]), s.ref.Blocks[heads[j]].Number)
			}
		}
	}
}

func (s *gsim) adversaryKeys() int {
	c := 0
	for _, b := range s.byz {
		if b {
			c++
		}
	}
	return c
}

// ---- the honest round driver: the action sequence of finalisation.go ---------

func (n *gnode) advance() {
	k := n.s.k
	svc := n.svc
	switch n.phase {
	case 0:
		if err := svc.VerifInitiateRound(); err != nil {
			k.Event("initiate-failed", "n%d %v", n.id, err)
			return
		}
		n.resetModel(svc.VerifRound())
		k.Event("initiate-round", "n%d round=%d", n.id, svc.VerifRound())
		// a round starts from the finalised head of the block state (votes are measured against it)
		if h := svc.VerifHead().Hash(); h != n.finHead() {
			k.Violate("C21", "round-base", "round-started-from-a-stale-finalised-head", "node %d starts round %d from %s, its block state's finalised head is %s", n.id, svc.VerifRound(), cu.Short(h), cu.Short(n.finHead()))
		}
		n.phase = 1
	case 1:
		done, err := svc.VerifCheckRoundCompletable()
		if err != nil {
			k.Event("error", "n%d checkRoundCompletable: %v", n.id, err)
			return
		}
		if done {
			k.Event("already-finalised", "n%d round=%d", n.id, svc.VerifRound())
			n.leaveRound()
			return
		}
		isPrimary, err := svc.VerifHandleIsPrimary()
		if err != nil {
			k.Event("error", "n%d handleIsPrimary: %v", n.id, err)
			return
		}
		pv, err := svc.VerifDeterminePreVote()
		if err != nil {
			k.Event("error", "n%d determinePreVote: %v", n.id, err)
			return
		}
		spv, vm, err := svc.VerifCreateSignedVoteAndVoteMessage(pv, gp.VerifPrevote)
		if err != nil {
			k.Event("error", "n%d sign: %v", n.id, err)
			return
		}
		if !isPrimary {
			svc.VerifStoreOwnVote(gp.VerifPrevote, spv)
		}
		n.mVotes[0][pkb(n.s.keys[n.id])] = *pv
		n.recordOwnVote(0, pv)
		if err := svc.VerifSendPrevoteMessage(vm); err != nil {
			k.Event("error", "n%d send: %v", n.id, err)
		}
		// honest votes are on a known block descending from the finalised head
		if !n.has[pv.Hash] || !n.s.isDesc(svc.VerifHead().Hash(), pv.Hash) {
			k.Violate("C21", "prevote-choice", "prevote-not-on-finalised-chain", "node %d prevoted %s (#%d) which it does not hold below its finalised head %s", n.id, cu.Short(pv.Hash), pv.Number, cu.Short(svc.VerifHead().Hash()))
		}
		if e := n.lastEst; e != nil && n.lastEstRound+1 == svc.VerifRound() && !n.s.isDesc(e.Hash, pv.Hash) {
			// GRANDPA: the prevote of round r+1 is on the best chain containing the estimate of round r
			n.s.offEstimate = true
			k.Probe("prevote-not-on-chain-of-last-round-estimate")
			k.Event("off-estimate", "n%d round=%d prevotes %s, estimate of round %d was %s #%d", n.id, svc.VerifRound(), cu.Short(pv.Hash), n.lastEstRound, cu.Short(e.Hash), e.Number)
		}
		k.Event("prevote", "n%d round=%d %s #%d primary=%v", n.id, svc.VerifRound(), cu.Short(pv.Hash), pv.Number, isPrimary)
		n.phase = 2
	case 2:
		done, err := svc.VerifCheckRoundCompletable()
		if err != nil {
			return
		}
		if done {
			k.Event("already-finalised", "n%d round=%d", n.id, svc.VerifRound())
			n.leaveRound()
			return
		}
		ghost, err := svc.VerifGetPreVotedBlock()
		if err != nil {
			k.Event("error", "n%d getPreVotedBlock: %v", n.id, err)
			return
		}
		total, err := svc.VerifTotalVotesForBlock(ghost.Hash, gp.VerifPrevote)
		if err != nil {
			return
		}
		want, unique := n.modelGhost(0)
		if want != nil {
			if c := n.s.capped(want); c != want {
				k.Probe("precommit-capped-at-pending-authority-change")
				want = c
			}
		}
		stale := n.finHead() != svc.VerifHead().Hash()
		if stale {
			want, unique = nil, false
		}
		if total <= svc.VerifThreshold() {
			if want != nil {
				k.Violate("C21", "precommit-gate", "supermajority-prevotes-not-recognised", "node %d round %d: %s has more than 2/3 of the counted prevotes but the node does not see a supermajority (ghost %s total %d)", n.id, svc.VerifRound(), cu.Short(want.Hash), cu.Short(ghost.Hash), total)
			}
			k.Event("precommit-wait", "n%d round=%d total=%d", n.id, svc.VerifRound(), total)
			return
		}
		pc, err := svc.VerifDeterminePreCommit()
		if err != nil {
			k.Event("error", "n%d determinePreCommit: %v", n.id, err)
			return
		}
		if stale {
			// a commit for another round moved the finalised head under this round: nothing asserted
		} else if want == nil {
			k.Violate("C21", "precommit-choice", "precommit-without-prevote-supermajority", "node %d round %d precommits to %s (#%d) but no block has more than 2/3 of the counted prevotes (%s)", n.id, svc.VerifRound(), cu.Short(pc.Hash), pc.Number, n.modelDump(0))
		} else if unique && (pc.Hash != want.Hash || uint(pc.Number) != want.Number) {
			k.Violate("C21", "precommit-choice", "precommit-differs-from-ghost", "node %d round %d precommits to %s (#%d), the highest block with more than 2/3 of the counted prevotes is %s (#%d) (%s)", n.id, svc.VerifRound(), cu.Short(pc.Hash), pc.Number, cu.Short(want.Hash), want.Number, n.modelDump(0))
		}
		k.Probe("precommit-checked-against-ghost")
		spc, vm, err := svc.VerifCreateSignedVoteAndVoteMessage(pc, gp.VerifPrecommit)
		if err != nil {
			return
		}
		svc.VerifStoreOwnVote(gp.VerifPrecommit, spc)
		n.mVotes[1][pkb(n.s.keys[n.id])] = *pc
		n.recordOwnVote(1, pc)
		svc.VerifSendPrecommitMessage(vm)
		k.Event("precommit", "n%d round=%d %s #%d", n.id, svc.VerifRound(), cu.Short(pc.Hash), pc.Number)
		n.phase = 3
	case 3:
		done, err := svc.VerifCheckRoundCompletable()
		if err != nil {
			return
		}
		if done {
			k.Event("already-finalised", "n%d round=%d", n.id, svc.VerifRound())
			n.leaveRound()
			return
		}
		before := svc.VerifHead().Hash()
		ok, err := svc.VerifAttemptToFinalize()
		if err != nil {
			k.Event("error", "n%d attemptToFinalize: %v", n.id, err)
			return
		}
		if !ok {
			k.Event("finalise-wait", "n%d round=%d", n.id, svc.VerifRound())
			return
		}
		fin := svc.VerifHead().Hash()
		// C21: the finalised block has > 2/3 of the counted precommits and is an ancestor of the prevote GHOST
		w := n.modelWeight(1, fin)
		if !n.s.threshold2of3(w) {
			k.Violate("C21", "finalise-choice", "finalised-without-precommit-supermajority", "node %d round %d finalised %s with %d of %d counted precommits (%s)", n.id, svc.VerifRound(), cu.Short(fin), w, n.s.n, n.modelDump(1))
		}
		if want, unique := n.modelGhost(0); want != nil && unique && !n.s.isDesc(fin, want.Hash) {
			k.Violate("C21", "finalise-choice", "finalised-not-ancestor-of-ghost", "node %d round %d finalised %s which is not an ancestor of the prevote GHOST %s", n.id, svc.VerifRound(), cu.Short(fin), cu.Short(want.Hash))
		}
		if !n.s.isDesc(before, fin) {
			k.Violate("C17", "monotone", "finalised-head-left-its-chain", "node %d finalised %s, not a descendant of %s", n.id, cu.Short(fin), cu.Short(before))
			k.Stop()
		}
		k.Probe("own-finalisation-checked")
		cm, err := svc.VerifNewCommitMessage()
		if err == nil {
			svc.VerifGossip(cm)
		}
		k.Event("finalise", "n%d round=%d %s", n.id, svc.VerifRound(), cu.Short(fin))
		n.leaveRound()
	}
}

// leaveRound: the node is done with its round. The model notes the round's estimate in the sense of
// the GRANDPA paper: the highest ancestor of the prevote GHOST for which a supermajority of
// precommits is still possible given the precommits counted so far. It is only used to tell apart
// the causes of a safety violation (see checkSafety), never as an oracle of its own.
func (n *gnode) leaveRound() {
	n.phase = 0
	n.lastEst, n.lastEstRound = nil, n.svc.VerifRound()
	g, unique := n.modelGhost(0)
	if g == nil || !unique {
		return
	}
	unseen := n.s.n - len(n.mVotes[1]) - len(n.mEqv[1])
	for b := g; b != nil; b = n.s.ref.Blocks[b.Parent] {
		if n.s.threshold2of3(n.modelWeight(1, b.Hash) + unseen) {
			n.lastEst = b
			return
		}
		if b.Number == 0 {
			return
		}
	}
}

// finHead is the node's finalised head as its block state reports it.
func (n *gnode) finHead() common.Hash {
	h, err := n.bs.GetHighestFinalisedHash()
	if err != nil {
		panic(err)
	}
	return h
}

// modelWeight: counted votes of a stage for b or its descendants, plus equivocators.
func (n *gnode) modelWeight(st int, b common.Hash) int {
	w := len(n.mEqv[st])
	for _, v := range n.mVotes[st] {
		if n.s.isDesc(b, v.Hash) {
			w++
		}
	}
	return w
}

// modelGhost: the highest block with more than 2/3 of the counted votes of the
// stage (descendants and equivocators included); unique=false if two such
// blocks share the greatest height.
func (n *gnode) modelGhost(st int) (best *cu.RefBlock, unique bool) {
	unique = true
	head := n.finHead()
	for _, b := range n.s.blocks {
		if !n.has[b.Hash] || !n.s.isDesc(head, b.Hash) {
			continue
		}
		if !n.s.threshold2of3(n.modelWeight(st, b.Hash)) {
			continue
		}
		switch {
		case best == nil || b.Number > best.Number:
			best, unique = b, true
		case b.Number == best.Number:
			unique = false
		}
	}
	return best, unique
}

func (n *gnode) modelDump(st int) string {
	out := ""
	for _, a := range sortedAuth(n.mVotes[st]) {
		v := n.mVotes[st][a]
		out += fmt.Sprintf("%x:%s#%d ", a[:2], cu.Short(v.Hash), v.Number)
	}
	return fmt.Sprintf("votes[%s] equivocators=%d n=%d", out, len(n.mEqv[st]), n.s.n)
}

// ---- delivery with the C21 tally oracle and the C18 commit oracle ----------

func stageIx(st gp.Subround) int {
	if st == gp.VerifPrecommit {
		return 1
	}
	return 0
}

func (s *gsim) deliver(w wire) {
	k := s.k
	n := s.nodes[w.to]
	if n == nil {
		return
	}
	cm := new(network.ConsensusMessage)
	var msg gp.GrandpaMessage
	if err := cm.Decode(w.raw); err == nil && len(cm.Data) >= 2 {
		msg, _ = gp.VerifDecodeMessage(cm)
	}
	switch m := msg.(type) {
	case *gp.VoteMessage:
		if s.real {
			n.deliverVoteReal(w, m)
		} else {
			n.deliverVote(w, m)
		}
	case *gp.CommitMessage:
		n.deliverCommit(w, m)
	default:
		_, err := n.svc.VerifHandleNetworkBytes(peerOf(w.from), w.raw)
		k.Event("deliver-other", "n%d<-%d %s err=%v", n.id, w.from, w.what, err != nil)
	}
}

func (n *gnode) tallies(st gp.Subround) (map[ed25519.PublicKeyBytes]gp.Vote, map[ed25519.PublicKeyBytes]int) {
	return n.svc.VerifVotes(st)
}

func (n *gnode) deliverVote(w wire, m *gp.VoteMessage) {
	s, k, svc := n.s, n.s.k, n.svc
	st := stageIx(m.Message.Stage)
	vote := gp.Vote{Hash: m.Message.BlockHash, Number: m.Message.Number}
	id := m.Message.AuthorityID
	// --- what the statement says about this vote
	reason := ""
	blk := s.ref.Blocks[vote.Hash]
	switch {
	case !validSig(id, m.Message.Signature, m.Message.Stage, vote, m.Round, m.SetID):
		reason = "bad-signature"
	case !n.isAuthNow(id):
		reason = "non-authority"
	case m.SetID != svc.VerifSetID():
		reason = "wrong-set"
	case m.Round != svc.VerifRound():
		reason = "other-round"
	case id == pkb(s.keys[n.id]):
		reason = "own-vote"
	case blk == nil || !n.has[vote.Hash]:
		reason = "unknown-block"
	case uint(vote.Number) != blk.Number:
		reason = "wrong-number"
	case !s.isDesc(svc.VerifHead().Hash(), vote.Hash):
		reason = "not-descending-from-finalised-head"
	}
	if reason == "" && !s.isDesc(n.finHead(), vote.Hash) {
		// the vote descends from the finalised head the round started from, but a commit
		// message finalised a higher or conflicting block meanwhile: either reading of
		// "the finalised head" is defensible, so nothing is asserted for this vote
		reason = "between-rounds"
	}
	if n.phase == 0 && reason == "" {
		// between rounds the node has not initiated the round the sender is in; nothing is promised
		reason = "between-rounds"
	}
	beforeV, beforeE := n.tallies(m.Message.Stage)
	_, err := svc.VerifHandleNetworkBytes(peerOf(w.from), w.raw)
	wait()
	afterV, afterE := n.tallies(m.Message.Stage)
	k.Event("deliver-vote", "n%d<-%d stage=%d round=%d %s#%d by %x %s -> err=%v", n.id, w.from, m.Message.Stage, m.Round, cu.Short(vote.Hash), vote.Number, id[:2], orOK(reason), err != nil)
	if reason != "" && reason != "between-rounds" {
		k.Probe("uncountable-vote:" + reason)
		if !sameTally(beforeV, afterV) || !sameEqv(beforeE, afterE) {
			k.Violate("C21", "tally", "uncountable-vote-changed-tally:"+reason, "node %d: a vote that must not be counted (%s: stage %d round %d set %d block %s #%d by %x) changed the tally: votes %d->%d, equivocators %d->%d",
				n.id, reason, m.Message.Stage, m.Round, m.SetID, cu.Short(vote.Hash), vote.Number, id[:2], len(beforeV), len(afterV), len(beforeE), len(afterE))
		}
		return
	}
	if reason == "between-rounds" {
		// keep the model in step with whatever the node did
		n.syncModel(m.Message.Stage)
		return
	}
	// countable: update the model by the GRANDPA rules
	switch {
	case n.mEqv[st][id]:
	case hasVote(n.mVotes[st], id) && n.mVotes[st][id].Hash != vote.Hash:
		delete(n.mVotes[st], id)
		n.mEqv[st][id] = true
		k.Probe("equivocation-counted")
	default:
		n.mVotes[st][id] = vote
	}
	k.Probe("countable-vote")
	// the node's tally must now equal the model
	if !sameTally(afterV, n.mVotes[st]) || len(afterE) != len(n.mEqv[st]) {
		k.Violate("C21", "tally", "countable-vote-not-tallied", "node %d stage %d: tally after a valid vote by %x for %s: node has %d votes / %d equivocators, expected %d / %d", n.id, st, id[:2], cu.Short(vote.Hash), len(afterV), len(afterE), len(n.mVotes[st]), len(n.mEqv[st]))
	}
}

func (n *gnode) syncModel(st gp.Subround) {
	v, e := n.tallies(st)
	i := stageIx(st)
	n.mVotes[i] = v
	n.mEqv[i] = map[ed25519.PublicKeyBytes]bool{}
	for a := range e {
		n.mEqv[i][a] = true
	}
}

func orOK(s string) string {
	if s == "" {
		return "countable"
	}
	return s
}

func hasVote(m map[ed25519.PublicKeyBytes]gp.Vote, id ed25519.PublicKeyBytes) bool {
	_, ok := m[id]
	return ok
}

func sameTally(a, b map[ed25519.PublicKeyBytes]gp.Vote) bool {
	if len(a) != len(b) {
		return false
	}
	for k, v := range a {
		if w, ok := b[k]; !ok || w != v {
			return false
		}
	}
	return true
}

func sameEqv(a, b map[ed25519.PublicKeyBytes]int) bool {
	if len(a) != len(b) {
		return false
	}
	for k := range a {
		if _, ok := b[k]; !ok {
			return false
		}
	}
	return true
}

// commitPredicate: the statement of C18, computed from the message alone.
func (n *gnode) commitPredicate(m *gp.CommitMessage) (holds bool, supporters int, clean bool) {
	s := n.s
	clean = len(m.Precommits) == len(m.AuthData) && m.SetID == n.svc.VerifSetID()
	valid := map[ed25519.PublicKeyBytes][]gp.Vote{}
	for i := range m.Precommits {
		if i >= len(m.AuthData) {
			break
		}
		a := m.AuthData[i]
		p := m.Precommits[i]
		blk := s.ref.Blocks[p.Hash]
		ok := n.isAuthNow(a.AuthorityID) && validSig(a.AuthorityID, a.Signature, gp.VerifPrecommit, p, m.Round, n.svc.VerifSetID())
		if !ok || blk == nil || blk.Number != uint(p.Number) || !n.has[p.Hash] {
			clean = false
		}
		if ok {
			if len(valid[a.AuthorityID]) > 0 {
				clean = false
			}
			valid[a.AuthorityID] = append(valid[a.AuthorityID], p)
		}
	}
	for _, vs := range valid {
		eqv := false
		for _, v := range vs[1:] {
			if v != vs[0] {
				eqv = true
			}
		}
		onTarget := false
		for _, v := range vs {
			if s.isDesc(m.Vote.Hash, v.Hash) {
				onTarget = true
			}
		}
		if eqv || onTarget {
			supporters++
		}
	}
	return n.supermajorityNow(supporters), supporters, clean
}

func (n *gnode) deliverCommit(w wire, m *gp.CommitMessage) {
	s, k, svc := n.s, n.s.k, n.svc
	before, _ := n.bs.GetHighestFinalisedHash()
	holds, supporters, clean := n.commitPredicate(m)
	roundDone, _ := n.bs.HasFinalisedBlock(m.Round, svc.VerifSetID())
	tblk := s.ref.Blocks[m.Vote.Hash]
	targetOK := tblk != nil && n.has[m.Vote.Hash] && tblk.Number == uint(m.Vote.Number) && s.isDesc(before, m.Vote.Hash)
	_, err := svc.VerifHandleNetworkBytes(peerOf(w.from), w.raw)
	wait()
	after, _ := n.bs.GetHighestFinalisedHash()
	k.Event("deliver-commit", "n%d<-%d round=%d target=%s entries=%d supporters=%d/%d predicate=%v -> err=%v head %s->%s", n.id, w.from, m.Round, cu.Short(m.Vote.Hash), len(m.Precommits), supporters, s.n, holds, err != nil, cu.Short(before), cu.Short(after))
	if after != before {
		k.Probe("commit-finalised")
		if after != m.Vote.Hash {
			k.Violate("C18", "commit", "commit-finalised-another-block", "node %d: commit for %s finalised %s", n.id, cu.Short(m.Vote.Hash), cu.Short(after))
		}
		if !holds {
			class := "commit-without-supermajority-accepted"
			if 3*supporters == 2*len(n.curSet()) {
				class = "commit-with-exactly-two-thirds-accepted"
			}
			k.Violate("C18", "commit", class, "node %d finalised %s from a commit message of round %d with %d entries of which only %d of %d authorities validly precommitted to the target or a descendant (or validly equivocated)", n.id, cu.Short(m.Vote.Hash), m.Round, len(m.Precommits), supporters, len(n.curSet()))
		}
		return
	}
	if !holds {
		k.Probe("commit-short-of-supermajority-rejected")
		if 3*supporters == 2*len(n.curSet()) || 3*(supporters+1) > 2*len(n.curSet()) {
			k.Probe("commit-rejected-one-short")
		}
	}
	if holds && clean && targetOK && !roundDone && m.Vote.Hash != before && err != nil {
		k.Violate("C18", "commit", "valid-commit-rejected", "node %d rejected a commit for %s (round %d) in which %d of %d authorities validly precommitted to the target: %v", n.id, cu.Short(m.Vote.Hash), m.Round, supporters, s.n, err)
	}
	if holds && clean && targetOK && !roundDone && m.Vote.Hash != before && err == nil {
		k.Violate("C18", "commit", "valid-commit-not-finalised", "node %d accepted a valid commit for %s without finalising it", n.id, cu.Short(m.Vote.Hash))
	}
}

// changeSet: what the digest handler does when a scheduled change is applied - the authorities of the
// next set and the incremented set id go into every honest node's GRANDPA state; each voter picks the
// change up when it starts its next round. Honest voters stay, each Byzantine key is dropped or kept.
func (s *gsim) changeSet() {
	k := s.k
	ref := s.honest()[0]
	curID, err := ref.gs.GetCurrentSetID()
	if err != nil {
		panic(err)
	}
	cur := ref.sets[curID]
	var next []int
	changed := false
	for _, i := range cur {
		if s.byz[i] && k.Bool(1, 2, "drop-byzantine-authority") {
			changed = true
			continue
		}
		next = append(next, i)
	}
	if !changed || len(next) == 0 {
		return
	}
	var voters []types.GrandpaVoter
	for _, i := range next {
		voters = append(voters, types.GrandpaVoter{Key: *s.keys[i].Public().(*ed25519.PublicKey), ID: uint64(i)})
	}
	for _, n := range s.honest() {
		fh, _ := n.bs.GetHighestFinalisedHeader()
		if err := n.gs.SetNextChange(voters, fh.Number+1); err != nil {
			panic(err)
		}
		id, err := n.gs.IncrementSetID()
		if err != nil {
			panic(err)
		}
		n.sets[id] = next
	}
	k.Fault("authority-set-change")
	k.Event("set-change", "set %d -> %d: %d of %d authorities remain", curID, curID+1, len(next), len(cur))
}

// seamInsideUpdateAuthorities: while a voter switches to a new authority set (updateAuthorities reads
// the new authorities from its GRANDPA state, holding no lock), a commit or vote that is in flight to
// it may be handled right there, as its network goroutine would.
func (n *gnode) seamInsideUpdateAuthorities() {
	s := n.s
	if !s.setChanges || s.inSeam {
		return
	}
	var pcs [24]uintptr
	cnt := runtime.Callers(3, pcs[:])
	frames := runtime.CallersFrames(pcs[:cnt])
	stateFrame, inside := "", false
	for {
		f, more := frames.Next()
		if stateFrame == "" && strings.Contains(f.Function, "/dot/state.") {
			stateFrame = f.Function
			if !strings.HasSuffix(stateFrame, ").GetAuthorities") {
				return
			}
		} else if stateFrame != "" {
			inside = strings.HasSuffix(f.Function, "grandpa.(*Service).updateAuthorities")
			break
		}
		if !more {
			break
		}
	}
	if !inside {
		return
	}
	var mine, commits []int
	for i, w := range s.pending {
		if w.to == n.id {
			mine = append(mine, i)
			if strings.Contains(w.what, "commit") {
				commits = append(commits, i)
			}
		}
	}
	if len(commits) > 0 {
		mine = commits // a commit makes the voter look at its authority set
	}
	if len(mine) == 0 || !s.k.Bool(2, 3, "deliver-inside-update-authorities") {
		return
	}
	i := mine[s.k.Choose(len(mine), "seam-message")]
	w := s.pending[i]
	s.pending = append(s.pending[:i], s.pending[i+1:]...)
	s.inSeam = true
	_, err := n.svc.VerifHandleNetworkBytes(peerOf(w.from), w.raw)
	s.inSeam = false
	s.k.Fault("message-handled-inside-update-authorities")
	s.k.Event("deliver-inside-update-authorities", "n%d<-%d %s err=%v", n.id, w.from, w.what, err != nil)
}
