package grandpa

import (
	"fmt"
	"strings"

	fg "github.com/ChainSafe/gossamer/pkg/finality-grandpa"
	"github.com/ChainSafe/gossamer/verifsim/kernel"
)

// C22 over the generic implementation (pkg/finality-grandpa): weighted voter sets, ids listed
// several times, thresholds and vote weights come from VoterSet there. One scenario = one round
// of the voting protocol among observers that each hold their own real Round over a common block
// tree. Honest voters prevote once for a block of their choice and precommit once for the
// prevote-GHOST their own Round reports; the remaining voters (weight <= f) send any vote to any
// observer any number of times; the network delays, reorders, drops and duplicates. Whatever any
// two honest observers ever report as finalised must lie on one chain: two supermajorities of
// precommit weight share an honest voter, who precommitted once.

type gchain struct {
	parent []int
	number []uint32
	name   []string
	index  map[string]int
}

func (c *gchain) isDesc(a, x int) bool {
	for x >= 0 {
		if x == a {
			return true
		}
		x = c.parent[x]
	}
	return false
}

func (c *gchain) Ancestry(base, block string) ([]string, error) {
	bi, ok1 := c.index[base]
	xi, ok2 := c.index[block]
	if !ok1 || !ok2 || !c.isDesc(bi, xi) {
		return nil, fmt.Errorf("block not descendent of base")
	}
	var out []string
	if xi == bi {
		return out, nil
	}
	for x := c.parent[xi]; x != bi; x = c.parent[x] {
		out = append(out, c.name[x])
	}
	return out, nil
}

func (c *gchain) IsEqualOrDescendantOf(base, block string) bool {
	bi, ok1 := c.index[base]
	xi, ok2 := c.index[block]
	return ok1 && ok2 && c.isDesc(bi, xi)
}

func (c *gchain) bname(b int) string { return fmt.Sprintf("%s#%d", c.name[b], c.number[b]) }

type gmsg struct{ to, phase, voter, block int }

type gobserver struct {
	voter                  int
	round                  *fg.Round[string, string, uint32, string]
	prevoted, precommitted bool
	fin                    []int // every block this observer ever reported as finalised
}

func genericPerm(k *kernel.K, n int, label string) []int {
	p := make([]int, n)
	for i := range p {
		p[i] = i
	}
	for i := 0; i < n-1; i++ {
		j := i + k.Choose(n-i, label)
		p[i], p[j] = p[j], p[i]
	}
	return p
}

func runGenericRounds(k *kernel.K) {
	scen := 24
	for i := 0; i < scen; i++ {
		if genericScenario(k, i) {
			k.Nontriv = true
		}
	}
}

func genericScenario(k *kernel.K, serial int) bool {
	// --- voters, weights, listing
	nv := k.Range(3, 6, "g-voters")
	perm := genericPerm(k, 8, "g-id-perm")
	ids := make([]string, nv)
	w := make([]uint64, nv)
	var total uint64
	for i := range ids {
		ids[i] = fmt.Sprintf("v%c", 'a'+perm[i])
		w[i] = 1
		if k.Bool(1, 2, "g-weighted") {
			w[i] = uint64(1 + k.Choose(7, "g-weight"))
		}
		total += w[i]
	}
	type listing struct {
		v int
		w uint64
	}
	var list []listing
	twice := -1
	for i := range ids {
		if twice < 0 && w[i] >= 2 && k.Bool(1, 3, "g-listed-twice") {
			twice = i
			part := 1 + uint64(k.Choose(int(w[i]-1), "g-first-part"))
			list = append(list, listing{i, part}, listing{i, w[i] - part})
			k.Fault("voter-listed-twice")
			continue
		}
		list = append(list, listing{i, w[i]})
	}
	lp := genericPerm(k, len(list), "g-list-order")
	iw := make([]fg.IDWeight[string], len(list))
	for i, j := range lp {
		iw[i] = fg.IDWeight[string]{ID: ids[list[j].v], Weight: list[j].w}
	}
	f := (total - 1) / 3
	byz := make([]bool, nv)
	var bw uint64
	for _, v := range genericPerm(k, nv, "g-byz-order") {
		if bw+w[v] <= f && k.Bool(2, 3, "g-byzantine") {
			byz[v] = true
			bw += w[v]
		}
	}
	// --- block tree
	c := &gchain{index: map[string]int{}}
	nb := k.Range(2, 7, "g-blocks")
	bperm := genericPerm(k, 8, "g-hash-perm")
	for i := 0; i < nb; i++ {
		p := -1
		if i > 0 {
			p = i - 1
			if k.Bool(1, 2, "g-fork") {
				p = k.Choose(i, "g-parent")
			}
		}
		c.parent = append(c.parent, p)
		if p < 0 {
			c.number = append(c.number, 1)
		} else {
			c.number = append(c.number, c.number[p]+1)
		}
		name := fmt.Sprintf("%c", 'A'+bperm[i])
		c.name = append(c.name, name)
		c.index[name] = i
	}
	// half of the scenarios: a split attack. Two forks, every honest voter favours one of them, and
	// every Byzantine voter tells each observer what that observer would like to hear, in both phases
	split := nb >= 3 && k.Bool(1, 2, "g-split-attack")
	side := make([]int, nv)
	var tips [2]int
	if split {
		c.parent[1], c.number[1] = 0, c.number[0]+1
		c.parent[2], c.number[2] = 0, c.number[0]+1
		tips = [2]int{1, 2}
		for i := 3; i < nb; i++ { // the other blocks extend one of the two forks
			sd := k.Choose(2, "g-extends")
			c.parent[i], c.number[i] = tips[sd], c.number[tips[sd]]+1
			tips[sd] = i
		}
		for v := range side {
			side[v] = k.Choose(2, "g-side")
		}
	}
	// --- observers
	var obs []*gobserver
	for v := range ids {
		if byz[v] {
			continue
		}
		vs := fg.NewVoterSet(iw)
		if vs == nil {
			panic("nil voter set")
		}
		obs = append(obs, &gobserver{voter: v, round: fg.NewRound[string, string, uint32, string](fg.RoundParams[string, string, uint32]{
			RoundNumber: 1, Voters: *vs, Base: fg.HashNumber[string, uint32]{Hash: c.name[0], Number: c.number[0]},
		})})
	}
	var desc strings.Builder
	for i := range ids {
		fmt.Fprintf(&desc, " %s(%d%s)", ids[i], w[i], map[bool]string{true: ",byz", false: ""}[byz[i]])
	}
	desc.WriteString(" listed:")
	for _, x := range iw {
		fmt.Fprintf(&desc, " %s:%d", x.ID, x.Weight)
	}
	desc.WriteString(" tree:")
	for i := range c.parent {
		if i == 0 {
			fmt.Fprintf(&desc, " %s(base)", c.bname(i))
		} else {
			fmt.Fprintf(&desc, " %s<-%s", c.name[c.parent[i]], c.bname(i))
		}
	}
	k.Event("g-scenario", "#%d voters(weight):%s", serial, desc.String())

	var queue []gmsg
	var trace []string
	note := func(format string, a ...any) {
		line := fmt.Sprintf(format, a...)
		trace = append(trace, line)
		k.Event("g-step", "%s", line)
	}
	sigs := 0
	deliver := func(m gmsg) {
		o := obs[m.to]
		sigs++
		sig := fmt.Sprintf("sig/%d/%d/%d", m.phase, m.voter, m.block)
		var err error
		if m.phase == 0 {
			_, err = o.round.VerifImportPrevote(c, fg.Prevote[string, uint32]{TargetHash: c.name[m.block], TargetNumber: c.number[m.block]}, ids[m.voter], sig)
		} else {
			_, err = o.round.VerifImportPrecommit(c, fg.Precommit[string, uint32]{TargetHash: c.name[m.block], TargetNumber: c.number[m.block]}, ids[m.voter], sig)
		}
		if err != nil {
			k.Violate("C22", "generic-import", "generic/import-of-vote-on-known-block-failed", "scenario #%d: observer %s: import of %+v failed: %v", serial, ids[o.voter], m, err)
		}
		note("%s sees %s of %s for %s", ids[o.voter], []string{"prevote", "precommit"}[m.phase], ids[m.voter], c.bname(m.block))
		st := o.round.State()
		if st.Finalized == nil {
			return
		}
		fb, ok := c.index[st.Finalized.Hash]
		if !ok {
			k.Violate("C22", "generic-safety", "generic/finalised-block-unknown", "scenario #%d: observer %s reports finalised block %q which is not in the tree", serial, ids[o.voter], st.Finalized.Hash)
			return
		}
		if len(o.fin) > 0 && o.fin[len(o.fin)-1] == fb {
			return
		}
		o.fin = append(o.fin, fb)
		note("%s reports %s finalised", ids[o.voter], c.bname(fb))
		for _, p := range obs {
			for _, x := range p.fin {
				if !c.isDesc(x, fb) && !c.isDesc(fb, x) {
					k.Violate("C22", "generic-safety", "generic/finalised-on-different-forks",
						"scenario #%d: observer %s finalised %s while observer %s finalised %s, on different forks; Byzantine weight %d of %d (f=%d)\nvoters(weight):%s\n%s",
						serial, ids[o.voter], c.bname(fb), ids[p.voter], c.bname(x), bw, total, f, desc.String(), strings.Join(trace, "\n"))
					return
				}
			}
		}
	}
	broadcast := func(from *gobserver, phase, block int) {
		for i, o := range obs {
			m := gmsg{i, phase, from.voter, block}
			if o == from {
				deliver(m)
			} else {
				queue = append(queue, m)
			}
		}
	}
	var byzIdx []int
	for v := range ids {
		if byz[v] {
			byzIdx = append(byzIdx, v)
		}
	}
	byzBudget := 4 * len(byzIdx) * len(obs)
	faults := 0
	if split {
		for _, v := range byzIdx {
			for i, o := range obs {
				queue = append(queue, gmsg{i, 0, v, tips[side[o.voter]]}, gmsg{i, 1, v, tips[side[o.voter]]})
				k.Fault("byzantine-split-vote")
				faults++
			}
		}
	}
	for step := 0; step < 160; step++ {
		var can []int // 0 deliver, 1 honest prevote, 2 honest precommit, 3 byzantine vote
		if len(queue) > 0 {
			can = append(can, 0)
		}
		var pv, pc []*gobserver
		for _, o := range obs {
			if !o.prevoted {
				pv = append(pv, o)
			} else if !o.precommitted && o.round.State().PrevoteGHOST != nil {
				pc = append(pc, o)
			}
		}
		if len(pv) > 0 {
			can = append(can, 1)
		}
		if len(pc) > 0 {
			can = append(can, 2)
		}
		if len(byzIdx) > 0 && byzBudget > 0 {
			can = append(can, 3)
		}
		if len(can) == 0 {
			break
		}
		switch can[k.Choose(len(can), "g-action")] {
		case 0:
			i := k.Choose(len(queue), "g-deliver")
			if i != 0 {
				k.Fault("reorder")
			}
			m := queue[i]
			switch k.Choose(10, "g-fate") {
			case 8:
				k.Fault("drop")
				faults++
				queue = append(queue[:i], queue[i+1:]...)
				continue
			case 9:
				k.Fault("duplicate")
				faults++
			default:
				queue = append(queue[:i], queue[i+1:]...)
			}
			deliver(m)
		case 1:
			o := pv[k.Choose(len(pv), "g-who-prevotes")]
			o.prevoted = true
			b := k.Choose(nb, "g-prevote-block")
			if split {
				b = tips[side[o.voter]]
			}
			note("%s prevotes %s", ids[o.voter], c.bname(b))
			broadcast(o, 0, b)
		case 2:
			o := pc[k.Choose(len(pc), "g-who-precommits")]
			o.precommitted = true
			g := o.round.State().PrevoteGHOST
			b := c.index[g.Hash]
			note("%s precommits its prevote-GHOST %s", ids[o.voter], c.bname(b))
			broadcast(o, 1, b)
		case 3:
			byzBudget--
			v := byzIdx[k.Choose(len(byzIdx), "g-byz-voter")]
			m := gmsg{k.Choose(len(obs), "g-byz-to"), k.Choose(2, "g-byz-phase"), v, k.Choose(nb, "g-byz-block")}
			k.Fault("byzantine-vote")
			faults++
			queue = append(queue, m)
		}
	}
	finalised := 0
	for _, o := range obs {
		if len(o.fin) > 0 && o.fin[len(o.fin)-1] != 0 {
			finalised++
		}
	}
	if finalised > 0 {
		k.Probe("generic-round-finalised-above-base")
	}
	if finalised > 0 && twice >= 0 {
		k.Probe("generic-round-finalised-with-a-voter-listed-twice")
	}
	k.Mix(fmt.Sprintf("g%d/%d/%d", nv, finalised, faults))
	return finalised > 0 && faults > 0
}
