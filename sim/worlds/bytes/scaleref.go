package bytes

import (
	"math/big"
	"reflect"
	"sort"
	"strconv"
	"strings"

	"github.com/ChainSafe/gossamer/pkg/scale"
)

// Reference SCALE walker. It parses a byte string against a Go type following
// the SCALE specification and the documented Go<->SCALE mapping of pkg/scale
// (fixed-width ints little endian; int/uint and *big.Int compact; *Uint128 16
// bytes; bool one byte 0/1; []byte/string length-prefixed; pointer = Option
// with tag 0/1; VaryingDataType = one index byte + variant; Result tag 0/1;
// array = elements; slice/map = compact length + elements; struct = fields,
// ordered by `scale:"N"` tags first, `scale:"-"` and unexported fields skipped).
//
// It is used for two things only: (1) locating the compact integers of a VALID
// encoding so that they can be replaced by crafted ones, and (2) naming the
// class of an oracle failure (which leaf the input ended in, which compact was
// not canonical). The pass/fail decision of C12 never depends on it: that is
// the re-encode rule of the statement (scale.go).

type seg struct {
	off, n int
	kind   string // fixed-width-int | bool | compact-uint | compact-bigint | byte-string | uint128 | option-tag | enum-tag | result-tag
	val    uint64
	wide   bool
	isLen  bool
}

type walker struct {
	in      []byte
	pos     int
	segs    []seg
	verdict string // "" = well-formed so far; short-partial | short-eof | noncanonical | bad-tag | out-of-range | unsupported
	vkind   string
	vat     int
	steps   int
	// giant: a byte-string leaf declares >= giantDecl bytes. Such inputs are not
	// executed (see giantDecl in mutate.go).
	giant bool
	// declaredShort: a byte-string leaf declares more bytes than the input has left
	declaredShort bool
}

var (
	tBigInt      = reflect.TypeOf((*big.Int)(nil))
	tUint128     = reflect.TypeOf((*scale.Uint128)(nil))
	tResult      = reflect.TypeOf(scale.Result{})
	tVDT         = reflect.TypeOf((*scale.VaryingDataType)(nil)).Elem()
	tUnmarshaler = reflect.TypeOf((*scale.Unmarshaler)(nil)).Elem()
)

func walk(in []byte, t reflect.Type, tmpl reflect.Value) *walker {
	w := &walker{in: in}
	w.value(t, tmpl)
	return w
}

func (w *walker) fail(verdict, kind string) bool {
	if w.verdict == "" {
		w.verdict, w.vkind, w.vat = verdict, kind, w.pos
	}
	return false
}

// note records a defect of the encoding that does not prevent parsing on (a
// non-canonical or out-of-range compact still has a length and a value).
func (w *walker) note(verdict, kind string) {
	if w.verdict == "" {
		w.verdict, w.vkind, w.vat = verdict, kind, w.pos
	}
}

// take consumes n bytes of a leaf of the given kind.
func (w *walker) take(n int, kind string) ([]byte, bool) {
	rem := len(w.in) - w.pos
	if rem < n {
		if rem == 0 {
			return nil, w.fail("short-eof", kind)
		}
		return nil, w.fail("short-partial", kind)
	}
	b := w.in[w.pos : w.pos+n]
	return b, true
}

func (w *walker) fixed(n int, kind string) bool {
	_, ok := w.take(n, kind)
	if !ok {
		return false
	}
	w.segs = append(w.segs, seg{off: w.pos, n: n, kind: kind})
	w.pos += n
	return true
}

// compact parses one compact integer. maxBytes bounds the big-integer mode (8 for
// machine integers, 67 for *big.Int).
func (w *walker) compact(kind string, maxBytes int, isLen bool) (uint64, bool) {
	b, ok := w.take(1, kind)
	if !ok {
		return 0, false
	}
	start := w.pos
	var v uint64
	n := 1
	wide := false
	switch b[0] & 3 {
	case 0:
		v = uint64(b[0] >> 2)
	case 1:
		bb, ok := w.take(2, kind)
		if !ok {
			return 0, false
		}
		n = 2
		v = uint64(uint16(bb[0])|uint16(bb[1])<<8) >> 2
		if v < 1<<6 {
			w.note("noncanonical", kind)
		}
	case 2:
		bb, ok := w.take(4, kind)
		if !ok {
			return 0, false
		}
		n = 4
		v = uint64(uint32(bb[0])|uint32(bb[1])<<8|uint32(bb[2])<<16|uint32(bb[3])<<24) >> 2
		if v < 1<<14 {
			w.note("noncanonical", kind)
		}
	case 3:
		l := int(b[0]>>2) + 4
		bb, ok := w.take(1+l, kind)
		if !ok {
			return 0, false
		}
		n = 1 + l
		if bb[l] == 0 {
			w.note("noncanonical", kind)
		}
		if l > maxBytes {
			w.note("out-of-range", kind)
		}
		for i := 0; i < l && i < 8; i++ {
			v |= uint64(bb[1+i]) << (8 * i)
		}
		if l > 8 {
			wide = true
		}
		if l == 4 && v < 1<<30 {
			w.note("noncanonical", kind)
		}
	}
	w.segs = append(w.segs, seg{off: start, n: n, kind: kind, val: v, wide: wide, isLen: isLen})
	w.pos += n
	return v, true
}

func (w *walker) bytesLeaf(isString bool) bool {
	l, ok := w.compact("compact-uint", 8, true)
	if !ok {
		return false
	}
	if l >= giantDecl {
		w.giant = true
	}
	if l == 0 {
		return true
	}
	rem := uint64(len(w.in) - w.pos)
	if rem < l {
		w.declaredShort = true
		if rem == 0 {
			return w.fail("short-eof", "byte-string")
		}
		return w.fail("short-partial", "byte-string")
	}
	w.segs = append(w.segs, seg{off: w.pos, n: int(l), kind: "byte-string"})
	w.pos += int(l)
	return true
}

type fieldIx struct {
	field int
	tag   *int
}

func structOrder(t reflect.Type) ([]fieldIx, bool) {
	var fs []fieldIx
	for i := 0; i < t.NumField(); i++ {
		f := t.Field(i)
		tag := strings.TrimSpace(f.Tag.Get("scale"))
		switch tag {
		case "":
			fs = append(fs, fieldIx{field: i})
		case "-":
		default:
			n, err := strconv.Atoi(tag)
			if err != nil {
				return nil, false
			}
			fs = append(fs, fieldIx{field: i, tag: &n})
		}
	}
	sort.SliceStable(fs, func(i, j int) bool {
		a, b := fs[i], fs[j]
		switch {
		case a.tag != nil && b.tag != nil:
			return *a.tag < *b.tag
		case a.tag != nil:
			return true
		case b.tag != nil:
			return false
		}
		return a.field < b.field
	})
	return fs, true
}

func (w *walker) value(t reflect.Type, tmpl reflect.Value) bool {
	w.steps++
	if w.steps > 200000 {
		return w.fail("unsupported", "too-many-steps")
	}
	if reflect.PointerTo(t).Implements(tUnmarshaler) {
		if t.Name() == "H256" && t.Kind() == reflect.String { // internal/primitives/core/hash.H256: 32 bytes on the wire
			for i := 0; i < 32; i++ {
				if _, ok := w.take(1, "fixed-width-int"); !ok {
					return false
				}
				w.pos++
			}
			return true
		}
		return w.fail("unsupported", "custom-unmarshaler")
	}
	if t.Kind() != reflect.Interface && reflect.PointerTo(t).Implements(tVDT) {
		b, ok := w.take(1, "enum-tag")
		if !ok {
			return false
		}
		vdt := reflect.New(t).Interface().(scale.VaryingDataType)
		val, err := vdt.ValueAt(uint(b[0]))
		if err != nil || val == nil {
			return w.fail("bad-tag", "enum-tag")
		}
		w.segs = append(w.segs, seg{off: w.pos, n: 1, kind: "enum-tag"})
		w.pos++
		return w.value(reflect.TypeOf(val), reflect.Value{})
	}
	switch t {
	case tBigInt:
		_, ok := w.compact("compact-bigint", 67, false)
		return ok
	case tUint128:
		return w.fixed(16, "uint128")
	case tResult:
		if !tmpl.IsValid() {
			return w.fail("unsupported", "result-without-template")
		}
		b, ok := w.take(1, "result-tag")
		if !ok {
			return false
		}
		if b[0] > 1 {
			return w.fail("bad-tag", "result-tag")
		}
		w.segs = append(w.segs, seg{off: w.pos, n: 1, kind: "result-tag"})
		w.pos++
		f := tmpl.FieldByName("ok")
		if b[0] == 1 {
			f = tmpl.FieldByName("err")
		}
		if f.IsNil() {
			return w.fail("unsupported", "result-unset-template")
		}
		inner := f.Elem()
		if inner.Type().Kind() == reflect.Struct && inner.Type().NumField() == 0 && inner.Type().PkgPath() == tResult.PkgPath() {
			return true // scale.empty: nothing on the wire
		}
		return w.value(inner.Type(), inner)
	}
	switch t.Kind() {
	case reflect.Bool:
		b, ok := w.take(1, "bool")
		if !ok {
			return false
		}
		if b[0] > 1 {
			return w.fail("bad-tag", "bool")
		}
		w.segs = append(w.segs, seg{off: w.pos, n: 1, kind: "bool"})
		w.pos++
		return true
	case reflect.Int, reflect.Uint:
		_, ok := w.compact("compact-uint", 8, false)
		return ok
	case reflect.Int8, reflect.Uint8:
		return w.fixed(1, "fixed-width-int")
	case reflect.Int16, reflect.Uint16:
		return w.fixed(2, "fixed-width-int")
	case reflect.Int32, reflect.Uint32:
		return w.fixed(4, "fixed-width-int")
	case reflect.Int64, reflect.Uint64:
		return w.fixed(8, "fixed-width-int")
	case reflect.String:
		return w.bytesLeaf(true)
	case reflect.Ptr:
		b, ok := w.take(1, "option-tag")
		if !ok {
			return false
		}
		if b[0] > 1 {
			return w.fail("bad-tag", "option-tag")
		}
		w.segs = append(w.segs, seg{off: w.pos, n: 1, kind: "option-tag"})
		w.pos++
		if b[0] == 0 {
			return true
		}
		var et reflect.Value
		if tmpl.IsValid() && !tmpl.IsNil() {
			et = tmpl.Elem()
		}
		return w.value(t.Elem(), et)
	case reflect.Struct:
		fs, ok := structOrder(t)
		if !ok {
			return w.fail("unsupported", "struct-tag")
		}
		for _, f := range fs {
			sf := t.Field(f.field)
			if sf.PkgPath != "" { // unexported: not on the wire
				continue
			}
			var ft reflect.Value
			if tmpl.IsValid() {
				ft = tmpl.Field(f.field)
			}
			if !w.value(sf.Type, ft) {
				return false
			}
		}
		return true
	case reflect.Array:
		if t.Elem().Kind() == reflect.Uint8 && !reflect.PointerTo(t.Elem()).Implements(tVDT) {
			// byte arrays: one leaf per byte on the wire; treated as one run of 1-byte leaves
			for i := 0; i < t.Len(); i++ {
				if _, ok := w.take(1, "fixed-width-int"); !ok {
					return false
				}
				w.pos++
			}
			return true
		}
		for i := 0; i < t.Len(); i++ {
			if !w.value(t.Elem(), reflect.Value{}) {
				return false
			}
		}
		return true
	case reflect.Slice:
		if t.Elem().Kind() == reflect.Uint8 {
			return w.bytesLeaf(false)
		}
		l, ok := w.compact("compact-uint", 8, true)
		if !ok {
			return false
		}
		for i := uint64(0); i < l; i++ {
			if !w.value(t.Elem(), reflect.Value{}) {
				return false
			}
		}
		return true
	case reflect.Map:
		l, ok := w.compact("compact-uint", 8, true)
		if !ok {
			return false
		}
		for i := uint64(0); i < l; i++ {
			if !w.value(t.Key(), reflect.Value{}) || !w.value(t.Elem(), reflect.Value{}) {
				return false
			}
		}
		return true
	}
	return w.fail("unsupported", t.Kind().String())
}

// compactsOf returns the compact integers of a valid encoding (nil if the
// walker does not accept it completely - then no crafting is done).
func compactsOf(enc []byte, t reflect.Type, tmpl reflect.Value) []compactPos {
	if t == nil {
		return nil
	}
	w := walk(enc, t, tmpl)
	if w.verdict != "" || w.pos != len(enc) {
		return nil
	}
	var out []compactPos
	for _, s := range w.segs {
		if s.kind == "compact-uint" || s.kind == "compact-bigint" {
			out = append(out, compactPos{off: s.off, n: s.n, val: s.val, wide: s.wide, isLen: s.isLen})
		}
	}
	return out
}
