package bytes

import (
	"fmt"
	"math/big"
	"reflect"

	"github.com/ChainSafe/gossamer/pkg/scale"
	"github.com/ChainSafe/gossamer/verifsim/kernel"
)

// ---- catalogue types: one per shape pkg/scale supports -----------------------

type (
	catU32  uint32
	catStr  string
	catUint uint
	catBool bool
	catI16  int16
)

type catInner struct {
	X uint16
	Y []byte
	Z *uint8
}

type catNested struct {
	A uint32   `scale:"3"`
	B []byte   `scale:"1"`
	C *big.Int `scale:"2"`
	D catInner `scale:"4"`
	E *uint16
	F bool
	G string `scale:"-"`
	h int    //nolint:unused
	I uint
	J [3]uint16
	K []catInner
}

type catBytesV struct{ Data []byte }
type catPairV struct {
	A uint16
	B *big.Int
}
type catUnitV struct{}

// catOptV: a variant with an optional field and a nested list of optionals (what is left in a
// destination from an earlier value of the same variant must not survive into the next one)
type catOptV struct {
	N uint8
	O *uint16
	L []*uint8
}

// catEnum is a VaryingDataType written the way dot/types writes them
// (pointer receiver for SetValue, value receivers for the rest).
type catEnum struct{ inner any }

func (e *catEnum) SetValue(v any) error {
	switch v.(type) {
	case catU32, catBytesV, catPairV, catUnitV, catOptV:
		e.inner = v
		return nil
	}
	return fmt.Errorf("unsupported type")
}
func (e catEnum) IndexValue() (uint, any, error) {
	switch e.inner.(type) {
	case catU32:
		return 0, e.inner, nil
	case catBytesV:
		return 1, e.inner, nil
	case catPairV:
		return 3, e.inner, nil
	case catOptV:
		return 4, e.inner, nil
	case catUnitV:
		return 7, e.inner, nil
	}
	return 0, nil, scale.ErrUnsupportedVaryingDataTypeValue
}
func (e catEnum) Value() (any, error) { _, v, err := e.IndexValue(); return v, err }
func (e catEnum) ValueAt(i uint) (any, error) {
	switch i {
	case 0:
		return catU32(0), nil
	case 1:
		return catBytesV{}, nil
	case 3:
		return catPairV{}, nil
	case 4:
		return catOptV{}, nil
	case 7:
		return catUnitV{}, nil
	}
	return nil, scale.ErrUnknownVaryingDataTypeValue
}

type catWithEnum struct {
	N    uint8
	E    catEnum
	Tail []catEnum
}

// ---- value generators -------------------------------------------------------------

func bigOf(k *kernel.K, label string) *big.Int {
	switch k.Choose(4, label+"-kind") {
	case 0, 1:
		return new(big.Int).SetUint64(u64(k, label))
	case 2: // just above 64 bits .. 64 bytes
		n := []int{9, 16, 17, 32, 64}[k.Choose(5, label+"-bytes")]
		b := fill(k, n, label)
		if b[0] == 0 {
			b[0] = 1
		}
		return new(big.Int).SetBytes(b)
	}
	// 2^(8n) and 2^(8n)-1
	n := uint(8 * (1 + k.Choose(20, label+"-pow")))
	v := new(big.Int).Lsh(big.NewInt(1), n)
	if k.Bool(1, 2, label+"-minus1") {
		v.Sub(v, big.NewInt(1))
	}
	return v
}

func optU16(k *kernel.K, label string) *uint16 {
	if k.Bool(1, 2, label+"-some") {
		v := uint16(u64(k, label))
		return &v
	}
	return nil
}

func optU8(k *kernel.K, label string) *uint8 {
	if k.Bool(1, 2, label+"-some") {
		v := uint8(k.Choose(256, label))
		return &v
	}
	return nil
}

func innerOf(k *kernel.K, label string) catInner {
	return catInner{X: uint16(u64(k, label+"X")), Y: fill(k, blen(k, label+"Y", false), label+"Yb"), Z: optU8(k, label+"Z")}
}

func enumOf(k *kernel.K, label string) catEnum {
	var e catEnum
	switch k.Choose(6, label) {
	case 4, 5:
		v := catOptV{N: uint8(u64(k, label+"n")), O: optU16(k, label+"o")}
		for i := k.Choose(3, label+"ln"); i > 0; i-- {
			v.L = append(v.L, optU8(k, label+"li"))
		}
		if v.L == nil {
			v.L = []*uint8{}
		}
		e.inner = v
	case 0:
		e.inner = catU32(u64(k, label+"u"))
	case 1:
		e.inner = catBytesV{Data: fill(k, blen(k, label+"l", false), label+"b")}
	case 2:
		e.inner = catPairV{A: uint16(u64(k, label+"a")), B: bigOf(k, label+"B")}
	case 3:
		e.inner = catUnitV{}
	}
	return e
}

func nestedOf(k *kernel.K, label string) catNested {
	n := catNested{
		A: uint32(u64(k, label+"A")), B: fill(k, blen(k, label+"B", false), label+"Bb"), C: bigOf(k, label+"C"),
		D: innerOf(k, label+"D"), E: optU16(k, label+"E"), F: k.Bool(1, 2, label+"F"), G: "never-on-the-wire",
		I: uint(u64(k, label+"I")),
	}
	for i := range n.J {
		n.J[i] = uint16(u64(k, label+"J"))
	}
	cnt := k.Choose(4, label+"K")
	n.K = make([]catInner, 0, cnt)
	for i := 0; i < cnt; i++ {
		n.K = append(n.K, innerOf(k, label+"Ki"))
	}
	return n
}

// art builds an artifact from two values of the same type and a destination factory.
func art(name string, v, v2 any, newDst func() any) *scaleArtifact {
	d := newDst()
	dec, enc := generic(newDst)
	return &scaleArtifact{name: name, enc: mustMarshal(v), other: mustMarshal(v2), decF: dec, encF: enc,
		typ: reflect.TypeOf(d).Elem(), tmpl: reflect.ValueOf(d).Elem()}
}

// two calls gen twice (two values from the tape).
func two[T any](gen func(string) T) (T, T) { return gen("v"), gen("w") }

const nCatalogue = 34

func pickCatalogueArtifact(k *kernel.K) *scaleArtifact {
	i := k.Choose(nCatalogue, "cat")
	switch i {
	case 0:
		a, b := two(func(l string) uint8 { return uint8(u64(k, l)) })
		return art("uint8", a, b, func() any { return new(uint8) })
	case 1:
		a, b := two(func(l string) uint16 { return uint16(u64(k, l)) })
		return art("uint16", a, b, func() any { return new(uint16) })
	case 2:
		a, b := two(func(l string) uint32 { return uint32(u64(k, l)) })
		return art("uint32", a, b, func() any { return new(uint32) })
	case 3:
		a, b := two(func(l string) uint64 { return u64(k, l) })
		return art("uint64", a, b, func() any { return new(uint64) })
	case 4:
		a, b := two(func(l string) int8 { return int8(u64(k, l)) })
		return art("int8", a, b, func() any { return new(int8) })
	case 5:
		a, b := two(func(l string) int16 { return int16(u64(k, l)) })
		return art("int16", a, b, func() any { return new(int16) })
	case 6:
		a, b := two(func(l string) int32 { return int32(u64(k, l)) })
		return art("int32", a, b, func() any { return new(int32) })
	case 7:
		a, b := two(func(l string) int64 { return int64(u64(k, l)) })
		return art("int64", a, b, func() any { return new(int64) })
	case 8:
		a, b := two(func(l string) uint { return uint(u64(k, l)) })
		return art("uint(compact)", a, b, func() any { return new(uint) })
	case 9:
		a, b := two(func(l string) int { return int(u64(k, l)) })
		return art("int(compact)", a, b, func() any { return new(int) })
	case 10:
		a, b := two(func(l string) *big.Int { return bigOf(k, l) })
		return art("*big.Int(compact)", a, b, func() any { return new(*big.Int) })
	case 11:
		gen := func(l string) *scale.Uint128 { return &scale.Uint128{Upper: u64(k, l+"hi"), Lower: u64(k, l+"lo")} }
		a, b := two(gen)
		return art("*scale.Uint128", a, b, func() any { return new(*scale.Uint128) })
	case 12:
		a, b := two(func(l string) bool { return k.Bool(1, 2, l) })
		return art("bool", a, b, func() any { return new(bool) })
	case 13:
		a, b := two(func(l string) []byte { return fill(k, blen(k, l, true), l+"b") })
		return art("[]byte", a, b, func() any { return new([]byte) })
	case 14:
		a, b := two(func(l string) string { return string(fill(k, blen(k, l, true), l+"b")) })
		return art("string", a, b, func() any { return new(string) })
	case 15:
		gen := func(l string) *uint32 {
			if k.Bool(1, 3, l+"none") {
				return nil
			}
			v := uint32(u64(k, l))
			return &v
		}
		a, b := two(gen)
		return art("Option<uint32>", a, b, func() any { return new(*uint32) })
	case 16:
		gen := func(l string) *[]byte {
			if k.Bool(1, 3, l+"none") {
				return nil
			}
			v := fill(k, blen(k, l, false), l+"b")
			return &v
		}
		a, b := two(gen)
		return art("Option<[]byte>", a, b, func() any { return new(*[]byte) })
	case 17:
		gen := func(l string) *catInner {
			if k.Bool(1, 3, l+"none") {
				return nil
			}
			v := innerOf(k, l)
			return &v
		}
		a, b := two(gen)
		return art("Option<struct>", a, b, func() any { return new(*catInner) })
	case 18:
		gen := func(l string) scale.Result {
			r := scale.NewResult(uint32(0), []byte{})
			var err error
			if k.Bool(1, 2, l+"err") {
				err = r.Set(scale.Err, fill(k, blen(k, l, false), l+"b"))
			} else {
				err = r.Set(scale.OK, uint32(u64(k, l)))
			}
			if err != nil {
				panic(err)
			}
			return r
		}
		a, b := two(gen)
		return art("Result<uint32,[]byte>", a, b, func() any { r := scale.NewResult(uint32(0), []byte{}); return &r })
	case 19:
		gen := func(l string) scale.Result {
			r := scale.NewResult(nil, catInner{})
			var err error
			if k.Bool(1, 2, l+"err") {
				err = r.Set(scale.Err, innerOf(k, l))
			} else {
				err = r.Set(scale.OK, nil)
			}
			if err != nil {
				panic(err)
			}
			return r
		}
		a, b := two(gen)
		return art("Result<(),struct>", a, b, func() any { r := scale.NewResult(nil, catInner{}); return &r })
	case 20:
		a, b := two(func(l string) catEnum { return enumOf(k, l) })
		return art("enum(VaryingDataType)", a, b, func() any { return new(catEnum) })
	case 21:
		gen := func(l string) catWithEnum {
			w := catWithEnum{N: uint8(k.Choose(256, l+"N")), E: enumOf(k, l+"E")}
			n := k.Choose(4, l+"T")
			w.Tail = make([]catEnum, 0, n)
			for i := 0; i < n; i++ {
				w.Tail = append(w.Tail, enumOf(k, l+"Ti"))
			}
			return w
		}
		a, b := two(gen)
		return art("struct-with-enums", a, b, func() any { return new(catWithEnum) })
	case 22:
		gen := func(l string) (a [4]uint16) {
			for i := range a {
				a[i] = uint16(u64(k, l))
			}
			return
		}
		a, b := two(gen)
		return art("[4]uint16", a, b, func() any { return new([4]uint16) })
	case 23:
		a, b := two(func(l string) [32]byte { return arr32(k, l) })
		return art("[32]byte", a, b, func() any { return new([32]byte) })
	case 24:
		gen := func(l string) (a [2][]byte) {
			for i := range a {
				a[i] = fill(k, blen(k, l, false), l+"b")
			}
			return
		}
		a, b := two(gen)
		return art("[2][]byte", a, b, func() any { return new([2][]byte) })
	case 25:
		gen := func(l string) []uint32 {
			n := []int{0, 1, 3, 63, 64, 65}[k.Choose(6, l+"n")]
			s := make([]uint32, n)
			for i := range s {
				if i < 6 {
					s[i] = uint32(u64(k, l))
				} else {
					s[i] = uint32(i) * 0x01010101
				}
			}
			return s
		}
		a, b := two(gen)
		return art("[]uint32", a, b, func() any { return new([]uint32) })
	case 26:
		gen := func(l string) [][]byte {
			n := k.Choose(5, l+"n")
			s := make([][]byte, n)
			for i := range s {
				s[i] = fill(k, blen(k, l, false), l+"b")
			}
			return s
		}
		a, b := two(gen)
		return art("[][]byte", a, b, func() any { return new([][]byte) })
	case 27:
		gen := func(l string) []catInner {
			n := k.Choose(5, l+"n")
			s := make([]catInner, n)
			for i := range s {
				s[i] = innerOf(k, l)
			}
			return s
		}
		a, b := two(gen)
		return art("[]struct", a, b, func() any { return new([]catInner) })
	case 28:
		gen := func(l string) []*uint16 {
			n := k.Choose(6, l+"n")
			s := make([]*uint16, n)
			for i := range s {
				s[i] = optU16(k, l)
			}
			return s
		}
		a, b := two(gen)
		return art("[]Option<uint16>", a, b, func() any { return new([]*uint16) })
	case 29:
		gen := func(l string) map[uint8]uint16 {
			n := k.Choose(6, l+"n")
			m := make(map[uint8]uint16, n)
			for i := 0; i < n; i++ {
				m[uint8(k.Choose(256, l+"k"))] = uint16(u64(k, l+"v"))
			}
			return m
		}
		a, b := two(gen)
		x := art("map[uint8]uint16", a, b, func() any { m := map[uint8]uint16{}; return &m })
		x.fixedMap = 3
		return x
	case 30:
		a, b := two(func(l string) catNested { return nestedOf(k, l) })
		return art("nested-struct-with-order-tags", a, b, func() any { return new(catNested) })
	case 31:
		gen := func(l string) any {
			switch k.Choose(5, l+"which") {
			case 0:
				return catU32(u64(k, l))
			case 1:
				return catStr(fill(k, blen(k, l, false), l+"b"))
			case 2:
				return catUint(u64(k, l))
			case 3:
				return catBool(k.Bool(1, 2, l))
			}
			return catI16(u64(k, l))
		}
		a := gen("v")
		b := reflect.Zero(reflect.TypeOf(a)).Interface()
		t := reflect.TypeOf(a)
		return art("custom-primitive:"+t.Name(), a, b, func() any { return reflect.New(t).Interface() })
	case 32:
		gen := func(l string) []catEnum {
			n := k.Choose(5, l+"n")
			s := make([]catEnum, n)
			for i := range s {
				s[i] = enumOf(k, l)
			}
			return s
		}
		a, b := two(gen)
		return art("[]enum", a, b, func() any { return new([]catEnum) })
	}
	gen := func(l string) []*big.Int {
		n := k.Choose(4, l+"n")
		s := make([]*big.Int, n)
		for i := range s {
			s[i] = bigOf(k, l)
		}
		return s
	}
	a, b := two(gen)
	return art("[]*big.Int", a, b, func() any { return new([]*big.Int) })
}
