package bytes

import (
	"testing"
	"time"

	"github.com/ChainSafe/gossamer/verifsim/kernel"
)

type world struct{}

func (world) Name() string          { return "bytes" }
func (world) Props() []string       { return []string{"C07", "C12", "C33"} }
func (world) Bubble(string) bool    { return false }
func (world) Level(string) string   { return "exploration" }
func (world) Run(k *kernel.K) {
	switch k.Prop {
	case "C12":
		runScale(k)
	case "C33":
		runNet(k)
	case "C07":
		runTrie(k)
	}
}
func (world) Rule(p string) string { return "" }
func (world) Components(p string) ([]string, []string) { return nil, nil }
func (world) Budget(p, tier string) (int, time.Duration) {
	if tier == "thorough" {
		return 400000, 8 * time.Minute
	}
	return 40000, 40 * time.Second
}

func TestVerif(t *testing.T) { kernel.Main(t, world{}) }
