package bytes

import (
	"testing"
	"time"

	"github.com/ChainSafe/gossamer/verifsim/kernel"
)

type world struct{}

func (world) Name() string        { return "bytes" }
func (world) Props() []string     { return []string{"C07", "C12", "C33"} }
func (world) Bubble(string) bool  { return false }
func (world) Level(string) string { return "exploration" }

func (world) Run(k *kernel.K) {
	switch k.Prop {
	case "C12":
		runScale(k)
	case "C33":
		runNet(k)
	case "C07":
		runTrie(k)
	}
}

const mutationRule = "Mutants of one valid encoding: truncation at EVERY byte offset; up to 64 tape-chosen bit-flip mutants (1-3 bits each); " +
	"every compact integer found by a reference walker (up to 12 tape-chosen positions) replaced by each wider non-canonical mode of the same value " +
	"(2-byte mode for <64, 4-byte mode for <2^14, big-integer mode for <2^30, big-integer mode with leading zero bytes), by other values at the mode " +
	"boundaries (0,1,63,64,16383,16384,v+-1), by a declared 1 MiB-3, 2^62 and 2^64-1, each also with only two bytes following; splices of two valid " +
	"messages; trailing garbage; short random strings. Inputs in which a byte string declares >= 1 MiB are not executed (first-touch cost of this " +
	"machine; probe not-executed-giant-declaration). "

func (world) Rule(p string) string {
	switch p {
	case "C12":
		return "one run = one tape-chosen artifact: a value of one of 34 catalogue types (every shape pkg/scale supports: fixed ints, compact uint/int, *big.Int, Uint128, bool, " +
			"[]byte, string, Option, Result, VaryingDataType, arrays, slices, map, nested struct with scale order tags, custom primitives; values concentrated at the " +
			"compact-mode boundaries) or one of 22 real gossamer artifacts (Header with digests, Body, BlockData, Digest, GRANDPA wire messages through decodeMessage, " +
			"Justification, Commit/Vote/CatchUp messages, authority lists, voters through Encode/DecodeGrandpaVoters, BABE pre-digest through DecodeBabePreDigest, consensus " +
			"digests, epoch/config data, equivocation proof, block announce), encoded by the REAL encoder. " + mutationRule +
			"Oracle per input: Unmarshal fails, or Marshal(value) equals the first len(Marshal(value)) bytes of the input (so a zero-filled truncated input or a non-canonical " +
			"compact fails); no panic; allocation delta (runtime/metrics, confirmed by ReadMemStats on a repeated decode) <= 64*len+128KiB. A run is non-trivial if at least one " +
			"mutant was decoded; distinct = artifact type x per-mutation-kind accept/reject counts."
	case "C33":
		return "one run = one tape-chosen protocol out of 14 (block announce + handshake, transactions + handshake, block request/response, GRANDPA message + handshake, light " +
			"request/response, warp-sync request + proof, state request/response); a valid message is built with the real constructors from tape contents and encoded by the " +
			"real encoder, then corrupted. " + mutationRule + "Protobuf-framed protocols additionally: every length varint (two nesting levels) replaced by 0, len+-1, 0x7f, " +
			"2^20, 2^32-1, 2^63-1, 2^64-1, an over-long and a non-minimal varint; and well-formed protobufs whose inner SCALE blobs (header, body extrinsics, justification " +
			"flags, from-block fields) are corrupted with the same schedule. The REAL decoder of the protocol runs on every mutant. Oracle: message or error (never neither); " +
			"no panic; allocation delta <= 256*len+128KiB; if it decodes, encode(decode(x)) must decode again and re-encode to the same bytes. No wall-time bound is asserted; " +
			"a decode that does not return within 90 s kills the worker (TROUBLE with the input). Non-trivial = at least one mutant executed. Scale phase (one run in four, protocols with a repeated part): a large valid message of 1.5k-25k tiny elements and four damaged copies of it under the linear bound with constant 4096, plus a growth test - the same message with twice the elements may cost at most three times the allocation (runtime.MemStats.TotalAlloc)."
	case "C07":
		return "one run = one node encoding: harvested from a real in-memory trie built from tape keys/values (V0 or V1 layout; node.Encode of every node, proof nodes from " +
			"proof.Generate over the database written by WriteDirty - a proof entry that is byte-equal to a V1 value longer than 32 bytes of that trie is the raw hashed value " +
			"proofs ship beside the node that holds its hash: not a node encoding, robustness only, no round trip), or a hand-constructed node (leaf/branch, with/without value, inline or hashed value, partial key lengths " +
			"0,1,14-16,30-32,61-65,269-271,285-287,317-319,572-574 and 65535 in the thorough tier, 0-16 children inline or hashed), or an encoding made by triedb.NewEncodedLeaf/" +
			"NewEncodedBranch. First the round trip: node.Decode and triedb codec.Decode of the intact encoding must give the same partial key, value or value hash with the " +
			"hashed flag, and the same children. Then mutants: " + mutationRule + "Also all 255 other header bytes in front of the rest, and crafted partial-key-length headers " +
			"for all five variants (mask-1, mask, mask+1, mask+254..256, mask+510, 65534, 65535, 257 continuation bytes, continuation bytes to the end). Both decoders run on " +
			"every mutant. Oracle: node or error; no panic; Read calls <= 16*len+1024; allocation delta <= 64*len+128KiB. Non-trivial = at least one mutant executed."
	}
	return ""
}

func (world) Components(p string) ([]string, []string) {
	switch p {
	case "C12":
		return []string{"pkg/scale Marshal/Unmarshal (encode.go, decode.go, result.go, uint128.go, varying data types)", "dot/types wire types and their helpers (DecodeBabePreDigest, Encode/DecodeGrandpaVoters, Digest, Header, Body, BlockData)",
				"lib/grandpa message types, decodeMessage, ToConsensusMessage", "dot/network BlockAnnounceMessage"},
			[]string{"the byte stream (mutation engine)", "reference SCALE walker (used to place crafted prefixes and to name violation classes, not to decide)"}
	case "C33":
		return []string{"dot/network decodeBlockAnnounceMessage, decodeBlockAnnounceHandshake, decodeTransactionMessage, decodeTransactionHandshake, decodeSyncMessage, newLightRequestFromBytes, newLightResponseFromBytes, decodeWarpSyncMessage",
				"dot/network/messages BlockRequestMessage/BlockResponseMessage/StateRequest/StateResponse/WarpProofRequest Encode+Decode", "dot/types NewBodyFromEncodedBytes/NewBodyFromBytes (through the block response)",
				"lib/grandpa Service.decodeMessage, Service.decodeHandshake, decodeMessage, WarpSyncProof decoding", "pkg/scale", "google.golang.org/protobuf"},
			[]string{"the transport (libp2p streams): bytes are handed to the decoders directly", "peers (mutation engine)"}
	case "C07":
		return []string{"pkg/trie/node Encode, Decode, header/key codecs", "pkg/trie/triedb/codec Decode", "pkg/trie/triedb NewEncodedLeaf/NewEncodedBranch", "pkg/trie/inmemory (Put, WriteDirty) and inmemory/proof.Generate as sources of real encodings", "pkg/scale"},
			[]string{"the database / the proof sender (mutation engine)", "database (map)"}
	}
	return nil, nil
}

func (world) Budget(p, tier string) (int, time.Duration) {
	if tier == "thorough" {
		return 600000, 8 * time.Minute
	}
	return 40000, 40 * time.Second
}

func TestVerif(t *testing.T) { kernel.Main(t, world{}) }
