package bytes

import (
	"encoding/binary"
	"fmt"

	"github.com/ChainSafe/gossamer/verifsim/kernel"
)

// ---- reference compact-integer encoder (written from the SCALE spec) --------
//
// mode 0: one byte, value<<2                      valid for 0..63
// mode 1: two bytes LE, value<<2|1                valid for 64..2^14-1
// mode 2: four bytes LE, value<<2|2               valid for 2^14..2^30-1
// mode 3: (n-4)<<2|3 followed by n bytes LE       valid for 2^30.., last byte != 0

func cMode0(v uint64) []byte { return []byte{byte(v << 2)} }
func cMode1(v uint64) []byte { x := uint16(v<<2) | 1; return []byte{byte(x), byte(x >> 8)} }
func cMode2(v uint64) []byte {
	b := make([]byte, 4)
	binary.LittleEndian.PutUint32(b, uint32(v<<2)|2)
	return b
}
func cBig(v uint64, n int) []byte { // n >= 4 value bytes, possibly with leading (most significant) zero bytes
	b := make([]byte, 1+n)
	b[0] = byte((n-4)<<2) | 3
	for i := 0; i < n && i < 8; i++ {
		b[1+i] = byte(v >> (8 * i))
	}
	return b
}

func cCanonical(v uint64) []byte {
	switch {
	case v < 1<<6:
		return cMode0(v)
	case v < 1<<14:
		return cMode1(v)
	case v < 1<<30:
		return cMode2(v)
	}
	n := 4
	for n < 8 && v>>(8*n) != 0 {
		n++
	}
	return cBig(v, n)
}

// ---- a mutant ---------------------------------------------------------------

type mutant struct {
	kind   string // truncate | bitflip | craft | splice | random | extend | header | keylen | inner
	detail string
	data   []byte
}

// compactPos is the position of one compact integer inside a valid encoding
// (found by the reference walker, scaleref.go).
type compactPos struct {
	off, n int
	val    uint64
	wide   bool // value did not fit 64 bits (big integers)
	isLen  bool
}

type crafted struct {
	name string
	b    []byte
}

// giantDecl: inputs in which a byte string DECLARES this many bytes or more are
// not executed (the reference walkers pre-screen them; probe
// not-executed-giant-declaration). Reason: on this machine the first touch of a
// page costs ~0.2 ms (256 MiB = 15 s measured), so a decoder that preallocates
// and zeroes, or copies, a declared gigabyte stalls a worker for minutes. The
// code path of a preallocating decoder is the same for 1 MiB as for 1 GiB, and
// 1 MiB-3 (the crafted "large" length) declared in a 20-byte input is already 8x
// beyond the allocation bound.
const giantDecl = 1 << 20

// craftedCompacts lists the replacements tried for one compact integer of value
// v: the same value in every wider (non-canonical) mode, other values at the
// mode boundaries, a declared 1 MiB-3, and the unallocatable 2^62 / 2^64-1.
func craftedCompacts(v uint64, large bool) []crafted {
	var out []crafted
	add := func(n string, b []byte) { out = append(out, crafted{n, b}) }
	// same value, non-canonical (wider than necessary) encodings
	if v < 1<<6 {
		add("noncanon-mode1", cMode1(v))
	}
	if v < 1<<14 {
		add("noncanon-mode2", cMode2(v))
	}
	if v < 1<<30 {
		add("noncanon-big4", cBig(v, 4))
	}
	if v < 1<<32 {
		add("noncanon-big5", cBig(v, 5))
	}
	if v < 1<<56 {
		add("noncanon-big8-leading-zero", cBig(v, 8))
	}
	add("noncanon-big9-leading-zero", cBig(v, 9))
	add("noncanon-big16-leading-zero", cBig(v, 16))
	// other values at the mode boundaries, each in its canonical mode
	for _, o := range []uint64{0, 1, 63, 64, 16383, 16384, v + 1, v - 1} {
		if o != v && o < 1<<62 {
			add(fmt.Sprintf("value-%d", o), cCanonical(o))
		}
	}
	if large {
		add("value-1MiB-3", cCanonical(1<<20-3))
	}
	add("value-2^62", cCanonical(1<<62))
	add("value-2^64-1", cCanonical(^uint64(0)))
	add("prefix-ff", []byte{0xff})
	return out
}

// ---- the generic mutation schedule --------------------------------------------

type mutCfg struct {
	enc      []byte
	other    []byte       // a second valid encoding for splices (may be nil)
	compacts []compactPos // compact integers inside enc
	maxFlips int
}

// forEachMutant enumerates: every truncation offset; up to maxFlips tape-chosen
// bit-flip mutants (1-3 bits each); crafted compact prefixes at up to 12
// tape-chosen compact positions; splices with a second message; appended
// garbage; a few purely random strings. All choices come from the tape.
func forEachMutant(k *kernel.K, cfg mutCfg, f func(m mutant)) {
	enc := cfg.enc
	// 1. truncation at EVERY offset (strict prefixes, the empty string included)
	for t := 0; t < len(enc); t++ {
		f(mutant{"truncate", fmt.Sprintf("at=%d/%d", t, len(enc)), enc[:t:t]})
	}
	// 2. bit flips
	if len(enc) > 0 && cfg.maxFlips > 0 {
		n := k.Range(1, cfg.maxFlips, "flips")
		for i := 0; i < n; i++ {
			m := append([]byte(nil), enc...)
			bits := 1 + k.Choose(3, "flipbits")
			d := ""
			for j := 0; j < bits; j++ {
				p := k.Choose(len(enc), "flippos")
				b := k.Choose(8, "flipbit")
				m[p] ^= 1 << b
				d += fmt.Sprintf("%d.%d ", p, b)
			}
			f(mutant{"bitflip", d, m})
		}
	}
	// 3. crafted compact integers
	if len(cfg.compacts) > 0 {
		pos := cfg.compacts
		if len(pos) > 12 {
			// keep the first and 11 tape-chosen others (order preserved). The number of
			// draws is bounded: an exhausted replay tape answers 0 for ever.
			keep := map[int]bool{0: true}
			for tries := 0; tries < 48 && len(keep) < 12; tries++ {
				keep[k.Choose(len(pos), "craftpos")] = true
			}
			for i := 0; len(keep) < 12 && i < len(pos); i++ {
				keep[i] = true
			}
			var sel []compactPos
			for i := range pos {
				if keep[i] {
					sel = append(sel, pos[i])
				}
			}
			pos = sel
		}
		// the declared mebibyte goes to the first and to two tape-chosen positions
		// (a decoder that preallocates touches that much memory on every hit)
		largeAt := map[int]bool{0: true, k.Choose(len(pos), "largepos"): true, k.Choose(len(pos), "largepos"): true}
		for i, p := range pos {
			for _, cr := range craftedCompacts(p.val, largeAt[i]) {
				m := make([]byte, 0, len(enc)+len(cr.b))
				m = append(m, enc[:p.off]...)
				m = append(m, cr.b...)
				cut := len(m)
				m = append(m, enc[p.off+p.n:]...)
				f(mutant{"craft", fmt.Sprintf("compact@%d(%d) %s", p.off, p.val, cr.name), m})
				// the same with only a few bytes following the crafted prefix
				few := cut + 2
				if few < len(m) {
					f(mutant{"craft", fmt.Sprintf("compact@%d(%d) %s +2 bytes", p.off, p.val, cr.name), m[:few:few]})
				}
			}
		}
	}
	// 4. splices of two valid messages
	if len(cfg.other) > 0 && len(enc) > 0 {
		n := k.Range(1, 8, "splices")
		for i := 0; i < n; i++ {
			a := k.Choose(len(enc)+1, "spliceA")
			b := k.Choose(len(cfg.other)+1, "spliceB")
			m := append(append([]byte(nil), enc[:a]...), cfg.other[b:]...)
			f(mutant{"splice", fmt.Sprintf("a[:%d]+b[%d:]", a, b), m})
			m2 := append(append([]byte(nil), cfg.other[:b]...), enc[a:]...)
			f(mutant{"splice", fmt.Sprintf("b[:%d]+a[%d:]", b, a), m2})
		}
		f(mutant{"splice", "a+b", append(append([]byte(nil), enc...), cfg.other...)})
	}
	// 5. trailing garbage
	f(mutant{"extend", "+00", append(append([]byte(nil), enc...), 0)})
	f(mutant{"extend", "+ff*4", append(append([]byte(nil), enc...), 0xff, 0xff, 0xff, 0xff)})
	// 6. random strings
	n := k.Range(0, 4, "randoms")
	for i := 0; i < n; i++ {
		l := k.Choose(24, "randlen")
		f(mutant{"random", fmt.Sprintf("len=%d", l), k.Bytes(l, "rand")})
	}
}

// ---- values concentrated at the compact-mode boundaries ------------------------

var boundaries = []uint64{0, 1, 63, 64, 65, 255, 256, 16383, 16384, 65535, 65536,
	1<<30 - 1, 1 << 30, 1<<32 - 1, 1 << 32, 1<<56 - 1, 1 << 56, 1<<63 - 1, 1 << 63, ^uint64(0)}

// u64 draws a 64-bit value: mostly a mode boundary (possibly +-1), sometimes raw tape bytes.
func u64(k *kernel.K, label string) uint64 {
	if k.Bool(1, 4, label+"-raw") {
		var v uint64
		n := 1 + k.Choose(8, label+"-width")
		for i := 0; i < n; i++ {
			v |= uint64(k.Choose(256, label)) << (8 * i)
		}
		return v
	}
	return boundaries[k.Choose(len(boundaries), label)]
}

// blen draws a byte-string length concentrated at 0, 1, 63, 64 and occasionally 16383/16384.
func blen(k *kernel.K, label string, allowBig bool) int {
	opts := []int{0, 1, 2, 5, 31, 32, 33, 62, 63, 64, 65, 100}
	if allowBig && k.Bool(1, 12, label+"-big") {
		return []int{16383, 16384}[k.Choose(2, label)]
	}
	return opts[k.Choose(len(opts), label)]
}

func fill(k *kernel.K, n int, label string) []byte {
	// long strings are filled from a short tape-chosen pattern to keep tapes small
	if n <= 12 {
		return k.Bytes(n, label)
	}
	pat := k.Bytes(8, label)
	b := make([]byte, n)
	for i := range b {
		b[i] = pat[i%8] + byte(i/8)
	}
	return b
}

func arr32(k *kernel.K, label string) (a [32]byte) { copy(a[:], fill(k, 32, label)); return }
func arr64(k *kernel.K, label string) (a [64]byte) { copy(a[:], fill(k, 64, label)); return }
