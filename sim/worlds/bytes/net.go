package bytes

import (
	stdbytes "bytes"
	"fmt"
	"reflect"
	"sort"

	"github.com/ChainSafe/gossamer/dot/network"
	"github.com/ChainSafe/gossamer/dot/network/messages"
	pb "github.com/ChainSafe/gossamer/dot/network/proto"
	"github.com/ChainSafe/gossamer/dot/types"
	"github.com/ChainSafe/gossamer/lib/common"
	"github.com/ChainSafe/gossamer/lib/crypto/ed25519"
	"github.com/ChainSafe/gossamer/lib/grandpa"
	"github.com/ChainSafe/gossamer/pkg/scale"
	"github.com/ChainSafe/gossamer/verifsim/kernel"
	"google.golang.org/protobuf/proto"
)

// netProto is one network protocol decoder of the statement of C33.
type netProto struct {
	name string
	// build makes one valid message with the real constructors and encoder.
	build func(k *kernel.K, l string) []byte
	// decode is the REAL decoder of the protocol, encode the REAL encoder (nil = none exists).
	decode func(in []byte) (any, error)
	encode func(m any) ([]byte, error)
	// SCALE-framed protocols: wire type for the reference walker (crafting positions, giant pre-screen)
	typ  reflect.Type
	tmpl reflect.Value
	// protobuf-framed protocols
	isPB  bool
	giant func(in []byte) bool
	// declShort: a SCALE byte string inside the (protobuf) message declares more than it carries
	declShort func(in []byte) bool
	inner     func(k *kernel.K, valid []byte, f func(m mutant))
	// big makes a valid message whose repeated part has n elements (the scale phase of runNet)
	big func(shape, n int) []byte
	// newRecv makes an empty message value of the protocol whose Decode method is the real decoder:
	// one such value is reused for every input of a run (a receiver's history must not matter)
	newRecv func() recv
}

type recv interface {
	Decode(in []byte) error
	Encode() ([]byte, error)
}

// ---- large valid messages: cost must stay proportional to the length ---------

func tinyExts(w, n int) []types.Extrinsic {
	exts := make([]types.Extrinsic, n)
	for i := range exts {
		exts[i] = make([]byte, w)
		for j := range exts[i] {
			exts[i][j] = byte(i + j)
		}
	}
	return exts
}

func bigBlockData() *types.BlockData {
	h := types.NewHeader(common.Hash{1}, common.Hash{2}, common.Hash{3}, 77, types.NewDigest())
	return &types.BlockData{Hash: h.Hash(), Header: h}
}

func bigBlockResponse(shape, n int) []byte {
	r := &messages.BlockResponseMessage{}
	w := shape / 3 % 3
	switch shape % 3 {
	case 0: // one block whose body has n tiny extrinsics
		bd := bigBlockData()
		bd.Body = types.NewBody(tinyExts(w, n))
		r.BlockData = append(r.BlockData, bd)
	case 1: // n/8 small blocks
		for i := 0; i < n/8+1; i++ {
			h := types.NewHeader(common.Hash{byte(i)}, common.Hash{1}, common.Hash{2}, uint(i), types.NewDigest())
			r.BlockData = append(r.BlockData, &types.BlockData{Hash: h.Hash(), Header: h, Body: types.NewBody(tinyExts(w, 2))})
		}
	default: // one block with a justification of n bytes and a body
		bd := bigBlockData()
		j := make([]byte, n)
		bd.Justification = &j
		bd.Body = types.NewBody(tinyExts(w, n/4))
		r.BlockData = append(r.BlockData, bd)
	}
	return mustEnc(r)
}

func bigGrandpa(shape, n int) []byte {
	votes := make([]grandpa.SignedVote, n/4+1)
	for i := range votes {
		votes[i] = grandpa.SignedVote{Vote: grandpa.Vote{Hash: common.Hash{byte(i), byte(i >> 8)}, Number: uint32(i)}, AuthorityID: ed25519.PublicKeyBytes{byte(i), byte(i >> 8), 7}}
		votes[i].Signature[0] = byte(i)
	}
	var m grandpa.GrandpaMessage
	if shape%2 == 1 {
		m = &grandpa.CatchUpResponse{SetID: 1, Round: 2, PreVoteJustification: votes, PreCommitJustification: votes[:len(votes)/2], Hash: common.Hash{9}, Number: 9}
	} else {
		cm := &grandpa.CommitMessage{Round: 2, SetID: 1, Vote: votes[0].Vote}
		for _, v := range votes {
			cm.Precommits = append(cm.Precommits, v.Vote)
			cm.AuthData = append(cm.AuthData, grandpa.AuthData{Signature: v.Signature, AuthorityID: v.AuthorityID})
		}
		m = cm
	}
	b, err := encodeGrandpaNet(m)
	if err != nil {
		panic(err)
	}
	return b
}

func bigStateResponse(shape, n int) []byte {
	m := &pb.StateResponse{}
	e := &pb.KeyValueStateEntry{StateRoot: make([]byte, 32)}
	for i := 0; i < n/2+1; i++ {
		e.Entries = append(e.Entries, &pb.StateEntry{Key: []byte{byte(i), byte(i >> 8)}, Value: []byte{byte(i)}})
	}
	m.Entries = append(m.Entries, e)
	b, err := proto.Marshal(m)
	if err != nil {
		panic(err)
	}
	return b
}

type encoder interface{ Encode() ([]byte, error) }

func encodeMsg(m any) ([]byte, error) { return m.(encoder).Encode() }

func mustEnc(m encoder) []byte {
	b, err := m.Encode()
	if err != nil {
		panic(fmt.Sprintf("harness: real encoder refused a generated message %T: %v", m, err))
	}
	return b
}

var lightReqWire, lightRespWire = network.VerifBytesLightWireValues()

func byteLists(k *kernel.K, l string) [][]byte {
	n := k.Choose(4, l+"n")
	out := make([][]byte, n)
	for i := range out {
		out[i] = fill(k, blen(k, l+"len", false), l)
	}
	return out
}

func optHash(k *kernel.K, l string) *common.Hash {
	if k.Bool(1, 2, l+"some") {
		h := hashOf(k, l)
		return &h
	}
	return nil
}

func lightRequestOf(k *kernel.K, l string) *network.LightRequest {
	r := network.NewLightRequest()
	r.RemoteCallRequest.Block = fill(k, blen(k, l+"cb", false), l+"cbb")
	r.RemoteCallRequest.Method = string(fill(k, blen(k, l+"cm", false), l+"cmb"))
	r.RemoteCallRequest.Data = fill(k, blen(k, l+"cd", false), l+"cdb")
	r.RemoteReadRequest.Block = fill(k, blen(k, l+"rb", false), l+"rbb")
	r.RemoteReadRequest.Keys = byteLists(k, l+"rk")
	r.RemoteHeaderRequest.Block = fill(k, blen(k, l+"hb", false), l+"hbb")
	r.RemoteReadChildRequest.Block = fill(k, blen(k, l+"chb", false), l+"chbb")
	r.RemoteReadChildRequest.StorageKey = fill(k, blen(k, l+"chs", false), l+"chsb")
	r.RemoteReadChildRequest.Keys = byteLists(k, l+"chk")
	r.RemoteChangesRequest.FirstBlock = optHash(k, l+"first")
	r.RemoteChangesRequest.LastBlock = optHash(k, l+"last")
	r.RemoteChangesRequest.Min = fill(k, blen(k, l+"min", false), l+"minb")
	r.RemoteChangesRequest.Max = fill(k, blen(k, l+"max", false), l+"maxb")
	r.RemoteChangesRequest.StorageKey = optBytes(k, l+"sk")
	return r
}

func lightResponseOf(k *kernel.K, l string) *network.LightResponse {
	r := network.NewLightResponse()
	r.RemoteCallResponse.Proof = fill(k, blen(k, l+"cp", false), l+"cpb")
	r.RemoteReadResponse.Proof = fill(k, blen(k, l+"rp", false), l+"rpb")
	n := k.Choose(3, l+"hn")
	for i := 0; i < n; i++ {
		if k.Bool(1, 4, l+"hnil") {
			r.RemoteHeaderResponse.Header = append(r.RemoteHeaderResponse.Header, nil)
		} else {
			r.RemoteHeaderResponse.Header = append(r.RemoteHeaderResponse.Header, headerOf(k, l+"h"))
		}
	}
	r.RemoteChangesResponse.Max = fill(k, blen(k, l+"max", false), l+"maxb")
	r.RemoteChangesResponse.Proof = byteLists(k, l+"pr")
	nr := k.Choose(3, l+"roots")
	for i := 0; i < nr; i++ {
		np := k.Choose(3, l+"pairs")
		ps := make([]network.Pair, np)
		for j := range ps {
			ps[j] = network.Pair{First: fill(k, blen(k, l+"pf", false), l+"pfb"), Second: fill(k, blen(k, l+"ps", false), l+"psb")}
		}
		r.RemoteChangesResponse.Roots = append(r.RemoteChangesResponse.Roots, ps)
	}
	r.RemoteChangesResponse.RootsProof = fill(k, blen(k, l+"rp2", false), l+"rp2b")
	return r
}

func blockRequestOf(k *kernel.K, l string) *messages.BlockRequestMessage {
	var from *messages.FromBlock
	if k.Bool(1, 2, l+"byhash") {
		from = messages.NewFromBlock(hashOf(k, l+"hash"))
	} else {
		from = messages.NewFromBlock(uint(u64(k, l+"num")))
	}
	req := messages.NewBlockRequest(*from, uint32(u64(k, l+"max")), byte(k.Choose(32, l+"fields")), messages.SyncDirection(k.Choose(2, l+"dir")))
	if k.Bool(1, 4, l+"nomax") {
		req.Max = nil
	}
	return req
}

func blockResponseOf(k *kernel.K, l string) *messages.BlockResponseMessage {
	n := k.Choose(3, l+"n")
	r := &messages.BlockResponseMessage{}
	for i := 0; i < n; i++ {
		bd := blockDataOf(k, l+"bd")
		if bd.Justification != nil && k.Bool(1, 4, l+"emptyjust") {
			bd.Justification = &[]byte{}
		}
		r.BlockData = append(r.BlockData, bd)
	}
	return r
}

func stateRequestOf(k *kernel.K, l string) *messages.StateRequest {
	return &messages.StateRequest{Block: hashOf(k, l+"block"), Start: byteLists(k, l+"start"), NoProof: k.Bool(1, 2, l+"np")}
}

func stateResponseBytes(k *kernel.K, l string) []byte {
	m := &pb.StateResponse{Proof: fill(k, blen(k, l+"proof", false), l+"proofb")}
	n := k.Choose(3, l+"n")
	for i := 0; i < n; i++ {
		e := &pb.KeyValueStateEntry{StateRoot: fill(k, []int{0, 31, 32, 33}[k.Choose(4, l+"rootlen")], l+"root"), Complete: k.Bool(1, 2, l+"complete")}
		ne := k.Choose(4, l+"ne")
		for j := 0; j < ne; j++ {
			e.Entries = append(e.Entries, &pb.StateEntry{Key: fill(k, blen(k, l+"kl", false), l+"k"), Value: fill(k, blen(k, l+"vl", false), l+"v")})
		}
		m.Entries = append(m.Entries, e)
	}
	b, err := proto.Marshal(m)
	if err != nil {
		panic(err)
	}
	return b
}

// grandpa: what the notifications protocol does with a peer's bytes:
// Service.decodeMessage (-> ConsensusMessage), then handleNetworkMessage drops
// messages shorter than 2 bytes and calls decodeMessage.
func decodeGrandpaNet(in []byte) (any, error) {
	nm, err := grandpa.VerifBytesDecodeNotification(in)
	if err != nil {
		return nil, err
	}
	cm := nm.(*network.ConsensusMessage)
	if len(cm.Data) < 2 {
		return nil, fmt.Errorf("ignored: shorter than 2 bytes")
	}
	return grandpa.VerifBytesDecodeMessage(cm)
}

func encodeGrandpaNet(m any) ([]byte, error) {
	cm, err := m.(grandpa.GrandpaMessage).ToConsensusMessage()
	if err != nil {
		return nil, err
	}
	return cm.Encode()
}

// scanBlockResponse walks the SCALE blobs inside a block response the way
// protobufToBlockData consumes them (header; body = count + concatenated entries).
func scanBlockResponse(in []byte) (giant, declShort bool) {
	var m pb.BlockResponse
	if proto.Unmarshal(in, &m) != nil {
		return
	}
	for _, b := range m.Blocks {
		if b.Header != nil {
			w := walk(b.Header, reflect.TypeOf(types.Header{}), reflect.Value{})
			giant, declShort = giant || w.giant, declShort || w.declaredShort
		}
		if b.Body != nil {
			enc := cCanonical(uint64(len(b.Body)))
			for _, e := range b.Body {
				enc = append(enc, e...)
			}
			w := walk(enc, reflect.TypeOf([][]byte{}), reflect.Value{})
			giant, declShort = giant || w.giant, declShort || w.declaredShort
		}
	}
	return
}

func protoGiantBlockResponse(in []byte) bool     { g, _ := scanBlockResponse(in); return g }
func protoDeclShortBlockResponse(in []byte) bool { _, d := scanBlockResponse(in); return d }

// innerBlockResponse: the peer's protobuf is well formed, the SCALE blobs
// inside it (header, body extrinsics, justification flags) are corrupted.
func innerBlockResponse(k *kernel.K, valid []byte, f func(m mutant)) {
	var base pb.BlockResponse
	if err := proto.Unmarshal(valid, &base); err != nil {
		panic(err)
	}
	if len(base.Blocks) == 0 {
		base.Blocks = []*pb.BlockData{{Hash: make([]byte, 32)}}
	}
	emit := func(detail string, edit func(b *pb.BlockData)) {
		m := proto.Clone(&base).(*pb.BlockResponse)
		edit(m.Blocks[0])
		b, err := proto.Marshal(m)
		if err != nil {
			panic(err)
		}
		f(mutant{"inner", detail, b})
	}
	hdr := base.Blocks[0].Header
	if hdr == nil {
		hdr = mustMarshal(*headerOf(k, "ih"))
	}
	comp := compactsOf(hdr, reflect.TypeOf(types.Header{}), reflect.Value{})
	forEachMutant(k, mutCfg{enc: hdr, compacts: comp, maxFlips: 16}, func(hm mutant) {
		emit("header:"+hm.kind+" "+hm.detail, func(b *pb.BlockData) { b.Header = hm.data })
	})
	ext := mustMarshal(fill(k, blen(k, "iext", false), "iextb"))
	extComp := compactsOf(ext, reflect.TypeOf([]byte{}), reflect.Value{})
	forEachMutant(k, mutCfg{enc: ext, compacts: extComp, maxFlips: 8}, func(em mutant) {
		emit("body-entry:"+em.kind+" "+em.detail, func(b *pb.BlockData) { b.Body = append([][]byte{em.data}, b.Body...) })
		emit("body-last-entry:"+em.kind+" "+em.detail, func(b *pb.BlockData) { b.Body = append(b.Body, em.data) })
	})
	emit("hash-short", func(b *pb.BlockData) { b.Hash = b.Hash[:len(b.Hash)/2] })
	emit("hash-long", func(b *pb.BlockData) { b.Hash = append(b.Hash, 1, 2, 3) })
	emit("empty-just-flag", func(b *pb.BlockData) { b.Justification = nil; b.IsEmptyJustification = true })
	emit("just-and-flag", func(b *pb.BlockData) { b.Justification = []byte{1}; b.IsEmptyJustification = true })
	emit("all-empty", func(b *pb.BlockData) {
		b.Header, b.Body, b.Receipt, b.MessageQueue, b.Justification = []byte{}, [][]byte{}, []byte{}, []byte{}, []byte{}
	})
	emit("empty-body-entry", func(b *pb.BlockData) { b.Body = [][]byte{{}} })
}

func innerBlockRequest(k *kernel.K, valid []byte, f func(m mutant)) {
	emit := func(detail string, m *pb.BlockRequest) {
		b, err := proto.Marshal(m)
		if err != nil {
			panic(err)
		}
		f(mutant{"inner", detail, b})
	}
	for _, n := range []int{0, 1, 3, 4, 5, 8, 32} {
		emit(fmt.Sprintf("number-len-%d", n), &pb.BlockRequest{Fields: 1 << 24, FromBlock: &pb.BlockRequest_Number{Number: fill(k, n, "inum")}, MaxBlocks: 1})
	}
	for _, n := range []int{0, 1, 31, 32, 33, 64} {
		emit(fmt.Sprintf("hash-len-%d", n), &pb.BlockRequest{Fields: 1 << 24, FromBlock: &pb.BlockRequest_Hash{Hash: fill(k, n, "ihash")}, MaxBlocks: 1})
	}
	emit("no-from", &pb.BlockRequest{Fields: 0xffffffff, Direction: 7, MaxBlocks: 0xffffffff})
	emit("direction-out-of-range", &pb.BlockRequest{FromBlock: &pb.BlockRequest_Number{Number: []byte{1, 0, 0, 0}}, Direction: pb.Direction(-5)})
}

var netProtos = []netProto{
	{name: "block-announce",
		build:  func(k *kernel.K, l string) []byte { return mustEnc(blockAnnounceOf(k, l)) },
		decode: func(in []byte) (any, error) { return network.VerifBytesDecodeBlockAnnounceMessage(in) },
		encode: encodeMsg, typ: reflect.TypeOf(network.BlockAnnounceMessage{}), newRecv: func() recv { return &network.BlockAnnounceMessage{} }},
	{name: "block-announce-handshake",
		build: func(k *kernel.K, l string) []byte {
			return mustEnc(&network.BlockAnnounceHandshake{Roles: common.NetworkRole(k.Choose(6, l+"role")), BestBlockNumber: uint32(u64(k, l+"num")),
				BestBlockHash: hashOf(k, l+"best"), GenesisHash: hashOf(k, l+"gen")})
		},
		decode: func(in []byte) (any, error) { return network.VerifBytesDecodeBlockAnnounceHandshake(in) },
		encode: encodeMsg, typ: reflect.TypeOf(network.BlockAnnounceHandshake{})},
	{name: "transactions",
		build: func(k *kernel.K, l string) []byte {
			return mustEnc(&network.TransactionMessage{Extrinsics: []types.Extrinsic(*bodyOf(k, l))})
		},
		decode: func(in []byte) (any, error) { return network.VerifBytesDecodeTransactionMessage(in) },
		encode: encodeMsg, typ: reflect.TypeOf([]types.Extrinsic{}),
		big: func(shape, n int) []byte {
			return mustEnc(&network.TransactionMessage{Extrinsics: tinyExts(shape%3, n)})
		}},
	{name: "transactions-handshake",
		build: func(k *kernel.K, l string) []byte { // the real handshake is the empty message
			hs, _ := network.VerifBytesDecodeTransactionHandshake(nil)
			return mustEnc(hs)
		},
		decode: func(in []byte) (any, error) { return network.VerifBytesDecodeTransactionHandshake(in) },
		encode: encodeMsg},
	{name: "block-request", isPB: true,
		build:  func(k *kernel.K, l string) []byte { return mustEnc(blockRequestOf(k, l)) },
		decode: func(in []byte) (any, error) { return network.VerifBytesDecodeSyncMessage(in, "", true) },
		encode: encodeMsg, inner: innerBlockRequest, newRecv: func() recv { return &messages.BlockRequestMessage{} }},
	{name: "block-response", isPB: true,
		build: func(k *kernel.K, l string) []byte { return mustEnc(blockResponseOf(k, l)) },
		decode: func(in []byte) (any, error) {
			m := new(messages.BlockResponseMessage) // what RequestResponseProtocol.receiveResponse is handed by the syncer
			err := m.Decode(in)
			return m, err
		},
		encode: encodeMsg, giant: protoGiantBlockResponse, declShort: protoDeclShortBlockResponse, inner: innerBlockResponse, big: bigBlockResponse, newRecv: func() recv { return &messages.BlockResponseMessage{} }},
	{name: "grandpa",
		build: func(k *kernel.K, l string) []byte {
			_, m := grandpaMsgOf(k, l)
			b, err := encodeGrandpaNet(m)
			if err != nil {
				panic(err)
			}
			return b
		},
		decode: decodeGrandpaNet, encode: encodeGrandpaNet, typ: tGrandpaMessage, big: bigGrandpa, newRecv: func() recv { return &network.ConsensusMessage{} }},
	{name: "grandpa-handshake",
		build: func(k *kernel.K, l string) []byte {
			return mustEnc(&grandpa.GrandpaHandshake{Role: common.NetworkRole(k.Choose(6, l+"role"))})
		},
		decode: func(in []byte) (any, error) { return grandpa.VerifBytesDecodeHandshake(in) },
		encode: encodeMsg, typ: reflect.TypeOf(grandpa.GrandpaHandshake{})},
	{name: "light-request",
		build:  func(k *kernel.K, l string) []byte { return mustEnc(lightRequestOf(k, l)) },
		decode: func(in []byte) (any, error) { return network.VerifBytesNewLightRequestFromBytes(in) },
		encode: encodeMsg, typ: reflect.TypeOf(lightReqWire)},
	{name: "light-response",
		build:  func(k *kernel.K, l string) []byte { return mustEnc(lightResponseOf(k, l)) },
		decode: func(in []byte) (any, error) { return network.VerifBytesNewLightResponseFromBytes(in) },
		encode: encodeMsg, typ: reflect.TypeOf(lightRespWire)},
	{name: "warp-sync-request",
		build: func(k *kernel.K, l string) []byte {
			return mustEnc(&messages.WarpProofRequest{Begin: hashOf(k, l+"begin")})
		},
		decode: func(in []byte) (any, error) { return network.VerifBytesDecodeWarpSyncMessage(in, "", true) },
		encode: encodeMsg, typ: reflect.TypeOf(messages.WarpProofRequest{})},
	{name: "warp-sync-proof",
		build: func(k *kernel.K, l string) []byte {
			p := grandpa.NewWarpSyncProof()
			n := k.Choose(3, l+"frags")
			for i := 0; i < n; i++ {
				p.Proofs = append(p.Proofs, grandpa.WarpSyncFragment{Header: *headerOf(k, l+"h")})
			}
			p.IsFinished = k.Bool(1, 2, l+"fin")
			return mustMarshal(p)
		},
		decode: func(in []byte) (any, error) { // the decoding step of WarpSyncProofProvider.Verify
			var p grandpa.WarpSyncProof
			err := scale.Unmarshal(in, &p)
			return &p, err
		},
		encode: func(m any) ([]byte, error) { return scale.Marshal(*(m.(*grandpa.WarpSyncProof))) },
		typ:    reflect.TypeOf(grandpa.WarpSyncProof{})},
	{name: "state-request", isPB: true,
		build: func(k *kernel.K, l string) []byte { return mustEnc(stateRequestOf(k, l)) },
		decode: func(in []byte) (any, error) {
			m := new(messages.StateRequest)
			err := m.Decode(in)
			return m, err
		},
		encode: encodeMsg},
	{name: "state-response", isPB: true,
		build: stateResponseBytes,
		decode: func(in []byte) (any, error) {
			m := new(messages.StateResponse)
			err := m.Decode(in)
			return m, err
		}, big: bigStateResponse},
}

func runNet(k *kernel.K) {
	c := newCtx(k, 256)
	defer c.finish()
	p := &netProtos[k.Choose(len(netProtos), "protocol")]
	enc := p.build(k, "v")
	other := p.build(k, "w")
	k.Event("protocol:"+p.name, "len=%d enc=%s", len(enc), hx(enc))
	trace("run %d %s len=%d", k.RunIx, p.name, len(enc))

	// baseline: the valid message decodes and survives the re-encode rule
	if ok := c.checkNet(p, mutant{"intact", "", enc}); !ok {
		k.Probe("baseline-rejected:" + p.name)
		k.Event("baseline-rejected", "%s: a message built by the real encoder was refused", p.name)
	} else {
		k.Event("baseline-ok", "")
	}

	var comp []compactPos
	if p.typ != nil {
		comp = compactsOf(enc, p.typ, p.tmpl)
	}
	stats := map[string][2]int{}
	each := func(m mutant) {
		c.mutants++
		k.Faults[m.kind]++
		k.Nontriv = true
		ok := c.checkNet(p, m)
		s := stats[m.kind]
		if ok {
			s[0]++
		} else {
			s[1]++
		}
		stats[m.kind] = s
	}
	if p.newRecv != nil {
		// a second look at every input through ONE message value that is decoded into again and again,
		// starting with the other valid message: what it says afterwards must not depend on what it held before
		reused := p.newRecv()
		guard(func() { _ = reused.Decode(other) })
		plain := each
		each = func(m mutant) {
			plain(m)
			if m.kind != "truncate" && m.kind != "intact" && m.kind != "extend" {
				if p.typ != nil && walk(m.data, p.typ, p.tmpl).giant || p.giant != nil && p.giant(m.data) {
					return // same pre-screen as the first look: giant declarations are not executed
				}
			}
			fresh := p.newRecv()
			var ef, er error
			var bf, br []byte
			var e1, e2 error
			big := false
			if pn, _, _ := guard(func() {
				a0 := allocNow()
				ef = fresh.Decode(m.data)
				if allocNow()-a0 > 4<<20 {
					big = true // a message that inflates like this is the allocation oracle's business; re-encoding it twice is not worth the time
					return
				}
				er = reused.Decode(m.data)
				if ef == nil && er == nil {
					bf, e1 = fresh.Encode()
					br, e2 = reused.Encode()
				}
			}); pn || big {
				return // panics are reported by the first look
			}
			if (ef == nil) != (er == nil) || (ef == nil && ((e1 == nil) != (e2 == nil) || !stdbytes.Equal(bf, br))) {
				c.report("reencode", "decode-depends-on-receiver-history:"+p.name, "%s: %s %s: input %s decodes differently into a message value that held another message before: fresh err=%v re-encodes to %s, reused err=%v re-encodes to %s",
					p.name, m.kind, m.detail, hx(m.data), ef, hx(bf), er, hx(br))
			}
		}
		k.Probe("reused-receiver:" + p.name)
	}
	forEachMutant(k, mutCfg{enc: enc, other: other, compacts: comp, maxFlips: 64}, each)
	if p.isPB {
		forEachPBLength(enc, each)
	}
	if p.inner != nil {
		p.inner(k, enc, each)
	}
	// scale phase: a large but honest-looking message (thousands of tiny elements, well inside the
	// protocol's size limit) and a few damaged copies of it go through the same oracle; the linear
	// allocation bound then catches a decoder whose cost grows faster than the input
	if p.big != nil && k.Bool(1, 4, "scale-phase") {
		n := []int{1500, 4000, 10000, 25000}[k.Choose(4, "scale-n")]
		shape := k.Choose(18, "scale-shape")
		bigEnc := p.big(shape, n)
		k.Probe("scale-phase:" + p.name)
		k.Event("scale", "%s shape=%d n=%d len=%d", p.name, shape, n, len(bigEnc))
		// per element a decoder may well allocate a few hundred bytes (slice headers, reflection) for
		// one byte of input: the constant of the absolute bound is raised for these inputs, and
		// proportionality is decided by growth: twice the elements, at most three times the allocation
		c.allocC = 4096
		each(mutant{"scale", fmt.Sprintf("n=%d", n), bigEnc})
		for i := 0; i < 4; i++ {
			cp := append([]byte{}, bigEnc...)
			switch k.Choose(3, "scale-damage") {
			case 0:
				cp = cp[:k.Choose(len(cp), "scale-cut")]
			case 1:
				cp[k.Choose(len(cp), "scale-flip")] ^= 1 << uint(k.Choose(8, "scale-bit"))
			default:
				cp = append(cp, bigEnc[:k.Choose(len(bigEnc), "scale-append")]...)
			}
			each(mutant{"scale-damaged", fmt.Sprintf("n=%d", n), cp})
		}
		c.allocC = 256
		twice := p.big(shape, 2*n)
		cost := func(in []byte) uint64 {
			return allocExact(func() { guard(func() { _, _ = p.decode(in) }) })
		}
		a1, a2 := cost(bigEnc), cost(twice)
		if a2 > 3*a1+(1<<20) {
			// confirm once more: the smaller pair counts
			if b1, b2 := cost(bigEnc), cost(twice); b2 < a2 {
				a1, a2 = b1, b2
			}
		}
		k.Probe("scale-growth-checked")
		if a2 > 3*a1+(1<<20) {
			c.report("alloc", "superlinear-decode-cost:"+p.name, "%s: a valid message with %d elements (%d bytes) costs %d bytes of allocation to decode, the same message with %d elements (%d bytes) costs %d: more than three times as much for twice the input",
				p.name, n, len(bigEnc), a1, 2*n, len(twice), a2)
		}
	}
	kinds := make([]string, 0, len(stats))
	for kd := range stats {
		kinds = append(kinds, kd)
	}
	sort.Strings(kinds)
	sum := ""
	for _, kd := range kinds {
		s := stats[kd]
		k.Event(kd, "decoded=%d rejected=%d", s[0], s[1])
		sum += fmt.Sprintf("%s:%d/%d ", kd, s[0], s[1])
		if s[0] > 0 {
			k.Probe("mutant-accepted:" + kd)
		}
	}
	k.Mix(p.name + " " + sum)
}

func isNil(v any) bool {
	if v == nil {
		return true
	}
	rv := reflect.ValueOf(v)
	switch rv.Kind() {
	case reflect.Ptr, reflect.Interface, reflect.Slice, reflect.Map:
		return rv.IsNil()
	}
	return false
}

// checkNet applies the C33 oracle to one input. Returns whether it decoded.
//
//	(1) no panic
//	(2) allocation delta <= 256*len(input) + 128 KiB
//	(3) a message or an error (never neither)
//	(4) if it decodes: e1 = encode(decode(x)) must exist, decode(e1) must
//	    succeed and encode again to e1 (compared as bytes, so nil-vs-empty
//	    slices inside the message structs do not matter)
//
// Time: no wall-clock bound is asserted (16 workers share the machine); the
// hang watchdog of core.go covers "never returns".
func (c *ctx) checkNet(p *netProto, m mutant) bool {
	if m.kind != "truncate" && m.kind != "intact" && m.kind != "extend" {
		if p.typ != nil && walk(m.data, p.typ, p.tmpl).giant || p.giant != nil && p.giant(m.data) {
			c.k.Probe("not-executed-giant-declaration")
			return false
		}
	}
	var msg any
	var err error
	var pan bool
	var pval any
	var site string
	call := func() {
		enter(p.name, m.data)
		pan, pval, site = guard(func() { msg, err = p.decode(m.data) })
		leave()
	}
	excess, exact := c.measured(len(m.data), call)
	if pan {
		c.report("panic", "panic@"+site, "%s: %s %s: input %s: panic: %v", p.name, m.kind, m.detail, hx(m.data), pval)
		return false
	}
	if excess > 0 {
		cls := "alloc-exceeds-linear-bound:" + p.name
		if p.typ != nil && walk(m.data, p.typ, p.tmpl).declaredShort || p.declShort != nil && p.declShort(m.data) {
			// K2: pkg/scale decodeBytes makes the declared length of a byte string before reading
			cls = "alloc-byte-string-declared-length-preallocated:" + p.name
		}
		c.report("alloc", cls, "%s: %s %s: input %s (%d bytes): decoding allocated %d bytes, bound 256*len+128KiB = %d (err=%v)",
			p.name, m.kind, m.detail, hx(m.data), len(m.data), exact, 256*len(m.data)+allocFloor, err)
	}
	if err != nil {
		return false
	}
	if isNil(msg) {
		c.report("result", "neither-message-nor-error:"+p.name, "%s: %s %s: input %s: decoder returned a nil message and a nil error", p.name, m.kind, m.detail, hx(m.data))
		return false
	}
	if p.encode == nil || exact >= hugeAlloc {
		return true
	}
	var e1, e2 []byte
	var err1, err2, errd error
	var m2 any
	if pn, v, st := guard(func() {
		e1, err1 = p.encode(msg)
		if err1 != nil {
			return
		}
		m2, errd = p.decode(e1)
		if errd != nil || isNil(m2) {
			return
		}
		e2, err2 = p.encode(m2)
	}); pn {
		c.report("panic", "panic-reencoding@"+st, "%s: %s %s: input %s decoded; re-encoding/re-decoding the message panics: %v", p.name, m.kind, m.detail, hx(m.data), v)
		return true
	}
	switch {
	case err1 != nil:
		c.report("reencode", "decoded-message-not-encodable:"+p.name, "%s: %s %s: input %s decoded but the message cannot be encoded: %v", p.name, m.kind, m.detail, hx(m.data), err1)
	case errd != nil || isNil(m2):
		c.report("reencode", "reencoded-message-rejected:"+p.name, "%s: %s %s: input %s decoded, re-encoded to %s, which the decoder refuses: %v", p.name, m.kind, m.detail, hx(m.data), hx(e1), errd)
	case err2 != nil:
		c.report("reencode", "decoded-message-not-encodable:"+p.name, "%s: %s %s: input %s: second encoding failed: %v", p.name, m.kind, m.detail, hx(m.data), err2)
	case m.kind == "intact" && !stdbytes.Equal(e1, m.data):
		// a message straight from the real encoder must come back unchanged
		c.report("reencode", "intact-message-reencodes-differently:"+p.name, "%s: the valid message %s decodes and re-encodes to the different %s", p.name, hx(m.data), hx(e1))
	case !stdbytes.Equal(e1, e2):
		c.report("reencode", "reencode-not-stable:"+p.name, "%s: %s %s: input %s decoded, re-encoded to %s, decoded and encoded again gives the different %s", p.name, m.kind, m.detail, hx(m.data), hx(e1), hx(e2))
	}
	return true
}

// ---- protobuf wire: crafted length varints -------------------------------------

func readVarint(b []byte) (uint64, int) {
	var v uint64
	for i := 0; i < len(b) && i < 10; i++ {
		v |= uint64(b[i]&0x7f) << (7 * i)
		if b[i] < 0x80 {
			return v, i + 1
		}
	}
	return 0, 0
}

func putVarint(v uint64) []byte {
	var out []byte
	for v >= 0x80 {
		out = append(out, byte(v)|0x80)
		v >>= 7
	}
	return append(out, byte(v))
}

type pbLen struct{ off, n, payload int } // position of a length varint and of its payload

// pbLengths finds the length varints of length-delimited fields, descending
// into payloads that themselves parse completely as messages (two levels).
func pbLengths(b []byte, base, depth int) []pbLen {
	var out []pbLen
	p := 0
	for p < len(b) {
		tag, n := readVarint(b[p:])
		if n == 0 || tag>>3 == 0 {
			return nil
		}
		p += n
		switch tag & 7 {
		case 0:
			_, n := readVarint(b[p:])
			if n == 0 {
				return nil
			}
			p += n
		case 1:
			p += 8
		case 5:
			p += 4
		case 2:
			l, n := readVarint(b[p:])
			if n == 0 || uint64(len(b)-p-n) < l {
				return nil
			}
			out = append(out, pbLen{off: base + p, n: n, payload: int(l)})
			if depth < 2 && l > 0 {
				if sub := pbLengths(b[p+n:p+n+int(l)], base+p+n, depth+1); sub != nil {
					out = append(out, sub...)
				}
			}
			p += n + int(l)
		default:
			return nil
		}
		if p > len(b) {
			return nil
		}
	}
	return out
}

func forEachPBLength(enc []byte, f func(m mutant)) {
	ls := pbLengths(enc, 0, 0)
	if len(ls) > 24 {
		ls = ls[:24]
	}
	for _, l := range ls {
		for _, v := range []uint64{0, uint64(l.payload) - 1, uint64(l.payload) + 1, 0x7f, 1 << 20, 1<<32 - 1, 1<<63 - 1, ^uint64(0)} {
			if v == uint64(l.payload) {
				continue
			}
			m := append(append(append([]byte(nil), enc[:l.off]...), putVarint(v)...), enc[l.off+l.n:]...)
			f(mutant{"pblen", fmt.Sprintf("varint@%d(%d)->%d", l.off, l.payload, v), m})
		}
		// over-long varint (11 bytes) and the same length padded non-minimally
		over := append(append(append([]byte(nil), enc[:l.off]...), 0x80, 0x80, 0x80, 0x80, 0x80, 0x80, 0x80, 0x80, 0x80, 0x80, 0x01), enc[l.off+l.n:]...)
		f(mutant{"pblen", fmt.Sprintf("varint@%d overlong", l.off), over})
		pad := putVarint(uint64(l.payload))
		pad[len(pad)-1] |= 0x80
		pad = append(pad, 0x00)
		f(mutant{"pblen", fmt.Sprintf("varint@%d non-minimal", l.off), append(append(append([]byte(nil), enc[:l.off]...), pad...), enc[l.off+l.n:]...)})
	}
}
