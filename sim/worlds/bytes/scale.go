package bytes

import (
	stdbytes "bytes"
	"fmt"
	"reflect"
	"sort"

	"github.com/ChainSafe/gossamer/pkg/scale"
	"github.com/ChainSafe/gossamer/verifsim/kernel"
)

// scaleArtifact is one valid SCALE encoding produced by the real encoder
// together with the real decoder for it.
type scaleArtifact struct {
	name  string
	enc   []byte // canonical encoding of the tape-chosen value (real encoder)
	other []byte // canonical encoding of a second value of the same type (splices)
	// dec runs the REAL decoder on in; enc re-encodes a decoded value with the
	// REAL encoder.
	decF func(in []byte) (v any, err error)
	encF func(v any) ([]byte, error)
	// typ/tmpl feed the reference walker (crafting positions, class names). nil = no walker.
	typ  reflect.Type
	tmpl reflect.Value
	// fixedMap > 0: the value is a map whose entries have this fixed encoded
	// size; Go maps are unordered, so the comparison is made on sorted entries.
	fixedMap int
}

// generic builds the decode function for a destination created by newDst (a
// fresh pointer each call, pre-initialised where pkg/scale requires it).
func generic(newDst func() any) (func([]byte) (any, error), func(any) ([]byte, error)) {
	return func(in []byte) (any, error) {
			dst := newDst()
			if err := scale.Unmarshal(in, dst); err != nil {
				return nil, err
			}
			return dst, nil
		}, func(dst any) ([]byte, error) {
			return scale.Marshal(reflect.ValueOf(dst).Elem().Interface())
		}
}

// decode = dec then enc (used for the intact encoding only).
func (a *scaleArtifact) decode(in []byte) ([]byte, error) {
	v, err := a.decF(in)
	if err != nil {
		return nil, err
	}
	return a.encF(v)
}

func mustMarshal(v any) []byte {
	b, err := scale.Marshal(v)
	if err != nil {
		panic(fmt.Sprintf("harness: real encoder refused a catalogue value %T: %v", v, err))
	}
	return b
}

func runScale(k *kernel.K) {
	c := newCtx(k, 64)
	defer c.finish()
	var a *scaleArtifact
	if k.Bool(1, 2, "family") {
		a = pickGossamerArtifact(k)
	} else {
		a = pickCatalogueArtifact(k)
	}
	k.Event("artifact:"+a.name, "len=%d enc=%s", len(a.enc), hx(a.enc))
	trace("run %d %s len=%d", k.RunIx, a.name, len(a.enc))

	// baseline: the intact encoding decodes and re-encodes to the same bytes
	var re []byte
	var err error
	if p, v, site := guard(func() { re, err = a.decode(a.enc) }); p {
		c.report("panic", "panic@"+site, "%s: panic decoding the INTACT encoding %s: %v", a.name, hx(a.enc), v)
		return
	}
	switch {
	case err != nil:
		// The statement of C12 allows a decoder to fail; an encoder/decoder
		// asymmetry on valid data is recorded, not reported as a C12 violation.
		k.Probe("baseline-rejected:" + a.name)
		k.Event("baseline-rejected", "%s: intact encoding refused: %v", a.name, err)
	case !a.equalPrefix(re, a.enc) || len(re) != len(a.enc):
		c.report("reencode", "baseline-reencode-differs:"+a.name, "%s: intact %s decodes and re-encodes to %s", a.name, hx(a.enc), hx(re))
	default:
		k.Event("baseline-ok", "")
	}

	comp := compactsOf(a.enc, a.typ, a.tmpl)
	if a.typ != nil && comp == nil && err == nil {
		if w := walk(a.enc, a.typ, a.tmpl); w.verdict != "" || w.pos != len(a.enc) {
			k.Probe("walker-disagrees-on-intact:" + a.name)
		}
	}
	stats := map[string][2]int{}
	forEachMutant(k, mutCfg{enc: a.enc, other: a.other, compacts: comp, maxFlips: 64}, func(m mutant) {
		c.mutants++
		k.Faults[m.kind]++
		k.Nontriv = true
		ok := c.checkScale(a, m)
		s := stats[m.kind]
		if ok {
			s[0]++
		} else {
			s[1]++
		}
		stats[m.kind] = s
	})
	kinds := make([]string, 0, len(stats))
	for kd := range stats {
		kinds = append(kinds, kd)
	}
	sort.Strings(kinds)
	sum := ""
	for _, kd := range kinds {
		s := stats[kd]
		k.Event(kd, "decoded=%d rejected=%d", s[0], s[1])
		sum += fmt.Sprintf("%s:%d/%d ", kd, s[0], s[1])
		if s[0] > 0 {
			k.Probe("mutant-accepted:" + kd)
		}
	}
	k.Mix(a.name + " " + sum)
}

// equalPrefix: re is a prefix of in (byte-wise; for fixed-entry maps on sorted entries).
func (a *scaleArtifact) equalPrefix(re, in []byte) bool {
	if len(re) > len(in) {
		return false
	}
	if a.fixedMap == 0 {
		return stdbytes.Equal(re, in[:len(re)])
	}
	return stdbytes.Equal(normMap(re, a.fixedMap), normMap(in[:len(re)], a.fixedMap))
}

// mapCount reads the leading compact count (small modes only; others give a huge number).
func mapCount(b []byte) uint64 {
	switch b[0] & 3 {
	case 0:
		return uint64(b[0] >> 2)
	case 1:
		if len(b) >= 2 {
			return uint64(uint16(b[0])|uint16(b[1])<<8) >> 2
		}
	}
	return 1 << 62
}

// normMap sorts the fixed-size entries that follow the compact length.
func normMap(b []byte, entry int) []byte {
	if len(b) == 0 {
		return b
	}
	p := 1
	switch b[0] & 3 {
	case 1:
		p = 2
	case 2:
		p = 4
	case 3:
		p = 1 + int(b[0]>>2) + 4
	}
	if p > len(b) {
		return b
	}
	rest := b[p:]
	n := len(rest) / entry
	es := make([][]byte, n)
	for i := range es {
		es[i] = rest[i*entry : (i+1)*entry]
	}
	sort.Slice(es, func(i, j int) bool { return stdbytes.Compare(es[i], es[j]) < 0 })
	out := append([]byte(nil), b[:p]...)
	for _, e := range es {
		out = append(out, e...)
	}
	return append(out, rest[n*entry:]...)
}

// checkScale applies the C12 oracle to one mutant. Returns whether it decoded.
//
//	(1) no panic
//	(2) allocation delta <= 64*len(input) + 128 KiB
//	(3) error, OR a value v with Marshal(v) == input[:len(Marshal(v))]
//	    (Unmarshal does not require the whole input to be consumed; the
//	    re-encoding is the consumed prefix. A truncated input that was
//	    zero-filled re-encodes LONGER than the input and fails this rule; a
//	    non-canonical compact re-encodes to different bytes and fails it.)
func (c *ctx) checkScale(a *scaleArtifact, m mutant) bool {
	var re []byte
	var val any
	var err error
	var pan bool
	var pval any
	var site string
	if a.typ != nil && m.kind != "truncate" && m.kind != "extend" {
		if w := walk(m.data, a.typ, a.tmpl); w.giant {
			c.k.Probe("not-executed-giant-declaration")
			return false
		}
	}
	call := func() {
		enter(a.name, m.data)
		pan, pval, site = guard(func() { val, err = a.decF(m.data) })
		leave()
	}
	excess, exact := c.measured(len(m.data), call)
	if pan {
		c.report("panic", "panic@"+site, "%s: %s %s: input %s: panic: %v", a.name, m.kind, m.detail, hx(m.data), pval)
		return false
	}
	if excess > 0 {
		cls := "alloc-exceeds-linear-bound:" + a.name
		if a.typ != nil {
			// a byte string ([]byte, string) declares more than the input holds:
			// pkg/scale decodeBytes makes the declared length before reading (K2)
			if w := walk(m.data, a.typ, a.tmpl); w.declaredShort {
				cls = "alloc-byte-string-declared-length-preallocated"
			}
		}
		c.report("alloc", cls, "%s: %s %s: input %s (%d bytes): decoding allocated %d bytes, bound 64*len+128KiB = %d (err=%v)",
			a.name, m.kind, m.detail, hx(m.data), len(m.data), exact, 64*len(m.data)+allocFloor, err)
	}
	if err != nil {
		return false
	}
	if exact >= hugeAlloc {
		// a giant value came out of a tiny input (reported above); re-encoding
		// gigabytes would only burn time
		c.k.Probe("reencode-skipped-giant-value")
		return true
	}
	var eerr error
	if p, v, site := guard(func() { re, eerr = a.encF(val) }); p {
		c.report("panic", "panic-reencoding@"+site, "%s: %s %s: input %s decoded, re-encoding the value panics: %v", a.name, m.kind, m.detail, hx(m.data), v)
		return true
	}
	if eerr != nil {
		c.report("reencode", "decoded-value-not-encodable:"+a.name, "%s: %s %s: input %s decoded without error but the value cannot be encoded: %v", a.name, m.kind, m.detail, hx(m.data), eerr)
		return true
	}
	if a.fixedMap > 0 && len(re) > 0 && len(m.data) > 0 && mapCount(re) < mapCount(m.data) {
		// duplicate keys collapse in a Go map; not demanded by the statement
		c.k.Probe("map-duplicate-keys-collapsed")
		return true
	}
	if a.equalPrefix(re, m.data) {
		return true
	}
	// violation of the re-encode rule; name the class with the reference walker
	cls := "reencode-mismatch:" + a.name
	why := ""
	if a.typ != nil {
		w := walk(m.data, a.typ, a.tmpl)
		switch w.verdict {
		case "short-partial":
			cls = "truncated-" + w.vkind + "-zero-filled" // vkind "byte-string": K1
			why = fmt.Sprintf("input ends inside a %s leaf at offset %d", w.vkind, w.vat)
		case "short-eof":
			cls = "missing-" + w.vkind + "-accepted"
			why = fmt.Sprintf("input ends before a %s leaf at offset %d", w.vkind, w.vat)
		case "noncanonical":
			cls = "noncanonical-" + w.vkind + "-accepted"
			why = fmt.Sprintf("non-canonical %s at offset %d", w.vkind, w.vat)
		case "out-of-range":
			cls = "out-of-range-" + w.vkind + "-accepted"
			why = fmt.Sprintf("%s at offset %d out of range", w.vkind, w.vat)
		case "bad-tag":
			cls = "invalid-" + w.vkind + "-accepted"
			why = fmt.Sprintf("invalid %s at offset %d", w.vkind, w.vat)
		}
	}
	c.report("reencode", cls, "%s: %s %s: input %s decoded without error but re-encodes to %s which is not a prefix of the input (%s)",
		a.name, m.kind, m.detail, hx(m.data), hx(re), why)
	return true
}
