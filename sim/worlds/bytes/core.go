// Package bytes is the BYTES world of the /verif simulator: the simulated fault
// is what a byte stream coming from a peer or a disk can do - end early, carry
// flipped bits, carry crafted length prefixes, be a splice of two messages.
// Real encoders produce the valid inputs, the mutation engine (mutate.go)
// corrupts them, the REAL decoders run on every mutant.
//
//	C12  pkg/scale decoder            (scale.go, scalecat.go, scaleart.go)
//	C33  network message decoders     (net.go)
//	C07  trie node codecs             (trie.go)
package bytes

import (
	"encoding/hex"
	"fmt"
	"os"
	"runtime"
	"runtime/debug"
	"runtime/metrics"
	"strings"
	"sync"
	"sync/atomic"
	"time"

	"github.com/ChainSafe/gossamer/verifsim/kernel"
)

// ---- strict / lenient ------------------------------------------------------

// Default is STRICT: every oracle failure stops the run and is reported.
// VERIF_BYTES_LENIENT=1 (and VERIF_BYTES_STRICT unset or != 1) continues past
// exactly the classes listed in knownClasses (confirmed genuine defects, see the
// report), counting them in probes known-class-hit:<class>, so that exploration
// can go on behind them. Anything else still stops the run.
//
// VERIF_BYTES_LENIENT=all is a discovery aid: it continues past EVERY class
// (probes class-hit:<oracle>/<class>); evidence produced that way proves nothing.
var (
	lenient    = (os.Getenv("VERIF_BYTES_LENIENT") == "1" || os.Getenv("VERIF_BYTES_LENIENT") == "all") && os.Getenv("VERIF_BYTES_STRICT") != "1"
	lenientAll = lenient && os.Getenv("VERIF_BYTES_LENIENT") == "all"
)

// knownClasses: property/oracle/class of confirmed genuine defects of the
// unchanged tree. Only consulted in lenient mode.
//
// Everything else found on first contact (D1 zero-filled truncated integers,
// D2 non-canonical big integers, D4 nil interface in pkg/scale, D5/D6 trie node
// decoder panics) has been fixed in /repo and is an ordinary violation again in
// every mode. Entries are "Cxx/<oracle>/<class>" or a prefix ending in *.
var knownClasses = map[string]bool{
	// K1/K2 (kept in /repo because a pinned RPC test needs them): pkg/scale
	// decodeBytes zero-fills a truncated byte string and makes the declared length
	// before reading. The same classes are registered in known_findings.json with
	// "continue": true; listing them here only makes VERIF_BYTES_LENIENT=1 behave
	// the same on a tree or findings file where they are not.
	"C12/reencode/truncated-byte-string-zero-filled":             true,
	"C12/alloc/alloc-byte-string-declared-length-preallocated":   true,
	"C33/alloc/alloc-byte-string-declared-length-preallocated:*": true,
	"C07/alloc/alloc-byte-string-declared-length-preallocated:*": true,
}

func known(prop, oracle, class string) bool {
	if knownClasses[prop+"/"+oracle+"/"+class] {
		return true
	}
	for p := range knownClasses {
		if strings.HasSuffix(p, "*") && strings.HasPrefix(prop+"/"+oracle+"/"+class, strings.TrimSuffix(p, "*")) {
			return true
		}
	}
	return false
}

// ---- per-run context -------------------------------------------------------

type ctx struct {
	k       *kernel.K
	prop    string
	mutants int
	seen    map[string]bool // known classes already logged in this run
	cont    map[string]bool // classes the kernel said to continue past (known finding, continue:true)
	allocC  uint64          // allowed allocation = allocC*len(input) + allocFloor
	held    func() string   // re-compares the node decoded from the intact encoding with the original ("" = still equal)
}

// allocFloor: constant part of the allocation bound. 128 KiB = twice the 64 KiB
// chunk in which pkg/scale now grows a byte string while reading it.
const allocFloor = 128 << 10

func newCtx(k *kernel.K, allocC uint64) *ctx {
	startWatchdog()
	return &ctx{k: k, prop: k.Prop, seen: map[string]bool{}, cont: map[string]bool{}, allocC: allocC}
}

func (c *ctx) finish() {
	c.k.Info["mutants"] = float64(c.mutants)
}

// report is the single exit for oracle failures.
func (c *ctx) report(oracle, class, format string, a ...any) {
	if lenientAll {
		c.k.Probe("class-hit:" + oracle + "/" + class)
		if traceOn && !c.seen[class] {
			c.seen[class] = true
			trace("CLASS %s/%s %s", oracle, class, fmt.Sprintf(format, a...))
		}
		return
	}
	if lenient && known(c.prop, oracle, class) {
		c.k.Probe("known-class-hit:" + class)
		if !c.seen[class] {
			c.seen[class] = true
			detail := fmt.Sprintf(format, a...)
			if oracle == "alloc" {
				// measured byte counts vary by a few bytes between processes; the
				// event log must be a pure function of the tape
				if i := strings.Index(detail, ": decoding allocated"); i > 0 {
					detail = detail[:i]
				}
			}
			c.k.Event("known", "%s/%s first hit in this run: %s", oracle, class, detail)
		}
		return
	}
	if c.cont[oracle+"/"+class] {
		// the kernel already said "known, continue" for this class in this run;
		// asking again costs a regexp pass over known_findings.json per hit
		c.k.Probe("known-finding-hit:" + class)
		c.k.KnownHits[c.prop+"/"+oracle+"/"+class]++
		return
	}
	c.finish()
	// k.Violate stops the run, unless the class is registered in
	// known_findings.json with "continue": true (then it is counted in
	// KnownHits and the run goes on: nothing was mutated by a failed decode).
	if c.k.Violate(c.prop, oracle, class, format, a...) {
		c.cont[oracle+"/"+class] = true
		c.k.Probe("known-finding-hit:" + class)
	}
}

func hx(b []byte) string {
	if len(b) <= 160 {
		return hex.EncodeToString(b)
	}
	return hex.EncodeToString(b[:120]) + fmt.Sprintf("...(%d bytes)...", len(b)) + hex.EncodeToString(b[len(b)-24:])
}

// ---- panic capture ---------------------------------------------------------

// readLimitExceeded is raised by the counting reader of trie.go when a decoder
// keeps calling Read far beyond what its input can justify (a loop that does not
// stop at end of input); guard reports it with site "read-limit".
type readLimitExceeded struct{ reads int }

// guard runs fn and reports a panic raised inside gossamer code as (true, value,
// site). The classification mirrors kernel.classifyPanic (first frame above the
// panic that is neither runtime nor a library decides). A panic raised by the
// harness itself is re-raised and ends as TROUBLE in the kernel.
func guard(fn func()) (panicked bool, val any, site string) {
	defer func() {
		r := recover()
		if r == nil {
			return
		}
		if rl, ok := r.(readLimitExceeded); ok {
			panicked, val, site = true, rl, "read-limit"
			return
		}
		st := string(debug.Stack())
		inG, s := classifyPanic(st)
		if !inG {
			panic(fmt.Sprintf("harness panic inside guard: %v at %s\n%s", r, s, st))
		}
		panicked, val, site = true, r, s
	}()
	fn()
	return
}

func classifyPanic(stack string) (inGossamer bool, site string) {
	lines := strings.Split(stack, "\n")
	start := 0
	for i, l := range lines {
		if strings.HasPrefix(l, "panic(") || strings.HasPrefix(l, "runtime.gopanic") {
			start = i + 2
		}
	}
	for i := start; i+1 < len(lines); i += 2 {
		fn := lines[i]
		file := strings.TrimSpace(lines[i+1])
		if strings.HasPrefix(fn, "runtime.") || strings.HasPrefix(fn, "runtime/") {
			continue
		}
		if strings.Contains(fn, "github.com/ChainSafe/gossamer/") &&
			!strings.Contains(fn, "/verifsim") && !strings.Contains(file, "zz_verif_") &&
			!strings.Contains(file, "/verif/sim/") {
			if j := strings.LastIndex(file, " +0x"); j > 0 {
				file = file[:j]
			}
			file = strings.TrimPrefix(file, "/repo/")
			return true, file
		}
		if strings.Contains(fn, "verifsim") || strings.Contains(file, "/verif/sim/") || strings.Contains(file, "zz_verif_") {
			return false, file
		}
	}
	return false, "?"
}

// ---- allocation measurement ------------------------------------------------
//
// Two stages. Stage 1 (every decode): runtime/metrics /gc/heap/allocs:bytes
// before and after - cheap, no stop-the-world; large objects (the thing looked
// for: a buffer preallocated from a declared length) are accounted at once,
// small objects when their span is swapped, so the value can only lag, never
// run ahead by more than a span. Stage 2 (only on suspicion): the decode is
// repeated between runtime.ReadMemStats calls (exact TotalAlloc, caches flushed
// by the stop-the-world) and must exceed the bound again; if that exact value is
// within 2x of the bound it is repeated once more and the smaller value counts. TotalAlloc is cumulative, so the collector running or not
// makes no difference. Measurements never enter the event log or the tape.

var allocSample = []metrics.Sample{{Name: "/gc/heap/allocs:bytes"}}

func allocNow() uint64 {
	metrics.Read(allocSample)
	return allocSample[0].Value.Uint64()
}

func allocExact(fn func()) uint64 {
	var a, b runtime.MemStats
	runtime.ReadMemStats(&a)
	fn()
	runtime.ReadMemStats(&b)
	return b.TotalAlloc - a.TotalAlloc
}

const hugeAlloc = 32 << 20

// measured runs fn (already guarded by the caller) and returns the confirmed
// allocation in excess of the bound, or 0.
func (c *ctx) measured(inLen int, fn func()) (excess uint64, exact uint64) {
	bound := c.allocC*uint64(inLen) + allocFloor
	a0 := allocNow()
	fn()
	d := allocNow() - a0
	if d <= bound {
		return 0, d
	}
	if d >= hugeAlloc {
		// Not repeated: 32 MiB is three orders of magnitude beyond anything the
		// measurement itself can add (nothing else runs between the two reads),
		// and repeating a giant allocation means first-touching it again.
		debug.FreeOSMemory()
		return d - bound, d
	}
	// suspicion: repeat with exact numbers; must reproduce.
	e1 := allocExact(fn)
	e := e1
	if e1 > bound && e1 < 2*bound {
		// marginal: take the smaller of two exact measurements
		if e2 := allocExact(fn); e2 < e {
			e = e2
		}
	}
	if d >= hugeAlloc || e >= hugeAlloc {
		debug.FreeOSMemory() // give a preallocated giant back at once (16 workers share the machine)
	}
	if e <= bound {
		c.k.Probe("alloc-suspicion-not-reproduced")
		return 0, e
	}
	return e - bound, e
}

// ---- hang watchdog ---------------------------------------------------------
//
// Decoders run on the run goroutine (so that panics keep their stack). A decode
// that never returns cannot be turned into a violation from inside; the
// watchdog prints the input and kills the process, which the orchestrator
// reports as TROUBLE with this text. 90 s inside one decode call is six orders
// of magnitude above the normal cost (and below the orchestrator's own 150 s
// worker watchdog, so that the input gets printed); CPU contention cannot trip it.

type inflight struct {
	what string
	data []byte
	seq  uint64
}

var (
	curDecode atomic.Pointer[inflight]
	decodeSeq atomic.Uint64
	wdOnce    sync.Once
)

func enter(what string, data []byte) {
	curDecode.Store(&inflight{what: what, data: data, seq: decodeSeq.Add(1)})
}
func leave() { curDecode.Store(nil) }

func startWatchdog() {
	wdOnce.Do(func() {
		go func() {
			// counts consecutive 2 s ticks that see the SAME decode in flight (ticks,
			// not wall time: a suspended VM or a clock step must not trip it)
			var last uint64
			ticks := 0
			for {
				time.Sleep(2 * time.Second)
				p := curDecode.Load()
				if p == nil {
					last, ticks = 0, 0
					continue
				}
				if p.seq != last {
					last, ticks = p.seq, 0
					continue
				}
				ticks++
				if ticks >= 45 {
					buf := make([]byte, 1<<20)
					buf = buf[:runtime.Stack(buf, true)]
					fmt.Fprintf(os.Stderr, "%s\nHANG world=bytes decoder=%s did not return within %d watchdog ticks of 2s; input=%s\n", buf, p.what, ticks, hex.EncodeToString(p.data))
					os.Exit(3)
				}
			}
		}()
	})
}

var traceOn = os.Getenv("VERIF_BYTES_TRACE") == "1"

// trace is a debugging aid (stderr only, never the event log).
func trace(format string, a ...any) {
	if traceOn {
		fmt.Fprintf(os.Stderr, time.Now().Format("15:04:05.000 ")+format+"\n", a...)
	}
}
