package bytes

import "github.com/ChainSafe/gossamer/verifsim/kernel"

func runNet(k *kernel.K)  {}
func runTrie(k *kernel.K) {}
