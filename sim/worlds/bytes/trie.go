package bytes

import (
	"bytes"
	stdbytes "bytes"
	"fmt"
	"io"
	"sort"

	"github.com/ChainSafe/gossamer/internal/database"
	"github.com/ChainSafe/gossamer/internal/primitives/core/hash"
	"github.com/ChainSafe/gossamer/lib/common"
	"github.com/ChainSafe/gossamer/pkg/trie"
	nibblecodec "github.com/ChainSafe/gossamer/pkg/trie/codec"
	"github.com/ChainSafe/gossamer/pkg/trie/inmemory"
	"github.com/ChainSafe/gossamer/pkg/trie/inmemory/proof"
	"github.com/ChainSafe/gossamer/pkg/trie/node"
	"github.com/ChainSafe/gossamer/pkg/trie/triedb"
	"github.com/ChainSafe/gossamer/pkg/trie/triedb/codec"
	"github.com/ChainSafe/gossamer/verifsim/kernel"
)

// ---- reference model of the node format (written from the Polkadot spec) -------
//
// header byte: 01xxxxxx leaf | 10xxxxxx branch | 11xxxxxx branch+value |
// 001xxxxx leaf+hashed value | 0001xxxx branch+hashed value | 00000000 empty;
// x = partial key length, all ones = add following bytes, each 255 continues.
// then (len+1)/2 key bytes; branch: 2-byte child bitmap; value: SCALE bytes or
// 32-byte hash; per bitmap bit: SCALE bytes (child hash or inlined child).

type refVariant struct {
	name          string
	bits, lenMask byte
	branch        bool
	value         int // 0 none, 1 inline, 2 hashed
}

var refVariants = []refVariant{
	{"leaf", 0x40, 0x3f, false, 1},
	{"branch", 0x80, 0x3f, true, 0},
	{"branch-with-value", 0xc0, 0x3f, true, 1},
	{"leaf-hashed", 0x20, 0x1f, false, 2},
	{"branch-hashed", 0x10, 0x0f, true, 2},
}

func refVariantOf(h byte) *refVariant {
	switch {
	case h>>6 == 1:
		return &refVariants[0]
	case h>>6 == 2:
		return &refVariants[1]
	case h>>6 == 3:
		return &refVariants[2]
	case h>>5 == 1:
		return &refVariants[3]
	case h>>4 == 1:
		return &refVariants[4]
	}
	return nil
}

// refHeader encodes a header for a partial key of n nibbles.
func refHeader(v *refVariant, n int) []byte {
	if n < int(v.lenMask) {
		return []byte{v.bits | byte(n)}
	}
	out := []byte{v.bits | v.lenMask}
	n -= int(v.lenMask)
	for {
		if n < 255 {
			return append(out, byte(n))
		}
		out = append(out, 255)
		n -= 255
	}
}

// refNodeScan walks a (possibly malformed) node encoding as far as it is well
// formed and returns the compact length prefixes it met and whether a byte
// string declares a giant length (see giantDecl).
func refNodeScan(in []byte) (comp []compactPos, giant bool) {
	comp, giant, _ = refNodeScanDepth(in, 0)
	return
}

// refNodeDeclShort: a SCALE byte string of the node (storage value, child
// reference, also inside an inlined child) declares more bytes than follow.
func refNodeDeclShort(in []byte) bool {
	_, _, d := refNodeScanDepth(in, 0)
	return d
}

func refNodeScanDepth(in []byte, depth int) (comp []compactPos, giant, declShort bool) {
	if len(in) == 0 || depth > 4 {
		return
	}
	v := refVariantOf(in[0])
	if v == nil {
		return
	}
	p := 1
	n := int(in[0] & v.lenMask)
	if n == int(v.lenMask) {
		for {
			if p >= len(in) {
				return
			}
			b := in[p]
			p++
			n += int(b)
			if n > 65535 {
				return
			}
			if b < 255 {
				break
			}
		}
	}
	p += (n + 1) / 2
	if p > len(in) {
		return
	}
	var bitmap uint16
	if v.branch {
		if p+2 > len(in) {
			return
		}
		bitmap = uint16(in[p]) | uint16(in[p+1])<<8
		p += 2
	}
	bytesLeaf := func(child bool) bool {
		w := &walker{in: in, pos: p}
		l, ok := w.compact("compact-uint", 8, true)
		if !ok {
			return false
		}
		s := w.segs[len(w.segs)-1]
		comp = append(comp, compactPos{off: s.off, n: s.n, val: s.val, isLen: true})
		if l >= giantDecl {
			giant = true
		}
		p = w.pos
		if child && l > 0 && l < 32 {
			// an inlined child is itself a node (node.Decode decodes it recursively; a
			// short read is zero-filled by the decoder under test)
			sub := make([]byte, l)
			if p < len(in) {
				copy(sub, in[p:])
			}
			_, g, d := refNodeScanDepth(sub, depth+1)
			giant, declShort = giant || g, declShort || d
		}
		if uint64(len(in)-p) < l {
			declShort = true
			return false
		}
		p += int(l)
		return true
	}
	switch v.value {
	case 1:
		if !bytesLeaf(false) {
			return
		}
	case 2:
		p += 32
		if p > len(in) {
			return
		}
	}
	for i := 0; i < 16; i++ {
		if bitmap>>i&1 == 1 {
			if !bytesLeaf(true) {
				return
			}
		}
	}
	return
}

// ---- inputs ---------------------------------------------------------------------

var keyLens = []int{0, 1, 2, 14, 15, 16, 30, 31, 32, 61, 62, 63, 64, 65, 269, 270, 271, 285, 286, 287, 317, 318, 319, 572, 573, 574}

func nibblesOf(k *kernel.K, n int, l string) []byte {
	pat := k.Bytes(4, l)
	out := make([]byte, n)
	for i := range out {
		out[i] = (pat[i%4] + byte(i/4)) & 0x0f
	}
	return out
}

func valueOf(k *kernel.K, l string) []byte {
	n := []int{0, 1, 5, 31, 32, 33, 64, 100}[k.Choose(8, l+"len")]
	return fill(k, n, l)
}

// directNode constructs a node by hand: leaf or branch, with/without value,
// inline or to-be-hashed value, partial key length around the header boundaries.
func directNode(k *kernel.K, l string, depth int) *node.Node {
	n := &node.Node{Dirty: true}
	kl := keyLens[k.Choose(len(keyLens), l+"keylen")]
	if depth == 0 && k.Tier == "thorough" && k.Bool(1, 50, l+"maxkey") {
		kl = 65535
		k.Probe("partial-key-65535-nibbles")
	}
	if depth > 0 {
		kl = []int{0, 1, 2, 5, 63, 64}[k.Choose(6, l+"ckeylen")]
	}
	n.PartialKey = nibblesOf(k, kl, l+"key")
	branch := k.Bool(1, 2, l+"branch")
	if depth >= 2 {
		branch = false
	}
	if !branch || k.Bool(2, 3, l+"hasvalue") {
		n.StorageValue = valueOf(k, l+"val")
		if k.Bool(1, 3, l+"hashed") {
			n.MustBeHashed = true
		}
	}
	if branch {
		n.Children = make([]*node.Node, node.ChildrenCapacity)
		bitmap := 0
		switch k.Choose(4, l+"fanout") {
		case 0:
			bitmap = 1 << k.Choose(16, l+"one")
		case 1:
			bitmap = k.Choose(1<<16, l+"bitmap")
		case 2:
			bitmap = 0xffff
		case 3:
			bitmap = 1<<k.Choose(16, l+"a") | 1<<k.Choose(16, l+"b")
		}
		for i := 0; i < 16; i++ {
			if bitmap>>i&1 == 1 {
				n.Children[i] = directNode(k, fmt.Sprintf("%sc%d", l, i), depth+2-k.Choose(2, l+"deeper"))
				n.Descendants += 1 + n.Children[i].Descendants
			}
		}
	}
	return n
}

func encodeNode(n *node.Node) []byte {
	buf := stdbytes.NewBuffer(nil)
	if err := n.Encode(buf); err != nil {
		panic(fmt.Sprintf("harness: node.Encode refused a constructed node: %v", err))
	}
	return append([]byte(nil), buf.Bytes()...)
}

// mapDB is a byte-string map behind the interfaces WriteDirty and proof.Generate need.
type mapDB struct{ m map[string][]byte }
type mapBatch struct {
	db  *mapDB
	ops [][2][]byte
}

func (d *mapDB) Get(key []byte) ([]byte, error) {
	v, ok := d.m[string(key)]
	if !ok {
		return nil, fmt.Errorf("key not found")
	}
	return v, nil
}
func (d *mapDB) NewBatch() database.Batch { return &mapBatch{db: d} }
func (b *mapBatch) Put(key, value []byte) error {
	b.ops = append(b.ops, [2][]byte{append([]byte(nil), key...), append([]byte(nil), value...)})
	return nil
}
func (b *mapBatch) Del(key []byte) error {
	b.ops = append(b.ops, [2][]byte{append([]byte(nil), key...), nil})
	return nil
}
func (b *mapBatch) Flush() error {
	for _, op := range b.ops {
		if op[1] == nil {
			delete(b.db.m, string(op[0]))
		} else {
			b.db.m[string(op[0])] = op[1]
		}
	}
	b.ops = nil
	return nil
}
func (b *mapBatch) Close() error   { return nil }
func (b *mapBatch) ValueSize() int { return len(b.ops) }
func (b *mapBatch) Reset()         { b.ops = nil }

// harvested is one real node with its encoding.
type harvested struct {
	what string
	n    *node.Node // nil for proof nodes and triedb-encoded nodes
	enc  []byte
	// raw: a proof entry that is not a node encoding but the storage value a
	// V1 node only carries the hash of (proofs ship such values as separate
	// entries, as Substrate's do). Arbitrary bytes for the decoders: robustness
	// applies, the round trip does not.
	raw bool
}

// harvest builds a real in-memory trie from tape contents and collects the
// encodings of all its nodes (node.Encode) and of proof nodes (proof.Generate
// over the database written by WriteDirty).
func harvest(k *kernel.K) []harvested {
	t := inmemory.NewEmptyTrie()
	ver := "v0"
	if k.Bool(1, 2, "v1") {
		t.SetVersion(trie.V1)
		ver = "v1"
	}
	nk := k.Range(1, 24, "keys")
	prefixes := [][]byte{{}, k.Bytes(1, "pfx1"), k.Bytes(3, "pfx3"), fill(k, 32, "pfx32")}
	var keys [][]byte
	for i := 0; i < nk; i++ {
		key := append(append([]byte(nil), prefixes[k.Choose(len(prefixes), "pfx")]...), k.Bytes(k.Choose(4, "keytail"), "key")...)
		if k.Bool(1, 10, "longkey") {
			key = append(key, fill(k, []int{29, 30, 31, 32, 160}[k.Choose(5, "longlen")], "long")...)
		}
		if err := t.Put(key, valueOf(k, "val")); err != nil {
			panic(err)
		}
		keys = append(keys, key)
	}
	// the nodes of a state are the product of a history: some keys are deleted again (a branch that
	// loses its value stays a branch while two keys remain below it), some values replaced
	for i := k.Choose(5, "later-changes"); i > 0 && len(keys) > 1; i-- {
		j := k.Choose(len(keys), "changed-key")
		if k.Bool(1, 3, "overwrite") {
			if err := t.Put(keys[j], valueOf(k, "val2")); err != nil {
				panic(err)
			}
			continue
		}
		others := 0
		for _, o := range keys {
			if !bytes.Equal(o, keys[j]) {
				others++
			}
		}
		if others == 0 {
			continue // keep at least one key: an empty trie has no node to harvest
		}
		if err := t.Delete(keys[j]); err != nil {
			panic(err)
		}
		for x := len(keys) - 1; x >= 0; x-- { // the same key may have been put twice
			if bytes.Equal(keys[x], keys[j]) && x != j {
				keys = append(keys[:x], keys[x+1:]...)
				if x < j {
					j--
				}
			}
		}
		keys = append(keys[:j], keys[j+1:]...)
		k.Probe("harvested-after-deletions")
	}
	var out []harvested
	var rec func(n *node.Node, path string)
	rec = func(n *node.Node, path string) {
		if n == nil {
			return
		}
		out = append(out, harvested{what: ver + " trie node " + path, n: n, enc: encodeNode(n)})
		for i, c := range n.Children {
			if c != nil {
				rec(c, fmt.Sprintf("%s%x", path, i))
			}
		}
	}
	rec(t.RootNode(), "/")
	db := &mapDB{m: map[string][]byte{}}
	if err := t.WriteDirty(db); err != nil {
		panic(err)
	}
	root := t.MustHash()
	nproof := k.Range(1, 3, "proofkeys")
	var pk [][]byte
	if len(keys) == 0 { // everything was deleted again: nothing to prove
		return out
	}
	for i := 0; i < nproof; i++ {
		pk = append(pk, keys[k.Choose(len(keys), "proofkey")])
	}
	// what a proof entry may be besides a node encoding: the value of a V1
	// node that is too long to be inlined (harness criterion, spec threshold:
	// more than 32 bytes), which the node encoding replaces by its hash
	nodeEncs, hashedValues := map[string]bool{}, map[string]bool{}
	for _, h := range out {
		nodeEncs[string(h.enc)] = true
		if ver == "v1" && len(h.n.StorageValue) > 32 {
			hashedValues[string(h.n.StorageValue)] = true
		}
	}
	if nodes, err := proof.Generate(root[:], pk, db); err == nil {
		for i, e := range nodes {
			switch {
			case nodeEncs[string(e)]:
				k.Probe("proof-entry-is-trie-node")
			case hashedValues[string(e)]:
				k.Probe("proof-entry-is-raw-hashed-value")
				out = append(out, harvested{what: fmt.Sprintf("%s proof raw hashed value %d", ver, i), enc: e, raw: true})
				continue
			default:
				// neither: still has to decode as a node (round trip below)
				k.Probe("proof-entry-unknown")
			}
			out = append(out, harvested{what: fmt.Sprintf("%s proof node %d", ver, i), enc: e})
		}
	} else {
		k.Probe("proof-generate-failed")
	}
	// (The database written by WriteDirty holds exactly the encodings collected
	// above, under their hashes, plus - for V1 - raw hashed values under partial
	// key + value hash, which are not nodes; nothing more to harvest there.)
	return out
}

// triedbEncoded builds node encodings with the triedb side encoders.
func triedbEncoded(k *kernel.K, l string) harvested {
	kl := keyLens[k.Choose(len(keyLens), l+"keylen")]
	nib := nibblesOf(k, kl, l+"key")
	packed := nibblecodec.NibblesToKeyLE(nib)
	var val codec.EncodedValue
	switch k.Choose(3, l+"valkind") {
	case 0:
		val = codec.InlineValue(valueOf(k, l+"val"))
	case 1:
		val = codec.HashedValue[hash.H256]{Hash: hash.H256(fill(k, 32, l+"vh"))}
	}
	buf := stdbytes.NewBuffer(nil)
	if val != nil && k.Bool(1, 2, l+"leaf") {
		if err := triedb.NewEncodedLeaf(packed, uint(kl), val, buf); err != nil {
			panic(err)
		}
		return harvested{what: "triedb.NewEncodedLeaf", enc: buf.Bytes()}
	}
	var ch [codec.ChildrenCapacity]triedb.ChildReference
	bitmap := k.Choose(1<<16, l+"bitmap")
	for i := 0; i < 16; i++ {
		if bitmap>>i&1 == 1 {
			if k.Bool(1, 2, l+"inline") {
				ch[i] = triedb.InlineChildReference(encodeNode(&node.Node{PartialKey: nibblesOf(k, k.Choose(4, l+"ck"), l+"ckey"), StorageValue: fill(k, k.Choose(8, l+"cv"), l+"cval")}))
			} else {
				ch[i] = triedb.HashChildReference[hash.H256]{Hash: hash.H256(fill(k, 32, l+"ch"))}
			}
		}
	}
	if err := triedb.NewEncodedBranch(packed, uint(kl), ch, val, buf); err != nil {
		panic(err)
	}
	return harvested{what: "triedb.NewEncodedBranch", enc: buf.Bytes()}
}

// ---- decoders under test ----------------------------------------------------------

type countingReader struct {
	r     io.Reader
	reads int
	limit int
}

func (c *countingReader) Read(p []byte) (int, error) {
	c.reads++
	if c.reads > c.limit {
		panic(readLimitExceeded{c.reads})
	}
	return c.r.Read(p)
}

type trieDecoder struct {
	name   string
	decode func(r io.Reader) (any, error)
}

var trieDecoders = []trieDecoder{
	{"node.Decode", func(r io.Reader) (any, error) { return node.Decode(r) }},
	{"triedb/codec.Decode", func(r io.Reader) (any, error) { return codec.Decode[hash.H256](r) }},
}

func runTrie(k *kernel.K) {
	c := newCtx(k, 64)
	defer c.finish()
	var h, other harvested
	switch k.Choose(4, "source") {
	case 0, 1:
		hs := harvest(k)
		h = hs[k.Choose(len(hs), "pick")]
		other = hs[k.Choose(len(hs), "pick2")]
	case 2:
		n := directNode(k, "n", 0)
		h = harvested{what: "constructed node", n: n, enc: encodeNode(n)}
		o := directNode(k, "o", 1)
		other = harvested{what: "constructed node", n: o, enc: encodeNode(o)}
	default:
		h = triedbEncoded(k, "t")
		other = triedbEncoded(k, "u")
	}
	v := refVariantOf(h.enc[0])
	vn := "empty"
	if v != nil {
		vn = v.name
	}
	k.Event("node:"+vn, "%s len=%d enc=%s", h.what, len(h.enc), hx(h.enc))
	trace("run %d %s %s len=%d", k.RunIx, h.what, vn, len(h.enc))

	// round trip of the intact encoding; a raw value shipped in a proof is not
	// a node encoding, for it only "a node or an error, no panic" is demanded
	if h.raw {
		c.mutants++
		k.Faults["random"]++
		c.checkTrie(mutant{kind: "random", detail: "raw hashed value of a proof, intact", data: h.enc})
	} else {
		c.roundTrip(h)
	}

	comp, _ := refNodeScan(h.enc)
	stats := map[string][2]int{}
	each := func(m mutant) {
		c.mutants++
		k.Faults[m.kind]++
		k.Nontriv = true
		ok := c.checkTrie(m)
		s := stats[m.kind]
		if ok {
			s[0]++
		} else {
			s[1]++
		}
		stats[m.kind] = s
	}
	maxFlips := 64
	if len(h.enc) > 8192 {
		maxFlips = 16
	}
	forEachMutant(k, mutCfg{enc: h.enc, other: other.enc, compacts: comp, maxFlips: maxFlips}, each)
	// every value of the header byte in front of the rest
	for b := 0; b < 256; b++ {
		if byte(b) != h.enc[0] {
			m := append([]byte{byte(b)}, h.enc[1:]...)
			each(mutant{"header", fmt.Sprintf("header=%02x", b), m})
		}
	}
	// crafted partial key lengths: the header announces n nibbles, the rest stays
	if v != nil {
		_, rest := splitHeader(h.enc, v)
		for _, rv := range refVariants {
			rv := rv
			for _, n := range []int{0, 1, int(rv.lenMask) - 1, int(rv.lenMask), int(rv.lenMask) + 1, int(rv.lenMask) + 254, int(rv.lenMask) + 255, int(rv.lenMask) + 256,
				int(rv.lenMask) + 510, 65534, 65535} {
				each(mutant{"keylen", fmt.Sprintf("%s announces %d nibbles", rv.name, n), append(refHeader(&rv, n), rest...)})
			}
			// beyond 65535 and never-ending continuation bytes
			over := append([]byte{rv.bits | rv.lenMask}, stdbytes.Repeat([]byte{255}, 257)...)
			each(mutant{"keylen", rv.name + " 257 continuation bytes + rest", append(append(over, 200), rest...)})
			each(mutant{"keylen", rv.name + " continuation bytes to the end", over[:1+k.Range(1, 256, "contbytes")]})
		}
	}
	if c.held != nil {
		// the intact encoding of the other harvested node goes through the decoder as well (a damaged
		// input mostly fails before it gets as far as a value)
		if !other.raw {
			guard(func() { _, _ = node.Decode(stdbytes.NewReader(other.enc)) })
		}
		if diff := c.held(); diff != "" {
			c.report("roundtrip", "decoded-node-changed-by-later-decodes:node.Decode", "%s: the node decoded from the intact encoding no longer equals the original after %d further decodes: %s; encoding %s", h.what, c.mutants, diff, hx(h.enc))
		}
		k.Probe("held-decoded-node-rechecked")
	}
	kinds := make([]string, 0, len(stats))
	for kd := range stats {
		kinds = append(kinds, kd)
	}
	sort.Strings(kinds)
	sum := ""
	for _, kd := range kinds {
		s := stats[kd]
		k.Event(kd, "decoded=%d rejected=%d", s[0], s[1])
		sum += fmt.Sprintf("%s:%d/%d ", kd, s[0], s[1])
	}
	k.Mix(vn + " " + sum)
}

// splitHeader separates the header (first byte + key length bytes) from the rest.
func splitHeader(enc []byte, v *refVariant) (hdr, rest []byte) {
	p := 1
	if enc[0]&v.lenMask == v.lenMask {
		for p < len(enc) {
			b := enc[p]
			p++
			if b < 255 {
				break
			}
		}
	}
	return enc[:p], enc[p:]
}

// checkTrie: C07 robustness oracle for one input, both decoders.
//
//	a node or an error; no panic; no hang (watchdog + read-call bound);
//	allocation delta <= 64*len(input) + 128 KiB.
func (c *ctx) checkTrie(m mutant) bool {
	// every kind of input: a truncation of a node whose value bytes end in ff.. can move such bytes into
	// the place of a length (thorough seeds 4 and 8: a declared gigabyte, two decoders, 90 s of page faults)
	if _, giant := refNodeScan(m.data); giant {
		c.k.Probe("not-executed-giant-declaration")
		return false
	}
	decoded := false
	for _, d := range trieDecoders {
		d := d
		var err error
		var pan bool
		var pval any
		var site string
		reads := 0
		call := func() {
			cr := &countingReader{r: stdbytes.NewReader(m.data), limit: 16*len(m.data) + 1024}
			enter(d.name, m.data)
			pan, pval, site = guard(func() { _, err = d.decode(cr) })
			leave()
			reads = cr.reads
		}
		excess, exact := c.measured(len(m.data), call)
		if pan && site == "read-limit" {
			c.report("work", "reads-not-bounded-by-input:"+d.name, "%s: %s %s: input %s (%d bytes): more than 16*len+1024 Read calls - the decoder does not stop at the end of its input", d.name, m.kind, m.detail, hx(m.data), len(m.data))
			continue
		}
		if pan {
			c.report("panic", "panic@"+site, "%s: %s %s: input %s: panic: %v", d.name, m.kind, m.detail, hx(m.data), pval)
			continue
		}
		if excess > 0 {
			cls := "alloc-exceeds-linear-bound:" + d.name
			if refNodeDeclShort(m.data) {
				// K2: storage value / child reference decoded by pkg/scale decodeBytes
				cls = "alloc-byte-string-declared-length-preallocated:" + d.name
			}
			c.report("alloc", cls, "%s: %s %s: input %s (%d bytes): decoding allocated %d bytes, bound 64*len+128KiB = %d (err=%v)",
				d.name, m.kind, m.detail, hx(m.data), len(m.data), exact, 64*len(m.data)+allocFloor, err)
		}
		_ = reads
		if err == nil {
			decoded = true
		}
	}
	return decoded
}

// roundTrip: C07 first half - the encoding decodes back to an equivalent node
// (same partial key, same value or value hash and hashed flag, same children).
func (c *ctx) roundTrip(h harvested) {
	k := c.k
	var dn *node.Node
	var err error
	if p, v, site := guard(func() { dn, err = node.Decode(stdbytes.NewReader(h.enc)) }); p {
		c.report("panic", "panic@"+site, "node.Decode: panic on the INTACT encoding of a %s %s: %v", h.what, hx(h.enc), v)
		return
	}
	if err != nil {
		c.report("roundtrip", "valid-encoding-rejected:node.Decode", "node.Decode refuses the encoding of a %s: %v; encoding %s", h.what, err, hx(h.enc))
	} else if h.n != nil {
		if diff := nodeDiff(h.n, dn, true); diff != "" {
			c.report("roundtrip", "decoded-node-differs:node.Decode", "%s: node.Decode(Encode(n)) differs: %s; encoding %s", h.what, diff, hx(h.enc))
		} else {
			k.Event("roundtrip-ok", "node.Decode")
			// whoever decodes a node keeps it (a proof trie is built from decoded nodes): it must still be
			// that node after the decoder has been used for other inputs
			held, orig := dn, h.n
			c.held = func() string { return nodeDiff(orig, held, true) }
		}
	}
	var cn codec.EncodedNode
	if p, v, site := guard(func() { cn, err = codec.Decode[hash.H256](stdbytes.NewReader(h.enc)) }); p {
		c.report("panic", "panic@"+site, "triedb/codec.Decode: panic on the INTACT encoding of a %s %s: %v", h.what, hx(h.enc), v)
		return
	}
	if err != nil {
		c.report("roundtrip", "valid-encoding-rejected:triedb/codec.Decode", "triedb/codec.Decode refuses the encoding of a %s: %v; encoding %s", h.what, err, hx(h.enc))
	} else if h.n != nil {
		if diff := codecDiff(h.n, cn); diff != "" {
			c.report("roundtrip", "decoded-node-differs:triedb/codec.Decode", "%s: codec.Decode(Encode(n)) differs: %s; encoding %s", h.what, diff, hx(h.enc))
		} else {
			k.Event("roundtrip-ok", "triedb/codec.Decode")
		}
	}
	// both decoders must at least agree on what the bytes mean when no original is at hand
	if h.n == nil && err == nil && dn != nil && cn != nil {
		if diff := codecDiff(asOriginal(dn), cn); diff != "" {
			k.Probe("decoders-disagree") // not claimed by C07 (DESIGN: equivalence of the two codecs is not claimed)
		}
	}
}

func blake(b []byte) []byte { h := common.MustBlake2bHash(b); return h[:] }

// nodeDiff compares an original node with the result of node.Decode of its encoding.
func nodeDiff(o, d *node.Node, top bool) string {
	if d == nil {
		return "decoded to the empty node"
	}
	if !stdbytes.Equal(o.PartialKey, d.PartialKey) {
		return fmt.Sprintf("partial key: %d nibbles %x... became %d nibbles %x...", len(o.PartialKey), head(o.PartialKey), len(d.PartialKey), head(d.PartialKey))
	}
	if (o.Children != nil) != (d.Children != nil) {
		return fmt.Sprintf("kind: branch=%v became branch=%v", o.Children != nil, d.Children != nil)
	}
	switch {
	case o.StorageValue == nil:
		if d.StorageValue != nil || d.IsHashedValue {
			return "no value became a value"
		}
	case o.MustBeHashed:
		if !d.IsHashedValue || !stdbytes.Equal(d.StorageValue, blake(o.StorageValue)) {
			return fmt.Sprintf("hashed value: want hash %x, got hashed=%v %x", blake(o.StorageValue), d.IsHashedValue, d.StorageValue)
		}
	default:
		if d.IsHashedValue || d.StorageValue == nil || !stdbytes.Equal(d.StorageValue, o.StorageValue) {
			return fmt.Sprintf("inline value %x became hashed=%v %x (nil=%v)", o.StorageValue, d.IsHashedValue, d.StorageValue, d.StorageValue == nil)
		}
	}
	for i := range o.Children {
		oc, dc := o.Children[i], d.Children[i]
		if (oc == nil) != (dc == nil) {
			return fmt.Sprintf("child %d: present=%v became present=%v", i, oc != nil, dc != nil)
		}
		if oc == nil {
			continue
		}
		enc := encodeNode(oc)
		if len(enc) < 32 {
			if diff := nodeDiff(oc, dc, false); diff != "" {
				return fmt.Sprintf("inlined child %d: %s", i, diff)
			}
		} else if !stdbytes.Equal(dc.MerkleValue, blake(enc)) {
			return fmt.Sprintf("child %d: hash %x became %x", i, blake(enc), dc.MerkleValue)
		}
	}
	return ""
}

func head(b []byte) []byte {
	if len(b) > 8 {
		return b[:8]
	}
	return b
}

// asOriginal turns a decoded node into the shape nodeDiff/codecDiff expect of an
// original (hashed values carry the hash already).
func asOriginal(d *node.Node) *node.Node { return d }

// codecDiff compares an original node with the triedb codec's view of its encoding.
func codecDiff(o *node.Node, e codec.EncodedNode) string {
	var pk []byte
	var val codec.EncodedValue
	var children *[codec.ChildrenCapacity]codec.MerkleValue
	switch n := e.(type) {
	case codec.Leaf:
		for i := uint(0); i < n.PartialKey.Len(); i++ {
			pk = append(pk, n.PartialKey.At(i))
		}
		val = n.Value
		if o.Children != nil {
			return "branch became leaf"
		}
	case codec.Branch:
		for i := uint(0); i < n.PartialKey.Len(); i++ {
			pk = append(pk, n.PartialKey.At(i))
		}
		val = n.Value
		children = &n.Children
		if o.Children == nil {
			return "leaf became branch"
		}
	default:
		return fmt.Sprintf("decoded to %T", e)
	}
	if !stdbytes.Equal(o.PartialKey, pk) {
		return fmt.Sprintf("partial key: %d nibbles %x... became %d nibbles %x...", len(o.PartialKey), head(o.PartialKey), len(pk), head(pk))
	}
	hashedOrig := o.MustBeHashed || o.IsHashedValue
	switch {
	case o.StorageValue == nil:
		if val != nil {
			return "no value became a value"
		}
	case hashedOrig:
		want := o.StorageValue
		if o.MustBeHashed {
			want = blake(o.StorageValue)
		}
		hv, ok := val.(codec.HashedValue[hash.H256])
		if !ok || !stdbytes.Equal(hv.Hash.Bytes(), want) {
			return fmt.Sprintf("hashed value %x became %#v", want, val)
		}
	default:
		iv, ok := val.(codec.InlineValue)
		if !ok || !stdbytes.Equal([]byte(iv), o.StorageValue) {
			return fmt.Sprintf("inline value %x became %#v", o.StorageValue, val)
		}
	}
	if children != nil {
		for i := range o.Children {
			oc, dc := o.Children[i], children[i]
			if (oc == nil) != (dc == nil) {
				return fmt.Sprintf("child %d: present=%v became present=%v", i, oc != nil, dc != nil)
			}
			if oc == nil {
				continue
			}
			var mv []byte
			if oc.MerkleValue != nil && oc.PartialKey == nil && oc.StorageValue == nil && oc.Children == nil {
				mv = oc.MerkleValue // a decoded hash-only child
			} else if enc := encodeNode(oc); len(enc) < 32 {
				mv = enc
			} else {
				mv = blake(enc)
			}
			switch x := dc.(type) {
			case codec.InlineNode:
				if len(mv) >= 32 {
					return fmt.Sprintf("child %d: a hash reference became an inlined node", i)
				}
				if !stdbytes.Equal([]byte(x), mv) {
					return fmt.Sprintf("inlined child %d: %x became %x", i, mv, []byte(x))
				}
			case codec.HashedNode[hash.H256]:
				if len(mv) < 32 {
					return fmt.Sprintf("child %d: an inlined node became a hash reference", i)
				}
				if !stdbytes.Equal(x.Hash.Bytes(), mv) {
					return fmt.Sprintf("child %d: hash %x became %x", i, mv, x.Hash.Bytes())
				}
			}
		}
	}
	return ""
}
