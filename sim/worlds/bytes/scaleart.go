package bytes

import (
	"reflect"

	"github.com/ChainSafe/gossamer/dot/network"
	"github.com/ChainSafe/gossamer/dot/types"
	"github.com/ChainSafe/gossamer/lib/common"
	"github.com/ChainSafe/gossamer/lib/crypto/ed25519"
	"github.com/ChainSafe/gossamer/lib/grandpa"
	"github.com/ChainSafe/gossamer/pkg/scale"
	"github.com/ChainSafe/gossamer/verifsim/kernel"
)

// Real gossamer wire/disk artifacts, built with the real types, constructors
// and encoders from tape contents.

func hashOf(k *kernel.K, label string) common.Hash { return common.Hash(arr32(k, label)) }

func babePreDigest(k *kernel.K, l string) types.PreRuntimeDigest {
	var pd *types.PreRuntimeDigest
	var err error
	ai, slot := uint32(u64(k, l+"ai")), u64(k, l+"slot")
	switch k.Choose(3, l+"kind") {
	case 0:
		pd, err = types.NewBabePrimaryPreDigest(ai, slot, arr32(k, l+"out"), arr64(k, l+"proof")).ToPreRuntimeDigest()
	case 1:
		pd, err = types.NewBabeSecondaryPlainPreDigest(ai, slot).ToPreRuntimeDigest()
	default:
		pd, err = types.NewBabeSecondaryVRFPreDigest(ai, slot, arr32(k, l+"out"), arr64(k, l+"proof")).ToPreRuntimeDigest()
	}
	if err != nil {
		panic(err)
	}
	return *pd
}

func grandpaAuthsRaw(k *kernel.K, l string) []types.GrandpaAuthoritiesRaw {
	n := k.Choose(4, l+"n")
	out := make([]types.GrandpaAuthoritiesRaw, n)
	for i := range out {
		out[i] = types.GrandpaAuthoritiesRaw{Key: arr32(k, l+"key"), ID: u64(k, l+"id")}
	}
	return out
}

func authsRaw(k *kernel.K, l string) []types.AuthorityRaw {
	n := k.Choose(4, l+"n")
	out := make([]types.AuthorityRaw, n)
	for i := range out {
		out[i] = types.AuthorityRaw{Key: arr32(k, l+"key"), Weight: u64(k, l+"w")}
	}
	return out
}

func grandpaConsensusDigest(k *kernel.K, l string) types.GrandpaConsensusDigest {
	d := types.NewGrandpaConsensusDigest()
	var err error
	switch k.Choose(5, l+"kind") {
	case 0:
		err = d.SetValue(types.GrandpaScheduledChange{Auths: grandpaAuthsRaw(k, l), Delay: uint32(u64(k, l+"delay"))})
	case 1:
		err = d.SetValue(types.GrandpaForcedChange{BestFinalizedBlock: uint32(u64(k, l+"bfb")), Auths: grandpaAuthsRaw(k, l), Delay: uint32(u64(k, l+"delay"))})
	case 2:
		err = d.SetValue(types.GrandpaOnDisabled{ID: u64(k, l+"id")})
	case 3:
		err = d.SetValue(types.GrandpaPause{Delay: uint32(u64(k, l+"delay"))})
	default:
		err = d.SetValue(types.GrandpaResume{Delay: uint32(u64(k, l+"delay"))})
	}
	if err != nil {
		panic(err)
	}
	return d
}

func babeConsensusDigest(k *kernel.K, l string) types.BabeConsensusDigest {
	d := types.NewBabeConsensusDigest()
	var err error
	switch k.Choose(3, l+"kind") {
	case 0:
		err = d.SetValue(types.NextEpochData{Authorities: authsRaw(k, l), Randomness: arr32(k, l+"rand")})
	case 1:
		err = d.SetValue(types.BABEOnDisabled{ID: uint32(u64(k, l+"id"))})
	default:
		v := types.VersionedNextConfigData{}
		if err = v.SetValue(types.NextConfigDataV1{C1: u64(k, l+"c1"), C2: u64(k, l+"c2"), SecondarySlots: byte(k.Choose(3, l+"ss"))}); err == nil {
			err = d.SetValue(v)
		}
	}
	if err != nil {
		panic(err)
	}
	return d
}

func digestOf(k *kernel.K, l string) types.Digest {
	d := types.NewDigest()
	n := k.Choose(5, l+"items")
	for i := 0; i < n; i++ {
		var err error
		switch k.Choose(5, l+"item") {
		case 0:
			err = d.Add(babePreDigest(k, l+"pre"))
		case 1:
			err = d.Add(types.ConsensusDigest{ConsensusEngineID: types.GrandpaEngineID, Data: mustMarshal(grandpaConsensusDigest(k, l+"gcd"))})
		case 2:
			err = d.Add(types.ConsensusDigest{ConsensusEngineID: types.BabeEngineID, Data: mustMarshal(babeConsensusDigest(k, l+"bcd"))})
		case 3:
			err = d.Add(types.SealDigest{ConsensusEngineID: types.BabeEngineID, Data: fill(k, 64, l+"seal")})
		default:
			err = d.Add(types.RuntimeEnvironmentUpdated{})
		}
		if err != nil {
			panic(err)
		}
	}
	return d
}

// blockNumber stays inside what the real encoder/decoder pair supports for a
// compact uint (see the report: 2^32..2^56-1 is encoded but not decodable).
func blockNumber(k *kernel.K, l string) uint {
	return uint([]uint64{0, 1, 63, 64, 16383, 16384, 1<<30 - 1, 1 << 30, 1<<32 - 1, 20_000_000}[k.Choose(10, l)])
}

func headerOf(k *kernel.K, l string) *types.Header {
	return types.NewHeader(hashOf(k, l+"parent"), hashOf(k, l+"state"), hashOf(k, l+"ext"), blockNumber(k, l+"num"), digestOf(k, l+"dig"))
}

func bodyOf(k *kernel.K, l string) *types.Body {
	n := k.Choose(4, l+"n")
	exts := make([]types.Extrinsic, n)
	for i := range exts {
		exts[i] = fill(k, blen(k, l+"len", false), l+"ext")
	}
	return types.NewBody(exts)
}

func optBytes(k *kernel.K, l string) *[]byte {
	if k.Bool(1, 2, l+"some") {
		b := fill(k, blen(k, l+"len", false), l)
		return &b
	}
	return nil
}

func signedVotes(k *kernel.K, l string) []grandpa.SignedVote {
	n := k.Choose(4, l+"n")
	out := make([]grandpa.SignedVote, n)
	for i := range out {
		out[i] = grandpa.SignedVote{Vote: voteOf(k, l+"vote"), Signature: arr64(k, l+"sig"), AuthorityID: ed25519.PublicKeyBytes(arr32(k, l+"id"))}
	}
	return out
}

func voteOf(k *kernel.K, l string) grandpa.Vote {
	return *grandpa.NewVote(hashOf(k, l+"hash"), uint32(u64(k, l+"num")))
}

func justificationOf(k *kernel.K, l string) *grandpa.Justification {
	return &grandpa.Justification{Round: u64(k, l+"round"), Commit: grandpa.Commit{Hash: hashOf(k, l+"hash"), Number: uint32(u64(k, l+"num")), Precommits: signedVotes(k, l+"pc")}}
}

func blockDataOf(k *kernel.K, l string) *types.BlockData {
	bd := &types.BlockData{Hash: hashOf(k, l+"hash")}
	if k.Bool(2, 3, l+"hdr") {
		bd.Header = headerOf(k, l+"h")
	}
	if k.Bool(1, 2, l+"body") {
		bd.Body = bodyOf(k, l+"b")
	}
	bd.Receipt = optBytes(k, l+"rcpt")
	bd.MessageQueue = optBytes(k, l+"mq")
	if k.Bool(1, 2, l+"just") {
		j := mustMarshal(*justificationOf(k, l+"j"))
		bd.Justification = &j
	}
	return bd
}

func commitOf(k *kernel.K, l string) *grandpa.CommitMessage {
	sv := signedVotes(k, l+"pcs")
	cm := &grandpa.CommitMessage{Round: u64(k, l+"round"), SetID: u64(k, l+"set"), Vote: voteOf(k, l+"vote")}
	for _, s := range sv {
		cm.Precommits = append(cm.Precommits, s.Vote)
		cm.AuthData = append(cm.AuthData, grandpa.AuthData{Signature: s.Signature, AuthorityID: s.AuthorityID})
	}
	if k.Bool(1, 4, l+"uneven") && len(cm.AuthData) > 0 {
		cm.AuthData = cm.AuthData[:len(cm.AuthData)-1]
	}
	return cm
}

// grandpa network messages (the five kinds of the protocol)
func grandpaMsgOf(k *kernel.K, l string) (string, grandpa.GrandpaMessage) {
	switch k.Choose(5, l+"kind") {
	case 0:
		return "vote", &grandpa.VoteMessage{Round: u64(k, l+"round"), SetID: u64(k, l+"set"), Message: grandpa.SignedMessage{
			Stage: grandpa.Subround(k.Choose(3, l+"stage")), BlockHash: hashOf(k, l+"hash"), Number: uint32(u64(k, l+"num")),
			Signature: arr64(k, l+"sig"), AuthorityID: ed25519.PublicKeyBytes(arr32(k, l+"id"))}}
	case 1:
		return "commit", commitOf(k, l)
	case 2:
		return "neighbour", &grandpa.NeighbourPacketV1{Round: u64(k, l+"round"), SetID: u64(k, l+"set"), Number: uint32(u64(k, l+"num"))}
	case 3:
		return "catch-up-request", &grandpa.CatchUpRequest{Round: u64(k, l+"round"), SetID: u64(k, l+"set")}
	}
	return "catch-up-response", &grandpa.CatchUpResponse{SetID: u64(k, l+"set"), Round: u64(k, l+"round"),
		PreVoteJustification: signedVotes(k, l+"pv"), PreCommitJustification: signedVotes(k, l+"pc"),
		Hash: hashOf(k, l+"hash"), Number: uint32(u64(k, l+"num"))}
}

func grandpaWire(m grandpa.GrandpaMessage) []byte {
	cm, err := m.ToConsensusMessage()
	if err != nil {
		panic(err)
	}
	return cm.Data
}

// decodeGrandpaWire: the real decodeMessage; encodeGrandpaWire: the real ToConsensusMessage.
func decodeGrandpaWire(in []byte) (any, error) {
	return grandpa.VerifBytesDecodeMessage(&network.ConsensusMessage{Data: in})
}

func encodeGrandpaWire(v any) ([]byte, error) {
	cm, err := v.(grandpa.GrandpaMessage).ToConsensusMessage()
	if err != nil {
		return nil, err
	}
	return cm.Data, nil
}

var tGrandpaMessage = reflect.TypeOf(grandpa.VerifBytesNewGrandpaMessage())

func blockAnnounceOf(k *kernel.K, l string) *network.BlockAnnounceMessage {
	return &network.BlockAnnounceMessage{ParentHash: hashOf(k, l+"parent"), Number: blockNumber(k, l+"num"), StateRoot: hashOf(k, l+"state"),
		ExtrinsicsRoot: hashOf(k, l+"ext"), Digest: digestOf(k, l+"dig"), BestBlock: k.Bool(1, 2, l+"best")}
}

const nGossamer = 22

func pickGossamerArtifact(k *kernel.K) *scaleArtifact {
	switch k.Choose(nGossamer, "art") {
	case 0:
		a, b := two(func(l string) types.Header { return *headerOf(k, l) })
		return art("types.Header", a, b, func() any { return types.NewEmptyHeader() })
	case 1:
		a, b := two(func(l string) types.Body { return *bodyOf(k, l) })
		return art("types.Body", a, b, func() any { return new(types.Body) })
	case 2:
		a, b := two(func(l string) types.BlockData { return *blockDataOf(k, l) })
		return art("types.BlockData", a, b, func() any { return types.NewEmptyBlockData() })
	case 3:
		a, b := two(func(l string) types.Digest { return digestOf(k, l) })
		return art("types.Digest", a, b, func() any { d := types.NewDigest(); return &d })
	case 4: // grandpa message on the wire, through the real decodeMessage
		n1, m1 := grandpaMsgOf(k, "v")
		_, m2 := grandpaMsgOf(k, "w")
		return &scaleArtifact{name: "grandpa-wire:" + n1, enc: grandpaWire(m1), other: grandpaWire(m2), decF: decodeGrandpaWire, encF: encodeGrandpaWire,
			typ: tGrandpaMessage}
	case 5:
		a, b := two(func(l string) grandpa.Justification { return *justificationOf(k, l) })
		return art("grandpa.Justification", a, b, func() any { return new(grandpa.Justification) })
	case 6:
		a, b := two(func(l string) grandpa.CommitMessage { return *commitOf(k, l) })
		return art("grandpa.CommitMessage", a, b, func() any { return new(grandpa.CommitMessage) })
	case 7:
		a, b := two(func(l string) []types.GrandpaAuthoritiesRaw { return grandpaAuthsRaw(k, l) })
		return art("[]types.GrandpaAuthoritiesRaw", a, b, func() any { return new([]types.GrandpaAuthoritiesRaw) })
	case 8:
		a, b := two(func(l string) []types.AuthorityRaw { return authsRaw(k, l) })
		return art("[]types.AuthorityRaw", a, b, func() any { return new([]types.AuthorityRaw) })
	case 9: // the voter list as the grandpa state writes and reads it
		gen := func(l string) []byte {
			n := k.Choose(4, l+"n")
			vs := make(types.GrandpaVoters, n)
			for i := range vs {
				key, err := ed25519.NewPublicKey(fill(k, 32, l+"key"))
				if err != nil {
					panic(err)
				}
				vs[i] = types.GrandpaVoter{Key: *key, ID: u64(k, l+"id")}
			}
			enc, err := types.EncodeGrandpaVoters(vs)
			if err != nil {
				panic(err)
			}
			return enc
		}
		a, b := two(gen)
		return &scaleArtifact{name: "types.GrandpaVoters(Encode/DecodeGrandpaVoters)", enc: a, other: b,
			decF: func(in []byte) (any, error) { return types.DecodeGrandpaVoters(in) },
			encF: func(v any) ([]byte, error) { return types.EncodeGrandpaVoters(v.(types.GrandpaVoters)) },
			typ:  reflect.TypeOf([]types.GrandpaAuthoritiesRaw{})} // same wire shape: [](32 bytes, u64)
	case 10: // BABE pre-runtime digest through the real DecodeBabePreDigest
		a, b := two(func(l string) []byte { return babePreDigest(k, l).Data })
		return &scaleArtifact{name: "types.BabeDigest(DecodeBabePreDigest)", enc: a, other: b,
			decF: func(in []byte) (any, error) { return types.DecodeBabePreDigest(in) },
			encF: func(v any) ([]byte, error) {
				d := types.NewBabeDigest()
				if err := d.SetValue(v); err != nil {
					return nil, err
				}
				return scale.Marshal(d)
			},
			typ: reflect.TypeOf(types.BabeDigest{})}
	case 11:
		a, b := two(func(l string) types.BabeConsensusDigest { return babeConsensusDigest(k, l) })
		return art("types.BabeConsensusDigest", a, b, func() any { d := types.NewBabeConsensusDigest(); return &d })
	case 12:
		a, b := two(func(l string) types.GrandpaConsensusDigest { return grandpaConsensusDigest(k, l) })
		return art("types.GrandpaConsensusDigest", a, b, func() any { d := types.NewGrandpaConsensusDigest(); return &d })
	case 13:
		a, b := two(func(l string) types.EpochDataRaw {
			return types.EpochDataRaw{Authorities: authsRaw(k, l), Randomness: arr32(k, l+"rand")}
		})
		return art("types.EpochDataRaw", a, b, func() any { return new(types.EpochDataRaw) })
	case 14:
		a, b := two(func(l string) types.BabeConfiguration {
			return types.BabeConfiguration{SlotDuration: u64(k, l+"sd"), EpochLength: u64(k, l+"el"), C1: u64(k, l+"c1"), C2: u64(k, l+"c2"),
				GenesisAuthorities: authsRaw(k, l), Randomness: arr32(k, l+"rand"), SecondarySlots: byte(k.Choose(3, l+"ss"))}
		})
		return art("types.BabeConfiguration", a, b, func() any { return new(types.BabeConfiguration) })
	case 15:
		a, b := two(func(l string) types.ConfigData {
			return types.ConfigData{C1: u64(k, l+"c1"), C2: u64(k, l+"c2"), SecondarySlots: byte(k.Choose(3, l+"ss"))}
		})
		return art("types.ConfigData", a, b, func() any { return new(types.ConfigData) })
	case 16:
		gen := func(l string) types.GrandpaEquivocationProof {
			eq := types.GrandpaEquivocation{RoundNumber: u64(k, l+"round"), ID: arr32(k, l+"id"),
				FirstVote: voteOf(k, l+"v1"), FirstSignature: arr64(k, l+"s1"), SecondVote: voteOf(k, l+"v2"), SecondSignature: arr64(k, l+"s2")}
			e := types.NewGrandpaEquivocation()
			var err error
			if k.Bool(1, 2, l+"pc") {
				err = e.SetValue(types.PreCommit(eq))
			} else {
				err = e.SetValue(types.PreVote(eq))
			}
			if err != nil {
				panic(err)
			}
			return types.GrandpaEquivocationProof{SetID: u64(k, l+"set"), Equivocation: *e}
		}
		a, b := two(gen)
		return art("types.GrandpaEquivocationProof", a, b, func() any { return new(types.GrandpaEquivocationProof) })
	case 17:
		a, b := two(func(l string) network.BlockAnnounceMessage { return *blockAnnounceOf(k, l) })
		return art("network.BlockAnnounceMessage", a, b, func() any { return &network.BlockAnnounceMessage{Digest: types.NewDigest()} })
	case 18:
		gen := func(l string) grandpa.CatchUpResponse {
			return grandpa.CatchUpResponse{SetID: u64(k, l+"set"), Round: u64(k, l+"round"),
				PreVoteJustification: signedVotes(k, l+"pv"), PreCommitJustification: signedVotes(k, l+"pc"),
				Hash: hashOf(k, l+"hash"), Number: uint32(u64(k, l+"num"))}
		}
		a, b := two(gen)
		return art("grandpa.CatchUpResponse", a, b, func() any { return new(grandpa.CatchUpResponse) })
	case 19:
		gen := func(l string) grandpa.VoteMessage {
			return grandpa.VoteMessage{Round: u64(k, l+"round"), SetID: u64(k, l+"set"), Message: grandpa.SignedMessage{
				Stage: grandpa.Subround(k.Choose(3, l+"stage")), BlockHash: hashOf(k, l+"hash"), Number: uint32(u64(k, l+"num")),
				Signature: arr64(k, l+"sig"), AuthorityID: ed25519.PublicKeyBytes(arr32(k, l+"id"))}}
		}
		a, b := two(gen)
		return art("grandpa.VoteMessage", a, b, func() any { return new(grandpa.VoteMessage) })
	case 20:
		a, b := two(func(l string) types.NextEpochData {
			return types.NextEpochData{Authorities: authsRaw(k, l), Randomness: arr32(k, l+"rand")}
		})
		return art("types.NextEpochData", a, b, func() any { return new(types.NextEpochData) })
	}
	a, b := two(func(l string) []types.Extrinsic { return []types.Extrinsic(*bodyOf(k, l)) })
	return art("[]types.Extrinsic(TransactionMessage payload)", a, b, func() any { return new([]types.Extrinsic) })
}
