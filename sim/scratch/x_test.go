package scratch

import (
	"fmt"
	"testing"

	"github.com/ChainSafe/gossamer/pkg/trie"
	"github.com/ChainSafe/gossamer/pkg/trie/inmemory"
	su "github.com/ChainSafe/gossamer/verifsim/storeutil"
)

func mk(n int, c int) []byte {
	v := make([]byte, n)
	for i := range v {
		v[i] = byte(c*31 + i*7)
	}
	return v
}

func TestX(t *testing.T) {
	m := map[string][]byte{
		"\x00":             {0xe8},
		"\x0a":             mk(4096, 13),
		"\xa0\x10\x11\x11": mk(33, 7),
		"\xff":             {},
		"\xff\x0a\x11\x00": {0x10, 0, 0xfe, 5, 0xc},
	}
	tr := inmemory.NewEmptyTrie()
	tr.SetVersion(trie.V1)
	for k, v := range m {
		tr.Put([]byte(k), v)
	}
	fmt.Printf("fresh %x\nspec  %x\n", tr.MustHash(), su.SpecRoot(m, su.V1))
	// history: a0a001 present then removed with ClearPrefixLimit
	tr2 := inmemory.NewEmptyTrie()
	tr2.SetVersion(trie.V1)
	tr2.Put([]byte("\xa0\x10\x11\x11"), mk(33, 7))
	tr2.Put([]byte("\xa0\xa0\x01"), mk(31, 9))
	tr2.MustHash()
	s := tr2.Snapshot()
	s.ClearPrefixLimit([]byte("\xa0\xa0\x01"), 2)
	m2 := map[string][]byte{"\xa0\x10\x11\x11": mk(33, 7)}
	fmt.Printf("hist %x\nspec %x\n", s.MustHash(), su.SpecRoot(m2, su.V1))
	s2 := tr2.Snapshot()
	s2.Delete([]byte("\xa0\xa0\x01"))
	fmt.Printf("del  %x\n", s2.MustHash())
}
