// Command instrument rewrites one Go source file of the code under test so that
// it runs under the cooperative scheduler of package simsync:
//
//   - the package clause is renamed (-pkg),
//   - sync.Mutex / sync.RWMutex (named or embedded fields, any other type use)
//     become simsync.Mutex / simsync.RWMutex,
//   - in every method of a struct type that owns such a lock ("target type") a
//     simsync.Yield("file:line") is inserted before every statement, and every
//     read / write of a receiver field is reported with
//     simsync.Access("Type.Method|field|file:line", &recv.field, isWrite).
//
// Writes are: assignment targets (also through index, sub-field, dereference),
// ++/--, delete/clear/copy-destination, &recv.f passed to container/heap
// mutators, container/list mutator methods called on the field, and methods
// declared in the same file that assign through their receiver. Everything else,
// including calls the table does not know, counts as a READ (that can only lose
// sensitivity, never raise a false alarm).
//
// Anything the rewriter does not understand (channels, go statements, select,
// closures, labels, aliasing of the receiver, sync types other than the two
// mutexes, sync/atomic, deferred field accesses ...) makes it exit non-zero: the
// build fails, nothing is guessed. Functions listed in -skip are copied without
// instrumentation and without these checks; the harness must not call them.
package main

import (
	"bytes"
	"encoding/json"
	"flag"
	"fmt"
	"go/ast"
	"go/format"
	"go/parser"
	"go/printer"
	"go/token"
	"os"
	"path/filepath"
	"sort"
	"strconv"
	"strings"
)

const simsyncPath = "github.com/ChainSafe/gossamer/verifsim/simsync"

type failure struct{ msg string }

var fset = token.NewFileSet()

func failf(pos token.Pos, format string, a ...any) {
	p := ""
	if pos.IsValid() {
		pp := fset.Position(pos)
		p = fmt.Sprintf("%s:%d: ", filepath.Base(pp.Filename), pp.Line)
	}
	panic(failure{p + fmt.Sprintf(format, a...)})
}

var warnings []string

func warnf(pos token.Pos, format string, a ...any) {
	pp := fset.Position(pos)
	warnings = append(warnings, fmt.Sprintf("%s:%d: %s", filepath.Base(pp.Filename), pp.Line, fmt.Sprintf(format, a...)))
}

func main() {
	in := flag.String("in", "", "source file to instrument (path as in the source tree)")
	out := flag.String("out", "", "output file")
	pkg := flag.String("pkg", "", "new package name")
	skip := flag.String("skip", "", "comma separated Type.Method / Func names copied without instrumentation")
	overlay := flag.String("overlay", "", "optional JSON file {\"<path>\": \"<replacement>\"}: if it maps -in (or a -copy input), the replacement is read instead")
	copyOnly := flag.Bool("copy", false, "only rename the package (companion file), no instrumentation")
	flag.Parse()
	if *in == "" || *out == "" || *pkg == "" {
		fmt.Fprintln(os.Stderr, "usage: instrument -in file.go -out gen.go -pkg name [-skip a,b] [-overlay o.json] [-copy]")
		os.Exit(2)
	}
	src := *in
	if *overlay != "" {
		b, err := os.ReadFile(*overlay)
		if err != nil {
			fmt.Fprintln(os.Stderr, "instrument: cannot read overlay:", err)
			os.Exit(2)
		}
		m := map[string]string{}
		var wrapped struct{ Replace map[string]string }
		if err := json.Unmarshal(b, &m); err != nil || len(m) == 0 {
			if err2 := json.Unmarshal(b, &wrapped); err2 != nil {
				fmt.Fprintln(os.Stderr, "instrument: bad overlay json:", err)
				os.Exit(2)
			}
			m = wrapped.Replace
		}
		if r, ok := m[*in]; ok {
			fmt.Printf("instrument: %s is replaced by %s (VERIF_EXTRA_OVERLAY)\n", *in, r)
			src = r
		}
	}
	defer func() {
		if r := recover(); r != nil {
			if f, ok := r.(failure); ok {
				fmt.Fprintf(os.Stderr, "instrument: NOT UNDERSTOOD: %s\n", f.msg)
				os.Exit(1)
			}
			panic(r)
		}
	}()
	data, err := os.ReadFile(src)
	if err != nil {
		fmt.Fprintln(os.Stderr, "instrument:", err)
		os.Exit(2)
	}
	// positions are reported with the name of the original file
	file, err := parser.ParseFile(fset, *in, data, parser.ParseComments)
	if err != nil {
		fmt.Fprintln(os.Stderr, "instrument: parse:", err)
		os.Exit(1)
	}
	for _, cg := range file.Comments {
		for _, c := range cg.List {
			if strings.HasPrefix(c.Text, "//go:") || strings.HasPrefix(c.Text, "// +build") || strings.HasPrefix(c.Text, "//line") {
				failf(c.Pos(), "compiler directive %q", c.Text)
			}
		}
	}
	if *copyOnly {
		// textual rename of the package clause, everything else byte for byte
		off, end := fset.Position(file.Name.Pos()).Offset, fset.Position(file.Name.End()).Offset
		res := append(append(append([]byte{}, data[:off]...), []byte(*pkg)...), data[end:]...)
		if err := os.MkdirAll(filepath.Dir(*out), 0o755); err != nil {
			fmt.Fprintln(os.Stderr, "instrument:", err)
			os.Exit(2)
		}
		if err := os.WriteFile(*out, res, 0o644); err != nil {
			fmt.Fprintln(os.Stderr, "instrument:", err)
			os.Exit(2)
		}
		fmt.Printf("instrument: %s copied with package renamed to %s\n", *in, *pkg)
		return
	}
	file.Name.Name = *pkg
	file.Comments = nil
	file.Doc = nil
	// comments are dropped altogether (declarations are printed without position information)
	ast.Inspect(file, func(n ast.Node) bool {
		switch x := n.(type) {
		case *ast.GenDecl:
			x.Doc = nil
		case *ast.FuncDecl:
			x.Doc = nil
		case *ast.TypeSpec:
			x.Doc, x.Comment = nil, nil
		case *ast.ValueSpec:
			x.Doc, x.Comment = nil, nil
		case *ast.ImportSpec:
			x.Doc, x.Comment = nil, nil
		case *ast.Field:
			x.Doc, x.Comment = nil, nil
		}
		return true
	})
	ins := &instr{file: file, base: filepath.Base(*in), skip: map[string]bool{}}
	for _, s := range strings.Split(*skip, ",") {
		if s = strings.TrimSpace(s); s != "" {
			ins.skip[s] = true
		}
	}
	ins.run()
	write(*out, file, *in, src)
	sort.Strings(ins.report)
	for _, l := range ins.report {
		fmt.Println("instrument:", l)
	}
	for _, w := range warnings {
		fmt.Println("instrument: note:", w)
	}
}

func write(out string, file *ast.File, orig, src string) {
	var buf bytes.Buffer
	fmt.Fprintf(&buf, "// Code generated by /verif/sim/cmd/instrument from %s", orig)
	if src != orig {
		fmt.Fprintf(&buf, " (content of %s)", src)
	}
	fmt.Fprintf(&buf, "; DO NOT EDIT.\n\n")
	// print declarations one by one: inserted nodes carry no positions and a
	// whole-file print would try to honour the stale line information
	fmt.Fprintf(&buf, "package %s\n\n", file.Name.Name)
	cfg := printer.Config{Mode: printer.UseSpaces | printer.TabIndent, Tabwidth: 8}
	for _, d := range file.Decls {
		var db bytes.Buffer
		if err := cfg.Fprint(&db, token.NewFileSet(), stripPos(d)); err != nil {
			fmt.Fprintln(os.Stderr, "instrument: print:", err)
			os.Exit(1)
		}
		buf.Write(db.Bytes())
		buf.WriteString("\n\n")
	}
	res, err := format.Source(buf.Bytes())
	if err != nil {
		os.WriteFile(out+".broken", buf.Bytes(), 0o644)
		fmt.Fprintln(os.Stderr, "instrument: generated code does not parse:", err, "(see", out+".broken)")
		os.Exit(1)
	}
	if err := os.MkdirAll(filepath.Dir(out), 0o755); err != nil {
		fmt.Fprintln(os.Stderr, "instrument:", err)
		os.Exit(2)
	}
	if err := os.WriteFile(out, res, 0o644); err != nil {
		fmt.Fprintln(os.Stderr, "instrument:", err)
		os.Exit(2)
	}
}

// stripPos is the identity: declarations are printed with a fresh FileSet so
// that stale positions cannot influence the layout.
func stripPos(d ast.Decl) ast.Decl { return d }

// ---------------------------------------------------------------------------

type structInfo struct {
	name      string
	fields    map[string]ast.Expr // field name -> type expression
	lockField map[string]string   // field name -> "Mutex" | "RWMutex"
	embedded  string              // kind of the embedded lock, if any
}

type instr struct {
	file    *ast.File
	base    string
	skip    map[string]bool
	imports map[string]string // local name -> import path
	syncN   string            // local name of "sync" ("" if not imported)
	targets map[string]*structInfo
	// localMutators: "Type.Method" declared in this file on a non-target type
	// whose body assigns through its receiver
	localMutators map[string]bool
	localMethods  map[string]bool
	report        []string

	// per function
	fn      string // Type.Method
	recv    string
	st      *structInfo
	acc     []access
	lockOps int
}

type access struct {
	field string
	write bool
	pos   token.Pos
}

var lockMethods = map[string]bool{"Lock": true, "Unlock": true, "RLock": true, "RUnlock": true, "TryLock": true, "TryRLock": true}

var heapMutators = map[string]bool{"Init": true, "Push": true, "Pop": true, "Remove": true, "Fix": true}

var listMutators = map[string]bool{"Init": true, "PushFront": true, "PushBack": true, "InsertBefore": true, "InsertAfter": true,
	"MoveToFront": true, "MoveToBack": true, "MoveBefore": true, "MoveAfter": true, "Remove": true, "PushBackList": true, "PushFrontList": true}
var listReaders = map[string]bool{"Len": true, "Front": true, "Back": true}

var builtinReaders = map[string]bool{"append": true, "len": true, "cap": true, "make": true, "new": true, "min": true, "max": true,
	"panic": true, "print": true, "println": true, "complex": true, "real": true, "imag": true, "recover": true}

func (in *instr) run() {
	in.imports = map[string]string{}
	for _, im := range in.file.Imports {
		p, _ := strconv.Unquote(im.Path.Value)
		name := filepath.Base(p)
		if im.Name != nil {
			name = im.Name.Name
		}
		if name == "." || name == "_" {
			if name == "." {
				failf(im.Pos(), "dot import")
			}
			continue
		}
		in.imports[name] = p
		if p == "sync" {
			in.syncN = name
		}
		if p == "sync/atomic" {
			failf(im.Pos(), "sync/atomic is not modelled")
		}
	}
	if _, clash := in.imports["simsync"]; clash {
		failf(in.file.Pos(), "an import is already called simsync")
	}
	in.findTargets()
	in.replaceSync()
	in.findLocalMethods()
	for _, d := range in.file.Decls {
		fd, ok := d.(*ast.FuncDecl)
		if !ok {
			continue
		}
		name := funcName(fd)
		if in.skip[name] {
			in.report = append(in.report, fmt.Sprintf("%s: SKIPPED (copied without instrumentation; not modelled)", name))
			delete(in.skip, name)
			continue
		}
		tn, ptr := recvType(fd)
		if st := in.targets[tn]; st != nil {
			if !ptr {
				failf(fd.Pos(), "%s: value receiver on a type that owns a lock", name)
			}
			in.instrumentFunc(fd, st, name)
			continue
		}
		in.checkPlain(fd, name)
	}
	for s := range in.skip {
		failf(token.NoPos, "-skip %s: no such function in %s", s, in.base)
	}
	if len(in.targets) == 0 {
		failf(token.NoPos, "no struct type owning a sync.Mutex/RWMutex found in %s", in.base)
	}
	in.fixImports()
}

func funcName(fd *ast.FuncDecl) string {
	tn, _ := recvType(fd)
	if tn != "" {
		return tn + "." + fd.Name.Name
	}
	return fd.Name.Name
}

func recvType(fd *ast.FuncDecl) (string, bool) {
	if fd.Recv == nil || len(fd.Recv.List) != 1 {
		return "", false
	}
	t := fd.Recv.List[0].Type
	ptr := false
	for {
		switch x := t.(type) {
		case *ast.StarExpr:
			ptr = true
			t = x.X
			continue
		case *ast.ParenExpr:
			t = x.X
			continue
		case *ast.IndexExpr:
			t = x.X
			continue
		case *ast.IndexListExpr:
			t = x.X
			continue
		case *ast.Ident:
			return x.Name, ptr
		}
		return "", ptr
	}
}

// syncKind returns "Mutex"/"RWMutex" if e is sync.Mutex, sync.RWMutex or a pointer to one.
func (in *instr) syncKind(e ast.Expr) string {
	if s, ok := e.(*ast.StarExpr); ok {
		e = s.X
	}
	if se, ok := e.(*ast.SelectorExpr); ok {
		if id, ok := se.X.(*ast.Ident); ok && in.syncN != "" && id.Name == in.syncN && (se.Sel.Name == "Mutex" || se.Sel.Name == "RWMutex") {
			return se.Sel.Name
		}
	}
	return ""
}

func (in *instr) findTargets() {
	in.targets = map[string]*structInfo{}
	for _, d := range in.file.Decls {
		gd, ok := d.(*ast.GenDecl)
		if !ok || gd.Tok != token.TYPE {
			continue
		}
		for _, sp := range gd.Specs {
			ts := sp.(*ast.TypeSpec)
			stt, ok := ts.Type.(*ast.StructType)
			if !ok {
				continue
			}
			si := &structInfo{name: ts.Name.Name, fields: map[string]ast.Expr{}, lockField: map[string]string{}}
			for _, f := range stt.Fields.List {
				kind := in.syncKind(f.Type)
				if len(f.Names) == 0 {
					// embedded
					n := embeddedName(f.Type)
					if n == "" {
						failf(f.Pos(), "embedded field of unsupported form in %s", si.name)
					}
					si.fields[n] = f.Type
					if kind != "" {
						if _, isPtr := f.Type.(*ast.StarExpr); isPtr {
							failf(f.Pos(), "embedded pointer to a lock")
						}
						si.lockField[n] = kind
						si.embedded = kind
					} else {
						// promoted fields/methods of an embedded struct cannot be resolved without type information
						failf(f.Pos(), "%s embeds %s: promoted fields are not tracked", si.name, n)
					}
					continue
				}
				for _, n := range f.Names {
					si.fields[n.Name] = f.Type
					if kind != "" {
						si.lockField[n.Name] = kind
					}
				}
			}
			if len(si.lockField) > 0 {
				in.targets[si.name] = si
				var fs []string
				for f := range si.fields {
					if si.lockField[f] == "" {
						fs = append(fs, f)
					}
				}
				sort.Strings(fs)
				in.report = append(in.report, fmt.Sprintf("target type %s: tracked fields %v", si.name, fs))
			}
		}
	}
}

func embeddedName(t ast.Expr) string {
	switch x := t.(type) {
	case *ast.StarExpr:
		return embeddedName(x.X)
	case *ast.SelectorExpr:
		return x.Sel.Name
	case *ast.Ident:
		return x.Name
	case *ast.IndexExpr:
		return embeddedName(x.X)
	case *ast.IndexListExpr:
		return embeddedName(x.X)
	}
	return ""
}

// replaceSync turns sync.Mutex / sync.RWMutex into the simsync types and
// rejects every other use of package sync.
func (in *instr) replaceSync() {
	if in.syncN == "" {
		return
	}
	ast.Inspect(in.file, func(n ast.Node) bool {
		if fd, ok := n.(*ast.FuncDecl); ok && in.skip[funcName(fd)] {
			// still rewrite the types inside skipped functions, but other sync uses are fatal too
		}
		se, ok := n.(*ast.SelectorExpr)
		if !ok {
			return true
		}
		id, ok := se.X.(*ast.Ident)
		if !ok || id.Name != in.syncN || id.Obj != nil {
			return true
		}
		switch se.Sel.Name {
		case "Mutex", "RWMutex":
			se.X = &ast.Ident{Name: "simsync"}
		default:
			failf(se.Pos(), "sync.%s is not modelled", se.Sel.Name)
		}
		return true
	})
}

func (in *instr) fixImports() {
	// drop "sync", add simsync
	for _, d := range in.file.Decls {
		gd, ok := d.(*ast.GenDecl)
		if !ok || gd.Tok != token.IMPORT {
			continue
		}
		var specs []ast.Spec
		for _, sp := range gd.Specs {
			is := sp.(*ast.ImportSpec)
			if p, _ := strconv.Unquote(is.Path.Value); p == "sync" {
				continue
			}
			specs = append(specs, sp)
		}
		gd.Specs = specs
	}
	add := &ast.GenDecl{Tok: token.IMPORT, Specs: []ast.Spec{&ast.ImportSpec{Path: &ast.BasicLit{Kind: token.STRING, Value: strconv.Quote(simsyncPath)}}}}
	var decls []ast.Decl
	decls = append(decls, add)
	for _, d := range in.file.Decls {
		if gd, ok := d.(*ast.GenDecl); ok && gd.Tok == token.IMPORT && len(gd.Specs) == 0 {
			continue
		}
		decls = append(decls, d)
	}
	in.file.Decls = decls
}

// findLocalMethods records, for methods declared in this file on non-target
// types, whether the body assigns through the receiver (then a call of that
// method on a tracked field is a write).
func (in *instr) findLocalMethods() {
	in.localMutators = map[string]bool{}
	in.localMethods = map[string]bool{}
	for _, d := range in.file.Decls {
		fd, ok := d.(*ast.FuncDecl)
		if !ok || fd.Recv == nil || fd.Body == nil {
			continue
		}
		tn, _ := recvType(fd)
		if tn == "" {
			continue
		}
		in.localMethods[tn+"."+fd.Name.Name] = true
		if in.targets[tn] != nil {
			continue
		}
		rn := ""
		if len(fd.Recv.List[0].Names) == 1 {
			rn = fd.Recv.List[0].Names[0].Name
		}
		if rn == "" || rn == "_" {
			continue
		}
		mut := false
		ast.Inspect(fd.Body, func(n ast.Node) bool {
			switch x := n.(type) {
			case *ast.AssignStmt:
				for _, l := range x.Lhs {
					if rootIdent(l) == rn {
						if _, plain := l.(*ast.Ident); !plain || x.Tok != token.DEFINE {
							mut = true
						}
					}
				}
			case *ast.IncDecStmt:
				if rootIdent(x.X) == rn {
					mut = true
				}
			case *ast.CallExpr:
				// the receiver handed to anything else (delete, copy, other calls): assume mutation
				for _, a := range x.Args {
					if rootIdent(a) == rn {
						if id, ok := x.Fun.(*ast.Ident); ok && (id.Name == "len" || id.Name == "cap") {
							continue
						}
						mut = true
					}
				}
			}
			return true
		})
		if mut {
			in.localMutators[tn+"."+fd.Name.Name] = true
		}
	}
}

func rootIdent(e ast.Expr) string {
	for {
		switch x := e.(type) {
		case *ast.Ident:
			return x.Name
		case *ast.SelectorExpr:
			e = x.X
		case *ast.IndexExpr:
			e = x.X
		case *ast.StarExpr:
			e = x.X
		case *ast.ParenExpr:
			e = x.X
		case *ast.SliceExpr:
			e = x.X
		case *ast.UnaryExpr:
			e = x.X
		case *ast.TypeAssertExpr:
			e = x.X
		default:
			return ""
		}
	}
}

// checkPlain verifies that a function that is not instrumented contains
// nothing the model would have to know about.
func (in *instr) checkPlain(fd *ast.FuncDecl, name string) {
	if fd.Body == nil {
		return
	}
	ast.Inspect(fd.Body, func(n ast.Node) bool {
		switch x := n.(type) {
		case *ast.GoStmt:
			failf(x.Pos(), "%s: go statement in a function that is not instrumented", name)
		case *ast.SelectStmt:
			failf(x.Pos(), "%s: select in a function that is not instrumented", name)
		case *ast.SendStmt:
			failf(x.Pos(), "%s: channel send in a function that is not instrumented", name)
		case *ast.UnaryExpr:
			if x.Op == token.ARROW {
				failf(x.Pos(), "%s: channel receive in a function that is not instrumented", name)
			}
		case *ast.CallExpr:
			if se, ok := x.Fun.(*ast.SelectorExpr); ok && lockMethods[se.Sel.Name] {
				failf(x.Pos(), "%s: %s() called in a function that is not a method of a lock-owning type", name, se.Sel.Name)
			}
		}
		return true
	})
	in.report = append(in.report, fmt.Sprintf("%s: not instrumented (no lock-owning receiver; checked: no locks, channels, goroutines)", name))
}

// ---------------------------------------------------------------------------

func (in *instr) instrumentFunc(fd *ast.FuncDecl, st *structInfo, name string) {
	if fd.Body == nil {
		return
	}
	in.fn, in.st, in.recv = name, st, ""
	if len(fd.Recv.List[0].Names) == 1 {
		in.recv = fd.Recv.List[0].Names[0].Name
	}
	if in.recv == "_" {
		in.recv = ""
	}
	// parameters / results must not shadow the receiver
	if fd.Type.Params != nil {
		for _, f := range fd.Type.Params.List {
			for _, n := range f.Names {
				if n.Name == in.recv && in.recv != "" {
					failf(n.Pos(), "parameter shadows the receiver")
				}
			}
		}
	}
	nAcc, nW := 0, 0
	in.lockOps = 0
	fd.Body.List = in.block(fd.Body.List, &nAcc, &nW)
	in.report = append(in.report, fmt.Sprintf("%s: instrumented (%d access records, %d of them writes, %d lock operations)", name, nAcc, nW, in.lockOps))
}

func (in *instr) site(pos token.Pos) string {
	return fmt.Sprintf("%s:%d", in.base, fset.Position(pos).Line)
}

func call(fun string, args ...ast.Expr) ast.Stmt {
	return &ast.ExprStmt{X: &ast.CallExpr{Fun: &ast.SelectorExpr{X: &ast.Ident{Name: "simsync"}, Sel: &ast.Ident{Name: fun}}, Args: args}}
}

func strLit(s string) ast.Expr { return &ast.BasicLit{Kind: token.STRING, Value: strconv.Quote(s)} }

// emit turns the accesses collected for one statement header into Access calls.
func (in *instr) emit(pos token.Pos, acc []access, nAcc, nW *int) []ast.Stmt {
	// one record per field, a write subsumes a read
	byField := map[string]*access{}
	var order []string
	for i := range acc {
		a := acc[i]
		if p := byField[a.field]; p != nil {
			if a.write {
				p.write = true
			}
			continue
		}
		c := a
		byField[a.field] = &c
		order = append(order, a.field)
	}
	var out []ast.Stmt
	for _, f := range order {
		a := byField[f]
		w := "false"
		if a.write {
			w = "true"
			*nW++
		}
		*nAcc++
		out = append(out, call("Access",
			strLit(fmt.Sprintf("%s|%s|%s", in.fn, f, in.site(pos))),
			&ast.UnaryExpr{Op: token.AND, X: &ast.SelectorExpr{X: &ast.Ident{Name: in.recv}, Sel: &ast.Ident{Name: f}}},
			&ast.Ident{Name: w}))
	}
	return out
}

// collect runs f and returns the accesses and the number of lock operations it recorded.
func (in *instr) collect(f func()) ([]access, int) {
	saveA, saveL := in.acc, in.lockOps
	in.acc = nil
	f()
	acc := in.acc
	locks := in.lockOps - saveL
	in.acc = saveA
	return acc, locks
}

func (in *instr) block(list []ast.Stmt, nAcc, nW *int) []ast.Stmt {
	var out []ast.Stmt
	for _, s := range list {
		out = append(out, in.stmt(s, nAcc, nW)...)
	}
	return out
}

// header checks the rule "a lock operation is a statement of its own".
func (in *instr) header(pos token.Pos, acc []access, locks int, standalone bool) {
	if locks > 0 && (!standalone || len(acc) > 0 || locks > 1) {
		failf(pos, "%s: a lock operation must be a statement of its own (found it combined with other work)", in.fn)
	}
}

func (in *instr) stmt(s ast.Stmt, nAcc, nW *int) []ast.Stmt {
	pre := []ast.Stmt{call("Yield", strLit(in.site(s.Pos())))}
	switch x := s.(type) {
	case *ast.EmptyStmt:
		return []ast.Stmt{s}
	case *ast.ExprStmt:
		acc, locks := in.collect(func() { in.expr(x.X, false) })
		in.header(x.Pos(), acc, locks, isLockCall(in, x.X))
		return append(append(pre, in.emit(x.Pos(), acc, nAcc, nW)...), s)
	case *ast.AssignStmt, *ast.IncDecStmt, *ast.DeclStmt, *ast.ReturnStmt:
		acc, locks := in.collect(func() { in.simple(s) })
		in.header(s.Pos(), acc, locks, false)
		return append(append(pre, in.emit(s.Pos(), acc, nAcc, nW)...), s)
	case *ast.BranchStmt:
		if x.Tok == token.GOTO || x.Label != nil {
			failf(x.Pos(), "%s: goto / labelled branch", in.fn)
		}
		return append(pre, s)
	case *ast.BlockStmt:
		x.List = in.block(x.List, nAcc, nW)
		return append(pre, s)
	case *ast.DeferStmt:
		if fl, ok := x.Call.Fun.(*ast.FuncLit); ok {
			if len(x.Call.Args) != 0 || (fl.Type.Params != nil && len(fl.Type.Params.List) != 0) {
				failf(x.Pos(), "%s: deferred closure with arguments", in.fn)
			}
			fl.Body.List = in.block(fl.Body.List, nAcc, nW)
			return append(pre, s)
		}
		if isLockCall(in, x.Call) {
			_, locks := in.collect(func() { in.expr(x.Call, false) })
			if locks != 1 {
				failf(x.Pos(), "%s: unexpected deferred lock expression", in.fn)
			}
			return append(pre, s)
		}
		// arguments are evaluated now; the callee position must not touch receiver fields
		accF, locksF := in.collect(func() { in.expr(x.Call.Fun, false) })
		if len(accF) > 0 || locksF > 0 {
			failf(x.Pos(), "%s: deferred call through a receiver field (the access would happen at return, not here)", in.fn)
		}
		acc, locks := in.collect(func() {
			for _, a := range x.Call.Args {
				in.expr(a, false)
			}
		})
		in.header(x.Pos(), acc, locks, false)
		return append(append(pre, in.emit(x.Pos(), acc, nAcc, nW)...), s)
	case *ast.IfStmt:
		acc, locks := in.collect(func() {
			if x.Init != nil {
				in.simple(x.Init)
			}
			in.expr(x.Cond, false)
		})
		in.header(x.Pos(), acc, locks, false)
		x.Body.List = in.block(x.Body.List, nAcc, nW)
		switch e := x.Else.(type) {
		case nil:
		case *ast.BlockStmt:
			e.List = in.block(e.List, nAcc, nW)
		case *ast.IfStmt:
			x.Else = &ast.BlockStmt{List: in.stmt(e, nAcc, nW)}
		default:
			failf(x.Pos(), "%s: unexpected else form", in.fn)
		}
		return append(append(pre, in.emit(x.Pos(), acc, nAcc, nW)...), s)
	case *ast.ForStmt:
		accInit, l1 := in.collect(func() {
			if x.Init != nil {
				in.simple(x.Init)
			}
		})
		accIter, l2 := in.collect(func() {
			if x.Cond != nil {
				in.expr(x.Cond, false)
			}
			if x.Post != nil {
				in.simple(x.Post)
			}
		})
		in.header(x.Pos(), append(append([]access{}, accInit...), accIter...), l1+l2, false)
		body := in.block(x.Body.List, nAcc, nW)
		// condition and post statement are evaluated around every iteration: record them at the
		// start of every iteration as well (same lock context: no statement in between)
		x.Body.List = append(in.emit(x.Pos(), accIter, nAcc, nW), body...)
		return append(append(pre, in.emit(x.Pos(), append(accInit, accIter...), nAcc, nW)...), s)
	case *ast.RangeStmt:
		acc, locks := in.collect(func() { in.expr(x.X, false) })
		in.header(x.Pos(), acc, locks, false)
		accKV, l2 := in.collect(func() {
			for _, kv := range []ast.Expr{x.Key, x.Value} {
				if kv == nil {
					continue
				}
				if id, ok := kv.(*ast.Ident); ok {
					if id.Name == in.recv && in.recv != "" {
						failf(id.Pos(), "%s: receiver reassigned", in.fn)
					}
					continue
				}
				in.writeTarget(kv)
			}
		})
		in.header(x.Pos(), accKV, l2, false)
		body := in.block(x.Body.List, nAcc, nW)
		x.Body.List = append(in.emit(x.Pos(), accKV, nAcc, nW), body...)
		return append(append(pre, in.emit(x.Pos(), acc, nAcc, nW)...), s)
	case *ast.SwitchStmt:
		acc, locks := in.collect(func() {
			if x.Init != nil {
				in.simple(x.Init)
			}
			if x.Tag != nil {
				in.expr(x.Tag, false)
			}
			for _, c := range x.Body.List {
				for _, e := range c.(*ast.CaseClause).List {
					in.expr(e, false)
				}
			}
		})
		in.header(x.Pos(), acc, locks, false)
		for _, c := range x.Body.List {
			cc := c.(*ast.CaseClause)
			cc.Body = in.block(cc.Body, nAcc, nW)
		}
		return append(append(pre, in.emit(x.Pos(), acc, nAcc, nW)...), s)
	case *ast.TypeSwitchStmt:
		acc, locks := in.collect(func() {
			if x.Init != nil {
				in.simple(x.Init)
			}
			switch a := x.Assign.(type) {
			case *ast.ExprStmt:
				in.expr(a.X, false)
			case *ast.AssignStmt:
				for _, r := range a.Rhs {
					in.expr(r, false)
				}
			}
		})
		in.header(x.Pos(), acc, locks, false)
		for _, c := range x.Body.List {
			cc := c.(*ast.CaseClause)
			cc.Body = in.block(cc.Body, nAcc, nW)
		}
		return append(append(pre, in.emit(x.Pos(), acc, nAcc, nW)...), s)
	case *ast.GoStmt:
		failf(x.Pos(), "%s: go statement (goroutines started by the code under test are not modelled)", in.fn)
	case *ast.SelectStmt:
		failf(x.Pos(), "%s: select (channels are not modelled)", in.fn)
	case *ast.SendStmt:
		failf(x.Pos(), "%s: channel send (channels are not modelled)", in.fn)
	case *ast.LabeledStmt:
		failf(x.Pos(), "%s: labelled statement", in.fn)
	}
	failf(s.Pos(), "%s: unsupported statement %T", in.fn, s)
	return nil
}

func isLockCall(in *instr, e ast.Expr) bool {
	c, ok := e.(*ast.CallExpr)
	if !ok {
		return false
	}
	se, ok := c.Fun.(*ast.SelectorExpr)
	if !ok || !lockMethods[se.Sel.Name] || len(c.Args) != 0 {
		return false
	}
	if id, ok := se.X.(*ast.Ident); ok && id.Name == in.recv && in.recv != "" && in.st.embedded != "" {
		return true
	}
	if inner, ok := se.X.(*ast.SelectorExpr); ok {
		if id, ok := inner.X.(*ast.Ident); ok && id.Name == in.recv && in.recv != "" && in.st.lockField[inner.Sel.Name] != "" {
			return true
		}
	}
	return false
}

// simple handles simple statements (also used for init/post statements).
func (in *instr) simple(s ast.Stmt) {
	switch x := s.(type) {
	case *ast.ExprStmt:
		in.expr(x.X, false)
	case *ast.AssignStmt:
		for _, l := range x.Lhs {
			if id, ok := l.(*ast.Ident); ok {
				if id.Name == in.recv && in.recv != "" {
					failf(id.Pos(), "%s: receiver reassigned or shadowed", in.fn)
				}
				continue
			}
			in.writeTarget(l)
		}
		for _, r := range x.Rhs {
			in.expr(r, false)
		}
	case *ast.IncDecStmt:
		in.writeTarget(x.X)
	case *ast.DeclStmt:
		gd := x.Decl.(*ast.GenDecl)
		if gd.Tok != token.VAR {
			return
		}
		for _, sp := range gd.Specs {
			vs := sp.(*ast.ValueSpec)
			for _, n := range vs.Names {
				if n.Name == in.recv && in.recv != "" {
					failf(n.Pos(), "%s: receiver shadowed", in.fn)
				}
			}
			if vs.Type != nil {
				in.typeExpr(vs.Type)
			}
			for _, v := range vs.Values {
				in.expr(v, false)
			}
		}
	case *ast.ReturnStmt:
		for _, r := range x.Results {
			in.expr(r, false)
		}
	case *ast.SendStmt:
		failf(x.Pos(), "%s: channel send (channels are not modelled)", in.fn)
	case *ast.EmptyStmt:
	default:
		failf(s.Pos(), "%s: unsupported simple statement %T", in.fn, s)
	}
}

// typeExpr rejects channel types; other type expressions carry no accesses.
func (in *instr) typeExpr(e ast.Expr) {
	ast.Inspect(e, func(n ast.Node) bool {
		if c, ok := n.(*ast.ChanType); ok {
			failf(c.Pos(), "%s: channel type (channels are not modelled)", in.fn)
		}
		return true
	})
}

func isTypeNode(e ast.Expr) bool {
	switch e.(type) {
	case *ast.ArrayType, *ast.MapType, *ast.ChanType, *ast.FuncType, *ast.StructType, *ast.InterfaceType:
		return true
	}
	return false
}

func (in *instr) add(field string, write bool, pos token.Pos) {
	in.acc = append(in.acc, access{field: field, write: write, pos: pos})
}

// recvField returns the field name if e is recv.<field>.
func (in *instr) recvField(e ast.Expr) (string, bool) {
	se, ok := e.(*ast.SelectorExpr)
	if !ok {
		return "", false
	}
	id, ok := se.X.(*ast.Ident)
	if !ok || id.Name != in.recv || in.recv == "" {
		return "", false
	}
	if _, isField := in.st.fields[se.Sel.Name]; !isField {
		return "", false
	}
	return se.Sel.Name, true
}

func stripParens(e ast.Expr) ast.Expr {
	for {
		p, ok := e.(*ast.ParenExpr)
		if !ok {
			return e
		}
		e = p.X
	}
}

// writeTarget handles an assignment / ++ / range target. Only two forms that
// involve the receiver are understood: recv.f (the field itself) and recv.f[k]
// where f is declared as a map (a map element write is a write of the map).
// Finer-grained targets (slice elements, sub-fields, pointees) would need a
// finer location model: reporting them as a write of the whole field could
// raise false alarms, so they fail the build instead.
func (in *instr) writeTarget(e ast.Expr) {
	e = stripParens(e)
	if fld, ok := in.recvField(e); ok {
		if in.st.lockField[fld] != "" {
			failf(e.Pos(), "%s: lock field %s assigned", in.fn, fld)
		}
		in.add(fld, true, e.Pos())
		return
	}
	if ix, ok := e.(*ast.IndexExpr); ok {
		if fld, ok := in.recvField(stripParens(ix.X)); ok {
			if _, isMap := in.st.fields[fld].(*ast.MapType); !isMap {
				failf(e.Pos(), "%s: element write %s.%s[...] on a field that is not declared as a map (element granularity is not modelled)", in.fn, in.recv, fld)
			}
			in.add(fld, true, e.Pos())
			in.expr(ix.Index, false)
			return
		}
	}
	if rootIdent(e) == in.recv && in.recv != "" {
		failf(e.Pos(), "%s: write through a receiver field (sub-field, pointee or nested element: finer than field granularity, not modelled)", in.fn)
	}
	// a local target: only its index / operand expressions can touch receiver fields
	in.expr(e, false)
}

// expr records the receiver-field accesses of e; write tells whether e is an
// assignment target.
func (in *instr) expr(e ast.Expr, write bool) {
	switch x := e.(type) {
	case nil:
	case *ast.BasicLit:
	case *ast.Ident:
		if x.Name == in.recv && in.recv != "" {
			failf(x.Pos(), "%s: the receiver is used as a whole (aliasing / passing it on is not tracked)", in.fn)
		}
	case *ast.ParenExpr:
		in.expr(x.X, write)
	case *ast.SelectorExpr:
		if id, ok := x.X.(*ast.Ident); ok && id.Name == in.recv && in.recv != "" {
			if _, isField := in.st.fields[x.Sel.Name]; isField {
				if in.st.lockField[x.Sel.Name] != "" {
					failf(x.Pos(), "%s: lock field %s used other than by calling its methods", in.fn, x.Sel.Name)
				}
				in.add(x.Sel.Name, write, x.Pos())
				return
			}
			failf(x.Pos(), "%s: %s.%s is neither a declared field nor a call (method value / promoted field)", in.fn, in.recv, x.Sel.Name)
		}
		if id, ok := x.X.(*ast.Ident); ok {
			if _, isPkg := in.imports[id.Name]; isPkg && id.Obj == nil {
				return // qualified identifier
			}
		}
		in.expr(x.X, write)
	case *ast.IndexExpr:
		in.expr(x.X, write)
		if !isTypeNode(x.Index) {
			in.expr(x.Index, false)
		}
	case *ast.IndexListExpr:
		in.expr(x.X, write)
	case *ast.SliceExpr:
		in.expr(x.X, write)
		in.expr(x.Low, false)
		in.expr(x.High, false)
		in.expr(x.Max, false)
	case *ast.StarExpr:
		in.expr(x.X, write)
	case *ast.TypeAssertExpr:
		in.expr(x.X, write)
		if x.Type != nil {
			in.typeExpr(x.Type)
		}
	case *ast.UnaryExpr:
		switch x.Op {
		case token.ARROW:
			failf(x.Pos(), "%s: channel receive (channels are not modelled)", in.fn)
		case token.AND:
			if f, ok := in.recvField(x.X); ok {
				failf(x.Pos(), "%s: address of field %s taken outside a known call (writes through the pointer would not be seen)", in.fn, f)
			}
			in.expr(x.X, false)
		default:
			in.expr(x.X, false)
		}
	case *ast.BinaryExpr:
		in.expr(x.X, false)
		in.expr(x.Y, false)
	case *ast.KeyValueExpr:
		if _, ok := x.Key.(*ast.Ident); !ok {
			in.expr(x.Key, false)
		} else if x.Key.(*ast.Ident).Name == in.recv && in.recv != "" {
			failf(x.Pos(), "%s: the receiver is used as a whole", in.fn)
		}
		in.expr(x.Value, false)
	case *ast.CompositeLit:
		if x.Type != nil {
			in.typeExpr(x.Type)
		}
		for _, el := range x.Elts {
			in.expr(el, false)
		}
	case *ast.Ellipsis:
		in.expr(x.Elt, false)
	case *ast.FuncLit:
		failf(x.Pos(), "%s: closure (its accesses would happen whenever it is called)", in.fn)
	case *ast.CallExpr:
		in.callExpr(x)
	case *ast.ArrayType, *ast.MapType, *ast.FuncType, *ast.StructType, *ast.InterfaceType:
		in.typeExpr(x)
	case *ast.ChanType:
		failf(x.Pos(), "%s: channel type (channels are not modelled)", in.fn)
	default:
		failf(e.Pos(), "%s: unsupported expression %T", in.fn, e)
	}
}

// args records the arguments of a call as reads; &recv.f handed to a callee the
// table does not know is a read with a note.
func (in *instr) args(c *ast.CallExpr, from int, callee string) {
	for i := from; i < len(c.Args); i++ {
		a := c.Args[i]
		if u, ok := a.(*ast.UnaryExpr); ok && u.Op == token.AND {
			if f, ok := in.recvField(u.X); ok {
				warnf(a.Pos(), "%s: &%s.%s passed to %s which the table does not know: counted as a READ", in.fn, in.recv, f, callee)
				in.add(f, false, a.Pos())
				continue
			}
		}
		if isTypeNode(a) {
			in.typeExpr(a)
			continue
		}
		in.expr(a, false)
	}
}

func (in *instr) callExpr(c *ast.CallExpr) {
	fun := c.Fun
	for {
		if p, ok := fun.(*ast.ParenExpr); ok {
			fun = p.X
			continue
		}
		break
	}
	switch f := fun.(type) {
	case *ast.Ident:
		if f.Obj == nil { // not declared in this file: builtin or other file of the package
			switch f.Name {
			case "delete", "clear", "copy":
				// the whole object owned by the field is (potentially) modified
				if len(c.Args) > 0 {
					if fld, ok := in.recvField(stripParens(c.Args[0])); ok {
						if in.st.lockField[fld] != "" {
							failf(c.Pos(), "%s: lock field passed to %s", in.fn, f.Name)
						}
						in.add(fld, true, c.Args[0].Pos())
					} else if rootIdent(c.Args[0]) == in.recv && in.recv != "" {
						failf(c.Pos(), "%s: %s of a part of a receiver field (finer than field granularity: not modelled)", in.fn, f.Name)
					} else {
						in.expr(c.Args[0], false)
					}
				}
				in.args(c, 1, f.Name)
				return
			case "close":
				failf(c.Pos(), "%s: close of a channel (channels are not modelled)", in.fn)
			}
			if builtinReaders[f.Name] {
				in.args(c, 0, f.Name)
				return
			}
		}
		if f.Name == in.recv && in.recv != "" {
			failf(f.Pos(), "%s: the receiver is called as a function", in.fn)
		}
		// conversion or call of a package-level / local function: arguments are reads
		in.args(c, 0, f.Name)
		return
	case *ast.SelectorExpr:
		// recv.M(...)
		if id, ok := f.X.(*ast.Ident); ok && id.Name == in.recv && in.recv != "" {
			if _, isField := in.st.fields[f.Sel.Name]; isField {
				if in.st.lockField[f.Sel.Name] != "" {
					failf(f.Pos(), "%s: lock field called as a function", in.fn)
				}
				in.add(f.Sel.Name, false, f.Pos()) // func-typed field: read
				in.args(c, 0, in.recv+"."+f.Sel.Name)
				return
			}
			if lockMethods[f.Sel.Name] && in.st.embedded != "" {
				if len(c.Args) != 0 {
					failf(c.Pos(), "%s: lock method with arguments", in.fn)
				}
				in.lockOps++
				return
			}
			// another method of the same type
			key := in.st.name + "." + f.Sel.Name
			if !in.localMethods[key] {
				warnf(c.Pos(), "%s: calls %s which is not declared in this file: its accesses are not recorded", in.fn, key)
			} else if in.skip[key] {
				failf(c.Pos(), "%s: calls %s which is skipped", in.fn, key)
			}
			in.args(c, 0, key)
			return
		}
		// recv.field.M(...)
		if fld, ok := in.recvField(f.X); ok {
			if kind := in.st.lockField[fld]; kind != "" {
				if !lockMethods[f.Sel.Name] || len(c.Args) != 0 {
					failf(c.Pos(), "%s: unknown method %s on lock field %s", in.fn, f.Sel.Name, fld)
				}
				in.lockOps++
				return
			}
			w := in.fieldMethodWrites(fld, f.Sel.Name, c.Pos())
			in.add(fld, w, f.Pos())
			in.args(c, 0, fld+"."+f.Sel.Name)
			return
		}
		// pkg.F(...)
		if id, ok := f.X.(*ast.Ident); ok && id.Obj == nil {
			if path, isPkg := in.imports[id.Name]; isPkg {
				if path == "container/heap" && heapMutators[f.Sel.Name] && len(c.Args) > 0 {
					if u, ok := c.Args[0].(*ast.UnaryExpr); ok && u.Op == token.AND {
						if fld, ok := in.recvField(u.X); ok {
							in.add(fld, true, u.Pos())
							in.args(c, 1, "heap."+f.Sel.Name)
							return
						}
					}
				}
				in.args(c, 0, id.Name+"."+f.Sel.Name)
				return
			}
		}
		// method call on some other expression
		in.expr(f.X, false)
		in.args(c, 0, "method "+f.Sel.Name)
		return
	case *ast.IndexExpr: // generic instantiation f[T](...)
		in.expr(f.X, false)
		in.args(c, 0, "generic call")
		return
	case *ast.IndexListExpr:
		in.expr(f.X, false)
		in.args(c, 0, "generic call")
		return
	case *ast.ArrayType, *ast.MapType, *ast.InterfaceType, *ast.FuncType, *ast.StarExpr:
		// conversion
		in.args(c, 0, "conversion")
		return
	case *ast.ChanType:
		failf(c.Pos(), "%s: channel type (channels are not modelled)", in.fn)
	case *ast.FuncLit:
		failf(c.Pos(), "%s: call of a closure", in.fn)
	}
	failf(c.Pos(), "%s: unsupported call form %T", in.fn, c.Fun)
}

// fieldMethodWrites decides whether recv.<fld>.<method>() mutates the object owned by the field.
func (in *instr) fieldMethodWrites(fld, method string, pos token.Pos) bool {
	t := in.st.fields[fld]
	if s, ok := t.(*ast.StarExpr); ok {
		t = s.X
	}
	switch tt := t.(type) {
	case *ast.SelectorExpr:
		if id, ok := tt.X.(*ast.Ident); ok {
			if in.imports[id.Name] == "container/list" && tt.Sel.Name == "List" {
				if listMutators[method] {
					return true
				}
				if listReaders[method] {
					return false
				}
			}
		}
	case *ast.Ident:
		key := tt.Name + "." + method
		if in.localMethods[key] {
			return in.localMutators[key]
		}
	}
	warnf(pos, "%s: %s.%s.%s() is not in the table: counted as a READ", in.fn, in.recv, fld, method)
	return false
}
