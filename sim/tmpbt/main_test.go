package bt
import ("testing";"fmt";"github.com/ChainSafe/gossamer/pkg/scale")
func TestX(t *testing.T){
 for _,v := range []uint{1<<32-1, 1<<32, 1<<40, 1<<56-1, 1<<56} {
   enc,_ := scale.Marshal(v); var d uint; err := scale.Unmarshal(enc,&d); fmt.Printf("uint %d -> %x -> %d err=%v\n", v, enc, d, err)
 }
}
