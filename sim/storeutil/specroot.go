// Package storeutil holds the oracles of the STORE/TXN worlds, written from the
// Polkadot specification and independent of gossamer's trie code: an ordered
// reference map and the spec state-root function.
package storeutil

import (
	"bytes"
	"sort"

	"golang.org/x/crypto/blake2b"
)

type Version int

const (
	V0 Version = 0
	V1 Version = 1
)

// ---- RefMap ---------------------------------------------------------------

// RefMap is an ordered map over byte-string keys.
type RefMap struct {
	M map[string][]byte
}

func NewRefMap() *RefMap { return &RefMap{M: map[string][]byte{}} }

func (r *RefMap) Clone() *RefMap {
	n := NewRefMap()
	for k, v := range r.M {
		n.M[k] = append([]byte{}, v...)
	}
	return n
}

func (r *RefMap) Put(k, v []byte)  { r.M[string(k)] = append([]byte{}, v...) }
func (r *RefMap) Delete(k []byte)  { delete(r.M, string(k)) }
func (r *RefMap) Get(k []byte) ([]byte, bool) { v, ok := r.M[string(k)]; return v, ok }
func (r *RefMap) Len() int         { return len(r.M) }

// Keys returns all keys in ascending byte order.
func (r *RefMap) Keys() [][]byte {
	ks := make([]string, 0, len(r.M))
	for k := range r.M {
		ks = append(ks, k)
	}
	sort.Strings(ks)
	out := make([][]byte, len(ks))
	for i, k := range ks {
		out[i] = []byte(k)
	}
	return out
}

func (r *RefMap) KeysWithPrefix(p []byte) [][]byte {
	var out [][]byte
	for _, k := range r.Keys() {
		if bytes.HasPrefix(k, p) {
			out = append(out, k)
		}
	}
	return out
}

// NextKey returns the smallest key strictly greater than k.
func (r *RefMap) NextKey(k []byte) []byte {
	for _, x := range r.Keys() {
		if bytes.Compare(x, k) > 0 {
			return x
		}
	}
	return nil
}

// ClearPrefix removes every key starting with p.
func (r *RefMap) ClearPrefix(p []byte) int {
	n := 0
	for _, k := range r.KeysWithPrefix(p) {
		delete(r.M, string(k))
		n++
	}
	return n
}

// ClearPrefixLimit removes the lexicographically smallest matching keys first,
// at most limit of them; returns how many were removed and whether none remain.
func (r *RefMap) ClearPrefixLimit(p []byte, limit uint32) (deleted uint32, allDeleted bool) {
	ks := r.KeysWithPrefix(p)
	for _, k := range ks {
		if deleted >= limit {
			break
		}
		delete(r.M, string(k))
		deleted++
	}
	return deleted, int(deleted) == len(ks)
}

// ---- SpecRoot -------------------------------------------------------------

func compactLen(n int) []byte {
	switch {
	case n < 1<<6:
		return []byte{byte(n << 2)}
	case n < 1<<14:
		v := uint16(n<<2) | 1
		return []byte{byte(v), byte(v >> 8)}
	case n < 1<<30:
		v := uint32(n<<2) | 2
		return []byte{byte(v), byte(v >> 8), byte(v >> 16), byte(v >> 24)}
	default:
		panic("length too large for the oracle")
	}
}

func scaleBytes(b []byte) []byte { return append(compactLen(len(b)), b...) }

func Blake2b256(b []byte) []byte { h := blake2b.Sum256(b); return h[:] }

func keyToNibbles(k []byte) []byte {
	out := make([]byte, 0, len(k)*2)
	for _, b := range k {
		out = append(out, b>>4, b&15)
	}
	return out
}

// header encodes the node-kind prefix and the partial key length.
// prefix occupies the top bits; maxInFirst is the largest value that fits in
// the remaining bits of the first byte.
func header(prefix byte, maxInFirst int, pkLen int) []byte {
	if pkLen < maxInFirst {
		return []byte{prefix | byte(pkLen)}
	}
	out := []byte{prefix | byte(maxInFirst)}
	rem := pkLen - maxInFirst
	for rem >= 255 {
		out = append(out, 255)
		rem -= 255
	}
	return append(out, byte(rem))
}

func packNibbles(n []byte) []byte {
	var out []byte
	i := 0
	if len(n)%2 == 1 {
		out = append(out, n[0])
		i = 1
	}
	for ; i < len(n); i += 2 {
		out = append(out, n[i]<<4|n[i+1])
	}
	return out
}

type entry struct {
	nib []byte
	val []byte
}

// encodeNode returns the encoding of the subtrie holding es (sorted, all
// sharing their first `depth` nibbles).
func encodeNode(es []entry, depth int, ver Version) []byte {
	if len(es) == 0 {
		return []byte{0}
	}
	hashedValue := func(v []byte) bool { return ver == V1 && len(v) > 32 }
	if len(es) == 1 {
		e := es[0]
		pk := e.nib[depth:]
		var out []byte
		if hashedValue(e.val) {
			out = header(0b00100000, 31, len(pk))
			out = append(out, packNibbles(pk)...)
			return append(out, Blake2b256(e.val)...)
		}
		out = header(0b01000000, 63, len(pk))
		out = append(out, packNibbles(pk)...)
		return append(out, scaleBytes(e.val)...)
	}
	// common prefix beyond depth
	first, last := es[0].nib, es[len(es)-1].nib
	cp := 0
	for depth+cp < len(first) && depth+cp < len(last) && first[depth+cp] == last[depth+cp] {
		cp++
	}
	pk := first[depth : depth+cp]
	var value []byte
	hasValue := false
	rest := es
	if len(es[0].nib) == depth+cp {
		value, hasValue = es[0].val, true
		rest = es[1:]
	}
	var children [16][]entry
	for _, e := range rest {
		c := e.nib[depth+cp]
		children[c] = append(children[c], e)
	}
	var out []byte
	switch {
	case hasValue && hashedValue(value):
		out = header(0b00010000, 15, len(pk))
	case hasValue:
		out = header(0b11000000, 63, len(pk))
	default:
		out = header(0b10000000, 63, len(pk))
	}
	out = append(out, packNibbles(pk)...)
	var bitmap uint16
	for i := 0; i < 16; i++ {
		if len(children[i]) > 0 {
			bitmap |= 1 << uint(i)
		}
	}
	out = append(out, byte(bitmap), byte(bitmap>>8))
	if hasValue {
		if hashedValue(value) {
			out = append(out, Blake2b256(value)...)
		} else {
			out = append(out, scaleBytes(value)...)
		}
	}
	for i := 0; i < 16; i++ {
		if len(children[i]) == 0 {
			continue
		}
		enc := encodeNode(children[i], depth+cp+1, ver)
		if len(enc) < 32 {
			out = append(out, scaleBytes(enc)...)
		} else {
			out = append(out, scaleBytes(Blake2b256(enc))...)
		}
	}
	return out
}

// SpecRoot computes the Polkadot state-trie root of a finite map.
func SpecRoot(m map[string][]byte, ver Version) [32]byte {
	ks := make([]string, 0, len(m))
	for k := range m {
		ks = append(ks, k)
	}
	sort.Strings(ks)
	es := make([]entry, len(ks))
	for i, k := range ks {
		es[i] = entry{nib: keyToNibbles([]byte(k)), val: m[k]}
	}
	var r [32]byte
	copy(r[:], Blake2b256(encodeNode(es, 0, ver)))
	return r
}

// ChildStoragePrefix is the main-trie key prefix under which child roots live.
var ChildStoragePrefix = []byte(":child_storage:default:")

// State is the reference model of one storage state: Main holds every key of
// the main trie INCLUDING the child-root entries (ChildStoragePrefix||childKey ->
// spec root of that child), Children holds the content of each child trie.
type State struct {
	Main     *RefMap
	Children map[string]*RefMap // keyed by the child's storage key (without prefix)
	Version  Version
	// Mixed is set when the version was raised from V0 to V1 while values longer
	// than 32 bytes were already stored inline: the spec root of a single version
	// is then not defined for this state (Substrate migrates lazily).
	Mixed bool
}

func NewState(v Version) *State {
	return &State{Main: NewRefMap(), Children: map[string]*RefMap{}, Version: v}
}

func (s *State) Clone() *State {
	n := &State{Main: s.Main.Clone(), Children: map[string]*RefMap{}, Version: s.Version, Mixed: s.Mixed}
	for k, c := range s.Children {
		n.Children[k] = c.Clone()
	}
	return n
}

func ChildKey(ck []byte) []byte { return append(append([]byte{}, ChildStoragePrefix...), ck...) }

// SyncChild recomputes the child-root entry of ck in Main.
func (s *State) SyncChild(ck []byte) {
	c := s.Children[string(ck)]
	if c == nil {
		s.Main.Delete(ChildKey(ck))
		return
	}
	r := SpecRoot(c.M, s.Version)
	s.Main.Put(ChildKey(ck), r[:])
}

// DropOrphanChildren removes child contents whose root entry vanished from Main
// (after a prefix clear or a delete that hit the entry key).
func (s *State) DropOrphanChildren() {
	for ck := range s.Children {
		if _, ok := s.Main.Get(ChildKey([]byte(ck))); !ok {
			delete(s.Children, ck)
		}
	}
}

// HasLongValue reports whether any stored value is longer than 32 bytes.
func (s *State) HasLongValue() bool {
	for _, v := range s.Main.M {
		if len(v) > 32 {
			return true
		}
	}
	for _, c := range s.Children {
		for _, v := range c.M {
			if len(v) > 32 {
				return true
			}
		}
	}
	return false
}

// Root is the spec root of the main trie (child roots are entries of Main).
func (s *State) Root() [32]byte { return SpecRoot(s.Main.M, s.Version) }
