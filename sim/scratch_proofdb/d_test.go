package scratch

import (
	"bytes"
	"fmt"
	"testing"

	"github.com/ChainSafe/gossamer/internal/primitives/core/hash"
	"github.com/ChainSafe/gossamer/internal/primitives/runtime"
	"github.com/ChainSafe/gossamer/pkg/trie"
	"github.com/ChainSafe/gossamer/pkg/trie/triedb"
	su "github.com/ChainSafe/gossamer/verifsim/storeutil"
)

func try(name string, f func() string) {
	defer func() {
		if r := recover(); r != nil {
			fmt.Printf("%-4s PANIC %v\n", name, r)
		}
	}()
	fmt.Printf("%-4s %s\n", name, f())
}

func TestDefects(t *testing.T) {
	// A: Put of a key of 32 bytes or more into a trie whose root is persisted
	try("A", func() string {
		tr, _, _ := mk(trie.V0)
		key := bytes.Repeat([]byte{0xab}, 32)
		orig := append([]byte{}, key...)
		tr.Put(key, []byte{1})
		return fmt.Sprintf("caller's key buffer unchanged=%v; Get(orig)=%v; root==spec: %v", bytes.Equal(key, orig), tr.Get(orig),
			bytes.Equal(tr.MustHash().Bytes(), func() []byte { r := su.SpecRoot(map[string][]byte{string(orig): {1}}, su.V0); return r[:] }()))
	})
	// B: reopen a committed trie with inlined children and modify it
	try("B", func() string {
		tr, _, db := mk(trie.V0)
		tr.Put([]byte{0x00}, []byte{1})
		tr.Put([]byte{0x10}, []byte{2})
		root := tr.MustHash()
		f := triedb.NewTrieDB[hash.H256, runtime.BlakeTwo256](root, db)
		err := f.Put([]byte{0x00}, []byte{3})
		want := su.SpecRoot(map[string][]byte{"\x00": {3}, "\x10": {2}}, su.V0)
		return fmt.Sprintf("err=%v root==spec: %v", err, bytes.Equal(f.MustHash().Bytes(), want[:]))
	})
	// C: delete that merges a branch with its remaining child below the root
	try("C", func() string {
		tr, _, _ := mk(trie.V0)
		tr.Put([]byte{0x00}, []byte{1})
		tr.Put([]byte{0x01, 0x0a}, []byte{2})
		tr.Put([]byte{0x01, 0x00}, []byte{3})
		err := tr.Delete([]byte{0x01, 0x00})
		want := su.SpecRoot(map[string][]byte{"\x00": {1}, "\x01\x0a": {2}}, su.V0)
		return fmt.Sprintf("err=%v root==spec: %v", err, bytes.Equal(tr.MustHash().Bytes(), want[:]))
	})
	// C': same with a persisted sibling that does not fit inline
	try("C2", func() string {
		tr, _, _ := mk(trie.V0)
		long := bytes.Repeat([]byte{7}, 40)
		tr.Put([]byte{0x10}, []byte{1})
		tr.Put([]byte{0x00, 0xaa}, long)
		tr.MustHash()
		tr.Put([]byte{0x10}, []byte{1})
		err := tr.Delete([]byte{0x10})
		want := su.SpecRoot(map[string][]byte{"\x00\xaa": long}, su.V0)
		return fmt.Sprintf("err=%v root==spec: %v", err, bytes.Equal(tr.MustHash().Bytes(), want[:]))
	})
	// D: V1 value of exactly 32 bytes
	try("D", func() string {
		tr, _, _ := mk(trie.V1)
		v := bytes.Repeat([]byte{9}, 32)
		tr.Put([]byte{0x01}, v)
		want := su.SpecRoot(map[string][]byte{"\x01": v}, su.V1)
		return fmt.Sprintf("root==spec: %v", bytes.Equal(tr.MustHash().Bytes(), want[:]))
	})
	// E: Delete of an absent key that ends at the child slot of a branch with a partial key
	try("E", func() string {
		tr, _, _ := mk(trie.V0)
		tr.Put([]byte{0x00}, []byte{1})
		tr.Put([]byte{0x0a, 0x00}, []byte{2})
		tr.Put([]byte{0x0a, 0x00, 0xa0}, []byte{3})
		err := tr.Delete([]byte{0x0a})
		want := su.SpecRoot(map[string][]byte{"\x00": {1}, "\x0a\x00": {2}, "\x0a\x00\xa0": {3}}, su.V0)
		return fmt.Sprintf("err=%v Get(0a00)=%v root==spec: %v", err, tr.Get([]byte{0x0a, 0x00}), bytes.Equal(tr.MustHash().Bytes(), want[:]))
	})
	// F: Get of a key that ends at an in-memory branch without value
	try("F", func() string {
		tr, _, _ := mk(trie.V0)
		tr.Put([]byte{0x00, 0x11}, []byte{1})
		tr.Put([]byte{0x00, 0x22}, []byte{2})
		return fmt.Sprintf("Get(00)=%v", tr.Get([]byte{0x00}))
	})
}
