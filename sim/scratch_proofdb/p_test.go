package scratch

import (
	"bytes"
	"fmt"
	"testing"

	"github.com/ChainSafe/gossamer/pkg/trie"
	"github.com/ChainSafe/gossamer/pkg/trie/inmemory"
	"github.com/ChainSafe/gossamer/pkg/trie/inmemory/proof"
	"github.com/ChainSafe/gossamer/verifsim/simdisk"
	su "github.com/ChainSafe/gossamer/verifsim/storeutil"
)

func stored(ver trie.TrieLayout, kv map[string][]byte) ([]byte, *simdisk.DB) {
	d := simdisk.NewDisk()
	tr := inmemory.NewEmptyTrie()
	tr.SetVersion(ver)
	for k, v := range kv {
		tr.Put([]byte(k), v)
	}
	if err := tr.WriteDirty(d.Open()); err != nil {
		panic(err)
	}
	r := tr.MustHash()
	return r[:], d.Open()
}

func TestProofDefects(t *testing.T) {
	long := bytes.Repeat([]byte{7}, 33)
	try("G", func() string {
		root, db := stored(trie.V0, nil)
		_, err := proof.Generate(root, [][]byte{{0x01}}, db)
		return fmt.Sprintf("Generate on the empty state: err=%v", err)
	})
	try("H1", func() string { // hashed value in a leaf
		root, db := stored(trie.V1, map[string][]byte{"\x01": long})
		nodes, err := proof.Generate(root, [][]byte{{0x01}}, db)
		return fmt.Sprintf("gen err=%v nodes=%d Verify(k,v)=%v Verify(k,present)=%v", err, len(nodes), proof.Verify(nodes, root, []byte{0x01}, long), proof.Verify(nodes, root, []byte{0x01}, nil))
	})
	try("H2", func() string { // hashed value in a branch
		root, db := stored(trie.V1, map[string][]byte{"\x01": long, "\x01\x02": {5}})
		nodes, err := proof.Generate(root, [][]byte{{0x01}}, db)
		return fmt.Sprintf("gen err=%v nodes=%d Verify(k,v)=%v | Verify(k,Blake2b(v))=%v", err, len(nodes), proof.Verify(nodes, root, []byte{0x01}, long), proof.Verify(nodes, root, []byte{0x01}, su.Blake2b256(long)))
	})
	try("J", func() string { // empty value
		root, db := stored(trie.V0, map[string][]byte{"\x01": {}, "\x02": {1}})
		nodes, err := proof.Generate(root, [][]byte{{0x01}}, db)
		return fmt.Sprintf("gen err=%v nodes=%d Verify(k,present)=%v", err, len(nodes), proof.Verify(nodes, root, []byte{0x01}, nil))
	})
	try("J2", func() string { // empty value in a non-inlined leaf
		k := string(bytes.Repeat([]byte{0x33}, 40))
		root, db := stored(trie.V0, map[string][]byte{k: {}, "\x02": {1}})
		nodes, err := proof.Generate(root, [][]byte{[]byte(k)}, db)
		return fmt.Sprintf("gen err=%v nodes=%d Verify(k,present)=%v", err, len(nodes), proof.Verify(nodes, root, []byte(k), nil))
	})
	try("K", func() string { // absent key in the request
		root, db := stored(trie.V0, map[string][]byte{"\x01": {1}, "\x02": {1}})
		nodes, err := proof.Generate(root, [][]byte{{0x01}, {0x03, 0x01}}, db)
		return fmt.Sprintf("gen err=%v nodes=%d", err, len(nodes))
	})
}
