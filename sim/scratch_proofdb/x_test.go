package scratch

import (
	"bytes"
	"encoding/hex"
	"fmt"
	"testing"

	"github.com/ChainSafe/gossamer/internal/primitives/core/hash"
	"github.com/ChainSafe/gossamer/internal/primitives/runtime"
	"github.com/ChainSafe/gossamer/pkg/trie"
	"github.com/ChainSafe/gossamer/pkg/scale"
	"github.com/ChainSafe/gossamer/pkg/trie/inmemory"
	"github.com/ChainSafe/gossamer/pkg/trie/inmemory/proof"
	"github.com/ChainSafe/gossamer/pkg/trie/triedb"
	"github.com/ChainSafe/gossamer/verifsim/simdisk"
	su "github.com/ChainSafe/gossamer/verifsim/storeutil"
)

type nodeDB struct {
	*simdisk.DB
	null []byte
}

func (d nodeDB) Get(key []byte) ([]byte, error) {
	if bytes.HasSuffix(key, d.null) {
		return []byte{0}, nil
	}
	v, err := d.DB.Get(key)
	if err != nil {
		return nil, nil
	}
	return v, err
}

func h(s string) []byte { b, _ := hex.DecodeString(s); return b }

func mk(ver trie.TrieLayout) (*triedb.TrieDB[hash.H256, runtime.BlakeTwo256], *simdisk.Disk, nodeDB) {
	d := simdisk.NewDisk()
	null := runtime.BlakeTwo256{}.Hash([]byte{0})
	db := nodeDB{d.Open(), null.Bytes()}
	t := triedb.NewEmptyTrieDB[hash.H256, runtime.BlakeTwo256](db)
	t.SetVersion(ver)
	return t, d, db
}

func TestLongKey(t *testing.T) {
	long := make([]byte, 32)
	for i := range long {
		long[i] = byte(i*7 + 1)
	}
	long[0] = 0
	for _, n := range []int{30, 31, 32, 33, 34, 40} {
		key := append([]byte{0}, bytes.Repeat([]byte{0xab}, n)...)
		tr, _, _ := mk(trie.V0)
		m := su.NewRefMap()
		tr.Put(key, []byte{1})
		m.Put(key, []byte{1})
		tr.Put([]byte{0}, []byte{2})
		m.Put([]byte{0}, []byte{2})
		r := tr.MustHash()
		w := su.SpecRoot(m.M, su.V0)
		im := inmemory.NewEmptyTrie()
		im.Put(key, []byte{1})
		im.Put([]byte{0}, []byte{2})
		fmt.Printf("keylen %d (leaf partial %d nibbles): triedb %x spec %x inmem %x\n", n+1, 2*n-1, r.Bytes()[:4], w[:4], im.MustHash().ToBytes()[:4])
	}
}

func TestOrder(t *testing.T) {
	long := h("00a00afff011f0ff0a0110a000f01111ff0a01a0100a00f011f0ff0a0110a000f0")
	_ = long
	for _, kl := range [][]byte{h("00a0"), h("00a00a"), h("00a00afff011")} {
		for _, ops := range [][][2][]byte{
			{{kl, {0x1f}}, {{0}, {0x3e}}},
			{{{0}, {0x3e}}, {kl, {0x1f}}},
			{{kl, {0x1f}}, {{0}, {0x3e}}, {{0}, {0x5d}}},
		} {
			tr, _, _ := mk(trie.V0)
			m := su.NewRefMap()
			for _, op := range ops {
				if err := tr.Put(op[0], op[1]); err != nil {
					t.Fatal(err)
				}
				m.Put(op[0], op[1])
			}
			r := tr.MustHash()
			w := su.SpecRoot(m.M, su.V0)
			fmt.Printf("key %x nops %d first %x: triedb %x spec %x ok=%v\n", kl, len(ops), ops[0][0], r.Bytes()[:4], w[:4], bytes.Equal(r.Bytes(), w[:]))
		}
	}
}

func TestReplay1(t *testing.T) {
	kb := []byte{0x00, 0x01, 0x10, 0x11, 0xf0, 0xff, 0x0a, 0xa0}
	for _, n := range []int{31, 32, 33, 64} {
		key := make([]byte, n)
		for i := range key {
			key[i] = kb[(i*7+n)%8]
		}
		for nput := 1; nput <= 3; nput++ {
			tr, _, _ := mk(trie.V0)
			m := su.NewRefMap()
			tr.Put(key, []byte{0x1f})
			m.Put(key, []byte{0x1f})
			for i := 0; i < nput; i++ {
				tr.Put([]byte{key[0]}, []byte{byte(0x3e + i)})
				m.Put([]byte{key[0]}, []byte{byte(0x3e + i)})
			}
			r := tr.MustHash()
			w := su.SpecRoot(m.M, su.V0)
			fmt.Printf("n=%d key %x nput %d: triedb %x spec %x ok=%v\n", n, key[:6], nput, r.Bytes()[:4], w[:4], bytes.Equal(r.Bytes(), w[:]))
		}
	}
}

func TestReopenPut(t *testing.T) {
	tr, _, db := mk(trie.V0)
	tr.Put([]byte{0x00}, []byte{0x1f})
	tr.Put([]byte{0x10}, []byte{0x5d})
	root := tr.MustHash()
	f := triedb.NewTrieDB[hash.H256, runtime.BlakeTwo256](root, db)
	fmt.Println(f.Get([]byte{0x00}), f.Get([]byte{0x10}))
	err := f.Put([]byte{0x00}, []byte{0x9b})
	fmt.Println(err)
	fmt.Printf("%x\n", f.MustHash().Bytes()[:4])
}

func TestLongKeyProof(t *testing.T) {
	kb := []byte{0x00, 0x01, 0x10, 0x11, 0xf0, 0xff, 0x0a, 0xa0}
	for _, n := range []int{33, 64, 70, 160} {
		key := make([]byte, n)
		for i := range key {
			key[i] = kb[(i*7+n)%8]
		}
		d := simdisk.NewDisk()
		tr := inmemory.NewEmptyTrie()
		tr.Put(key, []byte{1, 2, 3})
		tr.Put([]byte{0x55}, []byte{1, 2, 3})
		if err := tr.WriteDirty(d.Open()); err != nil {
			t.Fatal(err)
		}
		root := tr.MustHash()
		fmt.Println("generating", n)
		nodes, err := proof.Generate(root[:], [][]byte{key}, d.Open())
		fmt.Println(n, len(nodes), err)
		fmt.Println(proof.Verify(nodes, root[:], key, []byte{1, 2, 3}))
	}
}

func TestScaleBomb(t *testing.T) {
	// vec of 1 element, element declares 0x3ccde8f3 bytes (4-byte compact mode), carries 3
	n := uint32(0x3ccde8f3)
	c := n<<2 | 2
	enc := []byte{0x04, byte(c), byte(c >> 8), byte(c >> 16), byte(c >> 24), 1, 2, 3}
	var got [][]byte
	err := scale.Unmarshal(enc, &got)
	fmt.Println(err, len(got))
	if len(got) > 0 {
		fmt.Println(len(got[0]))
	}
}
